import OtelVerif.Model.C12
/-!
# C12 helper lemmas (core Lean only): association-list lookups, `lastOpen`/`splitOnClose` algebra, parity of
`$` runs over quiet token runs, `expandURI` on well-formed references, un-escaping of token renderings.
The property theorems that use them are in `Props/C12.lean`.
-/
namespace OtelVerif.C12

/-! ## merge -/

theorem KVs.lookup_set_same (k : Str) (v : Val) : ∀ b : KVs, (b.set k v).lookup k = some v
  | .nil => by simp [KVs.set, KVs.lookup]
  | .cons k' v' r => by
    by_cases h : k' = k
    · simp [KVs.set, KVs.lookup, h]
    · simp [KVs.set, KVs.lookup, h, KVs.lookup_set_same k v r]

theorem KVs.lookup_set_other {k k' : Str} (v : Val) (h : k' ≠ k) : ∀ b : KVs, (b.set k v).lookup k' = b.lookup k'
  | .nil => by
    have : ¬ k = k' := fun e => h e.symm
    simp [KVs.set, KVs.lookup, this]
  | .cons k2 v2 r => by
    by_cases h2 : k2 = k
    · subst h2
      have : ¬ k2 = k' := fun e => h e.symm
      simp [KVs.set, KVs.lookup, this]
    · by_cases h3 : k2 = k'
      · subst h3
        simp [KVs.set, KVs.lookup, h]
      · simp [KVs.set, KVs.lookup, h2, h3, KVs.lookup_set_other v h r]

theorem KVs.lookup_not_mem {k : Str} : ∀ m : KVs, k ∉ m.keys → m.lookup k = none
  | .nil, _ => by simp [KVs.lookup]
  | .cons k' v r, h => by
    simp only [KVs.keys, List.mem_cons, not_or] at h
    have : ¬ k' = k := fun e => h.1 e.symm
    simp [KVs.lookup, this, KVs.lookup_not_mem r h.2]

/-- the value that `maps.Merge` stores under a key of the later source -/
def mergeOne (v : Val) (bv : Option Val) : Val :=
  match v, bv with
  | .map am, some (.map bm) => .map (mergeKVs am bm)
  | v, _ => v

theorem mergeKVs_cons (k : Str) (v : Val) (rest b : KVs) :
    mergeKVs (.cons k v rest) b = mergeKVs rest (b.set k (mergeOne v (b.lookup k))) := by
  rw [mergeKVs]
  cases hb : b.lookup k with
  | none => cases v <;> simp [mergeOne]
  | some bv => cases v <;> cases bv <;> simp [mergeOne]

/-- key-wise meaning of the right-biased recursive merge: `a` is the later source, `b` the accumulated map -/
def mergeAt (av bv : Option Val) : Option Val :=
  match av, bv with
  | none, r => r                                                   -- untouched keys survive
  | some (.map am), some (.map bm) => some (.map (mergeKVs am bm))  -- maps merge key by key
  | some v, _ => some v                                            -- scalars, lists, nil, or map over non-map: replaced

theorem mergeSources_snoc (srcs : List KVs) (s : KVs) :
    mergeSources (srcs ++ [s]) = mergeKVs s (mergeSources srcs) := by
  simp [mergeSources, List.foldl_append]

/-! ## string search: what `findURI` returns is a real occurrence -/

theorem lastOpen_cons (c : Char) (cs : Str) : lastOpen (c :: cs) =
    match lastOpen cs with
    | some (p, b) => some (c :: p, b)
    | none =>
      match cs with
      | d :: b => if c = '$' ∧ d = '{' then some ([], b) else none
      | [] => none := rfl

theorem joinClose_cons (c : Char) (s : Str) (segs : List Str) : joinClose (c :: s) segs = c :: joinClose s segs := by
  cases segs <;> rfl

theorem lastOpen_sound : ∀ (s p b : Str), lastOpen s = some (p, b) → s = p ++ '$' :: '{' :: b
  | [], p, b, h => by simp [lastOpen] at h
  | c :: cs, p, b, h => by
    rw [lastOpen_cons] at h
    cases hr : lastOpen cs with
    | some pb =>
      obtain ⟨p', b'⟩ := pb
      simp only [hr, Option.some.injEq, Prod.mk.injEq] at h
      obtain ⟨rfl, rfl⟩ := h
      rw [lastOpen_sound cs p' b' hr]
      rfl
    | none =>
      simp only [hr] at h
      cases cs with
      | nil => simp at h
      | cons d b2 =>
        simp only at h
        by_cases hc : c = '$' ∧ d = '{'
        · simp only [hc, and_self, if_true, Option.some.injEq, Prod.mk.injEq] at h
          obtain ⟨rfl, rfl⟩ := h
          simp [hc.1, hc.2]
        · simp [hc] at h

theorem joinClose_split (s : Str) : joinClose (splitOnClose s).1 (splitOnClose s).2 = s := by
  induction s with
  | nil => simp [splitOnClose, joinClose]
  | cons c cs ih =>
    by_cases hc : c = '}'
    · simp only [splitOnClose, hc, if_true, joinClose, List.nil_append]
      rw [ih]
    · simp only [splitOnClose, hc, if_false]
      rw [joinClose_cons, ih]

theorem candidate_found {mode : Mode} {hd : Bool} {seg pre body : Str}
    (h : candidate mode hd seg = .found pre body) : lastOpen seg = some (pre, body) := by
  unfold candidate at h
  cases hl : lastOpen seg with
  | none => simp [hl] at h
  | some pb =>
    obtain ⟨p, b⟩ := pb
    simp only [hl] at h
    by_cases h1 : (!hd && !hasColon b) = true
    · simp [h1] at h
    · by_cases h2 : oddDollarRun p = true
      · cases mode <;> simp [h1, h2] at h
      · simp only [h1, h2] at h
        simp at h
        simp [h.1, h.2]

theorem findInSegs_sound (mode : Mode) (hd : Bool) : ∀ (segs : List Str) (seg b body a : Str),
    findInSegs mode hd seg segs = some (b, body, a) →
    joinClose seg segs = b ++ '$' :: '{' :: body ++ '}' :: a
  | [], seg, b, body, a, h => by simp [findInSegs] at h
  | t :: ts, seg, b, body, a, h => by
    rw [findInSegs] at h
    cases hc : candidate mode hd seg with
    | found pre bd =>
      simp only [hc, Option.some.injEq, Prod.mk.injEq] at h
      obtain ⟨rfl, rfl, rfl⟩ := h
      have := lastOpen_sound _ _ _ (candidate_found hc)
      simp [joinClose, this]
    | stop => simp [hc] at h
    | skip =>
      simp only [hc, Option.map_eq_some_iff] at h
      obtain ⟨r, hr, he⟩ := h
      obtain ⟨r1, r2, r3⟩ := r
      simp only [Prod.mk.injEq] at he
      obtain ⟨rfl, rfl, rfl⟩ := he
      have := findInSegs_sound mode hd ts t r1 r2 r3 hr
      simp [joinClose, this]

/-- `findURI` returns a genuine decomposition of its input around a `${…}` occurrence (the replacement is
positional, so only that occurrence is rewritten) -/
theorem findURI_sound {mode : Mode} {hd : Bool} {s b body a : Str}
    (h : findURI mode hd s = some (b, body, a)) : s = b ++ '$' :: '{' :: body ++ '}' :: a := by
  unfold findURI at h
  have := findInSegs_sound mode hd _ _ _ _ _ h
  rw [joinClose_split] at this
  exact this

/-! ## text with neither `$$` nor a complete reference is unchanged -/

/-- `strings.Contains(s, "$$")` -/
def hasEsc : Str → Bool
  | [] => false
  | [_] => false
  | c :: d :: r => (c == '$' && d == '$') || hasEsc (d :: r)

theorem unescape_of_noEsc : ∀ s : Str, hasEsc s = false → unescape s = s
  | [], _ => rfl
  | [_], _ => rfl
  | c :: d :: r, h => by
    simp only [hasEsc, Bool.or_eq_false_iff, Bool.and_eq_false_iff, beq_eq_false_iff_ne] at h
    have hn : ¬ (c = '$' ∧ d = '$') := fun hh => by
      rcases h.1 with h1 | h1
      · exact h1 hh.1
      · exact h1 hh.2
    rw [unescape]
    simp only [hn, if_false]
    rw [unescape_of_noEsc (d :: r) h.2]

/-- a complete reference: some `${` with a `}` somewhere after it -/
def HasCompleteRef (s : Str) : Prop := ∃ a body c, s = a ++ '$' :: '{' :: body ++ '}' :: c

theorem expandStr_of_noRef (env : Env) (s : Str) (h : ¬ HasCompleteRef s) :
    expandStr env s = .ok (.str s, false) := by
  unfold expandStr
  by_cases hp : (!hasOpen s || !hasClose s) = true
  · simp [hp]
  · simp only [hp]
    unfold findAndExpandURI
    cases hf : findURI env.mode env.defaultScheme.isSome s with
    | none => simp
    | some r =>
      obtain ⟨b, body, a⟩ := r
      exact absurd ⟨b, body, a, findURI_sound hf⟩ h

/-! ## a whole-value reference -/

theorem lastOpen_none_of_noDollar : ∀ s : Str, hasDollar s = false → lastOpen s = none
  | [], _ => rfl
  | c :: cs, h => by
    simp only [hasDollar, List.any_cons, Bool.or_eq_false_iff, beq_eq_false_iff_ne] at h
    rw [lastOpen_cons, lastOpen_none_of_noDollar cs (by simpa [hasDollar] using h.2)]
    cases cs with
    | nil => rfl
    | cons d b => simp [h.1]

/-- `strings.LastIndex` finds an occurrence after which there is no `$` at all -/
theorem lastOpen_append_open (p body : Str) (hb : hasDollar body = false) :
    lastOpen (p ++ '$' :: '{' :: body) = some (p, body) := by
  induction p with
  | nil =>
    have h1 : lastOpen ('{' :: body) = none :=
      lastOpen_none_of_noDollar _ (by simpa [hasDollar] using hb)
    rw [List.nil_append, lastOpen_cons, h1]
    simp
  | cons c p ih => rw [List.cons_append, lastOpen_cons, ih]

theorem splitOnClose_append (x y : Str) (hx : hasClose x = false) :
    splitOnClose (x ++ y) = (x ++ (splitOnClose y).1, (splitOnClose y).2) := by
  induction x with
  | nil => simp
  | cons c x ih =>
    simp only [hasClose, List.any_cons, Bool.or_eq_false_iff, beq_eq_false_iff_ne] at hx
    have hx2 : hasClose x = false := by simpa [hasClose] using hx.2
    simp only [List.cons_append, splitOnClose, hx.1, if_false, ih hx2]

theorem splitOnClose_close (y : Str) : splitOnClose ('}' :: y) = ([], (splitOnClose y).1 :: (splitOnClose y).2) := by
  simp [splitOnClose]

theorem hasClose_append (x y : Str) : hasClose (x ++ y) = (hasClose x || hasClose y) := by
  simp [hasClose]

theorem hasDollar_append (x y : Str) : hasDollar (x ++ y) = (hasDollar x || hasDollar y) := by
  simp [hasDollar]

/-- `findURI` on exactly `${body}` -/
theorem findURI_whole (mode : Mode) (hd : Bool) (body : Str) (hb : hasDollar body = false)
    (hc : hasClose body = false) (hs : hd = true ∨ hasColon body = true) :
    findURI mode hd ('$' :: '{' :: body ++ ['}']) = some ([], body, []) := by
  have hseg : hasClose ('$' :: '{' :: body) = false := by simpa [hasClose] using hc
  have : splitOnClose ('$' :: '{' :: body ++ ['}']) = ('$' :: '{' :: body, [[]]) := by
    have := splitOnClose_append ('$' :: '{' :: body) ['}'] hseg
    simpa [splitOnClose] using this
  unfold findURI
  rw [this]
  simp only [findInSegs, candidate]
  have hl := lastOpen_append_open [] body hb
  simp only [List.nil_append] at hl
  rw [hl]
  have hcond : (!hd && !hasColon body) = false := by
    rcases hs with h | h <;> simp [h]
  simp [hcond, oddDollarRun, oddRunFrom, joinClose]

/-! ## `expandURI` on a well-formed reference -/

theorem isSchemeChar_ne_colon {c : Char} (h : isSchemeChar c = true) : c ≠ ':' := by
  intro hc; subst hc; revert h; decide

theorem hasColon_of_validScheme : ∀ sc : Str, validScheme sc = true → hasColon sc = false
  | [], h => by simp [validScheme] at h
  | [_], h => by simp [validScheme] at h
  | c :: d :: r, h => by
    simp only [validScheme, Bool.and_eq_true, List.all_eq_true] at h
    have hc : isSchemeChar c = true := by
      have := h.1; simp only [isSchemeChar, isLetter] at this ⊢; simp [this]
    simp only [hasColon, List.any_eq_false, beq_iff_eq]
    intro x hx
    rcases List.mem_cons.1 hx with rfl | hx
    · exact isSchemeChar_ne_colon hc
    · exact isSchemeChar_ne_colon (h.2 x hx)

theorem splitColon_append (sc nm : Str) (h : hasColon sc = false) :
    splitColon (sc ++ ':' :: nm) = some (sc, nm) := by
  induction sc with
  | nil => simp [splitColon]
  | cons c sc ih =>
    simp only [hasColon, List.any_cons, Bool.or_eq_false_iff, beq_eq_false_iff_ne] at h
    have h2 : hasColon sc = false := by simpa [hasColon] using h.2
    simp [splitColon, h.1, ih h2]

theorem expandURI_scheme (env : Env) (sc nm : Str) (r : Retrieved) (hv : validScheme sc = true)
    (hn : hasDollar nm = false) (hs : env.schemes.contains sc = true) (hp : env.prov sc nm = some r) :
    expandURI env (sc ++ ':' :: nm) = .ok r := by
  unfold expandURI
  have hcol : hasColon (sc ++ ':' :: nm) = true := by simp [hasColon]
  have hs' : sc ∈ env.schemes := by simpa using hs
  simp only [hcol, if_true, splitColon_append sc nm (hasColon_of_validScheme sc hv)]
  simp [hv, hn, hs', hp]

theorem expandURI_default (env : Env) (d nm : Str) (r : Retrieved) (hd : env.defaultScheme = some d)
    (hc : hasColon nm = false) (hv : validScheme d = true)
    (hn : hasDollar nm = false) (hs : env.schemes.contains d = true) (hp : env.prov d nm = some r) :
    expandURI env nm = .ok r := by
  unfold expandURI
  have hs' : d ∈ env.schemes := by simpa using hs
  have hsp := splitColon_append d nm (hasColon_of_validScheme d hv)
  simp only [hc, hd, Option.getD_some]
  simp [hsp, hv, hn, hs', hp]

/-- the reference conditions of `tokOK`, unpacked -/
theorem ref_facts {env : Env} {sc : Option Str} {nm : Str} {ts : List Tok}
    (h : tokOK env (.ref sc nm :: ts) = true) :
    hasDollar nm = false ∧ hasClose nm = false ∧ tokOK env ts = true ∧
    hasDollar (Tok.body sc nm) = false ∧ hasClose (Tok.body sc nm) = false ∧
    (env.defaultScheme.isSome = true ∨ hasColon (Tok.body sc nm) = true) ∧
    ∃ r v, expandURI env (Tok.body sc nm) = .ok r ∧ r.asString = some v ∧ refString env sc nm = some v ∧
      hasDollar v = false := by
  simp only [tokOK, Bool.and_eq_true, Bool.not_eq_true'] at h
  obtain ⟨⟨⟨⟨hn, hc⟩, hsch⟩, hval⟩, hts⟩ := h
  cases hrs : refString env sc nm with
  | none => simp [hrs] at hval
  | some v =>
    simp only [hrs, Bool.not_eq_true'] at hval
    cases sc with
    | some s =>
      simp only [Bool.and_eq_true] at hsch
      have hcs := hasColon_of_validScheme s hsch.1
      have hds : hasDollar s = false := by
        have := hsch.1
        cases s with
        | nil => simp [validScheme] at this
        | cons c t =>
          cases t with
          | nil => simp [validScheme] at this
          | cons d r =>
            simp only [validScheme, Bool.and_eq_true, List.all_eq_true] at this
            simp only [hasDollar, List.any_eq_false, beq_iff_eq]
            intro x hx
            rcases List.mem_cons.1 hx with rfl | hx
            · intro hxe; subst hxe; exact absurd this.1 (by decide)
            · intro hxe; subst hxe; exact absurd (this.2 _ hx) (by decide)
      have hcls : hasClose s = false := by
        have := hsch.1
        cases s with
        | nil => simp [validScheme] at this
        | cons c t =>
          cases t with
          | nil => simp [validScheme] at this
          | cons d r =>
            simp only [validScheme, Bool.and_eq_true, List.all_eq_true] at this
            simp only [hasClose, List.any_eq_false, beq_iff_eq]
            intro x hx
            rcases List.mem_cons.1 hx with rfl | hx
            · intro hxe; subst hxe; exact absurd this.1 (by decide)
            · intro hxe; subst hxe; exact absurd (this.2 _ hx) (by decide)
      simp only [refString] at hrs
      cases hp : env.prov s nm with
      | none => simp [hp] at hrs
      | some r =>
        simp only [hp, Option.bind_some] at hrs
        refine ⟨hn, hc, hts, ?_, ?_, ?_, r, v, expandURI_scheme env s nm r hsch.1 hn hsch.2 hp, hrs, ?_, hval⟩
        · show hasDollar (s ++ ':' :: nm) = false
          rw [hasDollar_append, hds, Bool.false_or]
          simpa [hasDollar] using hn
        · show hasClose (s ++ ':' :: nm) = false
          rw [hasClose_append, hcls, Bool.false_or]
          simpa [hasClose] using hc
        · right; simp [Tok.body, hasColon]
        · simp [refString, hp, hrs]
    | none =>
      cases hdflt : env.defaultScheme with
      | none => simp [hdflt] at hsch
      | some d =>
        simp only [hdflt, Bool.and_eq_true, Bool.not_eq_true'] at hsch
        simp only [refString, hdflt] at hrs
        cases hp : env.prov d nm with
        | none => simp [hp] at hrs
        | some r =>
          simp only [hp, Option.bind_some] at hrs
          refine ⟨hn, hc, hts, by simpa [Tok.body] using hn, by simpa [Tok.body] using hc, Or.inl (by simp),
            r, v, ?_, hrs, ?_, hval⟩
          · exact expandURI_default env d nm r hdflt hsch.1 hsch.2.1 hn hsch.2.2 hp
          · simp [refString, hdflt, hp, hrs]

/-! ## typed whole values, string targets, cycles, `$` in a name -/

theorem hasOpen_of_noDollar : ∀ s : Str, hasDollar s = false → hasOpen s = false
  | [], _ => rfl
  | [_], _ => rfl
  | c :: d :: r, h => by
    simp only [hasDollar, List.any_cons, Bool.or_eq_false_iff, beq_eq_false_iff_ne] at h
    have h2 : hasDollar (d :: r) = false := by simp [hasDollar, h.2.1]; simpa using h.2.2
    simp [hasOpen, h.1, hasOpen_of_noDollar (d :: r) h2]

theorem hasEsc_of_noDollar : ∀ s : Str, hasDollar s = false → hasEsc s = false
  | [], _ => rfl
  | [_], _ => rfl
  | c :: d :: r, h => by
    simp only [hasDollar, List.any_cons, Bool.or_eq_false_iff, beq_eq_false_iff_ne] at h
    have h2 : hasDollar (d :: r) = false := by simp [hasDollar, h.2.1]; simpa using h.2.2
    simp [hasEsc, h.1, hasEsc_of_noDollar (d :: r) h2]

theorem hasOpen_append_open (b x : Str) : hasOpen (b ++ '$' :: '{' :: x) = true := by
  induction b with
  | nil => simp [hasOpen]
  | cons c b ih =>
    cases hb : b ++ '$' :: '{' :: x with
    | nil => simp at hb
    | cons d r => rw [List.cons_append, hb, hasOpen, ← hb, ih]; simp

theorem expandStr_noDollar (env : Env) (v : Str) (h : hasDollar v = false) :
    expandStr env v = .ok (.str v, false) := by
  simp [expandStr, hasOpen_of_noDollar v h]

def Val.isScalar : Val → Bool
  | .null | .bool _ | .int _ | .float _ | .other _ => true
  | _ => false

/-- first round on a whole-value reference -/
theorem expandStr_whole (env : Env) (body : Str) (r : Retrieved)
    (hb : hasDollar body = false) (hc : hasClose body = false)
    (hs : env.defaultScheme.isSome = true ∨ hasColon body = true)
    (hexp : expandURI env body = .ok r) :
    expandStr env ('$' :: '{' :: body ++ ['}']) =
      .ok (match r.asString with | some v => .expanded r.raw v | none => r.raw, true) := by
  have ho : hasOpen ('$' :: '{' :: body ++ ['}']) = true := by
    have := hasOpen_append_open [] (body ++ ['}']); simpa using this
  have hcl : hasClose ('$' :: '{' :: body ++ ['}']) = true := by simp [hasClose]
  unfold expandStr
  simp only [ho, hcl, Bool.not_true, Bool.or_self, Bool.false_eq_true, if_false]
  unfold findAndExpandURI
  rw [findURI_whole env.mode _ body hb hc hs]
  simp only [List.isEmpty_nil, Bool.and_self, if_true, hexp]
  cases r.asString <;> rfl

/-! ## `findURI` on a well-formed token string returns exactly the first real reference -/

theorem render_append (a b : List Tok) : render (a ++ b) = render a ++ render b := by
  induction a with
  | nil => rfl
  | cons t a ih => simp [render, ih]

def Tok.quiet : Tok → Bool
  | .lit _ | .esc | .dollar => true
  | _ => false

/-- `tokOK` restricted to a run of quiet tokens followed by the text `nxt` -/
def qOK (nxt : Str) : List Tok → Bool
  | [] => true
  | .lit s :: ts => !hasDollar s && !hasClose s && qOK nxt ts
  | .esc :: ts => qOK nxt ts
  | .dollar :: ts => !startsWithDollarOrBrace (render ts ++ nxt) && qOK nxt ts
  | _ => false

theorem qOK_of_tokOK (env : Env) (rest : List Tok) : ∀ acc : List Tok, (∀ t ∈ acc, t.quiet = true) →
    tokOK env (acc ++ rest) = true → qOK (render rest) acc = true
  | [], _, _ => rfl
  | t :: acc, hq, h => by
    have hq' : ∀ t ∈ acc, t.quiet = true := fun t ht => hq t (List.mem_cons_of_mem _ ht)
    have ht := hq t (List.mem_cons_self ..)
    cases t with
    | lit s =>
      simp only [List.cons_append, tokOK, Bool.and_eq_true] at h
      simp only [qOK, Bool.and_eq_true]
      exact ⟨h.1, qOK_of_tokOK env rest acc hq' h.2⟩
    | esc =>
      simp only [List.cons_append, tokOK] at h
      simp only [qOK]
      exact qOK_of_tokOK env rest acc hq' h
    | dollar =>
      simp only [List.cons_append, tokOK, Bool.and_eq_true] at h
      simp only [qOK, Bool.and_eq_true]
      refine ⟨?_, qOK_of_tokOK env rest acc hq' h.2⟩
      rw [← render_append]; exact h.1
    | close => simp [Tok.quiet] at ht
    | ref sc nm => simp [Tok.quiet] at ht

theorem tokOK_drop (env : Env) (rest : List Tok) : ∀ acc : List Tok, (∀ t ∈ acc, t.quiet = true) →
    tokOK env (acc ++ rest) = true → tokOK env rest = true
  | [], _, h => h
  | t :: acc, hq, h => by
    have hq' : ∀ t ∈ acc, t.quiet = true := fun t ht => hq t (List.mem_cons_of_mem _ ht)
    have ht := hq t (List.mem_cons_self ..)
    cases t with
    | lit s => simp only [List.cons_append, tokOK, Bool.and_eq_true] at h; exact tokOK_drop env rest acc hq' h.2
    | esc => simp only [List.cons_append, tokOK] at h; exact tokOK_drop env rest acc hq' h
    | dollar => simp only [List.cons_append, tokOK, Bool.and_eq_true] at h; exact tokOK_drop env rest acc hq' h.2
    | close => simp [Tok.quiet] at ht
    | ref sc nm => simp [Tok.quiet] at ht

theorem hasClose_render_quiet (nxt : Str) : ∀ qs : List Tok, qOK nxt qs = true → hasClose (render qs) = false
  | [], _ => rfl
  | t :: qs, h => by
    cases t with
    | lit s =>
      simp only [qOK, Bool.and_eq_true, Bool.not_eq_true'] at h
      simp [render, Tok.render, hasClose_append, h.1.2, hasClose_render_quiet nxt qs h.2]
    | esc =>
      simp only [qOK] at h
      have := hasClose_render_quiet nxt qs h
      simp only [hasClose] at this
      simp [render, Tok.render, hasClose, this]
    | dollar =>
      simp only [qOK, Bool.and_eq_true] at h
      have := hasClose_render_quiet nxt qs h.2
      simp only [hasClose] at this
      simp [render, Tok.render, hasClose, this]
    | close => simp [qOK] at h
    | ref sc nm => simp [qOK] at h

theorem oddRunFrom_append (p : Bool) (a b : Str) : oddRunFrom p (a ++ b) = oddRunFrom (oddRunFrom p a) b := by
  simp [oddRunFrom, List.foldl_append]

theorem oddRunFrom_noDollar (p : Bool) : ∀ s : Str, hasDollar s = false →
    oddRunFrom p s = (if s = [] then p else false)
  | [], _ => rfl
  | c :: s, h => by
    simp only [hasDollar, List.any_cons, Bool.or_eq_false_iff, beq_eq_false_iff_ne] at h
    have h2 : hasDollar s = false := by simpa [hasDollar] using h.2
    have := oddRunFrom_noDollar false s h2
    simp only [oddRunFrom] at this ⊢
    simp only [List.foldl_cons, h.1, if_false, this]
    split <;> simp

theorem lastOpen_append_some (s r p b : Str) (h : lastOpen r = some (p, b)) :
    lastOpen (s ++ r) = some (s ++ p, b) := by
  induction s with
  | nil => simpa using h
  | cons c s ih => rw [List.cons_append, lastOpen_cons, ih]; rfl

theorem lastOpen_append_none (s r : Str) (hs : hasDollar s = false) (h : lastOpen r = none) :
    lastOpen (s ++ r) = none := by
  induction s with
  | nil => simpa using h
  | cons c s ih =>
    simp only [hasDollar, List.any_cons, Bool.or_eq_false_iff, beq_eq_false_iff_ne] at hs
    have h2 : hasDollar s = false := by simpa [hasDollar] using hs.2
    rw [List.cons_append, lastOpen_cons, ih h2]
    cases s ++ r with
    | nil => rfl
    | cons d b => simp [hs.1]

theorem starts_nil_append (nxt : Str) : startsWithDollarOrBrace ([] ++ nxt) = startsWithDollarOrBrace nxt := rfl

/-- every `${` inside a run of quiet tokens is escaped -/
theorem quiet_escaped (nxt : Str) : ∀ (qs : List Tok) (p : Bool) (pre body : Str), qOK nxt qs = true →
    (p = true → startsWithDollarOrBrace (render qs ++ nxt) = false) →
    lastOpen (render qs) = some (pre, body) → oddRunFrom p pre = true
  | [], _, _, _, _, _, h => by simp [render, lastOpen] at h
  | .lit s :: qs, p, pre, body, hq, hp, h => by
    simp only [qOK, Bool.and_eq_true, Bool.not_eq_true'] at hq
    simp only [render, Tok.render] at h hp
    cases hr : lastOpen (render qs) with
    | none => rw [lastOpen_append_none s _ hq.1.1 hr] at h; simp at h
    | some pb =>
      obtain ⟨p', b'⟩ := pb
      rw [lastOpen_append_some s _ p' b' hr] at h
      simp only [Option.some.injEq, Prod.mk.injEq] at h
      obtain ⟨rfl, rfl⟩ := h
      rw [oddRunFrom_append, oddRunFrom_noDollar p s hq.1.1]
      refine quiet_escaped nxt qs _ p' b' hq.2 ?_ hr
      intro hp'
      by_cases hs : s = []
      · subst hs; simp only [if_true] at hp'; simpa using hp hp'
      · simp [hs] at hp'
  | .esc :: qs, p, pre, body, hq, hp, h => by
    simp only [qOK] at hq
    have hpf : p = false := by
      cases p with
      | false => rfl
      | true => have := hp rfl; simp [render, Tok.render, startsWithDollarOrBrace] at this
    subst hpf
    simp only [render, Tok.render, List.cons_append, List.nil_append] at h
    rw [lastOpen_cons, lastOpen_cons] at h
    cases hr : lastOpen (render qs) with
    | some pb =>
      obtain ⟨p', b'⟩ := pb
      simp only [hr, Option.some.injEq, Prod.mk.injEq] at h
      obtain ⟨rfl, rfl⟩ := h
      have := quiet_escaped nxt qs false p' b' hq (by simp) hr
      simpa [oddRunFrom] using this
    | none =>
      simp only [hr] at h
      cases hqs : render qs with
      | nil => simp [hqs] at h
      | cons d b2 =>
        simp only [hqs] at h
        by_cases hd : d = '{'
        · subst hd
          simp at h
          obtain ⟨rfl, rfl⟩ := h
          simp [oddRunFrom]
        · simp [hd] at h
  | .dollar :: qs, p, pre, body, hq, hp, h => by
    simp only [qOK, Bool.and_eq_true, Bool.not_eq_true'] at hq
    have hpf : p = false := by
      cases p with
      | false => rfl
      | true => have := hp rfl; simp [render, Tok.render, startsWithDollarOrBrace] at this
    subst hpf
    simp only [render, Tok.render, List.cons_append, List.nil_append] at h
    rw [lastOpen_cons] at h
    cases hr : lastOpen (render qs) with
    | some pb =>
      obtain ⟨p', b'⟩ := pb
      simp only [hr, Option.some.injEq, Prod.mk.injEq] at h
      obtain ⟨rfl, rfl⟩ := h
      have := quiet_escaped nxt qs true p' b' hq.2 (fun _ => hq.1) hr
      simpa [oddRunFrom] using this
    | none =>
      simp only [hr] at h
      cases hqs : render qs with
      | nil => simp [hqs] at h
      | cons d b2 =>
        simp only [hqs] at h
        by_cases hd : d = '{'
        · subst hd
          have := hq.1
          simp [hqs, startsWithDollarOrBrace] at this
        · simp [hd] at h
  | .close :: _, _, _, _, hq, _, _ => by simp [qOK] at hq
  | .ref _ _ :: _, _, _, _, hq, _, _ => by simp [qOK] at hq

/-- the run of `$` before a real reference is even -/
theorem quiet_even (nxt : Str) (hn : ∃ r, nxt = '$' :: r) : ∀ (qs : List Tok) (p : Bool), qOK nxt qs = true →
    (p = true → startsWithDollarOrBrace (render qs ++ nxt) = false) → oddRunFrom p (render qs) = false
  | [], p, _, hp => by
    obtain ⟨r, rfl⟩ := hn
    cases p with
    | false => rfl
    | true => have := hp rfl; simp [render, startsWithDollarOrBrace] at this
  | .lit s :: qs, p, hq, hp => by
    simp only [qOK, Bool.and_eq_true, Bool.not_eq_true'] at hq
    simp only [render, Tok.render] at hp ⊢
    rw [oddRunFrom_append, oddRunFrom_noDollar p s hq.1.1]
    refine quiet_even nxt hn qs _ hq.2 ?_
    intro hp'
    by_cases hs : s = []
    · subst hs; simp only [if_true] at hp'; simpa using hp hp'
    · simp [hs] at hp'
  | .esc :: qs, p, hq, hp => by
    simp only [qOK] at hq
    have hpf : p = false := by
      cases p with
      | false => rfl
      | true => have := hp rfl; simp [render, Tok.render, startsWithDollarOrBrace] at this
    subst hpf
    have := quiet_even nxt hn qs false hq (by simp)
    simpa [render, Tok.render, oddRunFrom] using this
  | .dollar :: qs, p, hq, hp => by
    simp only [qOK, Bool.and_eq_true, Bool.not_eq_true'] at hq
    have hpf : p = false := by
      cases p with
      | false => rfl
      | true => have := hp rfl; simp [render, Tok.render, startsWithDollarOrBrace] at this
    subst hpf
    have := quiet_even nxt hn qs true hq.2 (fun _ => hq.1)
    simpa [render, Tok.render, oddRunFrom] using this
  | .close :: _, _, hq, _ => by simp [qOK] at hq
  | .ref _ _ :: _, _, hq, _ => by simp [qOK] at hq

/-- split a token list at its first reference token -/
def splitFirstRef : List Tok → Option (List Tok × Option Str × Str × List Tok)
  | [] => none
  | .ref sc nm :: ts => some ([], sc, nm, ts)
  | .lit s :: ts => (splitFirstRef ts).map (fun r => (.lit s :: r.1, r.2))
  | .close :: ts => (splitFirstRef ts).map (fun r => (.close :: r.1, r.2))
  | .esc :: ts => (splitFirstRef ts).map (fun r => (.esc :: r.1, r.2))
  | .dollar :: ts => (splitFirstRef ts).map (fun r => (.dollar :: r.1, r.2))

theorem candidate_quiet_skip (hd : Bool) (nxt : Str) (qs : List Tok) (hq : qOK nxt qs = true) :
    candidate .fixed hd (render qs) = .skip := by
  unfold candidate
  cases hl : lastOpen (render qs) with
  | none => rfl
  | some pb =>
    obtain ⟨pre, body⟩ := pb
    have := quiet_escaped nxt qs false pre body hq (by simp) hl
    simp only [oddDollarRun, this]
    split <;> rfl

theorem findInSegs_tokens (env : Env) : ∀ (ts acc : List Tok), (∀ t ∈ acc, t.quiet = true) →
    tokOK env (acc ++ ts) = true →
    findInSegs .fixed env.defaultScheme.isSome (render acc ++ (splitOnClose (render ts)).1) (splitOnClose (render ts)).2 =
      (splitFirstRef ts).map (fun r => (render acc ++ render r.1, Tok.body r.2.1 r.2.2.1, render r.2.2.2))
  | [], acc, _, _ => by simp [render, splitOnClose, findInSegs, splitFirstRef]
  | .lit s :: ts, acc, hq, h => by
    have h' := tokOK_drop env _ acc hq h
    simp only [tokOK, Bool.and_eq_true, Bool.not_eq_true'] at h'
    have hq2 : ∀ t ∈ acc ++ [Tok.lit s], t.quiet = true := by
      intro t ht; rcases List.mem_append.1 ht with ht | ht
      · exact hq t ht
      · simp at ht; subst ht; rfl
    have ih := findInSegs_tokens env ts (acc ++ [.lit s]) hq2 (by simpa using h)
    simp only [render, Tok.render]
    rw [splitOnClose_append s _ h'.1.2]
    simp only [render_append, render, Tok.render, List.append_nil, List.append_assoc] at ih
    rw [ih, splitFirstRef]
    cases splitFirstRef ts <;> simp [render, Tok.render]
  | .esc :: ts, acc, hq, h => by
    have hq2 : ∀ t ∈ acc ++ [Tok.esc], t.quiet = true := by
      intro t ht; rcases List.mem_append.1 ht with ht | ht
      · exact hq t ht
      · simp at ht; subst ht; rfl
    have ih := findInSegs_tokens env ts (acc ++ [.esc]) hq2 (by simpa using h)
    simp only [render, Tok.render]
    rw [splitOnClose_append ['$', '$'] _ (by decide)]
    simp only [render_append, render, Tok.render, List.append_nil, List.append_assoc] at ih
    rw [ih, splitFirstRef]
    cases splitFirstRef ts <;> simp [render, Tok.render]
  | .dollar :: ts, acc, hq, h => by
    have hq2 : ∀ t ∈ acc ++ [Tok.dollar], t.quiet = true := by
      intro t ht; rcases List.mem_append.1 ht with ht | ht
      · exact hq t ht
      · simp at ht; subst ht; rfl
    have ih := findInSegs_tokens env ts (acc ++ [.dollar]) hq2 (by simpa using h)
    simp only [render, Tok.render]
    rw [splitOnClose_append ['$'] _ (by decide)]
    simp only [render_append, render, Tok.render, List.append_nil, List.append_assoc] at ih
    rw [ih, splitFirstRef]
    cases splitFirstRef ts <;> simp [render, Tok.render]
  | .close :: ts, acc, hq, h => by
    have h' := tokOK_drop env _ acc hq h
    simp only [tokOK] at h'
    have hqok := qOK_of_tokOK env _ acc hq h
    have ih := findInSegs_tokens env ts [] (by simp) (by simpa using h')
    simp only [render, List.nil_append] at ih
    simp only [render, Tok.render, List.cons_append, List.nil_append]
    rw [splitOnClose_close]
    simp only [List.append_nil, findInSegs, candidate_quiet_skip _ _ acc hqok, ih, splitFirstRef]
    cases splitFirstRef ts <;> simp [render, Tok.render]
  | .ref sc nm :: ts, acc, hq, h => by
    have h' := tokOK_drop env _ acc hq h
    obtain ⟨-, -, -, hbd, hbc, hsch, -⟩ := ref_facts h'
    have hqok := qOK_of_tokOK env _ acc hq h
    have hx : hasClose ('$' :: '{' :: Tok.body sc nm) = false := by simpa [hasClose] using hbc
    have hr : render (.ref sc nm :: ts) = ('$' :: '{' :: Tok.body sc nm) ++ '}' :: render ts := by
      simp [render, Tok.render]
    have heven := quiet_even (render (.ref sc nm :: ts)) ⟨_, by rw [hr]; rfl⟩ acc false hqok (by simp)
    rw [hr, splitOnClose_append _ _ hx, splitOnClose_close]
    simp only [List.append_nil, findInSegs, candidate, lastOpen_append_open (render acc) _ hbd]
    have hcond : (!env.defaultScheme.isSome && !hasColon (Tok.body sc nm)) = false := by
      rcases hsch with h1 | h1 <;> simp [h1]
    simp only [hcond, oddDollarRun, heven, joinClose_split, splitFirstRef]
    simp [render]

/-- **the heart of the escaping clause**: on the rendering of any well-formed token list, the (repaired)
`findURI` returns exactly the first real reference token — with its exact position — no matter how many
escaped look-alikes, stray braces or `$` runs precede it; and nothing if there is no reference token -/
theorem findURI_first_ref (env : Env) (ts : List Tok) (h : tokOK env ts = true) :
    findURI .fixed env.defaultScheme.isSome (render ts) =
      (splitFirstRef ts).map (fun r => (render r.1, Tok.body r.2.1 r.2.2.1, render r.2.2.2)) := by
  have := findInSegs_tokens env ts [] (by simp) (by simpa using h)
  simpa [findURI, render] using this

/-! ## one round of expansion, and the final un-escaping -/

theorem tokOK_suffix (env : Env) (b : List Tok) : ∀ a : List Tok, tokOK env (a ++ b) = true → tokOK env b = true
  | [], h => h
  | t :: a, h => by
    cases t <;> simp only [List.cons_append, tokOK, Bool.and_eq_true] at h
    · exact tokOK_suffix env b a h.2
    · exact tokOK_suffix env b a h
    · exact tokOK_suffix env b a h
    · exact tokOK_suffix env b a h.2
    · exact tokOK_suffix env b a h.2

theorem splitFirstRef_eq : ∀ (ts pre post : List Tok) (sc : Option Str) (nm : Str),
    splitFirstRef ts = some (pre, sc, nm, post) → ts = pre ++ .ref sc nm :: post ∧ numRefs pre = 0
  | [], _, _, _, _, h => by simp [splitFirstRef] at h
  | .ref sc' nm' :: ts, pre, post, sc, nm, h => by
    simp only [splitFirstRef, Option.some.injEq, Prod.mk.injEq] at h
    obtain ⟨rfl, rfl, rfl, rfl⟩ := h
    simp [numRefs]
  | .lit s :: ts, pre, post, sc, nm, h => by
    simp only [splitFirstRef, Option.map_eq_some_iff] at h
    obtain ⟨⟨p, r⟩, hr, he⟩ := h
    simp only [Prod.mk.injEq] at he
    obtain ⟨rfl, rfl⟩ := he
    have := splitFirstRef_eq ts p post sc nm hr
    simp [this.1, numRefs, this.2]
  | .close :: ts, pre, post, sc, nm, h => by
    simp only [splitFirstRef, Option.map_eq_some_iff] at h
    obtain ⟨⟨p, r⟩, hr, he⟩ := h
    simp only [Prod.mk.injEq] at he
    obtain ⟨rfl, rfl⟩ := he
    have := splitFirstRef_eq ts p post sc nm hr
    simp [this.1, numRefs, this.2]
  | .esc :: ts, pre, post, sc, nm, h => by
    simp only [splitFirstRef, Option.map_eq_some_iff] at h
    obtain ⟨⟨p, r⟩, hr, he⟩ := h
    simp only [Prod.mk.injEq] at he
    obtain ⟨rfl, rfl⟩ := he
    have := splitFirstRef_eq ts p post sc nm hr
    simp [this.1, numRefs, this.2]
  | .dollar :: ts, pre, post, sc, nm, h => by
    simp only [splitFirstRef, Option.map_eq_some_iff] at h
    obtain ⟨⟨p, r⟩, hr, he⟩ := h
    simp only [Prod.mk.injEq] at he
    obtain ⟨rfl, rfl⟩ := he
    have := splitFirstRef_eq ts p post sc nm hr
    simp [this.1, numRefs, this.2]

theorem splitFirstRef_none : ∀ ts : List Tok, numRefs ts = 0 → splitFirstRef ts = none
  | [], _ => rfl
  | .ref _ _ :: ts, h => by simp [numRefs] at h
  | .lit _ :: ts, h => by simp [splitFirstRef, splitFirstRef_none ts (by simpa [numRefs] using h)]
  | .close :: ts, h => by simp [splitFirstRef, splitFirstRef_none ts (by simpa [numRefs] using h)]
  | .esc :: ts, h => by simp [splitFirstRef, splitFirstRef_none ts (by simpa [numRefs] using h)]
  | .dollar :: ts, h => by simp [splitFirstRef, splitFirstRef_none ts (by simpa [numRefs] using h)]

/-- … and a string without reference tokens is left alone by the expansion rounds -/
theorem expandStr_noref (env : Env) (hmode : env.mode = .fixed) (ts : List Tok) (h : tokOK env ts = true)
    (hn : numRefs ts = 0) : expandStr env (render ts) = .ok (.str (render ts), false) := by
  have hf := findURI_first_ref env ts h
  rw [splitFirstRef_none ts hn] at hf
  unfold expandStr
  split
  · rfl
  · unfold findAndExpandURI
    rw [hmode, hf]
    rfl

theorem unescape_append_noDollar (r : Str) : ∀ s : Str, hasDollar s = false → unescape (s ++ r) = s ++ unescape r
  | [], _ => rfl
  | c :: s, h => by
    simp only [hasDollar, List.any_cons, Bool.or_eq_false_iff, beq_eq_false_iff_ne] at h
    have h2 : hasDollar s = false := by simpa [hasDollar] using h.2
    have ih := unescape_append_noDollar r s h2
    rw [List.cons_append]
    cases hx : s ++ r with
    | nil =>
      rw [hx] at ih
      simp only [unescape] at ih ⊢
      rw [List.cons_append, ← ih]
    | cons d x =>
      rw [hx] at ih
      rw [unescape]
      simp [h.1, ih]

/-- un-escaping the rendering of a reference-free well-formed token list gives its meaning: each `$$`
becomes one `$`, lone `$`, braces and the text of escaped references stay -/
theorem unescape_tokens (env : Env) : ∀ (ts : List Tok) (w : Str), tokOK env ts = true → numRefs ts = 0 →
    sem env ts = some w → unescape (render ts) = w
  | [], w, _, _, hs => by simp [sem] at hs; simp [render, unescape, hs]
  | .lit s :: ts, w, h, hn, hs => by
    simp only [tokOK, Bool.and_eq_true, Bool.not_eq_true'] at h
    simp only [sem, Option.map_eq_some_iff] at hs
    obtain ⟨w', hw', rfl⟩ := hs
    simp only [render, Tok.render]
    rw [unescape_append_noDollar _ s h.1.1, unescape_tokens env ts w' h.2 (by simpa [numRefs] using hn) hw']
  | .close :: ts, w, h, hn, hs => by
    simp only [tokOK] at h
    simp only [sem, Option.map_eq_some_iff] at hs
    obtain ⟨w', hw', rfl⟩ := hs
    simp only [render, Tok.render]
    rw [unescape_append_noDollar _ ['}'] (by decide), unescape_tokens env ts w' h (by simpa [numRefs] using hn) hw']
    rfl
  | .esc :: ts, w, h, hn, hs => by
    simp only [tokOK] at h
    simp only [sem, Option.map_eq_some_iff] at hs
    obtain ⟨w', hw', rfl⟩ := hs
    simp only [render, Tok.render, List.cons_append, List.nil_append]
    rw [unescape]
    simp [unescape_tokens env ts w' h (by simpa [numRefs] using hn) hw']
  | .dollar :: ts, w, h, hn, hs => by
    simp only [tokOK, Bool.and_eq_true, Bool.not_eq_true'] at h
    simp only [sem, Option.map_eq_some_iff] at hs
    obtain ⟨w', hw', rfl⟩ := hs
    have ih := unescape_tokens env ts w' h.2 (by simpa [numRefs] using hn) hw'
    simp only [render, Tok.render, List.cons_append, List.nil_append]
    cases hr : render ts with
    | nil => rw [hr] at ih; simp [unescape] at ih ⊢; exact ih
    | cons d x =>
      rw [hr] at ih
      have hd : d ≠ '$' := by
        have := h.1; rw [hr] at this
        simp [startsWithDollarOrBrace] at this
        exact this.1
      rw [unescape]
      simp [hd, ih]
  | .ref _ _ :: ts, w, h, hn, hs => by simp [numRefs] at hn

/-! ## the full token statement, what is proved of it, and the pinned code's counterexamples -/

/-! non-vacuity of the hypotheses used above -/


/-! ## audit follow-up: re-tokenising, inert values, `resolveLeaves` -/

/-- re-tokenise substituted provider text (free of `$`): one token per byte -/
def litToks : Str → List Tok
  | [] => []
  | c :: r => (if c = '}' then Tok.close else Tok.lit [c]) :: litToks r

theorem render_litToks : ∀ v : Str, render (litToks v) = v
  | [] => rfl
  | c :: r => by
    by_cases h : c = '}'
    · simp [litToks, h, render, Tok.render, render_litToks r]
    · simp [litToks, h, render, Tok.render, render_litToks r]

theorem numRefs_append (a b : List Tok) : numRefs (a ++ b) = numRefs a + numRefs b := by
  induction a with
  | nil => simp [numRefs]
  | cons t a ih => cases t <;> simp [numRefs, ih] <;> omega

theorem numRefs_litToks : ∀ v : Str, numRefs (litToks v) = 0
  | [] => rfl
  | c :: r => by
    by_cases h : c = '}' <;> simp [litToks, h, numRefs, numRefs_litToks r]

theorem tokOK_litToks (env : Env) (post : List Tok) (hp : tokOK env post = true) :
    ∀ v : Str, hasDollar v = false → tokOK env (litToks v ++ post) = true
  | [], _ => by simpa [litToks] using hp
  | c :: r, h => by
    simp only [hasDollar, List.any_cons, Bool.or_eq_false_iff, beq_eq_false_iff_ne] at h
    have ih := tokOK_litToks env post hp r (by simpa [hasDollar] using h.2)
    by_cases hc : c = '}'
    · simp [litToks, hc, tokOK, ih]
    · simp [litToks, hc, tokOK, ih, hasDollar, hasClose, h.1]

theorem sem_litToks (env : Env) (post : List Tok) : ∀ v : Str,
    sem env (litToks v ++ post) = (sem env post).map (v ++ ·)
  | [] => by simp [litToks]
  | c :: r => by
    by_cases hc : c = '}'
    · simp [litToks, hc, sem, sem_litToks env post r, Option.map_map, Function.comp_def]
    · simp [litToks, hc, sem, sem_litToks env post r, Option.map_map, Function.comp_def]

theorem sem_append_congr (env : Env) {x y : List Tok} (h : sem env x = sem env y) :
    ∀ pre : List Tok, sem env (pre ++ x) = sem env (pre ++ y)
  | [] => h
  | t :: pre => by
    have ih := sem_append_congr env h pre
    cases t <;> simp [sem, ih]

theorem starts_append_of_ne_nil {s : Str} (t : Str) (h : s ≠ []) :
    startsWithDollarOrBrace (s ++ t) = startsWithDollarOrBrace s := by
  cases s with
  | nil => exact absurd rfl h
  | cons c r => rfl

/-- replacing the first occurrence of a reference token by well-formed text keeps the prefix well formed -/
theorem tokOK_replace (env : Env) (sc : Option Str) (nm : Str) (post x : List Tok) (hx : tokOK env x = true) :
    ∀ pre : List Tok, tokOK env (pre ++ .ref sc nm :: post) = true → tokOK env (pre ++ x) = true
  | [], _ => by simpa using hx
  | t :: pre, h => by
    cases t with
    | lit s =>
      simp only [List.cons_append, tokOK, Bool.and_eq_true] at h ⊢
      exact ⟨h.1, tokOK_replace env sc nm post x hx pre h.2⟩
    | close =>
      simp only [List.cons_append, tokOK] at h ⊢
      exact tokOK_replace env sc nm post x hx pre h
    | esc =>
      simp only [List.cons_append, tokOK] at h ⊢
      exact tokOK_replace env sc nm post x hx pre h
    | ref sc' nm' =>
      simp only [List.cons_append, tokOK, Bool.and_eq_true] at h ⊢
      exact ⟨h.1, tokOK_replace env sc nm post x hx pre h.2⟩
    | dollar =>
      simp only [List.cons_append, tokOK, Bool.and_eq_true, Bool.not_eq_true'] at h ⊢
      refine ⟨?_, tokOK_replace env sc nm post x hx pre h.2⟩
      have h1 := h.1
      rw [render_append] at h1 ⊢
      by_cases hp : render pre = []
      · rw [hp] at h1
        simp [render, Tok.render, startsWithDollarOrBrace] at h1
      · rw [starts_append_of_ne_nil _ hp] at h1 ⊢
        exact h1

/-- length of the rendered non-reference tokens -/
def nonRefLen : List Tok → Nat
  | [] => 0
  | .ref .. :: ts => nonRefLen ts
  | t :: ts => t.render.length + nonRefLen ts

theorem nonRefLen_append (a b : List Tok) : nonRefLen (a ++ b) = nonRefLen a + nonRefLen b := by
  induction a with
  | nil => simp [nonRefLen]
  | cons t a ih => cases t <;> simp [nonRefLen, ih] <;> omega

theorem nonRefLen_le_render : ∀ ts : List Tok, nonRefLen ts ≤ (render ts).length
  | [] => by simp [nonRefLen, render]
  | t :: ts => by
    have := nonRefLen_le_render ts
    cases t <;> simp [nonRefLen, render, List.length_append] <;> omega

theorem splitFirstRef_some_of_numRefs : ∀ ts : List Tok, 0 < numRefs ts → (splitFirstRef ts).isSome = true
  | [], h => by simp [numRefs] at h
  | .ref _ _ :: ts, _ => by simp [splitFirstRef]
  | .lit _ :: ts, h => by
    simp [splitFirstRef, splitFirstRef_some_of_numRefs ts (by simpa [numRefs] using h)]
  | .close :: ts, h => by
    simp [splitFirstRef, splitFirstRef_some_of_numRefs ts (by simpa [numRefs] using h)]
  | .esc :: ts, h => by
    simp [splitFirstRef, splitFirstRef_some_of_numRefs ts (by simpa [numRefs] using h)]
  | .dollar :: ts, h => by
    simp [splitFirstRef, splitFirstRef_some_of_numRefs ts (by simpa [numRefs] using h)]

theorem oddDollarRun_noDollar (s : Str) (h : hasDollar s = false) : oddDollarRun s = false := by
  unfold oddDollarRun
  rw [oddRunFrom_noDollar false s h]
  split <;> rfl

/-- `findURI` finds `${body}` after any prefix whose last segment `pre` (after the last `}`) contains no `$`… stated
for a `}`-free, `$`-free `pre`: the reference is found at its exact position, whatever follows -/
theorem findURI_at (mode : Mode) (hd : Bool) (pre body post : Str) (hp : hasDollar pre = false)
    (hpc : hasClose pre = false) (hb : hasDollar body = false) (hc : hasClose body = false)
    (hs : hd = true ∨ hasColon body = true) :
    findURI mode hd (pre ++ '$' :: '{' :: body ++ '}' :: post) = some (pre, body, post) := by
  have hseg : hasClose (pre ++ '$' :: '{' :: body) = false := by
    rw [hasClose_append, hpc]; simpa [hasClose] using hc
  have e : pre ++ '$' :: '{' :: body ++ '}' :: post = (pre ++ '$' :: '{' :: body) ++ '}' :: post := by simp
  unfold findURI
  rw [e, splitOnClose_append _ _ hseg, splitOnClose_close]
  simp only [List.append_nil, findInSegs, candidate, lastOpen_append_open pre body hb]
  have hcond : (!hd && !hasColon body) = false := by
    rcases hs with h | h <;> simp [h]
  simp only [hcond, oddDollarRun_noDollar pre hp, joinClose_split]
  cases mode <;> simp

mutual
/-- no string anywhere inside contains `$` (and no `expandedValue` inside: providers do not return them) -/
def noDollarVal : Val → Bool
  | .str s => !hasDollar s
  | .expanded .. => false
  | .list xs => noDollarVals xs
  | .map m => noDollarKVs m
  | _ => true
def noDollarVals : Vals → Bool
  | .nil => true
  | .cons v vs => noDollarVal v && noDollarVals vs
def noDollarKVs : KVs → Bool
  | .nil => true
  | .cons _ v r => noDollarVal v && noDollarKVs r
end

mutual
theorem expandValue_inert (env : Env) : ∀ v : Val, noDollarVal v = true → expandValue env v = .ok (v, false)
  | .str s, h => by
    rw [expandValue]; exact expandStr_noDollar env s (by simpa [noDollarVal] using h)
  | .list xs, h => by
    rw [expandValue, expandVals_inert env xs (by simpa [noDollarVal] using h)]
  | .map m, h => by
    rw [expandValue, expandKVs_inert env m (by simpa [noDollarVal] using h)]
  | .expanded _ _, h => by simp [noDollarVal] at h
  | .null, _ => by simp [expandValue]
  | .bool _, _ => by simp [expandValue]
  | .int _, _ => by simp [expandValue]
  | .float _, _ => by simp [expandValue]
  | .other _, _ => by simp [expandValue]
theorem expandVals_inert (env : Env) : ∀ xs : Vals, noDollarVals xs = true → expandVals env xs = .ok (xs, false)
  | .nil, _ => by simp [expandVals]
  | .cons v vs, h => by
    simp only [noDollarVals, Bool.and_eq_true] at h
    rw [expandVals, expandValue_inert env v h.1, expandVals_inert env vs h.2]
    rfl
theorem expandKVs_inert (env : Env) : ∀ m : KVs, noDollarKVs m = true → expandKVs env m = (m, false, [])
  | .nil, _ => by simp [expandKVs]
  | .cons k v r, h => by
    simp only [noDollarKVs, Bool.and_eq_true] at h
    rw [expandKVs, expandValue_inert env v h.1, expandKVs_inert env r h.2]
    rfl
end

mutual
theorem escape_inert : ∀ v : Val, noDollarVal v = true → escapeDollarSigns v = v
  | .str s, h => by
    rw [escapeDollarSigns, unescape_of_noEsc s (hasEsc_of_noDollar s (by simpa [noDollarVal] using h))]
  | .list xs, h => by rw [escapeDollarSigns, escVals_inert xs (by simpa [noDollarVal] using h)]
  | .map m, h => by rw [escapeDollarSigns, escKVs_inert m (by simpa [noDollarVal] using h)]
  | .expanded _ _, h => by simp [noDollarVal] at h
  | .null, _ => by simp [escapeDollarSigns]
  | .bool _, _ => by simp [escapeDollarSigns]
  | .int _, _ => by simp [escapeDollarSigns]
  | .float _, _ => by simp [escapeDollarSigns]
  | .other _, _ => by simp [escapeDollarSigns]
theorem escVals_inert : ∀ xs : Vals, noDollarVals xs = true → escVals xs = xs
  | .nil, _ => by simp [escVals]
  | .cons v vs, h => by
    simp only [noDollarVals, Bool.and_eq_true] at h
    rw [escVals, escape_inert v h.1, escVals_inert vs h.2]
theorem escKVs_inert : ∀ m : KVs, noDollarKVs m = true → escKVs m = m
  | .nil, _ => by simp [escKVs]
  | .cons k v r, h => by
    simp only [noDollarKVs, Bool.and_eq_true] at h
    rw [escKVs, escape_inert v h.1, escKVs_inert r h.2]
end

mutual
theorem sanitize_inert (b : Bool) : ∀ v : Val, noDollarVal v = true → sanitize b v = v
  | .str _, _ => by simp [sanitize]
  | .list xs, h => by rw [sanitize, sanVals_inert b xs (by simpa [noDollarVal] using h)]
  | .map m, h => by rw [sanitize, sanKVs_inert b m (by simpa [noDollarVal] using h)]
  | .expanded _ _, h => by simp [noDollarVal] at h
  | .null, _ => by simp [sanitize]
  | .bool _, _ => by simp [sanitize]
  | .int _, _ => by simp [sanitize]
  | .float _, _ => by simp [sanitize]
  | .other _, _ => by simp [sanitize]
theorem sanVals_inert (b : Bool) : ∀ xs : Vals, noDollarVals xs = true → sanVals b xs = xs
  | .nil, _ => by simp [sanVals]
  | .cons v vs, h => by
    simp only [noDollarVals, Bool.and_eq_true] at h
    rw [sanVals, sanitize_inert b v h.1, sanVals_inert b vs h.2]
theorem sanKVs_inert (b : Bool) : ∀ m : KVs, noDollarKVs m = true → sanKVs b m = m
  | .nil, _ => by simp [sanKVs]
  | .cons k v r, h => by
    simp only [noDollarKVs, Bool.and_eq_true] at h
    rw [sanKVs, sanitize_inert b v h.1, sanKVs_inert b r h.2]
end

/-- element-wise relation between two lists of the same length -/
inductive Pointwise {α β : Type} (R : α → β → Prop) : List α → List β → Prop
  | nil : Pointwise R [] []
  | cons {a b as bs} : R a b → Pointwise R as bs → Pointwise R (a :: as) (b :: bs)

theorem resolveLeaves_ok (env : Env) : ∀ (ls out : List (List Str × Val)), resolveLeaves env ls = .ok out →
    Pointwise (fun l o => o.1 = l.1 ∧ resolveValue env l.2 = .ok o.2) ls out
  | [], out, h => by simp [resolveLeaves] at h; subst h; exact .nil
  | (p, v) :: rest, out, h => by
    rw [resolveLeaves] at h
    cases hv : resolveValue env v with
    | error e => simp [hv] at h
    | ok v' =>
      simp only [hv] at h
      cases hr : resolveLeaves env rest with
      | error e => simp [hr] at h
      | ok r =>
        simp only [hr, Except.ok.injEq] at h
        subst h
        exact .cons ⟨rfl, hv⟩ (resolveLeaves_ok env rest r hr)

theorem resolveLeaves_id (env : Env) : ∀ ls : List (List Str × Val),
    (∀ l ∈ ls, resolveValue env l.2 = .ok l.2) → resolveLeaves env ls = .ok ls
  | [], _ => rfl
  | (p, v) :: rest, h => by
    rw [resolveLeaves, h (p, v) (List.mem_cons_self ..),
      resolveLeaves_id env rest (fun l hl => h l (List.mem_cons_of_mem _ hl))]


/-! # audit issue 2: `lookupPath`, `unflatten` on incomparable leaf paths, `flatten`, unique keys -/

/-- neither path is a prefix of the other -/
def Incomp (p q : List Str) : Prop := ¬ p <+: q ∧ ¬ q <+: p

theorem Incomp.symm {p q : List Str} (h : Incomp p q) : Incomp q p := ⟨h.2, h.1⟩

theorem incomp_cons_same {k : Str} {p q : List Str} (h : Incomp (k :: p) (k :: q)) : Incomp p q := by
  constructor
  · intro hp; exact h.1 ((List.prefix_cons_inj k).2 hp)
  · intro hp; exact h.2 ((List.prefix_cons_inj k).2 hp)

theorem lookupPath_cons_cons (k k2 : Str) (ks : List Str) (m : KVs) :
    lookupPath (k :: k2 :: ks) m = match m.lookup k with
      | some (.map sub) => lookupPath (k2 :: ks) sub
      | _ => none := rfl

theorem lookupPath_nil_kvs : ∀ p : List Str, lookupPath p .nil = none
  | [] => rfl
  | [_] => rfl
  | _ :: _ :: _ => rfl

/-- inserting at `q` does not disturb any path incomparable with `q` -/
theorem lookupPath_insert_other : ∀ (q p : List Str) (w : Val) (m : KVs), Incomp p q →
    lookupPath p (insertPath q w m) = lookupPath p m
  | [], p, w, m, _ => by simp [insertPath]
  | [k], p, w, m, h => by
    match p, h with
    | [], h => exact absurd (List.nil_prefix) h.1
    | [k'], h =>
      have hne : k' ≠ k := fun e => h.1 (by rw [e]; exact List.prefix_refl _)
      simp only [insertPath, lookupPath]
      exact KVs.lookup_set_other w hne m
    | k' :: k2 :: ks, h =>
      have hne : k' ≠ k := fun e => h.2 (by rw [e]; exact ⟨k2 :: ks, rfl⟩)
      simp only [insertPath, lookupPath_cons_cons]
      rw [KVs.lookup_set_other w hne m]
  | k :: q2 :: qs, p, w, m, h => by
    match p, h with
    | [], h => exact absurd (List.nil_prefix) h.1
    | [k'], h =>
      have hne : k' ≠ k := fun e => h.1 (by rw [e]; exact ⟨q2 :: qs, rfl⟩)
      simp only [lookupPath]
      rw [insertPath]
      split
      · exact KVs.lookup_set_other _ hne m
      · rfl
      · exact KVs.lookup_set_other _ hne m
    | k' :: p2 :: ps, h =>
      by_cases hk : k' = k
      · subst hk
        have h' : Incomp (p2 :: ps) (q2 :: qs) := incomp_cons_same h
        rw [insertPath]
        split
        · rename_i sub hs
          rw [lookupPath_cons_cons, lookupPath_cons_cons, KVs.lookup_set_same, hs]
          exact lookupPath_insert_other (q2 :: qs) (p2 :: ps) w sub h'
        · rfl
        · rename_i hs
          rw [lookupPath_cons_cons, lookupPath_cons_cons, KVs.lookup_set_same, hs]
          simp only
          rw [lookupPath_insert_other (q2 :: qs) (p2 :: ps) w .nil h', lookupPath_nil_kvs]
      · rw [insertPath]
        split
        · rw [lookupPath_cons_cons, lookupPath_cons_cons, KVs.lookup_set_other _ hk m]
        · rfl
        · rw [lookupPath_cons_cons, lookupPath_cons_cons, KVs.lookup_set_other _ hk m]

/-- inserting at `q` can go all the way down: no proper prefix of `q` holds a non-map value -/
def Passable : List Str → KVs → Prop
  | [], _ => True
  | [_], _ => True
  | k :: k2 :: ks, m =>
    match m.lookup k with
    | some (.map sub) => Passable (k2 :: ks) sub
    | some _ => False
    | none => True

theorem Passable_cons_cons (k k2 : Str) (ks : List Str) (m : KVs) :
    Passable (k :: k2 :: ks) m = match m.lookup k with
      | some (.map sub) => Passable (k2 :: ks) sub
      | some _ => False
      | none => True := rfl

theorem passable_nil : ∀ q : List Str, Passable q .nil
  | [] => trivial
  | [_] => trivial
  | _ :: _ :: _ => by simp [Passable_cons_cons, KVs.lookup]

theorem insertPath_cons_cons (k k2 : Str) (ks : List Str) (v : Val) (m : KVs) :
    insertPath (k :: k2 :: ks) v m = match m.lookup k with
      | some (.map sub) => m.set k (.map (insertPath (k2 :: ks) v sub))
      | some _ => m
      | none => m.set k (.map (insertPath (k2 :: ks) v .nil)) := rfl

theorem lookupPath_insert_same : ∀ (q : List Str) (w : Val) (m : KVs), q ≠ [] → Passable q m →
    lookupPath q (insertPath q w m) = some w
  | [], _, _, h, _ => absurd rfl h
  | [k], w, m, _, _ => by simp only [insertPath, lookupPath]; exact KVs.lookup_set_same k w m
  | k :: k2 :: ks, w, m, _, hp => by
    rw [Passable_cons_cons] at hp
    rw [insertPath_cons_cons]
    cases hl : m.lookup k with
    | none =>
      simp only [hl]
      rw [lookupPath_cons_cons, KVs.lookup_set_same]
      exact lookupPath_insert_same (k2 :: ks) w .nil (by simp) (passable_nil _)
    | some x =>
      rw [hl] at hp
      cases x with
      | map sub =>
        simp only [hl]
        rw [lookupPath_cons_cons, KVs.lookup_set_same]
        exact lookupPath_insert_same (k2 :: ks) w sub (by simp) hp
      | _ => exact absurd hp (by simp)

theorem passable_insert : ∀ (p q : List Str) (w : Val) (m : KVs), Incomp p q → Passable q m →
    Passable q (insertPath p w m)
  | [], q, w, m, _, hq => by simpa [insertPath] using hq
  | _ :: _, [], _, _, _, _ => trivial
  | _ :: _, [_], _, _, _, _ => trivial
  | [k'], k :: q2 :: qs, w, m, h, hq => by
    have hne : k ≠ k' := fun e => h.1 (by rw [e]; exact ⟨q2 :: qs, rfl⟩)
    rw [Passable_cons_cons] at hq ⊢
    simp only [insertPath]
    rw [KVs.lookup_set_other w hne m]
    exact hq
  | k' :: p2 :: ps, k :: q2 :: qs, w, m, h, hq => by
    rw [insertPath_cons_cons]
    by_cases hk : k = k'
    · subst hk
      have h' : Incomp (p2 :: ps) (q2 :: qs) := incomp_cons_same h
      rw [Passable_cons_cons] at hq
      cases hl : m.lookup k with
      | none =>
        simp only [hl]
        rw [Passable_cons_cons, KVs.lookup_set_same]
        exact passable_insert (p2 :: ps) (q2 :: qs) w .nil h' (passable_nil _)
      | some x =>
        rw [hl] at hq
        cases x with
        | map sub =>
          simp only [hl]
          rw [Passable_cons_cons, KVs.lookup_set_same]
          exact passable_insert (p2 :: ps) (q2 :: qs) w sub h' hq
        | _ => exact absurd hq (by simp)
    · have key : ∀ x, Passable (k :: q2 :: qs) (m.set k' x) := by
        intro x
        rw [Passable_cons_cons, KVs.lookup_set_other x hk m]
        rw [Passable_cons_cons] at hq
        exact hq
      cases hl : m.lookup k' with
      | none => simp only [hl]; exact key _
      | some x => cases x <;> simp only [hl] <;> first | exact key _ | exact hq

abbrev Leaf := List Str × Val

def insertAll (T : KVs) (L : List Leaf) : KVs := L.foldl (fun m kv => insertPath kv.1 kv.2 m) T

theorem insertAll_other (p : List Str) : ∀ (L : List Leaf) (T : KVs), (∀ a ∈ L, Incomp p a.1) →
    lookupPath p (insertAll T L) = lookupPath p T
  | [], _, _ => rfl
  | a :: rest, T, h => by
    simp only [insertAll, List.foldl_cons]
    have := insertAll_other p rest (insertPath a.1 a.2 T) (fun b hb => h b (List.mem_cons_of_mem _ hb))
    simp only [insertAll] at this
    rw [this, lookupPath_insert_other a.1 p a.2 T (h a (List.mem_cons_self ..))]

theorem insertAll_lookup : ∀ (L : List Leaf) (T : KVs), L.Pairwise (fun a b => Incomp a.1 b.1) →
    (∀ a ∈ L, a.1 ≠ []) → (∀ a ∈ L, Passable a.1 T) → ∀ a ∈ L, lookupPath a.1 (insertAll T L) = some a.2
  | [], _, _, _, _, a, ha => by simp at ha
  | b :: rest, T, hpw, hne, hpass, a, ha => by
    rw [List.pairwise_cons] at hpw
    have hstep : insertAll T (b :: rest) = insertAll (insertPath b.1 b.2 T) rest := rfl
    rw [hstep]
    rcases List.mem_cons.1 ha with rfl | har
    · rw [insertAll_other a.1 rest _ (fun c hc => hpw.1 c hc)]
      exact lookupPath_insert_same a.1 a.2 T (hne a (List.mem_cons_self ..)) (hpass a (List.mem_cons_self ..))
    · refine insertAll_lookup rest _ hpw.2 (fun c hc => hne c (List.mem_cons_of_mem _ hc)) ?_ a har
      intro c hc
      exact passable_insert b.1 c.1 b.2 T (hpw.1 c hc) (hpass c (List.mem_cons_of_mem _ hc))

/-- `maps.Unflatten` of ANY list of leaves with non-empty, pairwise prefix-incomparable key paths — in any order —
holds exactly each leaf's value under its path -/
theorem unflatten_lookup (L : List Leaf) (hpw : L.Pairwise (fun a b => Incomp a.1 b.1)) (hne : ∀ a ∈ L, a.1 ≠ []) :
    ∀ a ∈ L, lookupPath a.1 (unflatten L) = some a.2 :=
  insertAll_lookup L .nil hpw hne (fun a _ => passable_nil a.1)

/-! ## `flatten`: the leaf paths of a tree with unique keys -/

mutual
/-- keys are unique in every map reachable through maps (what Go maps guarantee) -/
def HN : Val → Prop
  | .map m => HNK m
  | _ => True
def HNK : KVs → Prop
  | .nil => True
  | .cons k v r => k ∉ r.keys ∧ HN v ∧ HNK r
end

/-- leaves below one entry -/
def leavesOf (pfx : List Str) (k : Str) (v : Val) : List Leaf :=
  match v with
  | .map m => if m.isEmpty then [(pfx ++ [k], v)] else flatten (pfx ++ [k]) m
  | _ => [(pfx ++ [k], v)]

theorem flatten_cons (pfx : List Str) (k : Str) (v : Val) (rest : KVs) :
    flatten pfx (.cons k v rest) = leavesOf pfx k v ++ flatten pfx rest := by
  cases v <;> simp only [flatten, leavesOf]

theorem flatten_pfx : ∀ (m : KVs) (pfx : List Str),
    flatten pfx m = (flatten [] m).map (fun a => (pfx ++ a.1, a.2))
  | .nil, _ => by simp [flatten]
  | .cons k v rest, pfx => by
    rw [flatten_cons, flatten_cons, List.map_append, ← flatten_pfx rest pfx]
    congr 1
    cases v with
    | map sub =>
      simp only [leavesOf]
      by_cases he : sub.isEmpty = true
      · simp [he]
      · simp only [he]
        rw [flatten_pfx sub (pfx ++ [k]), flatten_pfx sub ([] ++ [k])]
        simp [List.map_map, Function.comp_def]
    | _ => simp [leavesOf]

theorem incomp_of_head_ne {k k' : Str} {p q : List Str} (h : k ≠ k') : Incomp (k :: p) (k' :: q) := by
  constructor
  · rintro ⟨t, ht⟩; simp at ht; exact h ht.1
  · rintro ⟨t, ht⟩; simp at ht; exact h ht.1.symm

theorem incomp_cons_iff {k : Str} {p q : List Str} (h : Incomp p q) : Incomp (k :: p) (k :: q) := by
  constructor
  · intro hp; exact h.1 ((List.prefix_cons_inj k).1 hp)
  · intro hp; exact h.2 ((List.prefix_cons_inj k).1 hp)

theorem lookupPath_cons_head (k : Str) (v : Val) (rest : KVs) : ∀ p : List Str,
    lookupPath (k :: p) (.cons k v rest) = match p with
      | [] => some v
      | k2 :: ks => (match v with | .map sub => lookupPath (k2 :: ks) sub | _ => none)
  | [] => by simp [lookupPath, KVs.lookup]
  | k2 :: ks => by
    rw [lookupPath_cons_cons]; simp only [KVs.lookup, if_true]
    cases v <;> rfl

theorem lookupPath_cons_skip {k k' : Str} (h : k ≠ k') (v : Val) (rest : KVs) : ∀ p : List Str,
    lookupPath (k' :: p) (.cons k v rest) = lookupPath (k' :: p) rest
  | [] => by simp [lookupPath, KVs.lookup, h]
  | k2 :: ks => by rw [lookupPath_cons_cons, lookupPath_cons_cons]; simp [KVs.lookup, h]

/-- every leaf of `flatten [] m`: non-empty path that starts with a key of `m`, and `m` holds the leaf's value there -/
theorem flatten_leaf : ∀ (m : KVs), HNK m → ∀ a ∈ flatten [] m,
    ∃ k p, a.1 = k :: p ∧ k ∈ m.keys ∧ lookupPath a.1 m = some a.2
  | .nil, _, a, ha => by simp [flatten] at ha
  | .cons k v rest, hn, a, ha => by
    simp only [HNK] at hn
    rw [flatten_cons] at ha
    rcases List.mem_append.1 ha with h1 | h2
    · -- below k
      have single : a = ([k], v) → ∃ k0 p, a.1 = k0 :: p ∧ k0 ∈ (KVs.cons k v rest).keys ∧
          lookupPath a.1 (.cons k v rest) = some a.2 := by
        rintro rfl
        exact ⟨k, [], rfl, by simp [KVs.keys], by simp [lookupPath, KVs.lookup]⟩
      cases v with
      | map sub =>
        simp only [leavesOf] at h1
        by_cases he : sub.isEmpty = true
        · simp only [he, if_true, List.nil_append, List.mem_singleton] at h1
          exact single h1
        · simp only [he] at h1
          rw [flatten_pfx sub ([] ++ [k])] at h1
          obtain ⟨b, hb, rfl⟩ := List.mem_map.1 h1
          have hsub : HNK sub := by simpa [HN] using hn.2.1
          obtain ⟨k1, p1, hp1, -, hl⟩ := flatten_leaf sub hsub b hb
          refine ⟨k, b.1, by simp, by simp [KVs.keys], ?_⟩
          simp only [List.nil_append, List.singleton_append]
          rw [lookupPath_cons_head, hp1]
          simp only
          rw [← hp1]; exact hl
      | _ =>
        simp only [leavesOf, List.nil_append, List.mem_singleton] at h1
        exact single h1
    · obtain ⟨k1, p1, hp1, hk1, hl⟩ := flatten_leaf rest hn.2.2 a h2
      have hne : k ≠ k1 := fun e => hn.1 (e ▸ hk1)
      refine ⟨k1, p1, hp1, by simp [KVs.keys, hk1], ?_⟩
      rw [hp1, lookupPath_cons_skip hne, ← hp1]; exact hl

/-- the leaf paths of `flatten [] m` are pairwise prefix-incomparable -/
theorem flatten_pairwise : ∀ (m : KVs), HNK m → (flatten [] m).Pairwise (fun a b => Incomp a.1 b.1)
  | .nil, _ => by simp [flatten]
  | .cons k v rest, hn => by
    have hn' := hn
    simp only [HNK] at hn
    rw [flatten_cons, List.pairwise_append]
    have hhead : ∀ a ∈ leavesOf [] k v, ∃ p, a.1 = k :: p := by
      intro a ha
      cases v with
      | map sub =>
        simp only [leavesOf] at ha
        by_cases he : sub.isEmpty = true
        · simp only [he, if_true, List.nil_append, List.mem_singleton] at ha; exact ⟨[], by rw [ha]⟩
        · simp only [he] at ha
          rw [flatten_pfx sub ([] ++ [k])] at ha
          obtain ⟨b, -, rfl⟩ := List.mem_map.1 ha
          exact ⟨b.1, by simp⟩
      | _ =>
        simp only [leavesOf, List.nil_append, List.mem_singleton] at ha; exact ⟨[], by rw [ha]⟩
    refine ⟨?_, flatten_pairwise rest hn.2.2, ?_⟩
    · cases v with
      | map sub =>
        simp only [leavesOf]
        by_cases he : sub.isEmpty = true
        · simp [he]
        · simp only [he, Bool.false_eq_true, if_false]
          rw [flatten_pfx sub ([] ++ [k]), List.pairwise_map]
          have hsub : HNK sub := by simpa [HN] using hn.2.1
          refine (flatten_pairwise sub hsub).imp ?_
          intro a b hab
          simpa using incomp_cons_iff (k := k) hab
      | _ => simp [leavesOf]
    · intro a ha b hb
      obtain ⟨p, hp⟩ := hhead a ha
      obtain ⟨k1, p1, hp1, hk1, -⟩ := flatten_leaf rest hn.2.2 b hb
      have hne : k ≠ k1 := fun e => hn.1 (e ▸ hk1)
      rw [hp, hp1]; exact incomp_of_head_ne hne

/-! ## the round trip, and `resolve` end to end -/

theorem pointwise_transfer (env : Env) : ∀ (ls out : List Leaf),
    Pointwise (fun l o => o.1 = l.1 ∧ resolveValue env l.2 = .ok o.2) ls out →
    (∀ o ∈ out, ∃ l ∈ ls, o.1 = l.1) ∧ (∀ l ∈ ls, ∃ o ∈ out, o.1 = l.1 ∧ resolveValue env l.2 = .ok o.2)
  | _, _, .nil => ⟨by simp, by simp⟩
  | _, _, .cons (a := l) (b := o) (as := ls) (bs := out) h rest => by
    obtain ⟨h1, h2⟩ := pointwise_transfer env ls out rest
    constructor
    · intro o' ho'
      rcases List.mem_cons.1 ho' with rfl | ho'
      · exact ⟨l, List.mem_cons_self .., h.1⟩
      · obtain ⟨l', hl', e⟩ := h1 o' ho'; exact ⟨l', List.mem_cons_of_mem _ hl', e⟩
    · intro l' hl'
      rcases List.mem_cons.1 hl' with rfl | hl'
      · exact ⟨o, List.mem_cons_self .., h.1, h.2⟩
      · obtain ⟨o', ho', e⟩ := h2 l' hl'; exact ⟨o', List.mem_cons_of_mem _ ho', e⟩

theorem pointwise_pairwise (env : Env) : ∀ (ls out : List Leaf),
    Pointwise (fun l o => o.1 = l.1 ∧ resolveValue env l.2 = .ok o.2) ls out →
    ls.Pairwise (fun a b => Incomp a.1 b.1) → out.Pairwise (fun a b => Incomp a.1 b.1)
  | _, _, .nil, _ => .nil
  | _, _, .cons (a := l) (b := o) (as := ls) (bs := out) h rest, hpw => by
    rw [List.pairwise_cons] at hpw ⊢
    refine ⟨?_, pointwise_pairwise env ls out rest hpw.2⟩
    intro o' ho'
    obtain ⟨l', hl', e⟩ := (pointwise_transfer env ls out rest).1 o' ho'
    rw [h.1, e]; exact hpw.1 l' hl'

/-! ## unique keys are preserved by the merge -/

theorem mem_keys_set {k k0 : Str} (v : Val) : ∀ m : KVs, k0 ∈ (m.set k v).keys → k0 = k ∨ k0 ∈ m.keys
  | .nil, h => by simp [KVs.set, KVs.keys] at h; exact Or.inl h
  | .cons k' v' r, h => by
    by_cases hk : k' = k
    · simp only [KVs.set, hk, if_true, KVs.keys] at h ⊢
      right; simpa [hk] using h
    · simp only [KVs.set, hk, if_false, KVs.keys, List.mem_cons] at h ⊢
      rcases h with h | h
      · exact Or.inr (Or.inl h)
      · rcases mem_keys_set v r h with h | h
        · exact Or.inl h
        · exact Or.inr (Or.inr h)

theorem HNK_set {k : Str} {v : Val} (hv : HN v) : ∀ m : KVs, HNK m → HNK (m.set k v)
  | .nil, _ => by simp [KVs.set, HNK, KVs.keys, hv]
  | .cons k' v' r, h => by
    simp only [HNK] at h
    by_cases hk : k' = k
    · simp only [KVs.set, hk, if_true, HNK]
      exact ⟨by simpa [hk] using h.1, hv, h.2.2⟩
    · simp only [KVs.set, hk, if_false, HNK]
      refine ⟨?_, h.2.1, HNK_set hv r h.2.2⟩
      intro hmem
      rcases mem_keys_set v r hmem with e | e
      · exact hk e
      · exact h.1 e

theorem HN_of_lookup {k : Str} {v : Val} : ∀ m : KVs, HNK m → m.lookup k = some v → HN v
  | .nil, _, h => by simp [KVs.lookup] at h
  | .cons k' v' r, hn, h => by
    simp only [HNK] at hn
    by_cases hk : k' = k
    · simp only [KVs.lookup, hk, if_true, Option.some.injEq] at h; rw [← h]; exact hn.2.1
    · simp only [KVs.lookup, hk, if_false] at h; exact HN_of_lookup r hn.2.2 h

theorem HNK_merge : ∀ (a b : KVs), HNK a → HNK b → HNK (mergeKVs a b)
  | .nil, b, _, hb => by simpa [mergeKVs] using hb
  | .cons k v rest, b, ha, hb => by
    simp only [HNK] at ha
    rw [mergeKVs_cons]
    refine HNK_merge rest _ ha.2.2 (HNK_set ?_ b hb)
    cases hl : b.lookup k with
    | none => cases v <;> simp only [mergeOne] <;> exact ha.2.1
    | some bv =>
      have hbv := HN_of_lookup b hb hl
      cases v with
      | map am =>
        cases bv with
        | map bm =>
          simp only [mergeOne, HN]
          exact HNK_merge am bm (by simpa [HN] using ha.2.1) (by simpa [HN] using hbv)
        | _ => simp only [mergeOne]; exact ha.2.1
      | _ => simp only [mergeOne]; exact ha.2.1

theorem HNK_mergeSources (ms : List KVs) (h : ∀ s ∈ ms, HNK s) : HNK (mergeSources ms) := by
  have gen : ∀ (l : List KVs) (acc : KVs), HNK acc → (∀ s ∈ l, HNK s) →
      HNK (l.foldl (fun acc s => mergeKVs s acc) acc) := by
    intro l
    induction l with
    | nil => intro acc ha _; exact ha
    | cons s l ih =>
      intro acc ha hl
      exact ih _ (HNK_merge s acc (hl s (List.mem_cons_self ..)) ha) (fun x hx => hl x (List.mem_cons_of_mem _ hx))
  exact gen ms .nil trivial h

end OtelVerif.C12
