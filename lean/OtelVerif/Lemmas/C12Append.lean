import OtelVerif.Lemmas.C12
import OtelVerif.Model.C12Append
/-!
# C12 helper lemmas for the gate-on list-merge path (`mergeAppend`, `mergeSlice`, `isPresent`)
-/
namespace OtelVerif.C12

/-- what `mergeAppend` stores under a key of the later source -/
def appendOne (v : Val) (bv : Option Val) : Val :=
  match v, bv with
  | .list s, some (.list d) => .list (Vals.ofList (mergeSlice s.toList d.toList))
  | .map am, some (.map bm) => .map (mergeAppendKVs am bm)
  | v, _ => v

theorem mergeAppendKVs_cons (k : Str) (v : Val) (rest b : KVs) :
    mergeAppendKVs (.cons k v rest) b = mergeAppendKVs rest (b.set k (appendOne v (b.lookup k))) := by
  rw [mergeAppendKVs]
  cases hb : b.lookup k with
  | none => cases v <;> simp [appendOne]
  | some bv => cases v <;> cases bv <;> simp [appendOne]

/-- key-wise meaning of the gate-on merge: `a` is the later source, `b` the accumulated map -/
def appendAt (av bv : Option Val) : Option Val :=
  match av, bv with
  | none, r => r                                                                          -- untouched keys survive
  | some (.list s), some (.list d) => some (.list (Vals.ofList (mergeSlice s.toList d.toList)))   -- lists: append, de-duplicated
  | some (.map am), some (.map bm) => some (.map (mergeAppendKVs am bm))                  -- maps merge key by key
  | some v, _ => some v                                                                   -- anything else: replaced

theorem mergeSourcesAppend_snoc (srcs : List KVs) (s : KVs) :
    mergeSourcesAppend (srcs ++ [s]) = mergeAppendKVs s (mergeSourcesAppend srcs) := by
  simp [mergeSourcesAppend, List.foldl_append]

/-! ## `mergeSlice` -/

/-- the appended elements are new: none is present in what precedes it (the old elements and the ones appended before) -/
def distinctFrom : List Val → List Val → Prop
  | _, [] => True
  | acc, x :: t => isPresent acc x = false ∧ distinctFrom (acc ++ [x]) t

theorem isPresent_append_left (acc t : List Val) (v : Val) (h : isPresent acc v = true) : isPresent (acc ++ t) v = true := by
  unfold isPresent at *
  rw [List.any_append, h]; rfl

theorem foldl_appendNew_spec : ∀ (s acc : List Val),
    ∃ t, s.foldl appendNew acc = acc ++ t ∧ t.Sublist s ∧ distinctFrom acc t ∧
      ∀ v ∈ s, isPresent (acc ++ t) v = true ∨ v ∈ t
  | [], acc => ⟨[], by simp, .slnil, trivial, by simp⟩
  | x :: s, acc => by
    by_cases hp : isPresent acc x = true
    · obtain ⟨t, h1, h2, h3, h4⟩ := foldl_appendNew_spec s acc
      refine ⟨t, ?_, h2.cons x, h3, ?_⟩
      · simp only [List.foldl_cons, appendNew, hp, if_true]; exact h1
      · intro v hv
        rcases List.mem_cons.1 hv with rfl | hv
        · exact .inl (isPresent_append_left acc t _ hp)
        · exact h4 v hv
    · have hp' : isPresent acc x = false := by simpa using hp
      obtain ⟨t, h1, h2, h3, h4⟩ := foldl_appendNew_spec s (acc ++ [x])
      refine ⟨x :: t, ?_, h2.cons_cons x, ⟨hp', h3⟩, ?_⟩
      · simp only [List.foldl_cons, appendNew, hp', Bool.false_eq_true, if_false]
        rw [h1]; simp
      · intro v hv
        rcases List.mem_cons.1 hv with rfl | hv
        · exact .inr (List.mem_cons_self ..)
        · rcases h4 v hv with h | h
          · left; simpa using h
          · exact .inr (List.mem_cons_of_mem _ h)

theorem foldl_appendNew_present : ∀ (s acc : List Val), (∀ v ∈ s, isPresent acc v = true) → s.foldl appendNew acc = acc
  | [], _, _ => rfl
  | x :: s, acc, h => by
    have hx := h x (List.mem_cons_self ..)
    simp only [List.foldl_cons, appendNew, hx, if_true]
    exact foldl_appendNew_present s acc (fun v hv => h v (List.mem_cons_of_mem _ hv))

theorem foldl_appendNew_distinct : ∀ (s acc : List Val), distinctFrom acc s → s.foldl appendNew acc = acc ++ s
  | [], acc, _ => by simp
  | x :: s, acc, h => by
    simp only [List.foldl_cons, appendNew, h.1, Bool.false_eq_true, if_false]
    rw [foldl_appendNew_distinct s _ h.2]; simp

/-! ## unique keys are preserved -/

theorem HNK_mergeAppend : ∀ (a b : KVs), HNK a → HNK b → HNK (mergeAppendKVs a b)
  | .nil, b, _, hb => by simpa [mergeAppendKVs] using hb
  | .cons k v rest, b, ha, hb => by
    simp only [HNK] at ha
    rw [mergeAppendKVs_cons]
    refine HNK_mergeAppend rest _ ha.2.2 (HNK_set ?_ b hb)
    cases hl : b.lookup k with
    | none => cases v <;> simp only [appendOne] <;> exact ha.2.1
    | some bv =>
      have hbv := HN_of_lookup b hb hl
      cases v with
      | map am =>
        cases bv with
        | map bm =>
          simp only [appendOne, HN]
          exact HNK_mergeAppend am bm (by simpa [HN] using ha.2.1) (by simpa [HN] using hbv)
        | _ => simp only [appendOne]; exact ha.2.1
      | list s =>
        cases bv with
        | list d => simp only [appendOne, HN]
        | _ => simp only [appendOne]; exact ha.2.1
      | _ => simp only [appendOne]; exact ha.2.1

theorem HNK_mergeSourcesAppend (ms : List KVs) (h : ∀ s ∈ ms, HNK s) : HNK (mergeSourcesAppend ms) := by
  have gen : ∀ (l : List KVs) (acc : KVs), HNK acc → (∀ s ∈ l, HNK s) →
      HNK (l.foldl (fun acc s => mergeAppendKVs s acc) acc) := by
    intro l
    induction l with
    | nil => intro acc ha _; exact ha
    | cons s l ih =>
      intro acc ha hl
      exact ih _ (HNK_mergeAppend s acc (hl s (List.mem_cons_self ..)) ha) (fun x hx => hl x (List.mem_cons_of_mem _ hx))
  exact gen ms .nil trivial h

/-! ## the per-key loop + unflatten on ANY merged tree with unique keys (shared by `Merge` and `mergeAppend`) -/

theorem resolved_leaves_lookup (env : Env) (M : KVs) (hn : HNK M) (leaves : List Leaf)
    (hl : resolveLeaves env (sortedLeaves M) = .ok leaves) :
    ∀ a ∈ flatten [] M, ∃ v', resolveValue env a.2 = .ok v' ∧ lookupPath a.1 (unflatten leaves) = some v' := by
  have hperm : (sortedLeaves M).Perm (flatten [] M) := List.mergeSort_perm _ _
  have hpt := resolveLeaves_ok env _ _ hl
  intro a ha
  have hsym : ∀ {x y : Leaf}, Incomp x.1 y.1 → Incomp y.1 x.1 := fun h => h.symm
  have hpwS : (sortedLeaves M).Pairwise (fun a b => Incomp a.1 b.1) :=
    (hperm.pairwise_iff hsym).2 (flatten_pairwise _ hn)
  have hpwO := pointwise_pairwise env _ _ hpt hpwS
  obtain ⟨t1, t2⟩ := pointwise_transfer env _ _ hpt
  have hneO : ∀ o ∈ leaves, o.1 ≠ [] := by
    intro o ho
    obtain ⟨l, hl, e⟩ := t1 o ho
    obtain ⟨k, p, hkp, -, -⟩ := flatten_leaf _ hn l (hperm.mem_iff.1 hl)
    rw [e, hkp]; simp
  obtain ⟨o, ho, e1, e2⟩ := t2 a (hperm.mem_iff.2 ha)
  refine ⟨o.2, e2, ?_⟩
  rw [← e1]
  exact unflatten_lookup leaves hpwO hneO o ho

end OtelVerif.C12
