import OtelVerif.Lemmas.C12
import OtelVerif.Model.C12Loc
/-!
# C12 helper lemmas: the generated regexp data against the hand-written scheme test, locations, closers
-/
namespace OtelVerif.C12

open OtelVerif.Gen

/-! ## tie: the hand-written `validScheme` IS the anchored match of the generated `schemePattern` classes -/

theorem char_le_iff (a b : Char) : a ≤ b ↔ a.toNat ≤ b.toNat := by
  rw [Char.le_def, UInt32.le_iff_toNat_le]; rfl

theorem char_eq_iff (a b : Char) : a = b ↔ a.toNat = b.toNat := by
  constructor
  · intro h; rw [h]
  · intro h
    apply Char.ext
    apply UInt32.toNat_inj.1
    exact h

theorem isLetter_eq_gen (c : Char) : isLetter c = inRanges [(65, 90), (97, 122)] c := by
  simp only [isLetter, inRanges, List.any_cons, List.any_nil, Bool.or_false, char_le_iff]
  have h1 : 'a'.toNat = 97 := rfl
  have h2 : 'z'.toNat = 122 := rfl
  have h3 : 'A'.toNat = 65 := rfl
  have h4 : 'Z'.toNat = 90 := rfl
  rw [h1, h2, h3, h4]
  by_cases a1 : 97 ≤ c.toNat <;> by_cases a2 : c.toNat ≤ 122 <;> by_cases a3 : 65 ≤ c.toNat <;>
    by_cases a4 : c.toNat ≤ 90 <;> simp [a1, a2, a3, a4]

theorem isSchemeChar_eq_gen (c : Char) :
    isSchemeChar c = inRanges [(65, 90), (97, 122), (48, 57), (43, 43), (46, 46), (45, 45)] c := by
  have hl := isLetter_eq_gen c
  simp only [inRanges, List.any_cons, List.any_nil, Bool.or_false] at hl
  simp only [isSchemeChar, inRanges, List.any_cons, List.any_nil, Bool.or_false, char_le_iff, char_eq_iff, hl]
  have h1 : '0'.toNat = 48 := rfl
  have h2 : '9'.toNat = 57 := rfl
  have h3 : '+'.toNat = 43 := rfl
  have h4 : '.'.toNat = 46 := rfl
  have h5 : '-'.toNat = 45 := rfl
  rw [h1, h2, h3, h4, h5]
  by_cases b1 : (65 ≤ c.toNat ∧ c.toNat ≤ 90) <;> by_cases b2 : (97 ≤ c.toNat ∧ c.toNat ≤ 122) <;>
    by_cases b3 : (48 ≤ c.toNat ∧ c.toNat ≤ 57) <;> by_cases b4 : c.toNat = 43 <;> by_cases b5 : c.toNat = 46 <;>
    by_cases b6 : c.toNat = 45 <;> simp [b1, b2, b3, b4, b5, b6] <;> omega

/-- the model's scheme test is the anchored match of the `schemePattern` regenerated from `confmap/expand.go` -/
theorem validScheme_eq_gen : ∀ s : Str, validScheme s = matchClasses C12Consts.schemeClasses s
  | [] => rfl
  | [_] => by simp [validScheme, matchClasses, C12Consts.schemeClasses]
  | c :: d :: r => by
    have h1 : isSchemeChar = inRanges [(65, 90), (97, 122), (48, 57), (43, 43), (46, 46), (45, 45)] :=
      funext isSchemeChar_eq_gen
    simp only [validScheme, matchClasses, C12Consts.schemeClasses, List.all_cons, isLetter_eq_gen, h1]

/-! ## locations -/

theorem splitColon_join : ∀ (s sc op : Str), splitColon s = some (sc, op) → s = sc ++ ':' :: op
  | [], _, _, h => by simp [splitColon] at h
  | c :: cs, sc, op, h => by
    simp only [splitColon] at h
    by_cases hc : c = ':'
    · simp only [hc, if_true, Option.some.injEq, Prod.mk.injEq] at h
      obtain ⟨rfl, rfl⟩ := h; simp [hc]
    · simp only [hc, if_false, Option.map_eq_some_iff] at h
      obtain ⟨⟨a, b⟩, h1, h2⟩ := h
      simp only [Prod.mk.injEq] at h2
      obtain ⟨rfl, rfl⟩ := h2
      rw [splitColon_join cs a b h1]; rfl

theorem colon_not_driverLetter : inRanges C12Consts.driverLetterRanges ':' = false := by decide

/-! ## `NewResolver` + `Resolve` from the settings -/

theorem retrieveMerge_ok (gate : Bool) (provs : List Str) (fetch : Str → Option Val) :
    ∀ (locs : List Loc) (acc merged : KVs), retrieveMerge gate provs fetch locs acc = .ok merged →
    ∃ srcs ms, locs.mapM (fun l => fetch l.asString) = some srcs ∧ srcs.mapM asConf = some ms ∧
      (∀ l ∈ locs, provs.contains l.scheme = true) ∧
      merged = ms.foldl (fun acc s => if gate then mergeAppendKVs s acc else mergeKVs s acc) acc
  | [], acc, merged, h => by
    simp only [retrieveMerge, Except.ok.injEq] at h
    exact ⟨[], [], rfl, rfl, by simp, by simp [h]⟩
  | l :: ls, acc, merged, h => by
    simp only [retrieveMerge] at h
    by_cases hp : provs.contains l.scheme = true
    · simp only [hp, Bool.not_true, Bool.false_eq_true, if_false] at h
      cases hf : fetch l.asString with
      | none => simp [hf] at h
      | some v =>
        simp only [hf] at h
        cases ha : asConf v with
        | none => simp [ha] at h
        | some m =>
          simp only [ha] at h
          obtain ⟨srcs, ms, h1, h2, h3, h4⟩ := retrieveMerge_ok gate provs fetch ls _ merged h
          refine ⟨v :: srcs, m :: ms, ?_, ?_, ?_, ?_⟩
          · simp [List.mapM_cons, hf, h1]
          · simp [List.mapM_cons, ha, h2]
          · intro x hx
            rcases List.mem_cons.1 hx with rfl | hx
            · exact hp
            · exact h3 x hx
          · simp [h4]
    · have hp' : l.scheme ∉ provs := by simpa using hp
      simp [hp'] at h

/-! ## closers -/

/-- every id issued so far is either closed or pending, exactly once, in issue order -/
def Life.Inv (s : Life) : Prop := s.closed ++ s.pending = List.range s.next

theorem Life.inv_init : Life.Inv {} := rfl

theorem Life.inv_closeAll {s : Life} (h : s.Inv) : s.closeAll.Inv := by
  unfold Life.Inv Life.closeAll at *
  simpa using h

theorem Life.inv_fire {s : Life} (h : s.Inv) (l : LifeLabel) : (s.fire l).Inv := by
  cases l with
  | shutdown => exact Life.inv_closeAll h
  | resolve cf n =>
    have hc := Life.inv_closeAll h
    cases cf with
    | true => simpa [Life.fire] using hc
    | false =>
      unfold Life.Inv at hc ⊢
      simp only [Life.fire, Bool.false_eq_true, if_false]
      simp only [Life.closeAll, List.append_nil] at hc ⊢
      rw [hc, List.range_add]

theorem Life.inv_run : ∀ (ls : List LifeLabel) (s : Life), s.Inv → (s.run ls).Inv
  | [], _, h => h
  | l :: ls, s, h => by
    simp only [Life.run, List.foldl_cons]
    exact Life.inv_run ls _ (Life.inv_fire h l)

end OtelVerif.C12
