import OtelVerif.Model.C13Faithful
/-!
# C13 — lemmas about `decodeV` / `encodeV` (core Lean only)

`written_reflected`, `untouched_unchanged`, `decode_shape`, `effective_shows`: mutual structural
inductions over the key-space schema.  The named property theorems are in `Props/C13.lean`.
-/
namespace OtelVerif.C13

mutual
theorem shape_zero : ∀ S : KS, shape S (zero S) = true
  | .scalar => rfl | .opaque => rfl | .text _ => rfl | .custom _ => rfl | .iface => rfl
  | .slice _ => rfl | .map _ _ => rfl | .ptr _ => rfl
  | .struct fs => by simp only [zero, shape]; exact shapeF_zero fs
theorem shapeF_zero : ∀ fs : List (String × KS), shapeF fs (zeroF fs) = true
  | [] => rfl
  | (k, s) :: fs => by simp only [zeroF, shapeF, shape_zero s, shapeF_zero fs, Bool.and_self]
end

/-- decoding never yields a nil optional -/
theorem decode_ne_nil : ∀ (S : KS) (d : TV) (v : Val) (t : TV), decodeV S d v = some t → t ≠ .nilp
  | .scalar, d, v, t, h => by cases v <;> simp [decodeV] at h <;> subst h <;> simp
  | .opaque, d, v, t, h => by cases v <;> simp [decodeV] at h <;> subst h <;> simp
  | .text _, d, v, t, h => by cases v <;> simp [decodeV] at h <;> subst h <;> simp
  | .custom _, d, v, t, h => by simp [decodeV] at h; subst h; simp
  | .iface, d, v, t, h => by simp [decodeV] at h; subst h; simp
  | .slice _, d, v, t, h => by cases v <;> simp [decodeV] at h <;> subst h <;> simp
  | .map _ _, d, v, t, h => by cases v <;> simp [decodeV] at h <;> subst h <;> simp
  | .ptr s, d, v, t, h => by
    cases d with
    | nilp => simp only [decodeV] at h; exact decode_ne_nil s _ v t h
    | atom a => simp only [decodeV] at h; exact decode_ne_nil s _ v t h
    | struct fs => simp only [decodeV] at h; exact decode_ne_nil s _ v t h
  | .struct fs, d, v, t, h => by
    cases d <;> cases v <;> simp [decodeV] at h
    obtain ⟨_, a, _, rfl⟩ := h
    simp

theorem getS_ptr (s : KS) (t : TV) (p : List String) (hn : t ≠ .nilp) : getS (.ptr s) t p = getS s t p := by
  cases p with
  | nil => simp [getS]
  | cons k p => cases t <;> simp_all [getS]

theorem kindAt_ptr_leaf (s : KS) (p : List String) :
    (kindAt (.ptr s) p).map isLeafKind = (kindAt s p).map isLeafKind := by
  cases p <;> simp [kindAt, isLeafKind]

theorem valGet_cons {kvs : List (String × Val)} {k : String} {p : List String} {x : Val}
    (h : valGet (.map kvs) (k :: p) = some x) : ∃ v', lookupVal kvs k = some v' ∧ valGet v' p = some x := by
  simp only [valGet] at h
  cases hl : lookupVal kvs k with
  | none => simp [hl] at h
  | some v' => exact ⟨v', rfl, by simpa [hl] using h⟩

mutual
theorem written_reflected : ∀ (S : KS) (d : TV) (v : Val) (t : TV) (p : List String) (x : Val),
    shape S d = true → decodeV S d v = some t → valGet v p = some x →
    (kindAt S p).map isLeafKind = some true → getS S t p = some (.atom x)
  | .ptr s, d, v, t, p, x, hs, hd, hv, hk => by
    have hd' : ∃ d', shape s d' = true ∧ decodeV s d' v = some t := by
      cases d with
      | nilp => exact ⟨zero s, shape_zero s, by simpa only [decodeV] using hd⟩
      | atom a => exact ⟨.atom a, by simpa only [shape] using hs, by simpa only [decodeV] using hd⟩
      | struct fs => exact ⟨.struct fs, by simpa only [shape] using hs, by simpa only [decodeV] using hd⟩
    obtain ⟨d', hs', hd''⟩ := hd'
    rw [getS_ptr s t p (decode_ne_nil s d' v t hd'')]
    rw [kindAt_ptr_leaf] at hk
    exact written_reflected s d' v t p x hs' hd'' hv hk
  | .struct fs, d, v, t, p, x, hs, hd, hv, hk => by
    cases p with
    | nil => simp [kindAt, isLeafKind] at hk
    | cons k p =>
      cases d with
      | atom a => simp [shape] at hs
      | nilp => simp [shape] at hs
      | struct dfs =>
        cases v with
        | scalar n => simp [decodeV] at hd
        | list vs => simp [decodeV] at hd
        | map kvs =>
          simp only [decodeV] at hd
          split at hd
          · cases hf : decodeFs fs dfs kvs with
            | none => simp [hf] at hd
            | some tfs =>
              simp only [hf, Option.map_some, Option.some.injEq] at hd
              subst hd
              obtain ⟨v', hl, hv'⟩ := valGet_cons hv
              simp only [shape] at hs
              simp only [kindAt] at hk
              simp only [getS]
              exact fields_written fs dfs kvs tfs k p v' x hs hf hl hv' hk
          · simp at hd
  | .scalar, d, v, t, p, x, hs, hd, hv, hk => by
    cases p with
    | cons k p => simp [kindAt] at hk
    | nil => cases v <;> simp [decodeV] at hd; subst hd; simp [valGet] at hv; subst hv; simp [getS]
  | .opaque, d, v, t, p, x, hs, hd, hv, hk => by
    cases p with
    | cons k p => simp [kindAt] at hk
    | nil => cases v <;> simp [decodeV] at hd; subst hd; simp [valGet] at hv; subst hv; simp [getS]
  | .text _, d, v, t, p, x, hs, hd, hv, hk => by
    cases p with
    | cons k p => simp [kindAt] at hk
    | nil => cases v <;> simp [decodeV] at hd; subst hd; simp [valGet] at hv; subst hv; simp [getS]
  | .custom _, d, v, t, p, x, hs, hd, hv, hk => by
    cases p with
    | cons k p => simp [kindAt] at hk
    | nil => simp [decodeV] at hd; subst hd; simp [valGet] at hv; subst hv; simp [getS]
  | .iface, d, v, t, p, x, hs, hd, hv, hk => by
    cases p with
    | cons k p => simp [kindAt] at hk
    | nil => simp [decodeV] at hd; subst hd; simp [valGet] at hv; subst hv; simp [getS]
  | .slice _, d, v, t, p, x, hs, hd, hv, hk => by
    cases p with
    | cons k p => simp [kindAt] at hk
    | nil => cases v <;> simp [decodeV] at hd; subst hd; simp [valGet] at hv; subst hv; simp [getS]
  | .map _ _, d, v, t, p, x, hs, hd, hv, hk => by
    cases p with
    | cons k p => simp [kindAt] at hk
    | nil => cases v <;> simp [decodeV] at hd; subst hd; simp [valGet] at hv; subst hv; simp [getS]
theorem fields_written : ∀ (fs : List (String × KS)) (dfs : List (String × TV)) (kvs : List (String × Val))
    (tfs : List (String × TV)) (k : String) (p : List String) (v' x : Val),
    shapeF fs dfs = true → decodeFs fs dfs kvs = some tfs → lookupVal kvs k = some v' → valGet v' p = some x →
    (kindAtF fs k p).map isLeafKind = some true → getSF fs tfs k p = some (.atom x)
  | [], dfs, kvs, tfs, k, p, v', x, hs, hd, hl, hv, hk => by simp [kindAtF] at hk
  | (k0, s0) :: fs, [], kvs, tfs, k, p, v', x, hs, hd, hl, hv, hk => by simp [shapeF] at hs
  | (k0, s0) :: fs, (kd, dv) :: dfs, kvs, tfs, k, p, v', x, hs, hd, hl, hv, hk => by
    simp only [shapeF, Bool.and_eq_true] at hs
    simp only [decodeFs] at hd
    by_cases hk0 : (k0 == k) = true
    · have hk0' : k0 = k := by simpa using hk0
      subst hk0'
      simp only [hl] at hd
      cases h1 : decodeV s0 dv v' with
      | none => simp [h1] at hd
      | some t0 =>
        cases h2 : decodeFs fs dfs kvs with
        | none => simp [h1, h2] at hd
        | some rest =>
          simp only [h1, h2, Option.some.injEq] at hd
          subst hd
          simp only [kindAtF, beq_self_eq_true, if_true] at hk
          simp only [getSF, beq_self_eq_true, if_true]
          exact written_reflected s0 dv v' t0 p x hs.1 h1 hv hk
    · simp only [kindAtF, hk0, Bool.false_eq_true, if_false] at hk
      cases hl0 : lookupVal kvs k0 with
      | some v0 =>
        simp only [hl0] at hd
        cases h1 : decodeV s0 dv v0 with
        | none => simp [h1] at hd
        | some t0 =>
          cases h2 : decodeFs fs dfs kvs with
          | none => simp [h1, h2] at hd
          | some rest =>
            simp only [h1, h2, Option.some.injEq] at hd
            subst hd
            simp only [getSF, hk0, Bool.false_eq_true, if_false]
            exact fields_written fs dfs kvs rest k p v' x hs.2 h2 hl hv hk
      | none =>
        simp only [hl0] at hd
        cases h2 : decodeFs fs dfs kvs with
        | none => simp [h2] at hd
        | some rest =>
          simp only [h2, Option.some.injEq] at hd
          subst hd
          simp only [getSF, hk0, Bool.false_eq_true, if_false]
          exact fields_written fs dfs kvs rest k p v' x hs.2 h2 hl hv hk
end

theorem getPath_ptr_decoded (s : KS) (t : TV) (p : List String) (hn : t ≠ .nilp) : getPath (.ptr s) t p = getPath s t p := by
  cases p with
  | nil => simp [getPath]
  | cons k p => cases t <;> simp_all [getPath]

mutual
theorem untouched_unchanged : ∀ (S : KS) (d : TV) (v : Val) (t : TV) (p : List String),
    shape S d = true → decodeV S d v = some t → untouched v p = true → getPath S t p = getPath S d p
  | .ptr s, d, v, t, p, hs, hd, hu => by
    cases p with
    | nil => cases v <;> simp [untouched] at hu
    | cons k p =>
      cases d with
      | nilp =>
        have hd' : decodeV s (zero s) v = some t := by simpa only [decodeV] using hd
        rw [getPath_ptr_decoded s t _ (decode_ne_nil s _ v t hd')]
        simp only [getPath]
        exact untouched_unchanged s (zero s) v t (k :: p) (shape_zero s) hd' hu
      | atom a =>
        have hd' : decodeV s (.atom a) v = some t := by simpa only [decodeV] using hd
        rw [getPath_ptr_decoded s t _ (decode_ne_nil s _ v t hd')]
        simp only [getPath]
        exact untouched_unchanged s (.atom a) v t (k :: p) (by simpa only [shape] using hs) hd' hu
      | struct fs =>
        have hd' : decodeV s (.struct fs) v = some t := by simpa only [decodeV] using hd
        rw [getPath_ptr_decoded s t _ (decode_ne_nil s _ v t hd')]
        simp only [getPath]
        exact untouched_unchanged s (.struct fs) v t (k :: p) (by simpa only [shape] using hs) hd' hu
  | .struct fs, d, v, t, p, hs, hd, hu => by
    cases p with
    | nil => cases v <;> simp [untouched] at hu
    | cons k p =>
      cases d with
      | atom a => simp [shape] at hs
      | nilp => simp [shape] at hs
      | struct dfs =>
        cases v with
        | scalar n => simp [decodeV] at hd
        | list vs => simp [decodeV] at hd
        | map kvs =>
          simp only [decodeV] at hd
          split at hd
          · cases hf : decodeFs fs dfs kvs with
            | none => simp [hf] at hd
            | some tfs =>
              simp only [hf, Option.map_some, Option.some.injEq] at hd
              subst hd
              simp only [shape] at hs
              simp only [getPath]
              exact fields_untouched fs dfs kvs tfs k p hs hf hu
          · simp at hd
  | .scalar, d, v, t, p, hs, hd, hu => by
    cases v <;> simp [decodeV] at hd; cases p <;> simp [untouched] at hu
  | .opaque, d, v, t, p, hs, hd, hu => by
    cases v <;> simp [decodeV] at hd; cases p <;> simp [untouched] at hu
  | .text _, d, v, t, p, hs, hd, hu => by
    cases v <;> simp [decodeV] at hd; cases p <;> simp [untouched] at hu
  | .slice _, d, v, t, p, hs, hd, hu => by
    cases v <;> simp [decodeV] at hd; cases p <;> simp [untouched] at hu
  | .custom _, d, v, t, p, hs, hd, hu => by
    cases p with
    | nil => cases v <;> simp [untouched] at hu
    | cons k p => simp [getPath]
  | .iface, d, v, t, p, hs, hd, hu => by
    cases p with
    | nil => cases v <;> simp [untouched] at hu
    | cons k p => simp [getPath]
  | .map _ _, d, v, t, p, hs, hd, hu => by
    cases p with
    | nil => cases v <;> simp [untouched] at hu
    | cons k p => simp [getPath]
theorem fields_untouched : ∀ (fs : List (String × KS)) (dfs : List (String × TV)) (kvs : List (String × Val))
    (tfs : List (String × TV)) (k : String) (p : List String),
    shapeF fs dfs = true → decodeFs fs dfs kvs = some tfs → untouched (.map kvs) (k :: p) = true →
    getF fs tfs k p = getF fs dfs k p
  | [], dfs, kvs, tfs, k, p, hs, hd, hu => by simp [getF]
  | (k0, s0) :: fs, [], kvs, tfs, k, p, hs, hd, hu => by simp [shapeF] at hs
  | (k0, s0) :: fs, (kd, dv) :: dfs, kvs, tfs, k, p, hs, hd, hu => by
    simp only [shapeF, Bool.and_eq_true] at hs
    simp only [decodeFs] at hd
    cases hl0 : lookupVal kvs k0 with
    | some v0 =>
      simp only [hl0] at hd
      cases h1 : decodeV s0 dv v0 with
      | none => simp [h1] at hd
      | some t0 =>
        cases h2 : decodeFs fs dfs kvs with
        | none => simp [h1, h2] at hd
        | some rest =>
          simp only [h1, h2, Option.some.injEq] at hd
          subst hd
          simp only [getF]
          by_cases hk0 : (k0 == k) = true
          · have hk0' : k0 = k := by simpa using hk0
            subst hk0'
            simp only [beq_self_eq_true, if_true]
            simp only [untouched, hl0] at hu
            exact untouched_unchanged s0 dv v0 t0 p hs.1 h1 hu
          · simp only [hk0, Bool.false_eq_true, if_false]
            exact fields_untouched fs dfs kvs rest k p hs.2 h2 hu
    | none =>
      simp only [hl0] at hd
      cases h2 : decodeFs fs dfs kvs with
      | none => simp [h2] at hd
      | some rest =>
        simp only [h2, Option.some.injEq] at hd
        subst hd
        simp only [getF]
        by_cases hk0 : (k0 == k) = true
        · simp only [hk0, if_true]
        · simp only [hk0, Bool.false_eq_true, if_false]
          exact fields_untouched fs dfs kvs rest k p hs.2 h2 hu
end

mutual
theorem decode_shape : ∀ (S : KS) (d : TV) (v : Val) (t : TV), shape S d = true → decodeV S d v = some t → shape S t = true
  | .ptr s, d, v, t, hs, hd => by
    have hd' : ∃ d', shape s d' = true ∧ decodeV s d' v = some t := by
      cases d with
      | nilp => exact ⟨zero s, shape_zero s, by simpa only [decodeV] using hd⟩
      | atom a => exact ⟨.atom a, by simpa only [shape] using hs, by simpa only [decodeV] using hd⟩
      | struct fs => exact ⟨.struct fs, by simpa only [shape] using hs, by simpa only [decodeV] using hd⟩
    obtain ⟨d', hs', hd''⟩ := hd'
    have := decode_shape s d' v t hs' hd''
    have hn := decode_ne_nil s d' v t hd''
    cases t <;> simp_all [shape]
  | .struct fs, d, v, t, hs, hd => by
    cases d with
    | atom a => simp [shape] at hs
    | nilp => simp [shape] at hs
    | struct dfs =>
      cases v with
      | scalar n => simp [decodeV] at hd
      | list vs => simp [decodeV] at hd
      | map kvs =>
        simp only [decodeV] at hd
        split at hd
        · cases hf : decodeFs fs dfs kvs with
          | none => simp [hf] at hd
          | some tfs =>
            simp only [hf, Option.map_some, Option.some.injEq] at hd
            subst hd
            simp only [shape] at hs ⊢
            exact decodeFs_shape fs dfs kvs tfs hs hf
        · simp at hd
  | .scalar, d, v, t, hs, hd => by cases v <;> simp [decodeV] at hd; subst hd; rfl
  | .opaque, d, v, t, hs, hd => by cases v <;> simp [decodeV] at hd; subst hd; rfl
  | .text _, d, v, t, hs, hd => by cases v <;> simp [decodeV] at hd; subst hd; rfl
  | .slice _, d, v, t, hs, hd => by cases v <;> simp [decodeV] at hd; subst hd; rfl
  | .map _ _, d, v, t, hs, hd => by cases v <;> simp [decodeV] at hd; subst hd; rfl
  | .custom _, d, v, t, hs, hd => by simp [decodeV] at hd; subst hd; rfl
  | .iface, d, v, t, hs, hd => by simp [decodeV] at hd; subst hd; rfl
theorem decodeFs_shape : ∀ (fs : List (String × KS)) (dfs : List (String × TV)) (kvs : List (String × Val))
    (tfs : List (String × TV)), shapeF fs dfs = true → decodeFs fs dfs kvs = some tfs → shapeF fs tfs = true
  | [], dfs, kvs, tfs, hs, hd => by simp [decodeFs] at hd; subst hd; rfl
  | (k0, s0) :: fs, [], kvs, tfs, hs, hd => by simp [shapeF] at hs
  | (k0, s0) :: fs, (kd, dv) :: dfs, kvs, tfs, hs, hd => by
    simp only [shapeF, Bool.and_eq_true] at hs
    simp only [decodeFs] at hd
    cases hl0 : lookupVal kvs k0 with
    | some v0 =>
      simp only [hl0] at hd
      cases h1 : decodeV s0 dv v0 with
      | none => simp [h1] at hd
      | some t0 =>
        cases h2 : decodeFs fs dfs kvs with
        | none => simp [h1, h2] at hd
        | some rest =>
          simp only [h1, h2, Option.some.injEq] at hd
          subst hd
          simp only [shapeF, decode_shape s0 dv v0 t0 hs.1 h1, decodeFs_shape fs dfs kvs rest hs.2 h2, Bool.and_self]
    | none =>
      simp only [hl0] at hd
      cases h2 : decodeFs fs dfs kvs with
      | none => simp [h2] at hd
      | some rest =>
        simp only [h2, Option.some.injEq] at hd
        subst hd
        simp only [shapeF, hs.1, decodeFs_shape fs dfs kvs rest hs.2 h2, Bool.and_self]
end

/-- what the effective configuration shows for a leaf of kind `k` holding `x` -/
def shownAs (k : Option KS) (x : Val) : Option EV := k.map (fun k => encodeV k (.atom x))

theorem kindAt_ptr_shown (s : KS) (p : List String) (x : Val) :
    shownAs (kindAt (.ptr s) p) x = shownAs (kindAt s p) x := by
  cases p <;> simp [kindAt, shownAs, encodeV]

mutual
theorem effective_shows : ∀ (S : KS) (t : TV) (p : List String) (x : Val),
    shape S t = true → getS S t p = some (.atom x) → (kindAt S p).map isLeafKind = some true →
    evGet (encodeV S t) p = shownAs (kindAt S p) x
  | .ptr s, t, p, x, hs, hg, hk => by
    cases t with
    | nilp => cases p <;> simp [getS] at hg
    | atom a =>
      rw [getS_ptr s _ p (by simp)] at hg
      rw [kindAt_ptr_leaf] at hk
      rw [kindAt_ptr_shown]
      simp only [encodeV]
      exact effective_shows s (.atom a) p x (by simpa only [shape] using hs) hg hk
    | struct tfs =>
      rw [getS_ptr s _ p (by simp)] at hg
      rw [kindAt_ptr_leaf] at hk
      rw [kindAt_ptr_shown]
      simp only [encodeV]
      exact effective_shows s (.struct tfs) p x (by simpa only [shape] using hs) hg hk
  | .struct fs, t, p, x, hs, hg, hk => by
    cases p with
    | nil => simp [kindAt, isLeafKind] at hk
    | cons k p =>
      cases t with
      | atom a => simp [shape] at hs
      | nilp => simp [shape] at hs
      | struct tfs =>
        simp only [shape] at hs
        simp only [getS] at hg
        simp only [kindAt] at hk ⊢
        simp only [encodeV, evGet]
        exact effectiveF fs tfs k p x hs hg hk
  | .scalar, t, p, x, hs, hg, hk => by
    cases p with
    | cons k p => simp [kindAt] at hk
    | nil => simp [getS] at hg; subst hg; simp [evGet, kindAt, shownAs]
  | .opaque, t, p, x, hs, hg, hk => by
    cases p with
    | cons k p => simp [kindAt] at hk
    | nil => simp [getS] at hg; subst hg; simp [evGet, kindAt, shownAs]
  | .text _, t, p, x, hs, hg, hk => by
    cases p with
    | cons k p => simp [kindAt] at hk
    | nil => simp [getS] at hg; subst hg; simp [evGet, kindAt, shownAs]
  | .custom _, t, p, x, hs, hg, hk => by
    cases p with
    | cons k p => simp [kindAt] at hk
    | nil => simp [getS] at hg; subst hg; simp [evGet, kindAt, shownAs]
  | .iface, t, p, x, hs, hg, hk => by
    cases p with
    | cons k p => simp [kindAt] at hk
    | nil => simp [getS] at hg; subst hg; simp [evGet, kindAt, shownAs]
  | .slice _, t, p, x, hs, hg, hk => by
    cases p with
    | cons k p => simp [kindAt] at hk
    | nil => simp [getS] at hg; subst hg; simp [evGet, kindAt, shownAs]
  | .map _ _, t, p, x, hs, hg, hk => by
    cases p with
    | cons k p => simp [kindAt] at hk
    | nil => simp [getS] at hg; subst hg; simp [evGet, kindAt, shownAs]
theorem effectiveF : ∀ (fs : List (String × KS)) (tfs : List (String × TV)) (k : String) (p : List String) (x : Val),
    shapeF fs tfs = true → getSF fs tfs k p = some (.atom x) → (kindAtF fs k p).map isLeafKind = some true →
    (((encodeF fs tfs).find? (fun q => q.1 == k)).map (·.2)).bind (fun e => evGet e p)
      = shownAs (kindAtF fs k p) x
  | [], tfs, k, p, x, hs, hg, hk => by simp [kindAtF] at hk
  | (k0, s0) :: fs, [], k, p, x, hs, hg, hk => by simp [shapeF] at hs
  | (k0, s0) :: fs, (kt, t0) :: tfs, k, p, x, hs, hg, hk => by
    simp only [shapeF, Bool.and_eq_true] at hs
    simp only [getSF] at hg
    simp only [kindAtF] at hk ⊢
    simp only [encodeF, List.find?]
    by_cases hk0 : (k0 == k) = true
    · simp only [hk0, if_true] at hg hk ⊢
      simp only [Option.map_some, Option.bind_some]
      exact effective_shows s0 t0 p x hs.1 hg hk
    · simp only [hk0, Bool.false_eq_true, if_false] at hg hk ⊢
      exact effectiveF fs tfs k p x hs.2 hg hk
end
end OtelVerif.C13
