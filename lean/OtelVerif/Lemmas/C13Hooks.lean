import OtelVerif.Lemmas.C13Faithful
/-!
# C13 — lemmas about custom `Unmarshal` fix-ups (`setPath`, `preHook`, `postHook`, `decodeC`); core Lean only
-/
namespace OtelVerif.C13

theorem incomparable_cons {k : String} {q p : List String} (h : incomparable (k :: q) (k :: p) = true) :
    incomparable q p = true := by
  simpa [incomparable, List.isPrefixOf] using h

theorem incomparable_ne_nil_left {q p : List String} (h : incomparable q p = true) : q ≠ [] := by
  intro hq; subst hq; simp [incomparable, List.isPrefixOf] at h

theorem incomparable_ne_nil_right {q p : List String} (h : incomparable q p = true) : p ≠ [] := by
  intro hp; subst hp; simp [incomparable, List.isPrefixOf] at h

mutual
theorem setPath_ne_nil : ∀ (S : KS) (t : TV) (q : List String) (x : TV), t ≠ .nilp → q ≠ [] → setPath S t q x ≠ .nilp
  | S, t, [], x, _, hq => absurd rfl hq
  | .ptr s, t, k :: q, x, ht, _ => by
    cases t with
    | nilp => exact absurd rfl ht
    | atom a => simp only [setPath]; exact setPath_ne_nil s _ (k :: q) x (by simp) (by simp)
    | struct tfs => simp only [setPath]; exact setPath_ne_nil s _ (k :: q) x (by simp) (by simp)
  | .struct fs, t, k :: q, x, ht, _ => by cases t <;> simp_all [setPath]
  | .scalar, t, k :: q, x, ht, _ => by simpa [setPath] using ht
  | .opaque, t, k :: q, x, ht, _ => by simpa [setPath] using ht
  | .text _, t, k :: q, x, ht, _ => by simpa [setPath] using ht
  | .custom _, t, k :: q, x, ht, _ => by simpa [setPath] using ht
  | .iface, t, k :: q, x, ht, _ => by simpa [setPath] using ht
  | .slice _, t, k :: q, x, ht, _ => by simpa [setPath] using ht
  | .map _ _, t, k :: q, x, ht, _ => by simpa [setPath] using ht
end

mutual
theorem getS_setPath_other : ∀ (S : KS) (t : TV) (q p : List String) (x : TV),
    incomparable q p = true → getS S (setPath S t q x) p = getS S t p
  | S, t, [], p, x, h => absurd rfl (incomparable_ne_nil_left h)
  | S, t, k :: q, [], x, h => absurd rfl (incomparable_ne_nil_right h)
  | .ptr s, t, k :: q, k2 :: p, x, h => by
    cases t with
    | nilp => simp [setPath]
    | atom a =>
      simp only [setPath]
      rw [getS_ptr s _ _ (setPath_ne_nil s _ (k :: q) x (by simp) (by simp)), getS_ptr s _ _ (by simp)]
      exact getS_setPath_other s _ (k :: q) (k2 :: p) x h
    | struct tfs =>
      simp only [setPath]
      rw [getS_ptr s _ _ (setPath_ne_nil s _ (k :: q) x (by simp) (by simp)), getS_ptr s _ _ (by simp)]
      exact getS_setPath_other s _ (k :: q) (k2 :: p) x h
  | .struct fs, t, k :: q, k2 :: p, x, h => by
    cases t with
    | nilp => simp [setPath]
    | atom a => simp [setPath]
    | struct tfs => simp only [setPath, getS]; exact getSF_setF_other fs tfs k q k2 p x h
  | .scalar, t, k :: q, k2 :: p, x, h => by simp [setPath]
  | .opaque, t, k :: q, k2 :: p, x, h => by simp [setPath]
  | .text _, t, k :: q, k2 :: p, x, h => by simp [setPath]
  | .custom _, t, k :: q, k2 :: p, x, h => by simp [setPath]
  | .iface, t, k :: q, k2 :: p, x, h => by simp [setPath]
  | .slice _, t, k :: q, k2 :: p, x, h => by simp [setPath]
  | .map _ _, t, k :: q, k2 :: p, x, h => by simp [setPath]
theorem getSF_setF_other : ∀ (fs : List (String × KS)) (tfs : List (String × TV)) (k : String) (q : List String)
    (k2 : String) (p : List String) (x : TV), incomparable (k :: q) (k2 :: p) = true →
    getSF fs (setF fs tfs k q x) k2 p = getSF fs tfs k2 p
  | [], tfs, k, q, k2, p, x, h => by simp [setF]
  | (k', s) :: fs, [], k, q, k2, p, x, h => by simp [setF]
  | (k', s) :: fs, (kt, t) :: tfs, k, q, k2, p, x, h => by
    simp only [setF]
    by_cases hk : (k' == k) = true
    · simp only [hk, if_true, getSF]
      by_cases hk2 : (k' == k2) = true
      · have e1 : k' = k := by simpa using hk
        have e2 : k' = k2 := by simpa using hk2
        subst e1; subst e2
        simp only [beq_self_eq_true, if_true]
        exact getS_setPath_other s t q p x (incomparable_cons h)
      · simp only [hk2, Bool.false_eq_true, if_false]
    · simp only [hk, Bool.false_eq_true, if_false, getSF]
      by_cases hk2 : (k' == k2) = true
      · simp only [hk2, if_true]
      · simp only [hk2, Bool.false_eq_true, if_false]
        exact getSF_setF_other fs tfs k q k2 p x h
end

theorem shape_ptr_of_ne_nil (s : KS) (r : TV) (hn : r ≠ .nilp) : shape (.ptr s) r = shape s r := by
  cases r <;> simp_all [shape]

mutual
theorem shape_setPath : ∀ (S : KS) (t : TV) (q : List String) (x : TV), shape S t = true →
    (∀ sub, kindAt S q = some sub → shape sub x = true) → shape S (setPath S t q x) = true
  | S, t, [], x, _, hx => by simp only [setPath]; exact hx S (by simp [kindAt])
  | .ptr s, t, k :: q, x, hs, hx => by
    cases t with
    | nilp => simp [setPath, shape]
    | atom a =>
      simp only [setPath]
      rw [shape_ptr_of_ne_nil s _ (setPath_ne_nil s _ (k :: q) x (by simp) (by simp))]
      exact shape_setPath s _ (k :: q) x (by simpa only [shape] using hs) (fun sub h => hx sub (by simpa only [kindAt] using h))
    | struct tfs =>
      simp only [setPath]
      rw [shape_ptr_of_ne_nil s _ (setPath_ne_nil s _ (k :: q) x (by simp) (by simp))]
      exact shape_setPath s _ (k :: q) x (by simpa only [shape] using hs) (fun sub h => hx sub (by simpa only [kindAt] using h))
  | .struct fs, t, k :: q, x, hs, hx => by
    cases t with
    | nilp => simp [shape] at hs
    | atom a => simp [shape] at hs
    | struct tfs =>
      simp only [setPath, shape] at hs ⊢
      exact shapeF_setF fs tfs k q x hs (fun sub h => hx sub (by simpa only [kindAt] using h))
  | .scalar, t, k :: q, x, hs, _ => by simpa [setPath] using hs
  | .opaque, t, k :: q, x, hs, _ => by simpa [setPath] using hs
  | .text _, t, k :: q, x, hs, _ => by simpa [setPath] using hs
  | .custom _, t, k :: q, x, hs, _ => by simpa [setPath] using hs
  | .iface, t, k :: q, x, hs, _ => by simpa [setPath] using hs
  | .slice _, t, k :: q, x, hs, _ => by simpa [setPath] using hs
  | .map _ _, t, k :: q, x, hs, _ => by simpa [setPath] using hs
theorem shapeF_setF : ∀ (fs : List (String × KS)) (tfs : List (String × TV)) (k : String) (q : List String) (x : TV),
    shapeF fs tfs = true → (∀ sub, kindAtF fs k q = some sub → shape sub x = true) → shapeF fs (setF fs tfs k q x) = true
  | [], tfs, k, q, x, hs, _ => by simpa [setF] using hs
  | (k', s) :: fs, [], k, q, x, hs, _ => by simp [shapeF] at hs
  | (k', s) :: fs, (kt, t) :: tfs, k, q, x, hs, hx => by
    simp only [shapeF, Bool.and_eq_true] at hs
    simp only [setF]
    by_cases hk : (k' == k) = true
    · simp only [hk, if_true, shapeF, hs.2, Bool.and_true]
      exact shape_setPath s t q x hs.1 (fun sub h => hx sub (by simpa only [kindAtF, hk, if_true] using h))
    · simp only [hk, Bool.false_eq_true, if_false, shapeF, hs.1, Bool.true_and]
      exact shapeF_setF fs tfs k q x hs.2 (fun sub h => hx sub (by simpa only [kindAtF, hk, Bool.false_eq_true, if_false] using h))
end

theorem shape_atom_of_leaf : ∀ (s : KS) (a : Val), isLeafKind s = true → shape s (.atom a) = true
  | .struct _, _, h => by simp [isLeafKind] at h
  | .ptr s, a, h => by simp only [isLeafKind] at h; simp only [shape]; exact shape_atom_of_leaf s a h
  | .scalar, _, _ => rfl | .opaque, _, _ => rfl | .text _, _, _ => rfl | .custom _, _, _ => rfl
  | .iface, _, _ => rfl | .slice _, _, _ => rfl | .map _ _, _, _ => rfl

theorem shape_preHook (S : KS) (v : Val) (d : TV) (h : Hook) (hs : shape S d = true) : shape S (preHook S v d h) = true := by
  cases h with
  | aliasIfUnset q src dst => exact hs
  | dropUnset paths => exact hs
  | normalizes paths => exact hs
  | resetWhenSet q =>
    simp only [preHook]
    split
    · apply shape_setPath S d q _ hs
      intro sub hk
      simp only [hk, Option.elim]
      exact shape_zero sub
    · exact hs

theorem shape_dropFold (S : KS) (v : Val) : ∀ (paths : List (List String)) (t : TV), shape S t = true →
    (paths.all (fun q => match kindAt S q with | some (.ptr _) => true | _ => false)) = true →
    shape S (paths.foldl (fun t q => if isSet v q then t else setPath S t q .nilp) t) = true
  | [], t, hs, _ => hs
  | q :: qs, t, hs, hw => by
    simp only [List.all_cons, Bool.and_eq_true] at hw
    simp only [List.foldl_cons]
    apply shape_dropFold S v qs _ _ hw.2
    split
    · exact hs
    · apply shape_setPath S t q _ hs
      intro sub hk
      have := hw.1
      rw [hk] at this
      cases sub <;> simp_all [shape]

theorem shape_postHook (S : KS) (v : Val) (t : TV) (h : Hook) (hw : h.wellPlaced S = true) (hs : shape S t = true) :
    shape S (postHook S v t h) = true := by
  cases h with
  | resetWhenSet q => exact hs
  | normalizes paths => exact hs
  | dropUnset paths => exact shape_dropFold S v paths t hs hw
  | aliasIfUnset q src dst =>
    simp only [postHook]
    split
    · split
      · apply shape_setPath S t _ _ hs
        intro sub hk
        simp only [Hook.wellPlaced, Bool.and_eq_true, beq_iff_eq] at hw
        have h2 := hw.2
        rw [hk] at h2
        exact shape_atom_of_leaf sub _ (by simpa using h2)
      · exact hs
    · exact hs

theorem getS_dropFold (S : KS) (v : Val) (p : List String) : ∀ (paths : List (List String)) (t : TV),
    (paths.all (fun q => isSet v q || incomparable q p)) = true →
    getS S (paths.foldl (fun t q => if isSet v q then t else setPath S t q .nilp) t) p = getS S t p
  | [], t, _ => rfl
  | q :: qs, t, hc => by
    simp only [List.all_cons, Bool.and_eq_true] at hc
    simp only [List.foldl_cons]
    rw [getS_dropFold S v p qs _ hc.2]
    split
    · rfl
    · rename_i hset
      have : incomparable q p = true := by
        cases h1 : isSet v q <;> simp_all
      exact getS_setPath_other S t q p .nilp this

theorem getS_postHook (S : KS) (v : Val) (t : TV) (p : List String) (h : Hook) (hc : h.compatible v p = true) :
    getS S (postHook S v t h) p = getS S t p := by
  cases h with
  | resetWhenSet q => rfl
  | normalizes paths => rfl
  | dropUnset paths => exact getS_dropFold S v p paths t hc
  | aliasIfUnset q src dst =>
    simp only [postHook]
    split
    · rename_i hf
      simp only [Hook.compatible, hf, Bool.not_true, Bool.false_or] at hc
      split
      · exact getS_setPath_other S t _ p _ hc
      · rfl
    · rfl

theorem shape_preFold (S : KS) (v : Val) : ∀ (hooks : List Hook) (d : TV), shape S d = true →
    shape S (hooks.foldl (preHook S v) d) = true
  | [], d, hs => hs
  | h :: hs', d, hs => by simp only [List.foldl_cons]; exact shape_preFold S v hs' _ (shape_preHook S v d h hs)

theorem shape_postFold (S : KS) (v : Val) : ∀ (hooks : List Hook) (t : TV), (∀ h ∈ hooks, h.wellPlaced S = true) →
    shape S t = true → shape S (hooks.foldl (postHook S v) t) = true
  | [], t, _, hs => hs
  | h :: hs', t, hw, hs => by
    simp only [List.foldl_cons]
    exact shape_postFold S v hs' _ (fun h' hm => hw h' (List.mem_cons_of_mem _ hm))
      (shape_postHook S v t h (hw h (List.mem_cons_self ..)) hs)

theorem getS_postFold (S : KS) (v : Val) (p : List String) : ∀ (hooks : List Hook) (t : TV),
    (∀ h ∈ hooks, h.compatible v p = true) → getS S (hooks.foldl (postHook S v) t) p = getS S t p
  | [], t, _ => rfl
  | h :: hs', t, hc => by
    simp only [List.foldl_cons]
    rw [getS_postFold S v p hs' _ (fun h' hm => hc h' (List.mem_cons_of_mem _ hm))]
    exact getS_postHook S v t p h (hc h (List.mem_cons_self ..))

/-- a key written at a leaf position holds the written value after a component's own `Unmarshal`
(generic decode with fix-ups), unless a fix-up that fires rewrites that very position -/
theorem written_reflected_hooked (hooks : List Hook) (S : KS) (d : TV) (v : Val) (t : TV) (p : List String) (x : Val)
    (hs : shape S d = true) (hd : decodeC hooks S d v = some t) (hv : valGet v p = some x)
    (hk : (kindAt S p).map isLeafKind = some true) (hc : ∀ h ∈ hooks, h.compatible v p = true) :
    getS S t p = some (.atom x) := by
  unfold decodeC at hd
  cases h0 : decodeV S (hooks.foldl (preHook S v) d) v with
  | none => simp [h0] at hd
  | some t0 =>
    simp only [h0, Option.map_some, Option.some.injEq] at hd
    subst hd
    rw [getS_postFold S v p hooks t0 hc]
    exact written_reflected S _ v t0 p x (shape_preFold S v hooks d hs) h0 hv hk

theorem decodeC_shape (hooks : List Hook) (S : KS) (d : TV) (v : Val) (t : TV)
    (hs : shape S d = true) (hw : ∀ h ∈ hooks, h.wellPlaced S = true) (hd : decodeC hooks S d v = some t) :
    shape S t = true := by
  unfold decodeC at hd
  cases h0 : decodeV S (hooks.foldl (preHook S v) d) v with
  | none => simp [h0] at hd
  | some t0 =>
    simp only [h0, Option.map_some, Option.some.injEq] at hd
    subst hd
    exact shape_postFold S v hooks t0 hw (decode_shape S _ v t0 (shape_preFold S v hooks d hs) h0)
end OtelVerif.C13
