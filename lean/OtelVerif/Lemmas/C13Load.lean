import OtelVerif.Model.C13Load
/-! # C13 — lemmas: the interpreter of the regenerated statements of `Configs.Unmarshal` equals the hand model `loadAll` -/
namespace OtelVerif.C13
open OtelVerif.Gen

theorem body_eq (d : String → Obj) (s : LoadSt) (e : CId × List (String × String)) :
    runBody ConfigsLoad.body d {} s e = loadStep d s e := by
  simp [runBody, ConfigsLoad.body, List.foldl, lstep, loadStep, List.lookup, heapSet]

theorem before_eq (d : String → Obj) (s0 : LoadSt) :
    ConfigsLoad.before.foldl (lstep d (("", ""), [])) (s0, {}) = ({ s0 with out := [] }, {}) := by
  simp [ConfigsLoad.before, List.foldl, lstep]

theorem foldl_congr {α β : Type} (f g : β → α → β) (h : ∀ b a, f b a = g b a) : ∀ (l : List α) (b : β), l.foldl f b = l.foldl g b
  | [], _ => rfl
  | a :: l, b => by simp only [List.foldl, h, foldl_congr f g h l]

theorem load_eq (d : String → Obj) (entries : List (CId × List (String × String))) :
    runLoad ConfigsLoad.before ConfigsLoad.body d entries = loadAll d entries := by
  simp only [runLoad, runLoadFrom, before_eq, loadAll]
  exact foldl_congr _ _ (fun s e => body_eq d s e) entries _

/-- successive loads: whatever an earlier load left in `c.cfgs`, after the next `Unmarshal` only the ids of THAT document are present -/
theorem out_ids (d : String → Obj) : ∀ (entries : List (CId × List (String × String))) (s : LoadSt) (id : CId),
    id ∈ ((entries.foldl (loadStep d) s).out.map (·.1)) → id ∈ entries.map (·.1) ∨ id ∈ s.out.map (·.1)
  | [], s, id, h => Or.inr h
  | e :: es, s, id, h => by
    have := out_ids d es (loadStep d s e) id h
    rcases this with h1 | h1
    · exact Or.inl (by simp only [List.map_cons, List.mem_cons]; exact Or.inr h1)
    · simp only [loadStep, List.map_cons, List.mem_cons] at h1
      rcases h1 with h1 | h1
      · exact Or.inl (by simp only [List.map_cons, List.mem_cons]; exact Or.inl h1)
      · exact Or.inr h1

theorem lookup_mem : ∀ (l : List (CId × Nat)) (id : CId) (a : Nat), l.lookup id = some a → id ∈ l.map (·.1)
  | [], _, _, h => by simp [List.lookup] at h
  | (k, v) :: l, id, a, h => by
    by_cases hk : (id == k) = true
    · simp only [List.map_cons, List.mem_cons]; exact Or.inl (by simpa using hk)
    · have hk' : (id == k) = false := by simpa using hk
      simp only [List.lookup, hk'] at h
      simp only [List.map_cons, List.mem_cons]; exact Or.inr (lookup_mem l id a h)

theorem reload_forgets (d : String → Obj) (s0 : LoadSt) (entries : List (CId × List (String × String))) (id : CId)
    (h : id ∉ entries.map (·.1)) : (runLoadFrom ConfigsLoad.before ConfigsLoad.body d s0 entries).result id = none := by
  simp only [runLoadFrom, before_eq]
  have hc := foldl_congr (runBody ConfigsLoad.body d {}) (loadStep d) (fun s e => body_eq d s e) entries { s0 with out := [] }
  rw [hc]
  have : id ∉ (entries.foldl (loadStep d) { s0 with out := [] }).out.map (·.1) := by
    intro hm
    rcases out_ids d entries _ id hm with h1 | h1
    · exact h h1
    · simp at h1
  simp only [LoadSt.result]
  cases hl : (entries.foldl (loadStep d) { s0 with out := [] }).out.lookup id with
  | none => rfl
  | some a =>
    exact absurd (lookup_mem _ id a hl) this
end OtelVerif.C13
