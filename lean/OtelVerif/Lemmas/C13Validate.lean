import OtelVerif.Model.C13Validate
/-!
# C13 — lemmas: the interpreter of the regenerated `Config.Validate` statements equals the hand model

The lemmas are stated for the statement SHAPES (messages, variable names and argument lists are universally
quantified), the final equalities for the regenerated lists.
-/
namespace OtelVerif.C13
open OtelVerif.Gen

theorem evalPhases_cons (c : Top) (ph : Phase) (rest : List Phase) :
    evalPhases c (ph :: rest) = if (phaseErrs c ph).isEmpty then evalPhases c rest else phaseErrs c ph := by
  simp only [evalPhases]
  cases phaseErrs c ph <;> simp

theorem matchList_eq {α : Type} (l x : List α) :
    (match l with | e :: es => e :: es | [] => x) = if l.isEmpty then x else l := by
  cases l <;> simp

theorem clash_eq (c : Top) (v : String) (f1 f2 : String) (n1 n2 : Nat) (a2 b2 : List (String × String)) :
    phaseErrs c (.clash .connectors v [(.exporters, ⟨.ambiguousExporter, f1, n1, a2⟩), (.receivers, ⟨.ambiguousReceiver, f2, n2, b2⟩)])
      = c.connectors.filterMap (connErr c) := by
  simp only [phaseErrs, Top.ids]
  congr 1
  funext id
  simp only [List.map, Top.look, Top.ids, connErr, EK.mk]
  by_cases h1 : id ∈ c.exporters
  · simp [h1, firstSome]
  · by_cases h2 : id ∈ c.receivers
    · simp [h1, h2, firstSome]
    · simp [h1, h2, firstSome]

theorem loops_eq (c : Top) (pid : Nat) (p : Pipe) (v1 v2 v3 : String) (m1 m2 m3 : String) (n1 n2 n3 : Nat) (a1 a2 a3 : List (String × String)) :
    firstSome ([ (⟨.recv, v1, [.present .receivers, .present .connectors], ⟨.danglingReceiver, m1, n1, a1⟩⟩ : RefLoop),
                 ⟨.procs, v2, [.nonNil .processors], ⟨.danglingProcessor, m2, n2, a2⟩⟩,
                 ⟨.exps, v3, [.present .exporters, .present .connectors], ⟨.danglingExporter, m3, n3, a3⟩⟩ ].map (loopErr c pid p))
      = pipeRefErr c pid p := by
  simp only [List.map, loopErr, Pipe.get, pipeRefErr, List.any_cons, List.any_nil, Bool.or_false, Top.look, Top.ids]
  cases h1 : p.recv.find? (fun r => !(c.receivers.contains r || c.connectors.contains r)) with
  | some r => simp [firstSome, EK.mk]
  | none =>
    cases h2 : p.procs.find? (fun r => !configured c.processors r) with
    | some r => simp [firstSome, EK.mk]
    | none =>
      cases h3 : p.exps.find? (fun r => !(c.exporters.contains r || c.connectors.contains r)) with
      | some r => simp [firstSome, EK.mk]
      | none => simp [firstSome]

theorem root_regen (c : Top) : evalPhases c ConfigValidate.rootPhases = rootErrs c := by
  unfold rootErrs
  simp only [ConfigValidate.rootPhases, evalPhases_cons, clash_eq, matchList_eq]
  simp only [phaseErrs, loops_eq, Top.secEmpty, List.all_cons, List.all_nil, Bool.and_true, EK.mk, evalPhases, Top.look]
  by_cases h0 : (c.receivers.isEmpty && (c.exporters.isEmpty && (c.processors.isEmpty && (c.connectors.isEmpty && c.extensions.isEmpty)))) = true
  · have h0' : (c.receivers.isEmpty && c.exporters.isEmpty && c.processors.isEmpty && c.connectors.isEmpty && c.extensions.isEmpty) = true := by
      simpa [Bool.and_assoc] using h0
    simp [h0, h0']
  · have h0' : ¬ (c.receivers.isEmpty && c.exporters.isEmpty && c.processors.isEmpty && c.connectors.isEmpty && c.extensions.isEmpty) = true := by
      simpa [Bool.and_assoc] using h0
    simp only [h0, h0']
    by_cases h1 : c.receivers.isEmpty = true
    · simp [h1]
    · by_cases h2 : c.exporters.isEmpty = true
      · simp [h1, h2]
      · simp only [h1, h2]
        cases h3 : c.connectors.filterMap (connErr c) with
        | cons e es => simp
        | nil =>
          simp only [List.isEmpty_nil, if_true]
          cases h4 : c.svcExtensions.find? (fun r => !configured c.extensions r) with
          | some r => simp [h4]
          | none =>
            cases h5 : c.pipelines.filterMap (fun p => pipeRefErr c p.1 p.2) <;> simp [h4, h5]
theorem pipe_regen (pid : Nat) (p : Pipe) : evalPipe pid p ConfigValidate.pipePhases = pipeErr pid p := by
  simp only [ConfigValidate.pipePhases, evalPipe, List.map, pphaseErr, Pipe.get, pipeErr, EK.mk]
  by_cases h1 : p.recv.isEmpty = true
  · simp [h1, firstSome]
  · by_cases h2 : p.exps.isEmpty = true
    · simp [h1, h2, firstSome]
    · cases h3 : firstDup [] p.procs <;> simp [h1, h2, h3, firstSome, EK.mk]

theorem shape_regen (c : Top) : evalShape c ConfigValidate.noPipelines.2 ConfigValidate.pipePhases = shapeErrs c := by
  simp only [evalShape, shapeErrs, pipe_regen, ConfigValidate.noPipelines, EK.mk]

end OtelVerif.C13
