import OtelVerif.Model.C13Walk
/-! # C13 — lemmas: the interpreter of the regenerated clause table of `xconfmap.validate` equals the hand model -/
namespace OtelVerif.C13
open OtelVerif.Gen

theorem case_string : caseOf ValidateWalk.cases "String" = ⟨["default"], true, .none⟩ := by decide
theorem case_ptr : caseOf ValidateWalk.cases "Ptr" = ⟨["Ptr", "Interface"], false, .elem⟩ := by decide
theorem case_struct : caseOf ValidateWalk.cases "Struct" = ⟨["Struct"], true, .fields true⟩ := by decide
theorem case_slice : caseOf ValidateWalk.cases "Slice" = ⟨["Slice", "Array"], true, .elems⟩ := by decide
theorem case_map : caseOf ValidateWalk.cases "Map" = ⟨["Map"], true, .keysVals true⟩ := by decide

mutual
theorem walkG_eq : ∀ t : VT, walkG ValidateWalk.cases t = validate t
  | .leaf e => by simp only [walkG, case_string, validate, if_true]
  | .nilv => rfl
  | .ptr v => by simp only [walkG, case_ptr, validate]; exact walkG_eq v
  | .struct e fs => by simp only [walkG, case_struct, validate, if_true, walkGF_eq fs]
  | .seq e vs => by simp only [walkG, case_slice, validate, if_true, walkGL_eq 0 vs]
  | .map e kvs => by simp only [walkG, case_map, validate, if_true, walkGKV_eq kvs]
theorem walkGF_eq : ∀ fs : List (String × Bool × VT), walkGF ValidateWalk.cases true fs = validateF fs
  | [] => rfl
  | (name, exported, v) :: fs => by
    simp only [walkGF, validateF, walkG_eq v, walkGF_eq fs, Bool.not_true, Bool.or_false]
theorem walkGL_eq : ∀ (i : Nat) (vs : List VT), walkGL ValidateWalk.cases i vs = validateL i vs
  | _, [] => rfl
  | i, v :: vs => by simp only [walkGL, validateL, walkG_eq v, walkGL_eq (i + 1) vs]
theorem walkGKV_eq : ∀ kvs : List (String × VT × VT), walkGKV ValidateWalk.cases true kvs = validateKV kvs
  | [] => rfl
  | (k, kv, v) :: kvs => by simp only [walkGKV, validateKV, walkG_eq kv, walkG_eq v, walkGKV_eq kvs, if_true, List.append_assoc]
end
end OtelVerif.C13
