import OtelVerif.Model.C14Census
/-!
# C14 — lemmas: every value of a type of safe shape is plain (the hypothesis of the fmt theorem below the top level)
-/
namespace OtelVerif.C14

theorem inhab_opq {v : GV} (h : v.inhab .opq = true) : v.isOpq.isSome = true := by
  cases v <;> simp only [GV.inhab] at h <;> first | (simp [GV.isOpq]; done) | (exact absurd h (by decide)) | (simp at h; done)

theorem inhab_other {v : GV} (h : v.inhab .other = true) : v.plainIn = true := by
  cases v <;> simp only [GV.inhab] at h <;> first | (simp [GV.plainIn]; done) | (exact absurd h (by decide)) | (simp at h; done)

mutual
theorem inhab_plain : ∀ (v : GV) (sh : OShape), sh.safe = true → v.inhab sh = true → v.plainIn = true
  | .opq _, _, _, _ => by simp [GV.plainIn]
  | .str _, _, _, _ => by simp [GV.plainIn]
  | .num _, _, _, _ => by simp [GV.plainIn]
  | .nilv, _, _, _ => by simp [GV.plainIn]
  | .nilSlice, _, _, _ => by simp [GV.plainIn]
  | .nilMap, _, _, _ => by simp [GV.plainIn]
  | .ptr v, sh, hs, hi => by
    cases sh <;> simp only [GV.inhab, Bool.false_eq_true] at hi
    rename_i s
    simp only [OShape.safe, beq_iff_eq] at hs
    subst hs
    simp only [GV.plainIn]; exact inhab_opq hi
  | .iface v, sh, hs, hi => by simp [GV.inhab] at hi
  | .slice vs, sh, hs, hi => by
    cases sh <;> simp only [GV.inhab, Bool.false_eq_true] at hi
    simp only [OShape.safe] at hs
    simp only [GV.plainIn]; exact inhabL_plain vs _ hs hi
  | .array vs, sh, hs, hi => by
    cases sh <;> simp only [GV.inhab, Bool.false_eq_true] at hi
    simp only [OShape.safe] at hs
    simp only [GV.plainIn]; exact inhabL_plain vs _ hs hi
  | .map kvs, sh, hs, hi => by
    cases sh <;> simp only [GV.inhab, Bool.false_eq_true] at hi
    rename_i k s
    simp only [OShape.safe, Bool.and_eq_true, beq_iff_eq] at hs
    obtain ⟨hk, hs⟩ := hs
    subst hk
    have := inhabKV_plain kvs s hs hi
    simp only [GV.plainIn, Bool.and_eq_true, Bool.or_eq_true]
    exact ⟨Or.inr this.1, this.2⟩
  | .struct fs, sh, hs, hi => by simp [GV.inhab] at hi
  | .tm _ _ fs, sh, hs, hi => by simp [GV.inhab] at hi
  | .sh _ fs, sh, hs, hi => by simp [GV.inhab] at hi
theorem inhabL_plain : ∀ (vs : List GV) (s : OShape), s.safe = true → GV.inhabL vs s = true → GV.plainInL vs = true
  | [], _, _, _ => by simp [GV.plainInL]
  | v :: vs, s, hs, hi => by
    simp only [GV.inhabL, Bool.and_eq_true] at hi
    simp only [GV.plainInL, Bool.and_eq_true]
    exact ⟨inhab_plain v s hs hi.1, inhabL_plain vs s hs hi.2⟩
theorem inhabKV_plain : ∀ (kvs : List (GV × GV)) (s : OShape), s.safe = true → GV.inhabKV kvs .other s = true →
    (kvs.all (fun p => match p.1 with | .str _ | .num _ => true | _ => false)) = true ∧ GV.plainInKV kvs = true
  | [], _, _, _ => by simp [GV.plainInKV]
  | (a, b) :: kvs, s, hs, hi => by
    simp only [GV.inhabKV, Bool.and_eq_true] at hi
    obtain ⟨⟨ha, hb⟩, hr⟩ := hi
    have ih := inhabKV_plain kvs s hs hr
    have hk := inhab_other ha
    simp only [List.all_cons, GV.plainInKV, Bool.and_eq_true]
    refine ⟨⟨?_, ih.1⟩, ⟨hk, inhab_plain b s hs hb⟩, ih.2⟩
    cases a <;> simp only [GV.inhab] at ha <;> first | rfl | (exact absurd ha (by decide)) | (simp at ha; done)
end
end OtelVerif.C14
