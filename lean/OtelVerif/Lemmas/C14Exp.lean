import OtelVerif.Model.C14Exp
/-! # C14 — lemmas: every plain tree is exported-only; a tree without opaque strings prints the same for all secrets -/
namespace OtelVerif.C14

mutual
theorem plainIn_expIn : ∀ v : GV, v.plainIn = true → v.expIn = true
  | .opq _, _ => rfl
  | .str _, _ => rfl
  | .num _, _ => rfl
  | .nilv, _ => rfl
  | .nilSlice, _ => rfl
  | .nilMap, _ => rfl
  | .ptr v, h => by
    simp only [GV.plainIn] at h
    cases v <;> simp_all [GV.isOpq, GV.expIn]
  | .iface v, h => by simp only [GV.plainIn] at h; simp only [GV.expIn]; exact plainIn_expIn v h
  | .slice vs, h => by simp only [GV.plainIn] at h; simp only [GV.expIn]; exact plainInL_expInL vs h
  | .array vs, h => by simp only [GV.plainIn] at h; simp only [GV.expIn]; exact plainInL_expInL vs h
  | .map kvs, h => by
    simp only [GV.plainIn, Bool.and_eq_true] at h
    simp only [GV.expIn, Bool.and_eq_true]; exact ⟨h.1, plainInKV_expInKV kvs h.2⟩
  | .struct fs, h => by simp only [GV.plainIn] at h; simp only [GV.expIn]; exact plainInF_expInF fs h
  | .tm _ _ fs, h => by simp only [GV.plainIn] at h; simp only [GV.expIn]; exact plainInF_expInF fs h
  | .sh _ fs, h => by simp only [GV.plainIn] at h; simp only [GV.expIn]; exact plainInF_expInF fs h
theorem plainInL_expInL : ∀ vs : List GV, GV.plainInL vs = true → GV.expInL vs = true
  | [], _ => rfl
  | v :: vs, h => by
    simp only [GV.plainInL, Bool.and_eq_true] at h
    simp only [GV.expInL, Bool.and_eq_true]; exact ⟨plainIn_expIn v h.1, plainInL_expInL vs h.2⟩
theorem plainInKV_expInKV : ∀ kvs : List (GV × GV), GV.plainInKV kvs = true → GV.expInKV kvs = true
  | [], _ => rfl
  | (k, v) :: kvs, h => by
    simp only [GV.plainInKV, Bool.and_eq_true] at h
    simp only [GV.expInKV, Bool.and_eq_true]; exact ⟨⟨plainIn_expIn k h.1.1, plainIn_expIn v h.1.2⟩, plainInKV_expInKV kvs h.2⟩
theorem plainInF_expInF : ∀ fs : List (FieldInfo × GV), GV.plainInF fs = true → GV.expInF fs = true
  | [], _ => rfl
  | (fi, v) :: fs, h => by
    simp only [GV.plainInF, Bool.and_eq_true] at h
    simp only [GV.expInF, Bool.and_eq_true, Bool.or_eq_true]; exact ⟨Or.inl ⟨h.1.1, plainIn_expIn v h.1.2⟩, plainInF_expInF fs h.2⟩
end
mutual
theorem rawLeaves_noOpq (ρ₁ ρ₂ : Nat → String) : ∀ (v : GV) (top : Bool), v.noOpq = true → rawLeaves ρ₁ top v = rawLeaves ρ₂ top v
  | .opq _, _, h => by simp [GV.noOpq] at h
  | .str _, _, _ => rfl
  | .num _, _, _ => rfl
  | .nilv, _, _ => rfl
  | .nilSlice, _, _ => rfl
  | .nilMap, _, _ => rfl
  | .ptr v, top, h => by
    simp only [GV.noOpq] at h
    simp only [rawLeaves, rawLeaves_noOpq ρ₁ ρ₂ v false h]
  | .iface v, _, h => by simp only [GV.noOpq] at h; simp only [rawLeaves]; exact rawLeaves_noOpq ρ₁ ρ₂ v false h
  | .slice vs, _, h => by simp only [GV.noOpq] at h; simp only [rawLeaves]; exact rawLeavesL_noOpq ρ₁ ρ₂ vs h
  | .array vs, _, h => by simp only [GV.noOpq] at h; simp only [rawLeaves]; exact rawLeavesL_noOpq ρ₁ ρ₂ vs h
  | .map kvs, _, h => by simp only [GV.noOpq] at h; simp only [rawLeaves]; exact rawLeavesKV_noOpq ρ₁ ρ₂ kvs h
  | .struct fs, _, h => by simp only [GV.noOpq] at h; simp only [rawLeaves]; exact rawLeavesF_noOpq ρ₁ ρ₂ fs h
  | .tm _ _ fs, _, h => by simp only [GV.noOpq] at h; simp only [rawLeaves]; exact rawLeavesF_noOpq ρ₁ ρ₂ fs h
  | .sh _ fs, _, h => by simp only [GV.noOpq] at h; simp only [rawLeaves]; exact rawLeavesF_noOpq ρ₁ ρ₂ fs h
theorem rawLeavesL_noOpq (ρ₁ ρ₂ : Nat → String) : ∀ vs : List GV, GV.noOpqL vs = true → rawLeavesL ρ₁ vs = rawLeavesL ρ₂ vs
  | [], _ => rfl
  | v :: vs, h => by
    simp only [GV.noOpqL, Bool.and_eq_true] at h
    simp only [rawLeavesL, rawLeaves_noOpq ρ₁ ρ₂ v false h.1, rawLeavesL_noOpq ρ₁ ρ₂ vs h.2]
theorem rawLeavesKV_noOpq (ρ₁ ρ₂ : Nat → String) : ∀ kvs : List (GV × GV), GV.noOpqKV kvs = true → rawLeavesKV ρ₁ kvs = rawLeavesKV ρ₂ kvs
  | [], _ => rfl
  | (k, v) :: kvs, h => by
    simp only [GV.noOpqKV, Bool.and_eq_true] at h
    simp only [rawLeavesKV, rawLeaves_noOpq ρ₁ ρ₂ k false h.1.1, rawLeaves_noOpq ρ₁ ρ₂ v false h.1.2, rawLeavesKV_noOpq ρ₁ ρ₂ kvs h.2]
theorem rawLeavesF_noOpq (ρ₁ ρ₂ : Nat → String) : ∀ fs : List (FieldInfo × GV), GV.noOpqF fs = true → rawLeavesF ρ₁ fs = rawLeavesF ρ₂ fs
  | [], _ => rfl
  | (_, v) :: fs, h => by
    simp only [GV.noOpqF, Bool.and_eq_true] at h
    simp only [rawLeavesF, rawLeaves_noOpq ρ₁ ρ₂ v false h.1, rawLeavesF_noOpq ρ₁ ρ₂ fs h.2]
end

theorem noOpq_isOpq {v : GV} (h : v.noOpq = true) : v.isOpq = none := by
  cases v <;> simp_all [GV.noOpq, GV.isOpq]

mutual
theorem pv_noOpq (td : TD) (c : FmtCtx) (ρ₁ ρ₂ : Nat → String) :
    ∀ (v : GV) (top ci : Bool), v.noOpq = true → pv td c ρ₁ top ci v = pv td c ρ₂ top ci v
  | .opq _, _, _, h => by simp [GV.noOpq] at h
  | .str _, _, _, _ => rfl
  | .num _, _, _, _ => rfl
  | .nilv, _, _, _ => rfl
  | .nilSlice, _, _, _ => rfl
  | .nilMap, _, _, _ => rfl
  | .ptr v, top, ci, h => by
    simp only [GV.noOpq] at h
    have hq := noOpq_isOpq h
    have hr : rawLeaves ρ₁ true (.ptr v) = rawLeaves ρ₂ true (.ptr v) := rawLeaves_noOpq ρ₁ ρ₂ (.ptr v) true (by simpa [GV.noOpq] using h)
    simp only [pv, hq, hr, pv_noOpq td c ρ₁ ρ₂ v false ci h]
  | .iface v, _, ci, h => by simp only [GV.noOpq] at h; simp only [pv]; exact pv_noOpq td c ρ₁ ρ₂ v false ci h
  | .slice vs, _, ci, h => by
    simp only [GV.noOpq] at h
    simp only [pv, rawLeavesL_noOpq ρ₁ ρ₂ vs h, pvL_noOpq td c ρ₁ ρ₂ vs ci h]
  | .array vs, _, ci, h => by
    simp only [GV.noOpq] at h
    simp only [pv, rawLeavesL_noOpq ρ₁ ρ₂ vs h, pvL_noOpq td c ρ₁ ρ₂ vs ci h]
  | .map kvs, _, ci, h => by
    simp only [GV.noOpq] at h
    simp only [pv, rawLeavesKV_noOpq ρ₁ ρ₂ kvs h, pvKV_noOpq td c ρ₁ ρ₂ kvs ci h]
  | .struct fs, _, ci, h => by
    simp only [GV.noOpq] at h
    simp only [pv, rawLeavesF_noOpq ρ₁ ρ₂ fs h, pvF_noOpq td c ρ₁ ρ₂ fs ci h]
  | .tm _ _ fs, _, ci, h => by
    simp only [GV.noOpq] at h
    simp only [pv, rawLeavesF_noOpq ρ₁ ρ₂ fs h, pvF_noOpq td c ρ₁ ρ₂ fs ci h]
  | .sh _ fs, _, ci, h => by
    simp only [GV.noOpq] at h
    simp only [pv, rawLeavesF_noOpq ρ₁ ρ₂ fs h, pvF_noOpq td c ρ₁ ρ₂ fs ci h]
theorem pvL_noOpq (td : TD) (c : FmtCtx) (ρ₁ ρ₂ : Nat → String) :
    ∀ (vs : List GV) (ci : Bool), GV.noOpqL vs = true → pvL td c ρ₁ ci vs = pvL td c ρ₂ ci vs
  | [], _, _ => rfl
  | v :: vs, ci, h => by
    simp only [GV.noOpqL, Bool.and_eq_true] at h
    simp only [pvL, pv_noOpq td c ρ₁ ρ₂ v false ci h.1, pvL_noOpq td c ρ₁ ρ₂ vs ci h.2]
theorem pvKV_noOpq (td : TD) (c : FmtCtx) (ρ₁ ρ₂ : Nat → String) :
    ∀ (kvs : List (GV × GV)) (ci : Bool), GV.noOpqKV kvs = true → pvKV td c ρ₁ ci kvs = pvKV td c ρ₂ ci kvs
  | [], _, _ => rfl
  | (k, v) :: kvs, ci, h => by
    simp only [GV.noOpqKV, Bool.and_eq_true] at h
    simp only [pvKV, pv_noOpq td c ρ₁ ρ₂ k false ci h.1.1, pv_noOpq td c ρ₁ ρ₂ v false ci h.1.2, pvKV_noOpq td c ρ₁ ρ₂ kvs ci h.2]
theorem pvF_noOpq (td : TD) (c : FmtCtx) (ρ₁ ρ₂ : Nat → String) :
    ∀ (fs : List (FieldInfo × GV)) (ci : Bool), GV.noOpqF fs = true → pvF td c ρ₁ ci fs = pvF td c ρ₂ ci fs
  | [], _, _ => rfl
  | (fi, v) :: fs, ci, h => by
    simp only [GV.noOpqF, Bool.and_eq_true] at h
    simp only [pvF, pv_noOpq td c ρ₁ ρ₂ v false (ci && fi.exported) h.1, pvF_noOpq td c ρ₁ ρ₂ fs ci h.2]
end
end OtelVerif.C14
