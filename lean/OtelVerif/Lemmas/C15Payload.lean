import OtelVerif.Model.C15
import OtelVerif.Props.C08
/-!
# C15 payload clause, linked to C08's proved marshalling theorems

Part of `./check C15` (module in `lean_modules`, `otlpschema` translator in C15's spec): the theorems below are counted C15 obligations.
The marshalling halves are C08's PROVED theorems for the schema regenerated from /repo; what the transport adds — a compression and,
for JSON, the text layer — enters as explicit, NAMED hypotheses (`hcomp`, `htext`, `hT`), listed under `assumptions` in
`lib/props/c15.py`, because nothing in this framework instantiates them (C16 samples the codec law, C08 samples the float/text law).
-/
namespace OtelVerif.C15
open OtelVerif

/-- **Payload, protobuf transports (gRPC and HTTP/proto).** For every root of the regenerated schema (the four
`Export*ServiceRequest`s that cross the hop, their responses, the bare payloads), every payload built through the public pdata API
and every compression pair satisfying the codec law `hcomp`: what the receiver obtains by decompressing and running the root's
`Unmarshal` (+ `otlp.Migrate*`) is exactly the payload the exporter marshalled.
Partial: `hcomp` is C16's hypothesis (sampled there for gzip/zlib/zstd/snappy/lz4); HTTP/gRPC framing is exercised, not modelled. -/
theorem C15_payload_pb_partial (compress : Wire.Bytes → Wire.Bytes) (decompress : Wire.Bytes → Option Wire.Bytes)
    (hcomp : ∀ b, decompress (compress b) = some b)
    (root : String) (m : Nat) (hroot : (root, m) ∈ C08.otlp.roots) (v : Proto.Val) (h : C08.ApiBuilt C08.otlp m v)
    (hlen : (C08.encode C08.otlp m v).length < 2 ^ 63) :
    (decompress (compress (C08.encode C08.otlp m v))).bind (C08.decodeRoot C08.otlp C08.otlpD root m) = some v := by
  rw [hcomp, Option.bind_some]
  -- C08: the wrapper's decode returns the payload; `Migrate*` is a no-op on API-built payloads (derived there, not assumed)
  have hr := C08.C08_api_roots
  simp only [List.all_eq_true] at hr
  have hrm := hr (root, m) hroot
  simp only [Bool.or_eq_true, Bool.not_eq_true', Bool.or_eq_false_iff] at hrm
  refine C08.C08_wrappers_pb C08.otlp C08.otlpD C08.C08_schema_wf root m v h.1 hlen (fun hm => ?_)
  refine C08.migrate_noop_api C08.otlp C08.C08_api_mig_shape m v (fun f rest hs => ?_) h.1 h.2
  rcases hrm with ⟨h1, _⟩ | h3
  · rw [h1] at hm; cases hm
  · rw [hs] at h3; simpa using h3

/-- **Payload, HTTP/JSON.** The same through `MarshalJSON` / `UnmarshalJSON` of the root, for every text layer satisfying `htext`
(what jsoniter writes, it reads back), every float/text pair satisfying C08's `TxtLaws` (`hT`) and every lawful compression: the
receiver gets the payload with NaNs canonicalised (`normV`, C08).
Partial: `hcomp`, `htext`, `hT` are hypotheses (sampled by C16 resp. C08's harness). -/
theorem C15_payload_json_partial (compress : Wire.Bytes → Wire.Bytes) (decompress : Wire.Bytes → Option Wire.Bytes)
    (hcomp : ∀ b, decompress (compress b) = some b)
    (write : C08.Json → Wire.Bytes) (read : Wire.Bytes → Option C08.Json) (htext : ∀ j, read (write j) = some j)
    (T : C08.Txt) (hT : C08.TxtLaws T) (root : String) (m : Nat)
    (hroot : (root, m) ∈ C08.otlp.roots) (v : Proto.Val) (h : C08.ApiBuilt C08.otlp m v)
    (hlen : (C08.encode C08.otlp m v).length < 2 ^ 63) :
    ((decompress (compress (write (C08.toJson C08.otlp T m v)))).bind read).bind
        (C08.fromJsonRoot C08.otlp T C08.otlpD root m)
      = some (C08.normV C08.otlp (.slots (C08.otlp.slots m)) v) := by
  rw [hcomp, Option.bind_some, htext, Option.bind_some]
  exact (C08.C08_wrappers_otlp_api T hT root m hroot v h hlen).2

/-! ## non-vacuity -/

/-- the four request roots the exporters send exist in the regenerated schema -/
example : ("logsreq", 1) ∈ C08.otlp.roots ∧ ("metricsreq", 4) ∈ C08.otlp.roots ∧ ("tracesreq", 10) ∈ C08.otlp.roots ∧
    ("profilesreq", 7) ∈ C08.otlp.roots := by decide

theorem lookup_mem {β : Type} : ∀ {l : List (String × β)} {k : String} {v : β}, l.lookup k = some v → (k, v) ∈ l
  | [], _, _, h => by simp [List.lookup] at h
  | (k', v') :: rest, k, v, h => by
    by_cases hk : k = k'
    · subst hk
      simp [List.lookup] at h
      subst h
      exact List.mem_cons_self ..
    · have : (k == k') = false := by simpa using hk
      simp only [List.lookup, this] at h
      exact List.mem_cons_of_mem _ (lookup_mem h)

/-- the hypotheses of `C15_payload_pb_partial` are met at the real schema: a root of the hop (`ExportLogsServiceResponse` with a
partial-success body — C08's `C08_apibuilt_example`), a payload that is `ApiBuilt`, and a compression pair with the law (identity);
the theorem then yields the round trip for it. -/
theorem C15_payload_nonvacuous :
    ∃ (root : String) (m : Nat) (v : Proto.Val), (root, m) ∈ C08.otlp.roots ∧ C08.ApiBuilt C08.otlp m v ∧
      ((C08.encode C08.otlp m v).length < 2 ^ 63 →
        (some (C08.encode C08.otlp m v)).bind (C08.decodeRoot C08.otlp C08.otlpD root m) = some v) := by
  obtain ⟨m, hm, hv⟩ := C08.C08_apibuilt_example
  refine ⟨"logsresp", m, _, lookup_mem hm, hv, fun hlen => ?_⟩
  exact C15_payload_pb_partial id some (fun _ => rfl) "logsresp" m (lookup_mem hm) _ hv hlen

end OtelVerif.C15
