import OtelVerif.Model.C15
import OtelVerif.Props.C08
/-!
# C15 payload clause, linked to C08's proved marshalling theorems

NOT part of `./check C15` (it imports `Props/C08.lean`, which belongs to another property and is built by `./check C08`);
build on demand: `cd /verif/lean && flock .verif.lock lake build OtelVerif.Lemmas.C15Payload`.
-/
namespace OtelVerif.C15
open OtelVerif

/-- a compression as the transports use it (gzip/zstd/snappy/… over the marshalled bytes): C16's lawful-codec hypothesis, stated
over C08's byte type -/
structure Compression where
  compress : Wire.Bytes → Wire.Bytes
  decompress : Wire.Bytes → Option Wire.Bytes
  law : ∀ b, decompress (compress b) = some b

/-- **Payload, protobuf transports (gRPC and HTTP/proto).** For every export-request root of the schema regenerated from /repo
(`logsreq`, `metricsreq`, `tracesreq`, `profilesreq` — and every other root), every payload built through the public pdata API, and
every lawful compression: what the receiver decodes after decompressing is exactly what the exporter marshalled. The marshalling
half is C08's PROVED theorem (`C08_wrappers_otlp_api`: `Unmarshal` + `otlp.Migrate*` after `Marshal`), not a hypothesis.
Partial: the compression law is C16's hypothesis (sampled there); the HTTP/gRPC framing is exercised, not modelled. -/
theorem C15_payload_pb_partial (comp : Compression) (T : C08.Txt) (hT : C08.TxtLaws T) (root : String) (m : Nat)
    (hroot : (root, m) ∈ C08.otlp.roots) (v : Proto.Val) (h : C08.ApiBuilt C08.otlp m v)
    (hlen : (C08.encode C08.otlp m v).length < 2 ^ 63) :
    (comp.decompress (comp.compress (C08.encode C08.otlp m v))).bind (C08.decodeRoot C08.otlp C08.otlpD root m) = some v := by
  rw [comp.law, Option.bind_some]
  exact (C08.C08_wrappers_otlp_api T hT root m hroot v h hlen).1

/-- the JSON text layer (jsoniter writing/reading the document): a lawful pair, hypothesis -/
structure JsonText where
  write : C08.Json → Wire.Bytes
  read : Wire.Bytes → Option C08.Json
  law : ∀ j, read (write j) = some j

/-- **Payload, HTTP/JSON.** The same through `MarshalJSON` / `UnmarshalJSON` of the request root: the receiver gets the payload
with NaNs canonicalised (`normV`, C08). Partial: text layer and compression laws are hypotheses; float↔text is C08's `TxtLaws`. -/
theorem C15_payload_json_partial (comp : Compression) (jt : JsonText) (T : C08.Txt) (hT : C08.TxtLaws T) (root : String) (m : Nat)
    (hroot : (root, m) ∈ C08.otlp.roots) (v : Proto.Val) (h : C08.ApiBuilt C08.otlp m v)
    (hlen : (C08.encode C08.otlp m v).length < 2 ^ 63) :
    ((comp.decompress (comp.compress (jt.write (C08.toJson C08.otlp T m v)))).bind jt.read).bind
        (C08.fromJsonRoot C08.otlp T C08.otlpD root m)
      = some (C08.normV C08.otlp (.slots (C08.otlp.slots m)) v) := by
  rw [comp.law, Option.bind_some, jt.law, Option.bind_some]
  exact (C08.C08_wrappers_otlp_api T hT root m hroot v h hlen).2

/-- non-vacuity: the four request roots exist in the regenerated schema, and a lawful compression exists -/
example : ("logsreq", 1) ∈ C08.otlp.roots ∧ ("metricsreq", 4) ∈ C08.otlp.roots ∧ ("tracesreq", 10) ∈ C08.otlp.roots ∧
    ("profilesreq", 7) ∈ C08.otlp.roots := by decide
example : Compression := ⟨id, some, fun _ => rfl⟩


end OtelVerif.C15
