import OtelVerif.Model.C15Route
/-!
# C15 — addressing theorems (counted: every `C15_*` below)

The regenerated registration / URL tables of both exporters and the receiver (`Gen/OtlpRoutes.lean`) put every signal on the
address the OTLP specification and the two configurations name, and deliver it to the consumer of the SAME signal.
-/
namespace OtelVerif.C15
open OtelVerif.Gen

theorem hasSuffix_slash_split {e : String} (h : hasSuffix e "/" = true) : e = String.ofList e.toList.dropLast ++ "/" := by
  unfold hasSuffix at h
  rw [List.isSuffixOf_iff_suffix] at h
  obtain ⟨t, ht⟩ := h
  apply String.toList_injective
  have hs : ("/" : String).toList = ['/'] := by decide
  rw [String.toList_append, String.toList_ofList, hs] at *
  rw [← ht]
  simp

/-- version segment of the OTLP path of a signal (hand: `/v1/…`, profiles `/v1development/…`) -/
def specVersion : Signal → String
  | .profiles => "v1development" | _ => "v1"

theorem specPath_eq (g : Signal) : specPath g = "/" ++ (specVersion g ++ ("/" ++ g.name)) := by cases g <;> decide

/-- (lemma) which `composeSignalURL` call feeds the URL field that the push function of each signal reads -/
theorem exportUrl_compose (g : Signal) (c : ExpCfg) :
    exportUrl g c = composeSignalURL c.endpoint (c.overrideOf g) g.name (specVersion g) := by
  cases g <;> rfl

/-- (lemma) `composeSignalURL`, with the regenerated return expressions evaluated -/
theorem composeSignalURL_eq (e o n v : String) :
    composeSignalURL e o n v =
      if o ≠ "" then some o else if e = "" then none
      else if hasSuffix e "/" then some (String.ofList e.toList.dropLast ++ ("/" ++ (v ++ ("/" ++ n))))
      else some (e ++ ("/" ++ (v ++ ("/" ++ n)))) := by
  have h1 : interp o e v n OtlpRoutes.composeOverride = o ++ "" := rfl
  have h2 : interp o e v n OtlpRoutes.composeWithSuffix = e ++ (v ++ ("/" ++ (n ++ ""))) := rfl
  have h3 : interp o e v n OtlpRoutes.composeWithoutSuffix = e ++ ("/" ++ (v ++ ("/" ++ (n ++ "")))) := rfl
  have h4 : OtlpRoutes.composeSuffix = "/" := rfl
  unfold composeSignalURL
  rw [h1, h2, h3, h4]
  simp only [String.append_empty]
  split
  · rfl
  · split
    · rfl
    · split
      · rename_i hs
        conv => lhs; rw [hasSuffix_slash_split hs]
        simp [String.append_assoc]
      · rfl

/-- the URL each `pushX` of the OTLP/HTTP exporter posts to is the one the configuration names: the signal's own override if set,
else the endpoint (a trailing "/" is not doubled) followed by the OTLP default path of THAT signal; no endpoint at all = refused.
For every endpoint / override string. -/
theorem C15_route_url_matches_spec (g : Signal) (c : ExpCfg) :
    exportUrl g c = specUrl g c.endpoint (c.overrideOf g) := by
  rw [exportUrl_compose, composeSignalURL_eq, specUrl, specPath_eq]

example : exportUrl .logs ⟨"http://collector:4318/", [("TracesEndpoint", "https://t.example/in")]⟩ = some "http://collector:4318/v1/logs" ∧
    exportUrl .traces ⟨"http://collector:4318/", [("TracesEndpoint", "https://t.example/in")]⟩ = some "https://t.example/in" := by decide

/-- (lemma) the mux + registration table, normalised: a path reaches the first signal configured on it, decoded AS and delivered TO that signal -/
theorem routeHttp_eq (rc : RecvCfg) (p : String) :
    routeHttp rc p = (Signal.all.find? (fun s => specRecvPath rc s = some p)).map (fun s => (s, s)) := by
  simp only [routeHttp, OtlpRoutes.recvHttpRoutes, Signal.all, List.find?, pathOfSrc, specRecvPath, specPath]
  simp only [show ("lit" = "cfg") = False by decide, if_true, if_false]
  by_cases h1 : rAssoc rc "TracesURLPath" = some p
  · simp only [h1, decide_true]; rfl
  · by_cases h2 : rAssoc rc "MetricsURLPath" = some p
    · simp only [h1, h2, decide_true, decide_false]; rfl
    · by_cases h3 : rAssoc rc "LogsURLPath" = some p
      · simp only [h1, h2, h3, decide_true, decide_false]; rfl
      · by_cases h4 : (some "/v1development/profiles" : Option String) = some p
        · simp only [h1, h2, h3, h4, decide_true, decide_false]; rfl
        · simp only [h1, h2, h3, h4, decide_false]; rfl

/-- the model of the hop's addressing (regenerated tables) equals the specification of it (hand tables only), for every signal,
every exporter configuration, every receiver base address and every receiver path configuration -/
theorem C15_route_matches_spec (g : Signal) (c : ExpCfg) (base : String) (rc : RecvCfg) :
    hopRoute g c base rc = specRoute g c base rc := by
  unfold hopRoute specRoute
  rw [C15_route_url_matches_spec]
  cases specUrl g c.endpoint (c.overrideOf g) with
  | none => rfl
  | some u =>
    simp only []
    cases stripBase base u with
    | none => rfl
    | some p =>
      simp only [routeHttp_eq]
      cases Signal.all.find? (fun s => specRecvPath rc s = some p) <;> rfl

theorem stripBase_append (b p : String) : stripBase b (b ++ p) = some p := by
  unfold stripBase
  simp [String.toList_append, String.ofList_toList]

/-- with both sides on their DEFAULTS every signal of the OTLP/HTTP exporter reaches the consumer of that very signal, decoded as
that signal — for every receiver address, written with or without a trailing "/" in the exporter's `endpoint` -/
theorem C15_route_default_reaches (g : Signal) (base : String) (hb : base ≠ "") (hs : hasSuffix base "/" = false) :
    hopRoute g ⟨base, []⟩ base recvDefaultCfg = .delivered g g ∧
    hopRoute g ⟨base ++ "/", []⟩ base recvDefaultCfg = .delivered g g := by
  have hov : ∀ e, (ExpCfg.mk e []).overrideOf g = "" := by intro e; cases g <;> rfl
  have hroute : routeHttp recvDefaultCfg (specPath g) = some (g, g) := by cases g <;> decide
  constructor
  · unfold hopRoute
    rw [C15_route_url_matches_spec, hov, specUrl]
    simp only [ne_eq, not_true_eq_false, if_false, hb, hs, Bool.false_eq_true]
    rw [stripBase_append]
    simp only [hroute]
  · unfold hopRoute
    rw [C15_route_url_matches_spec, hov, specUrl]
    have h1 : base ++ "/" ≠ "" := by
      intro h
      have := congrArg String.toList h
      simp [String.toList_append] at this
    have h2 : hasSuffix (base ++ "/") "/" = true := by
      unfold hasSuffix
      rw [List.isSuffixOf_iff_suffix, String.toList_append]
      exact List.suffix_append _ _
    have h3 : String.ofList (base ++ "/").toList.dropLast = base := by
      rw [String.toList_append]
      have : ("/" : String).toList = ['/'] := by decide
      rw [this, List.dropLast_concat]
      exact String.ofList_toList
    simp only [ne_eq, not_true_eq_false, if_false, h1, h2, if_true, h3]
    rw [stripBase_append]
    simp only [hroute]

example : hasSuffix "http://127.0.0.1:4318" "/" = false ∧ "http://127.0.0.1:4318" ≠ "" := by decide

/-- custom receiver paths: with `traces_url_path` / `metrics_url_path` / `logs_url_path` set to pairwise different paths (none of
them the fixed profiles path) each path reaches exactly its own signal's consumer and every other path is not found -/
theorem C15_route_custom_paths (tp mp lp : String) (h1 : tp ≠ mp) (h2 : tp ≠ lp) (h3 : mp ≠ lp)
    (h4 : tp ≠ specPath .profiles) (h5 : mp ≠ specPath .profiles) (h6 : lp ≠ specPath .profiles) :
    let rc : RecvCfg := [("TracesURLPath", tp), ("MetricsURLPath", mp), ("LogsURLPath", lp)]
    routeHttp rc tp = some (.traces, .traces) ∧ routeHttp rc mp = some (.metrics, .metrics) ∧
    routeHttp rc lp = some (.logs, .logs) ∧ routeHttp rc (specPath .profiles) = some (.profiles, .profiles) ∧
    ∀ p, p ≠ tp → p ≠ mp → p ≠ lp → p ≠ specPath .profiles → routeHttp rc p = none := by
  intro rc
  have e1 : rAssoc rc "TracesURLPath" = some tp := rfl
  have e2 : rAssoc rc "MetricsURLPath" = some mp := rfl
  have e3 : rAssoc rc "LogsURLPath" = some lp := rfl
  simp only [routeHttp_eq, Signal.all, List.find?, specRecvPath, e1, e2, e3, Option.some.injEq]
  refine ⟨by simp, by simp [h1], by simp [h2, h3], ?_, ?_⟩
  · simp [h4, h5, h6]
  · intro p hp1 hp2 hp3 hp4
    simp [Ne.symm hp1, Ne.symm hp2, Ne.symm hp3, Ne.symm hp4]

example : ("/in/t" : String) ≠ "/in/m" ∧ ("/in/t" : String) ≠ specPath .profiles := by decide

/-- gRPC: the service every `pushX` of the OTLP/gRPC exporter calls is registered by the receiver with a handler that decodes the
request as, and delivers it to the consumer of, the SAME signal; and the OTLP/HTTP push functions marshal the request type and
decode the partial-success response type of their own signal -/
theorem C15_route_grpc_and_types :
    (∀ g ∈ Signal.all, (grpcServiceOf g).bind routeGrpc = some (g, g)) ∧
    (∀ g ∈ Signal.all, httpPushTypes g = some (g, g)) ∧
    (∀ g ∈ Signal.all, ((grpcServiceOf g).bind sigOfOtlp) = some g) := by decide

theorem Signal.mem_all (g : Signal) : g ∈ Signal.all := by cases g <;> decide

theorem hasPrefix_append (p a : String) : hasPrefix (p ++ a) p = true := by
  unfold hasPrefix
  rw [List.isPrefixOf_iff_prefix, String.toList_append]
  exact List.prefix_append _ _

theorem trimPrefix_append (p a : String) : trimPrefix (p ++ a) p = a := by
  unfold trimPrefix
  rw [hasPrefix_append, if_pos rfl, String.toList_append, List.drop_left]
  exact String.ofList_toList

theorem https_not_http (a : String) : hasPrefix ("https://" ++ a) "http://" = false := by
  unfold hasPrefix
  rw [String.toList_append]
  have h1 : ("http://" : String).toList = ['h', 't', 't', 'p', ':', '/', '/'] := by decide
  have h2 : ("https://" : String).toList = ['h', 't', 't', 'p', 's', ':', '/', '/'] := by decide
  rw [h1, h2]
  simp [List.isPrefixOf]

/-- the OTLP/gRPC exporter dials `host:port` whether the operator wrote it bare, as `http://host:port` or as `https://host:port`
(for every string), and anything without such a scheme is dialled as written -/
theorem C15_route_grpc_target (a : String) :
    grpcDialTarget ("http://" ++ a) = a ∧ grpcDialTarget ("https://" ++ a) = a ∧
    (hasPrefix a "http://" = false → hasPrefix a "https://" = false → grpcDialTarget a = a) := by
  refine ⟨?_, ?_, ?_⟩
  · simp only [grpcDialTarget, OtlpRoutes.grpcEndpointPrefixes, List.find?, hasPrefix_append]
    exact trimPrefix_append _ _
  · simp only [grpcDialTarget, OtlpRoutes.grpcEndpointPrefixes, List.find?, https_not_http, hasPrefix_append]
    exact trimPrefix_append _ _
  · intro h1 h2
    simp only [grpcDialTarget, OtlpRoutes.grpcEndpointPrefixes, List.find?, h1, h2]
    rfl

/-- over gRPC a signal sent to the receiver's `host:port` — written bare, with `http://` or with `https://` — is delivered to the consumer
of that very signal, decoded as that signal (dial target from `sanitizedEndpoint`, service from the exporter's client table, handler and
consumer from the receiver's registration table) -/
theorem C15_route_grpc_reaches (g : Signal) (addr : String)
    (h1 : hasPrefix addr "http://" = false) (h2 : hasPrefix addr "https://" = false) :
    ∀ e ∈ [addr, "http://" ++ addr, "https://" ++ addr], hopRouteGrpc g e addr = .delivered g g ∧ specRouteGrpc g e addr = .delivered g g := by
  have ht := C15_route_grpc_target addr
  have hr : (grpcServiceOf g).bind routeGrpc = some (g, g) := C15_route_grpc_and_types.1 g (Signal.mem_all g)
  intro e he
  simp only [List.mem_cons, List.mem_nil_iff, or_false] at he
  have htgt : grpcDialTarget e = addr := by
    rcases he with rfl | rfl | rfl
    · exact ht.2.2 h1 h2
    · exact ht.1
    · exact ht.2.1
  constructor
  · simp only [hopRouteGrpc, htgt, if_true, hr]
  · unfold specRouteGrpc
    rw [if_pos he]

example : hasPrefix "127.0.0.1:4317" "http://" = false ∧ hasPrefix "127.0.0.1:4317" "https://" = false ∧
    hopRouteGrpc .profiles "http://127.0.0.1:4317" "127.0.0.1:4317" = .delivered .profiles .profiles ∧
    hopRouteGrpc .logs "127.0.0.1:4318" "127.0.0.1:4317" = .elsewhere := by decide

/-- one row of the statement below: a mapped type names a compressor package config/configgrpc links, under the type's own name;
an unmapped one is uncompressed ("" / none) or refused by the error default -/
def grpcCompressionRow (t : String) : Bool :=
  match grpcCompressor t with
  | some p => OtlpRoutes.grpcCompressorImports.contains p && p == t
  | none => t == "" || t == "none" || OtlpRoutes.grpcCompressionDefaultErrors

/-- gRPC compression: every configcompression type is either uncompressed, or refused when the client is built (no silent
fall-back to another algorithm), or mapped to a compressor package that config/configgrpc itself links — so the compressor is
registered in every process that can build a configgrpc client OR server (the receiver side can always decode it) -/
theorem C15_grpc_compression_registered :
    (∀ t ∈ OtlpRoutes.compressionTypeConsts, grpcCompressionRow t = true) ∧
    -- not vacuous: the three algorithms the OTLP/gRPC exporter documents are mapped, each to the compressor of its own name
    (∀ t ∈ ["gzip", "snappy", "zstd"], grpcCompressor t = some t) ∧
    (∀ t ∈ ["zlib", "deflate", "lz4"], grpcCompressor t = none ∧ OtlpRoutes.grpcCompressionDefaultErrors = true) := by decide

/-- `sanitizeURLPath` (receiver `Config.Unmarshal`): the registered path is absolute, an absolute path is kept, sanitising twice changes nothing -/
theorem C15_route_sanitize (p : String) :
    (sanitizeURLPath p).toList.head? = some '/' ∧ (p.toList.head? = some '/' → sanitizeURLPath p = p) ∧
    sanitizeURLPath (sanitizeURLPath p) = sanitizeURLPath p := by
  have hg : OtlpRoutes.sanitizePrependsSlash = true := rfl
  have key : (sanitizeURLPath p).toList.head? = some '/' := by
    unfold sanitizeURLPath
    split
    · assumption
    · simp [String.toList_append]
  refine ⟨key, ?_, ?_⟩
  · intro h; unfold sanitizeURLPath; simp [h]
  · have gen : ∀ q : String, q.toList.head? = some '/' → sanitizeURLPath q = q := by
      intro q h; unfold sanitizeURLPath; simp [h]
    exact gen _ key

end OtelVerif.C15
