import OtelVerif.Model.C16Pool
import OtelVerif.Props.C16
/-!
# C16 — the client-side writer pools: invariants over ALL interleavings (counted: every `C16_*` below)
-/
namespace OtelVerif.C16

theorem upd_some_cases {α : Type} {f : Nat → Option α} {t t0 : Nat} {v c0 : α} (h : upd f t (some v) t0 = some c0) :
    (t0 = t ∧ c0 = v) ∨ (t0 ≠ t ∧ f t0 = some c0) := by
  unfold upd at h
  by_cases e : t0 = t
  · simp [e] at h; exact Or.inl ⟨e, h.symm⟩
  · simp [e] at h; exact Or.inr ⟨e, h⟩

variable (enc : PKey → Bytes → Bytes)

/-- what a call that holds a writer knows about it, by program counter -/
def CallOk (t : Nat) (c : PCall) : Prop :=
  c.pc.holding = true →
    ∃ wr, c.writer = some wr ∧ wr.key = c.key ∧
      (c.pc = .reset → wr.target = some t ∧ wr.acc = []) ∧
      ((c.pc = .copied ∨ c.pc = .bodyClosed) → wr.target = some t ∧ wr.acc = c.input)

/-- the invariant of the pool discipline -/
structure PInv (s : PState) : Prop where
  loc : ∀ t c, s.calls t = some c → CallOk t c
  pooled : ∀ k wr, wr ∈ s.pool k → wr.key = k
  out : ∀ t c, s.calls t = some c → c.result = some true → s.bufs t = some (enc c.key c.input)
  running : ∀ t c, s.calls t = some c → c.result = some true → c.pc = .closed ∨ c.pc = .done

theorem PInv.init : PInv enc PState.init := by
  constructor <;> intros <;> simp_all [PState.init]

/-- frame: a step that replaces the record of call `t` (keeping key, body and — unless it is the closing step — the result) and
leaves the pools alone -/
theorem PInv.setCall {s : PState} (I : PInv enc s) {t : Nat} {c c' : PCall} (hc : s.calls t = some c)
    (hok : CallOk t c') (hkey : c'.key = c.key) (hbody : c'.body = c.body)
    (hres : c'.result = some true → c.result = some true ∧ (c'.pc = .closed ∨ c'.pc = .done)) :
    PInv enc { s with calls := upd s.calls t (some c') } := by
  constructor
  · intro t0 c0 h0
    rcases upd_some_cases h0 with ⟨rfl, rfl⟩ | ⟨_, h0'⟩
    · exact hok
    · exact I.loc t0 c0 h0'
  · exact I.pooled
  · intro t0 c0 h0 hr
    rcases upd_some_cases h0 with ⟨rfl, rfl⟩ | ⟨_, h0'⟩
    · have := I.out _ c hc (hres hr).1
      simpa [PCall.input, hkey, hbody] using this
    · exact I.out t0 c0 h0' hr
  · intro t0 c0 h0 hr
    rcases upd_some_cases h0 with ⟨rfl, rfl⟩ | ⟨_, h0'⟩
    · exact (hres hr).2
    · exact I.running t0 c0 h0' hr

theorem mem_eraseIdx {α : Type} {l : List α} {i : Nat} {x : α} (h : x ∈ l.eraseIdx i) : x ∈ l :=
  List.mem_of_mem_eraseIdx h

/-- frame: a step that only changes one pool, to a list whose members are writers of that key -/
theorem PInv.setPool {s : PState} (I : PInv enc s) (k : PKey) (l : List PWriter) (hl : ∀ wr ∈ l, wr.key = k) :
    PInv enc { s with pool := updK s.pool k l } := by
  constructor
  · exact I.loc
  · intro k0 wr h
    unfold updK at h
    by_cases e : k0 = k
    · simp [e] at h; rw [e]; exact hl wr h
    · simp [e] at h; exact I.pooled k0 wr h
  · exact I.out
  · exact I.running

/-- every enabled step preserves the invariant -/
theorem PInv.step {s s' : PState} (I : PInv enc s) (l : PLabel) (h : fire enc s l = some s') : PInv enc s' := by
  cases l with
  | call t key body failAt closeFails =>
    simp only [fire] at h
    split at h
    · cases h
    · rename_i h0
      cases h
      constructor
      · intro t0 c0 hc0
        rcases upd_some_cases hc0 with ⟨rfl, rfl⟩ | ⟨_, h0'⟩
        · intro hh; cases hh
        · exact I.loc t0 c0 h0'
      · exact I.pooled
      · intro t0 c0 hc0 hr
        rcases upd_some_cases hc0 with ⟨rfl, rfl⟩ | ⟨_, h0'⟩
        · cases hr
        · exact I.out t0 c0 h0' hr
      · intro t0 c0 hc0 hr
        rcases upd_some_cases hc0 with ⟨rfl, rfl⟩ | ⟨_, h0'⟩
        · cases hr
        · exact I.running t0 c0 h0' hr
  | get t i =>
    simp only [fire] at h
    split at h
    · rename_i c hc
      split at h
      · rename_i hpc
        split at h
        · rename_i wr hwr
          cases h
          have hk : wr.key = c.key := I.pooled c.key wr (List.mem_of_getElem? hwr)
          have I1 := I.setPool enc c.key ((s.pool c.key).eraseIdx i) (fun w hw => I.pooled c.key w (mem_eraseIdx hw))
          refine PInv.setCall enc (s := { s with pool := updK s.pool c.key ((s.pool c.key).eraseIdx i) }) I1 hc ?_ rfl rfl ?_
          · intro _; exact ⟨wr, rfl, hk, (fun h => by cases h), (fun h => by rcases h with h | h <;> cases h)⟩
          · intro hr
            have := I.running t c hc hr
            rw [hpc] at this; rcases this with h | h <;> cases h
        · cases h
          refine PInv.setCall enc I hc ?_ rfl rfl ?_
          · intro _; exact ⟨⟨c.key, none, []⟩, rfl, rfl, (fun h => by cases h), (fun h => by rcases h with h | h <;> cases h)⟩
          · intro hr
            have := I.running t c hc hr
            rw [hpc] at this; rcases this with h | h <;> cases h
      · cases h
    · cases h
  | reset t =>
    simp only [fire] at h
    split at h
    · rename_i c hc
      split at h
      · rename_i hpc hw
        cases h
        have hloc := I.loc t c hc (by rw [hpc]; rfl)
        obtain ⟨wr', hw', hk, _, _⟩ := hloc
        rw [hw] at hw'; cases hw'
        refine PInv.setCall enc I hc ?_ rfl rfl ?_
        · intro _; exact ⟨_, rfl, hk, (fun _ => ⟨rfl, rfl⟩), (fun h => by rcases h with h | h <;> cases h)⟩
        · intro hr
          have := I.running t c hc hr
          rw [hpc] at this; rcases this with h | h <;> cases h
      · cases h
    · cases h
  | copy t =>
    simp only [fire] at h
    split at h
    · rename_i c hc
      split at h
      · rename_i hpc hw
        have hloc := I.loc t c hc (by rw [hpc]; rfl)
        obtain ⟨wr', hw', hk, hreset, _⟩ := hloc
        rw [hw] at hw'; cases hw'
        obtain ⟨htgt, hacc⟩ := hreset hpc
        have hnr : c.result = some true → False := by
          intro hr
          have := I.running t c hc hr
          rw [hpc] at this; rcases this with h | h <;> cases h
        split at h
        · rename_i hb
          cases h
          refine PInv.setCall enc I hc ?_ rfl rfl ?_
          · intro _; exact ⟨_, hw, hk, (fun h => by cases h), fun _ => ⟨htgt, by simp [PCall.input, hb, hacc]⟩⟩
          · intro hr; exact (hnr hr).elim
        · rename_i b hb
          split at h
          · cases h
            refine PInv.setCall enc I hc ?_ rfl rfl ?_
            · intro _; exact ⟨_, rfl, hk, (fun h => by cases h), (fun h => by rcases h with h | h <;> cases h)⟩
            · intro hr; cases hr
          · cases h
            refine PInv.setCall enc I hc ?_ rfl rfl ?_
            · intro _; exact ⟨_, rfl, hk, (fun h => by cases h), fun _ => ⟨htgt, by simp [PCall.input, hb, hacc]⟩⟩
            · intro hr; exact (hnr hr).elim
      · cases h
    · cases h
  | closeBody t =>
    simp only [fire] at h
    split at h
    · rename_i c hc
      split at h
      · rename_i hpc
        have hloc := I.loc t c hc (by rw [hpc]; rfl)
        obtain ⟨wr, hw, hk, _, hcop⟩ := hloc
        obtain ⟨htgt, hacc⟩ := hcop (Or.inl hpc)
        have hnr : c.result = some true → False := by
          intro hr
          have := I.running t c hc hr
          rw [hpc] at this; rcases this with h | h <;> cases h
        split at h
        · cases h
          refine PInv.setCall enc I hc ?_ rfl rfl ?_
          · intro _; exact ⟨wr, hw, hk, (fun h => by cases h), (fun h => by rcases h with h | h <;> cases h)⟩
          · intro hr; cases hr
        · cases h
          refine PInv.setCall enc I hc ?_ rfl rfl ?_
          · intro _; exact ⟨wr, hw, hk, (fun h => by cases h), fun _ => ⟨htgt, hacc⟩⟩
          · intro hr; exact (hnr hr).elim
      · cases h
    · cases h
  | closeWriter t =>
    simp only [fire] at h
    split at h
    · rename_i c hc
      split at h
      · rename_i wr hpc hw
        cases h
        have hloc := I.loc t c hc (by rw [hpc]; rfl)
        obtain ⟨wr', hw', hk, _, hcop⟩ := hloc
        have e : wr = wr' := Option.some.inj (hw.symm.trans hw')
        subst e
        obtain ⟨htgt, hacc⟩ := hcop (Or.inr hpc)
        have hb : closeInto enc s.bufs wr = upd s.bufs t (some (enc c.key c.input)) := by
          simp [closeInto, htgt, hk, hacc]
        constructor
        · intro t0 c0 h0
          rcases upd_some_cases h0 with ⟨rfl, rfl⟩ | ⟨_, h0'⟩
          · intro _; exact ⟨wr, hw, hk, (fun h => by cases h), (fun h => by rcases h with h | h <;> cases h)⟩
          · exact I.loc t0 c0 h0'
        · exact I.pooled
        · intro t0 c0 h0 hr
          show closeInto enc s.bufs wr t0 = _
          rw [hb]
          rcases upd_some_cases h0 with ⟨rfl, rfl⟩ | ⟨hne, h0'⟩
          · simp [upd, PCall.input]
          · simp only [upd, hne, if_false]
            exact I.out t0 c0 h0' hr
        · intro t0 c0 h0 hr
          rcases upd_some_cases h0 with ⟨rfl, rfl⟩ | ⟨_, h0'⟩
          · exact Or.inl rfl
          · exact I.running t0 c0 h0' hr
      · cases h
    · cases h
  | put t =>
    simp only [fire] at h
    split at h
    · rename_i c hc
      split at h
      · rename_i wr hw
        split at h
        · rename_i hpc
          cases h
          have hloc := I.loc t c hc (by rcases hpc with h | h <;> rw [h] <;> rfl)
          obtain ⟨wr', hw', hk, _, _⟩ := hloc
          have e : wr = wr' := Option.some.inj (hw.symm.trans hw')
          subst e
          have I1 := I.setPool enc c.key (wr :: s.pool c.key) (by
            intro w hwm
            rcases List.mem_cons.mp hwm with rfl | hwm
            · exact hk
            · exact I.pooled c.key w hwm)
          refine PInv.setCall enc (s := { s with pool := updK s.pool c.key (wr :: s.pool c.key) }) I1 hc ?_ rfl rfl ?_
          · intro hh; cases hh
          · intro hr; exact ⟨hr, Or.inr rfl⟩
        · cases h
      · cases h
    · cases h
  | drop k i =>
    simp only [fire] at h
    cases h
    exact I.setPool enc k ((s.pool k).eraseIdx i) (fun w hw => I.pooled k w (mem_eraseIdx hw))

theorem PInv.run {s : PState} (I : PInv enc s) (ls : List PLabel) : PInv enc (runLabels enc s ls) := by
  induction ls generalizing s with
  | nil => exact I
  | cons l ls ih =>
    simp only [runLabels, List.foldl_cons]
    cases hf : fire enc s l with
    | none => simpa [runLabels] using ih I
    | some s' => simpa [runLabels] using ih (I.step enc l hf)

/-- **No state leaks between uses, under every interleaving.** In every state reachable by ANY sequence of statement-steps of any
number of goroutines (labels that are not enabled are skipped, so every list is a history) — whatever other calls did before or
meanwhile, including failed copies that put their writer back dirty, `sync.Pool` handing out any idle writer or a new one, and the
GC dropping idle writers — every `compress` call that returned nil left in ITS OWN buffer exactly `enc` of ITS key (type AND level)
applied to ITS body. Library law (trusted): `Reset` makes a writer fresh and points it at the given buffer; `Close` completes the
stream there. -/
theorem C16_pool_output (ls : List PLabel) (t : Nat) (c : PCall)
    (hc : (runLabels enc PState.init ls).calls t = some c) (hr : c.result = some true) :
    (runLabels enc PState.init ls).bufs t = some (enc c.key c.input) :=
  ((PInv.init enc).run enc ls).out t c hc hr

/-- **No level / type leak across clients.** In every reachable state an idle writer sits in the pool of the key (type, level) its
constructor closure was made for, and a call holds a writer built for its own compressor's key — two clients that differ only
in `compression_params.level` never see each other's writers. -/
theorem C16_pool_key (ls : List PLabel) :
    (∀ k wr, wr ∈ (runLabels enc PState.init ls).pool k → wr.key = k) ∧
    (∀ t c wr, (runLabels enc PState.init ls).calls t = some c → c.pc.holding = true → c.writer = some wr → wr.key = c.key) := by
  have I := (PInv.init enc).run enc ls
  refine ⟨I.pooled, ?_⟩
  intro t c wr hc hh hw
  obtain ⟨wr', hw', hk, _, _⟩ := I.loc t c hc hh
  rw [hw] at hw'; cases hw'; exact hk

/-- a successful return is only ever produced by the closing step of the call's own writer, after its own `Reset` -/
theorem C16_pool_result_only_after_close (ls : List PLabel) (t : Nat) (c : PCall)
    (hc : (runLabels enc PState.init ls).calls t = some c) (hr : c.result = some true) : c.pc = .closed ∨ c.pc = .done :=
  ((PInv.init enc).run enc ls).running t c hc hr

/-- (lemma) from any state satisfying the invariant, a call whose body source does not fail, run to the end, returns nil with the right buffer -/
theorem seqCall_completes {s : PState} (I : PInv enc s) (t i : Nat) (key : PKey) (body : Option Bytes) (h0 : s.calls t = none) :
    ((runLabels enc s (seqCall t i key body none false)).calls t).map (·.result) = some (some true) ∧
    (runLabels enc s (seqCall t i key body none false)).bufs t = some (enc key (body.getD [])) := by
  cases body with
  | none =>
    cases hp : (s.pool key)[i]? with
    | none => simp [runLabels, seqCall, fire, h0, hp, upd, closeInto]
    | some wr =>
      have := I.pooled key wr (List.mem_of_getElem? hp)
      simp [runLabels, seqCall, fire, h0, hp, upd, closeInto, this]
  | some b =>
    cases hp : (s.pool key)[i]? with
    | none => simp [runLabels, seqCall, fire, h0, hp, upd, closeInto]
    | some wr =>
      have := I.pooled key wr (List.mem_of_getElem? hp)
      simp [runLabels, seqCall, fire, h0, hp, upd, closeInto, this]

/-- **Re-use after anything.** After ANY history (other calls finished, failed half-way, still in flight, pools holding dirty writers
or none), a new request whose body source does not fail — nil body, empty body, any bytes — taking whichever idle writer (or a new
one) completes with nil and leaves exactly `enc key body` in its buffer: what went on before cannot make a later request fail or
differ. (Also the non-vacuity of `C16_pool_output`: successful returns exist from every reachable state.) -/
theorem C16_pool_call_completes (ls : List PLabel) (t i : Nat) (key : PKey) (body : Option Bytes)
    (h0 : (runLabels enc PState.init ls).calls t = none) :
    ((runLabels enc (runLabels enc PState.init ls) (seqCall t i key body none false)).calls t).map (·.result) = some (some true) ∧
    (runLabels enc (runLabels enc PState.init ls) (seqCall t i key body none false)).bufs t = some (enc key (body.getD [])) :=
  seqCall_completes enc ((PInv.init enc).run enc ls) t i key body h0

/-- the regenerated shape of `compress` / `newCompressor` / `RoundTrip` is the one the transition system models: same statements in
the same order; the pool is touched only by that Get and that deferred Put; the pool map is keyed by (type, params), read and written
under the mutex, its writers built by the constructor made for that key; `RoundTrip` hands `compress` a buffer of its own and a
round-tripper asks for the compressor of its own (type, params) -/
theorem C16_pool_gen_shape :
    Gen.Compression.compressSteps = modelProgram ∧ Gen.Compression.poolSelectorUses = 2 ∧
    Gen.Compression.poolKeyFields = ["compressionType", "compressionParams"] ∧
    Gen.Compression.poolKeyedByTypeAndParams = true ∧ Gen.Compression.poolMapUnderMutex = true ∧
    Gen.Compression.poolNewUsesKeyConstructor = true ∧ Gen.Compression.roundTripFreshBuffer = true ∧
    Gen.Compression.roundTripperUsesOwnKey = true := by decide

/-- (bookkeeping, connects the pool model to `clientSend`) the request a pooled round-tripper sends for a call that returned nil —
`Content-Encoding` = its type name, body = its buffer — is the request `clientSend` describes, in every reachable pool state, when
the writer of key (t, level) produces what the library `l` of type `t` produces. Hence `C16_client_compresses` and the round-trip
theorems apply to every use of a shared pool. -/
theorem C16_pool_request_is_clientSend (codec : String → Codec) (t l : String) (level : Int) (b : Bytes)
    (ht : isCompressed t = true) (hw : assoc Gen.Compression.writers t = some l)
    (henc : ∀ lv x, enc ⟨t, lv⟩ x = (codec l).enc x)
    (ls : List PLabel) (tid : Nat) (c : PCall)
    (hc : (runLabels enc PState.init ls).calls tid = some c) (hr : c.result = some true)
    (hk : c.key = ⟨t, level⟩) (hb : c.body = some b) :
    ((runLabels enc PState.init ls).bufs tid).map (fun buf => (⟨t, ⟨buf, true⟩⟩ : Request)) = clientSend codec t "" b := by
  rw [C16_pool_output enc ls tid c hc hr, hk, henc]
  simp [clientSend, ht, hw, PCall.input, hb]

/-- **End to end over a shared pool (partial, same two hypotheses as `C16_roundtrip_partial`).** Under every interleaving of the
client-side `compress` calls of any number of goroutines sharing the process-wide pools, the request sent for a call that returned
nil makes the handler behind the server middleware read exactly THAT call's body — for every lawful library, enabled algorithm,
level, body and limit with body and compressed form within the limit. -/
theorem C16_pool_end_to_end_partial (codec : String → Codec) (hlaw : ∀ l, (codec l).Lawful)
    (cfg : Cfg) (t l : String) (level : Int) (b : Bytes)
    (ht : isCompressed t = true) (hw : assoc Gen.Compression.writers t = some l) (hen : t ∈ cfg.enabled)
    (hb : b.length ≤ cfg.limit) (hwire : ((codec l).enc b).length ≤ cfg.limit)
    (henc : ∀ lv x, enc ⟨t, lv⟩ x = (codec l).enc x)
    (ls : List PLabel) (tid : Nat) (c : PCall)
    (hc : (runLabels enc PState.init ls).calls tid = some c) (hr : c.result = some true)
    (hk : c.key = ⟨t, level⟩) (hbody : c.body = some b) :
    (((runLabels enc PState.init ls).bufs tid).map (fun buf => (⟨t, ⟨buf, true⟩⟩ : Request))).map (serve codec cfg)
      = some (.handled ⟨b, true⟩) := by
  rw [C16_pool_request_is_clientSend enc codec t l level b ht hw henc ls tid c hc hr hk hbody]
  exact C16_roundtrip_partial codec hlaw cfg t l b ht hw hen hb hwire

/-! non-vacuity: a concrete interleaving. Goroutine 1 (gzip/1) fails half-way and puts its writer back dirty; goroutines 2 and 3
(gzip/1 and gzip/9) overlap, 2 re-uses the dirty writer; both return nil with their own `enc key body`. -/
def demoEnc : PKey → Bytes → Bytes := fun k b => (UInt8.ofNat k.level.toNat) :: b

def demoHistory : List PLabel :=
  [.call 1 ⟨"gzip", 1⟩ (some [7, 7, 7, 7]) (some 2) false, .get 1 0, .reset 1, .copy 1, .put 1,
   .call 2 ⟨"gzip", 1⟩ (some [1, 2, 3]) none false, .call 3 ⟨"gzip", 9⟩ (some [4, 5]) none false,
   .get 3 0, .get 2 0, .reset 2, .reset 3, .copy 3, .copy 2, .closeBody 2, .closeBody 3, .closeWriter 3, .closeWriter 2, .put 2, .put 3]

example : (runLabels demoEnc PState.init demoHistory).bufs 2 = some [1, 1, 2, 3] ∧
    (runLabels demoEnc PState.init demoHistory).bufs 3 = some [9, 4, 5] ∧
    ((runLabels demoEnc PState.init demoHistory).calls 2).map (·.result) = some (some true) ∧
    ((runLabels demoEnc PState.init demoHistory).calls 1).map (·.result) = some (some false) ∧
    ((runLabels demoEnc PState.init demoHistory).pool ⟨"gzip", 1⟩).length = 1 := by decide

/-- the hypotheses of `C16_pool_end_to_end_partial` are met: the dirty-writer history above, `padCodec` as every library -/
example : (((runLabels (fun _ x => padCodec.enc x) PState.init demoHistory).bufs 2).map
      (fun buf => (⟨"gzip", ⟨buf, true⟩⟩ : Request))).map (serve (fun _ => padCodec) ⟨["", "gzip"], 10⟩)
    = some (.handled ⟨[1, 2, 3], true⟩) :=
  C16_pool_end_to_end_partial (fun _ x => padCodec.enc x) (fun _ => padCodec) (fun _ => padCodec_lawful) ⟨["", "gzip"], 10⟩
    "gzip" "gzip" 1 [1, 2, 3] (by decide) (by decide) (by decide) (by decide) (by decide) (fun _ _ => rfl) demoHistory 2
    ⟨⟨"gzip", 1⟩, some [1, 2, 3], none, false, .done, none, some true⟩ (by decide) rfl rfl rfl

end OtelVerif.C16
