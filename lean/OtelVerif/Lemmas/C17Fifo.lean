import OtelVerif.Lemmas.C17Shard
/-! C17: split takes a PREFIX of the flattening (FIFO), needed for the per-item deadline across partial sends -/
namespace OtelVerif.C17
open OtelVerif.Payload

theorem walk_stopped' {α σ : Type} (stop : σ → Bool) (fits : σ → α → Option σ) (cut : σ → α → Option α × Option α × σ)
    (s : σ) (hs : stop s = true) (l : List α) : walk stop fits cut s l = ⟨[], l, s⟩ := by
  induction l with
  | nil => rfl
  | cons c cs ih => simp [walk, hs, ih]

/-- a pass that stops after its first cut splits the flattening into a prefix (destination) and a suffix (source) -/
theorem walk_eq {α σ β : Type} (stop : σ → Bool) (fits : σ → α → Option σ) (cut : σ → α → Option α × Option α × σ)
    (f : α → List β) (I : σ → Prop)
    (hfits : ∀ s c s1, I s → stop s = false → fits s c = some s1 → I s1)
    (hcut : ∀ s c, I s → stop s = false → fits s c = none →
      oflat f (cut s c).1 ++ oflat f (cut s c).2.1 = f c ∧ stop (cut s c).2.2 = true) :
    ∀ (s : σ) (l : List α), I s →
      (walk stop fits cut s l).dest.flatMap f ++ (walk stop fits cut s l).rem.flatMap f = l.flatMap f := by
  intro s l
  induction l generalizing s with
  | nil => intro _; simp [walk]
  | cons c cs ih =>
    intro hI
    by_cases hs : stop s = true
    · rw [walk_stopped' stop fits cut s hs]; simp
    · have hs' : stop s = false := by simpa using hs
      cases hf : fits s c with
      | some s1 =>
        simp only [walk, hs', Bool.false_eq_true, if_false, hf, List.flatMap_cons, List.append_assoc]
        rw [ih s1 (hfits s c s1 hI hs' hf)]
      | none =>
        have hc := hcut s c hI hs' hf
        simp only [walk, hs', Bool.false_eq_true, if_false, hf]
        rw [walk_stopped' stop fits cut _ hc.2]
        simp only [List.append_nil, List.flatMap_append, List.flatMap_cons]
        have e1 : (cut s c).1.toList.flatMap f = oflat f (cut s c).1 := rfl
        have e2 : (cut s c).2.1.toList.flatMap f = oflat f (cut s c).2.1 := rfl
        rw [e1, e2, ← List.append_assoc, hc.1]

theorem splitItems_eq {β : Type} (g : Item → β) (size t : Nat) (items : List Item) (h : t ≤ size) :
    (splitItems size t items).dest.map g ++ (splitItems size t items).rem.map g = items.map g := by
  simp only [map_eq_flatMap_single]
  refine walk_eq _ _ _ _ (fun t => t ≤ size) ?_ ?_ t items h
  · intro s c s1 hs hst hf
    simp only [Option.some.injEq] at hf
    subst hf
    have : s ≠ size := by simpa using hst
    show s + 1 ≤ size
    omega
  · intro s c _ _ hf; simp at hf

theorem splitScopes_eq (r : RMeta) (size t : Nat) (scopes : List Scope) (h : t ≤ size) :
    (splitScopes size t scopes).dest.flatMap (Scope.flat r) ++ (splitScopes size t scopes).rem.flatMap (Scope.flat r) =
      scopes.flatMap (Scope.flat r) := by
  refine walk_eq _ _ _ _ (fun t => t ≤ size) ?_ ?_ t scopes h
  · intro s c s1 hs _ hf
    simp only [fitsScope] at hf
    split at hf
    · injection hf with hf; subst hf; show s + c.items.length ≤ size; omega
    · cases hf
  · intro s c hs hst hf
    have hs' : s ≤ size := hs
    simp only [fitsScope] at hf
    split at hf
    · cases hf
    · next hn =>
      have hfill := splitItems_fill size s c.items hs'
      refine ⟨?_, ?_⟩
      · simp only [cutScope, oflat_some, Scope.flat]
        exact splitItems_eq _ size s c.items hs'
      · simp only [cutScope, beq_iff_eq]
        rw [hfill.1]; omega

theorem splitRes_eq (size t : Nat) (p : List Res) (h : t ≤ size) :
    flatten (splitRes size t p).dest ++ flatten (splitRes size t p).rem = flatten p := by
  refine walk_eq _ _ _ Res.flat (fun t => t ≤ size) ?_ ?_ t p h
  · intro s c s1 hs _ hf
    simp only [fitsRes] at hf
    split at hf
    · injection hf with hf; subst hf; show s + c.count ≤ size; omega
    · cases hf
  · intro s c hs hst hf
    have hs' : s ≤ size := hs
    simp only [fitsRes] at hf
    split at hf
    · cases hf
    · next hn =>
      have hfill := splitScopes_fill size s c.scopes hs'
      refine ⟨?_, ?_⟩
      · simp only [cutRes, oflat_some, oflat_res_if, Res.flat]
        exact splitScopes_eq c.rmeta size s c.scopes hs'
      · simp only [cutRes, beq_iff_eq]
        rw [hfill.1]
        simp only [Res.count] at hn
        omega

/-- `splitLogs` returns a PREFIX of the records (in document order) and leaves the suffix -/
theorem splitLogs_eq (size : Nat) (src : List Res) (h : size < count src) :
    flatten (splitLogs size src).1 ++ flatten (splitLogs size src).2 = flatten src := by
  have : ¬ count src ≤ size := by omega
  simp only [splitLogs, this, if_false]
  exact splitRes_eq size 0 src (Nat.zero_le _)

/-! metrics -/

theorem splitPoints_aux (n : Nat) (i : Nat) (pts : List Item) :
    (walk (fun _ => false) (fun i (_ : Item) => if i < n then some (i + 1) else none) (fun i c => (none, some c, i)) i pts).dest ++
    (walk (fun _ => false) (fun i (_ : Item) => if i < n then some (i + 1) else none) (fun i c => (none, some c, i)) i pts).rem = pts ∧
    (n ≤ i → (walk (fun _ => false) (fun i (_ : Item) => if i < n then some (i + 1) else none) (fun i c => (none, some c, i)) i pts).dest = []) := by
  induction pts generalizing i with
  | nil => simp [walk]
  | cons c cs ih =>
    simp only [walk, Bool.false_eq_true, if_false]
    by_cases h : i < n
    · simp only [h, if_true, List.cons_append, (ih (i + 1)).1, true_and]
      intro hh; omega
    · have hd := (ih i).2 (by omega)
      have he := (ih i).1
      rw [hd] at he
      simp only [h, if_false, Option.toList, List.nil_append, hd, List.cons_append]
      simp only [List.nil_append] at he
      exact ⟨by rw [he], fun _ => by first | rfl | trivial⟩

theorem splitPoints_eq {β : Type} (g : Item → β) (n : Nat) (pts : List Item) :
    (splitPoints n pts).dest.map g ++ (splitPoints n pts).rem.map g = pts.map g := by
  rw [← List.map_append]
  simp only [splitPoints]
  rw [(splitPoints_aux n 0 pts).1]

theorem splitMetricsIn_eq (r : RMeta) (sm : SMeta) (size t : Nat) (ms : List Metric) (h : t ≤ size) :
    (splitMetricsIn size t ms).dest.flatMap (Metric.flat r sm) ++ (splitMetricsIn size t ms).rem.flatMap (Metric.flat r sm) =
      ms.flatMap (Metric.flat r sm) := by
  refine walk_eq _ _ _ _ (fun t => t ≤ size) ?_ ?_ t ms h
  · intro s c s1 hs _ hf
    simp only [fitsMetric] at hf
    split at hf
    · injection hf with hf; subst hf; show s + c.count ≤ size; omega
    · cases hf
  · intro s c hs hst hf
    have hs' : s ≤ size := hs
    refine ⟨?_, ?_⟩
    · simp only [cutMetric, oflat_some, Metric.flat, fragMeta]
      exact splitPoints_eq _ (size - s) c.points
    · simp only [cutMetric, beq_iff_eq]; omega

theorem splitMScopes_eq (r : RMeta) (size t : Nat) (scopes : List MScope) (h : t ≤ size) :
    (splitMScopes size t scopes).dest.flatMap (MScope.flat r) ++ (splitMScopes size t scopes).rem.flatMap (MScope.flat r) =
      scopes.flatMap (MScope.flat r) := by
  refine walk_eq _ _ _ _ (fun t => t ≤ size) ?_ ?_ t scopes h
  · intro s c s1 hs _ hf
    simp only [fitsMScope] at hf
    split at hf
    · injection hf with hf; subst hf; show s + c.count ≤ size; omega
    · cases hf
  · intro s c hs hst hf
    have hs' : s ≤ size := hs
    simp only [fitsMScope] at hf
    split at hf
    · cases hf
    · next hn =>
      have hfill := splitMetricsIn_fill size s c.metrics hs'
      refine ⟨?_, ?_⟩
      · simp only [cutMScope, oflat_some, MScope.flat]
        exact splitMetricsIn_eq r c.smeta size s c.metrics hs'
      · simp only [cutMScope, beq_iff_eq]
        rw [hfill.1]
        simp only [MScope.count] at hn
        omega

theorem splitMRes_eq (size t : Nat) (p : List MRes) (h : t ≤ size) :
    mflatten (splitMRes size t p).dest ++ mflatten (splitMRes size t p).rem = mflatten p := by
  refine walk_eq _ _ _ MRes.flat (fun t => t ≤ size) ?_ ?_ t p h
  · intro s c s1 hs _ hf
    simp only [fitsMRes] at hf
    split at hf
    · injection hf with hf; subst hf; show s + c.count ≤ size; omega
    · cases hf
  · intro s c hs hst hf
    have hs' : s ≤ size := hs
    simp only [fitsMRes] at hf
    split at hf
    · cases hf
    · next hn =>
      have hfill := splitMScopes_fill size s c.scopes hs'
      refine ⟨?_, ?_⟩
      · simp only [cutMRes, oflat_some, oflat_mres_if, MRes.flat]
        exact splitMScopes_eq c.rmeta size s c.scopes hs'
      · simp only [cutMRes, beq_iff_eq]
        rw [hfill.1]
        simp only [MRes.count] at hn
        omega

theorem splitMetrics_eq (size : Nat) (src : List MRes) (h : size < mcount src) :
    mflatten (splitMetrics size src).1 ++ mflatten (splitMetrics size src).2 = mflatten src := by
  have : ¬ mcount src ≤ size := by omega
  simp only [splitMetrics, this, if_false]
  exact splitMRes_eq size 0 src (Nat.zero_le _)

end OtelVerif.C17
