import OtelVerif.Lemmas.C17Timeout
/-! `processItem` when the shard may be LATE: the arrival is handled up to `δ` after the pending timer deadline -/
namespace OtelVerif.C17
open OtelVerif.Payload

theorem process_timed_late {P β : Type} (o : BatchOps P) (flat : P → List β) (hl : BatchLaws o flat) (hf : Fifo o flat)
    (c : Cfg) (hv : c.max = 0 ∨ c.sbs ≤ c.max) (arr : β → Nat) (now T0 : Nat) (s : Shard P) (p : P)
    (hi : s.ok o ∧ due c s = false)
    (hold : ∀ x ∈ flat s.data, s.deadline ≤ arr x + c.timeout) (hd1 : s.deadline ≤ T0 + c.timeout) (hT : T0 ≤ now)
    (δ : Nat) (hnow : now ≤ s.deadline + δ) (hnew : ∀ x ∈ flat p, arr x = now) :
    (∀ e ∈ (s.process o c now p).2, ∀ x ∈ flat e.p, e.t ≤ arr x + c.timeout + δ) ∧
    (∀ x ∈ flat (s.process o c now p).1.data, (s.process o c now p).1.deadline ≤ arr x + c.timeout) ∧
    (s.process o c now p).1.deadline ≤ now + c.timeout := by
  -- the batch after `add`
  have hadd : (s.add o p).ok o ∧ flat (s.add o p).data = flat s.data ++ flat p ∧ (s.add o p).deadline = s.deadline ∧
      (s.add o p).cnt = s.cnt + (flat p).length := by
    simp only [Shard.add]
    by_cases h : (o.count p == 0) = true
    · have h0 : (flat p).length = 0 := by rw [← hl.count_eq]; simpa using h
      have : flat p = [] := List.eq_nil_of_length_eq_zero h0
      simp [h, hi.1, this]
    · simp only [h, Bool.false_eq_true, if_false, hl.append, true_and]
      have hs := hi.1
      unfold Shard.ok at hs
      refine ⟨?_, ?_⟩
      · show s.cnt + o.count p = o.count (o.append s.data p)
        rw [hl.count_eq (o.append s.data p), hl.append, List.length_append, ← hl.count_eq, ← hl.count_eq, hs]
      · rw [hl.count_eq p]
  have sp := sendLoop_spec o flat hl c now ((s.add o p).cnt + 1) (s.add o p) [] hadd.1 (Nat.lt_succ_self _)
  have se := sendLoop_eq o flat hl hf c now ((s.add o p).cnt + 1) (s.add o p) [] hadd.1
  have hdl := sendLoop_deadline o c now ((s.add o p).cnt + 1) (s.add o p) []
  have heq := se.1
  simp only [flatEmits, List.flatMap_nil, List.nil_append] at heq
  rw [hadd.2.1] at heq
  have hmem : ∀ x, x ∈ flat s.data ++ flat p → now ≤ arr x + c.timeout + δ := by
    intro x hx
    rcases List.mem_append.mp hx with h | h
    · have := hold x h; omega
    · have := hnew x h; omega
  have hemit : ∀ e ∈ (sendLoop o c now ((s.add o p).cnt + 1) (s.add o p) []).2, ∀ x ∈ flat e.p, e.t ≤ arr x + c.timeout + δ := by
    intro e he x hx
    have ht := (sp.2.2.2.2.2 (by simp) e he).2
    rw [ht]
    apply hmem
    rw [← heq]
    apply List.mem_append.mpr
    left
    exact List.mem_flatMap.mpr ⟨e, he, hx⟩
  simp only [Shard.process]
  by_cases he : (sendLoop o c now ((s.add o p).cnt + 1) (s.add o p) []).2.isEmpty = true
  · simp only [he, if_true]
    refine ⟨hemit, ?_, ?_⟩
    · intro x hx
      rw [hdl, hadd.2.2.1]
      have hx' : x ∈ flat s.data ++ flat p := by
        rw [← heq]; exact List.mem_append.mpr (Or.inr hx)
      rcases List.mem_append.mp hx' with h | h
      · exact hold x h
      · have := hnew x h; omega
    · rw [hdl, hadd.2.2.1]; omega
  · simp only [he, Bool.false_eq_true, if_false]
    refine ⟨hemit, ?_, Nat.le_refl _⟩
    intro x hx
    -- FIFO: what is left after at least one send arrived just now
    have hne : (sendLoop o c now ((s.add o p).cnt + 1) (s.add o p) []).2 ≠ [] := by
      intro h0; rw [h0] at he; simp at he
    have hdue : (decide ((s.add o p).cnt > 0) && (!hasTimer c || decide ((s.add o p).cnt ≥ c.sbs))) = true := by
      by_cases hdd : (decide ((s.add o p).cnt > 0) && (!hasTimer c || decide ((s.add o p).cnt ≥ c.sbs))) = true
      · exact hdd
      · exfalso; apply hne; simp [sendLoop, hdd]
    have hstep : sendLoop o c now ((s.add o p).cnt + 1) (s.add o p) [] =
        sendLoop o c now (s.add o p).cnt ((s.add o p).send o c now).1 [((s.add o p).send o c now).2] := by
      simp [sendLoop, hdue]
    have hsend := send_spec o flat hl c now (s.add o p) hadd.1
    have hmono := (sendLoop_eq o flat hl hf c now (s.add o p).cnt ((s.add o p).send o c now).1
      [((s.add o p).send o c now).2] hsend.1).2.1
    have hcnt1 : ((s.add o p).send o c now).1.cnt ≤ (flat p).length := by
      have hfit := hi.2
      simp only [due, Bool.and_eq_false_iff, decide_eq_false_iff_not, Bool.or_eq_false_iff, Bool.not_eq_false'] at hfit
      simp only [Shard.send]
      by_cases hb : (decide (c.max > 0) && decide ((s.add o p).cnt > c.max)) = true
      · simp only [hb, if_true]
        simp only [Bool.and_eq_true, decide_eq_true_eq] at hb
        have : s.cnt ≤ c.max := by
          rcases hv with h | h
          · omega
          · rcases hfit with h1 | ⟨_, h2⟩ <;> omega
        rw [hadd.2.2.2]; omega
      · simp only [hb, Bool.false_eq_true, if_false]; omega
    have hok := sp.1
    unfold Shard.ok at hok
    have hlen : (flat (sendLoop o c now ((s.add o p).cnt + 1) (s.add o p) []).1.data).length ≤ (flat p).length := by
      rw [← hl.count_eq, ← hok, hstep]; omega
    have := suffix_mem _ _ _ _ heq hlen x hx
    have := hnew x this
    omega


end OtelVerif.C17
