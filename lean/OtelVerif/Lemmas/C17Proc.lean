import OtelVerif.Lemmas.C17Shard
/-! C17: the whole processor (sharder + shards): conservation, bound and group isolation over all operation sequences -/
namespace OtelVerif.C17
open OtelVerif.Payload

/-- everything pending in any shard -/
def dataFlat {P β : Type} (flat : P → List β) (shards : List (Shard P)) : List β := shards.flatMap (fun s => flat s.data)

/-- the processor-level invariant: every shard is consistent and idle, groups are distinct -/
def PInv {P : Type} (o : BatchOps P) (c : Cfg) (shards : List (Shard P)) : Prop :=
  (∀ s ∈ shards, s.ok o ∧ due c s = false) ∧ (shards.map (·.key)).Nodup

theorem replace_spec {P β : Type} (flat : P → List β) (s' : Shard P) :
    ∀ (shards : List (Shard P)) (s : Shard P), s ∈ shards → s.key = s'.key → (shards.map (·.key)).Nodup →
      (replaceShard s' shards).map (·.key) = shards.map (·.key) ∧
      (∀ t ∈ replaceShard s' shards, t = s' ∨ t ∈ shards) ∧
      ∃ rest, (dataFlat flat shards).Perm (flat s.data ++ rest) ∧ (dataFlat flat (replaceShard s' shards)).Perm (flat s'.data ++ rest) := by
  intro shards
  induction shards with
  | nil => intro s hs; simp at hs
  | cons a l ih =>
    intro s hs hk hnd
    simp only [List.map_cons, List.nodup_cons] at hnd
    simp only [replaceShard]
    by_cases e : a.key = s'.key
    · -- `a` is the shard of that group
      have hsa : s = a := by
        rcases List.mem_cons.mp hs with h | h
        · exact h
        · exfalso
          apply hnd.1
          rw [e, ← hk]
          exact List.mem_map.mpr ⟨s, h, rfl⟩
      subst hsa
      simp only [e, if_true, List.map_cons]
      refine ⟨by first | trivial | rw [hk], ?_, dataFlat flat l, ?_, ?_⟩
      · intro t ht
        rcases List.mem_cons.mp ht with h | h
        · exact Or.inl h
        · exact Or.inr (List.mem_cons_of_mem _ h)
      · simp [dataFlat]
      · simp [dataFlat]
    · have hsl : s ∈ l := by
        rcases List.mem_cons.mp hs with h | h
        · exact absurd (by rw [← h, hk]) e
        · exact h
      obtain ⟨h1, h2, rest, h3, h4⟩ := ih s hsl hk hnd.2
      simp only [e, if_false, List.map_cons, h1]
      refine ⟨by first | trivial | rfl, ?_, flat a.data ++ rest, ?_, ?_⟩
      · intro t ht
        rcases List.mem_cons.mp ht with h | h
        · exact Or.inr (by rw [h]; exact List.mem_cons_self ..)
        · rcases h2 t h with h' | h'
          · exact Or.inl h'
          · exact Or.inr (List.mem_cons_of_mem _ h')
      · simp only [dataFlat, List.flatMap_cons] at h3 ⊢
        exact (List.Perm.append_left _ h3).trans (perm_mid _ _ _)
      · simp only [dataFlat, List.flatMap_cons] at h4 ⊢
        exact (List.Perm.append_left _ h4).trans (perm_mid _ _ _)

/-- what one shard-level step must provide to be lifted to the processor -/
structure ShardStep {P β : Type} (o : BatchOps P) (c : Cfg) (flat : P → List β) (s s' : Shard P) (es : List (Emit P))
    (extra : List β) : Prop where
  inv : s'.ok o ∧ due c s' = false
  key : s'.key = s.key
  perm : (flatEmits flat es ++ flat s'.data).Perm (flat s.data ++ extra)
  bound : c.max > 0 → ∀ e ∈ es, o.count e.p ≤ c.max
  ekey : ∀ e ∈ es, e.key = s.key

theorem lift_step {P β : Type} (o : BatchOps P) (c : Cfg) (flat : P → List β) (shards : List (Shard P)) (s s' : Shard P)
    (es : List (Emit P)) (extra : List β) (hp : PInv o c shards) (hs : s ∈ shards) (st : ShardStep o c flat s s' es extra) :
    PInv o c (replaceShard s' shards) ∧
    (flatEmits flat es ++ dataFlat flat (replaceShard s' shards)).Perm (dataFlat flat shards ++ extra) := by
  obtain ⟨h1, h2, rest, h3, h4⟩ := replace_spec flat s' shards s hs st.key.symm hp.2
  refine ⟨⟨?_, by rw [h1]; exact hp.2⟩, ?_⟩
  · intro t ht
    rcases h2 t ht with h | h
    · rw [h]; exact st.inv
    · exact hp.1 t h
  · refine (List.Perm.append_left _ h4).trans ?_
    rw [← List.append_assoc]
    refine (List.Perm.append_right _ st.perm).trans ?_
    rw [List.append_assoc]
    refine (List.Perm.append_left _ List.perm_append_comm).trans ?_
    rw [← List.append_assoc]
    exact List.Perm.append_right _ h3.symm

end OtelVerif.C17
