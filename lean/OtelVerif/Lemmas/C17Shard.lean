import OtelVerif.Lemmas.C17Split
/-! lemmas for the C17 shard loop: conservation, bound, trigger post-condition of `send` / `sendLoop` -/
namespace OtelVerif.C17
open OtelVerif.Payload

/-- what the shard loop needs from a signal's batch operations -/
structure BatchLaws {P β : Type} (o : BatchOps P) (flat : P → List β) : Prop where
  count_eq : ∀ p, o.count p = (flat p).length
  empty : flat o.empty = []
  append : ∀ a b, flat (o.append a b) = flat a ++ flat b
  split_perm : ∀ n p, n < o.count p → (flat (o.split n p).1 ++ flat (o.split n p).2).Perm (flat p)
  split_size : ∀ n p, n < o.count p → o.count (o.split n p).1 = n

theorem length_flatMap_sumBy {α β : Type} (f : α → List β) (l : List α) :
    (l.flatMap f).length = sumBy (fun a => (f a).length) l := by
  induction l with
  | nil => rfl
  | cons a l ih => simp [List.flatMap_cons, sumBy_cons, ih]

theorem count_eq_length (p : List Res) : count p = (flatten p).length := by
  simp only [count, flatten, length_flatMap_sumBy, Res.flat, Scope.flat, List.length_map]
  rfl

theorem mcount_eq_length (p : List MRes) : mcount p = (mflatten p).length := by
  simp only [mcount, mflatten, length_flatMap_sumBy, MRes.flat, MScope.flat, Metric.flat, List.length_map]
  rfl

def flatEmits {P β : Type} (flat : P → List β) (es : List (Emit P)) : List β := es.flatMap (fun e => flat e.p)

/-- the shard's counter is the number of items it holds -/
def Shard.ok {P : Type} (o : BatchOps P) (s : Shard P) : Prop := s.cnt = o.count s.data

theorem send_spec {P β : Type} (o : BatchOps P) (flat : P → List β) (hl : BatchLaws o flat) (c : Cfg) (now : Nat)
    (s : Shard P) (hs : s.ok o) :
    (s.send o c now).1.ok o ∧
    (flat (s.send o c now).2.p ++ flat (s.send o c now).1.data).Perm (flat s.data) ∧
    (c.max > 0 → o.count (s.send o c now).2.p ≤ c.max) ∧
    (s.cnt > 0 → (s.send o c now).1.cnt < s.cnt) ∧
    (c.max = 0 ∨ s.cnt ≤ c.max → (s.send o c now).1.cnt = 0) ∧
    (s.send o c now).2.key = s.key ∧ (s.send o c now).1.key = s.key ∧ (s.send o c now).2.t = now := by
  unfold Shard.ok at hs
  simp only [Shard.send]
  by_cases h : (decide (c.max > 0) && decide (s.cnt > c.max)) = true
  · simp only [h, if_true]
    simp only [Bool.and_eq_true, decide_eq_true_eq] at h
    have hlt : c.max < o.count s.data := by omega
    have hp := hl.split_perm c.max s.data hlt
    have hsz := hl.split_size c.max s.data hlt
    have hlen := hp.length_eq
    simp only [List.length_append, ← hl.count_eq] at hlen
    refine ⟨?_, hp, fun _ => by omega, fun _ => by omega, fun h' => by omega, by first | rfl | trivial, by first | rfl | trivial, by first | rfl | trivial⟩
    simp only [Shard.ok]; omega
  · simp only [h, Bool.false_eq_true, if_false]
    simp only [Bool.and_eq_true, decide_eq_true_eq, not_and] at h
    refine ⟨?_, by simp [hl.empty], fun hm => ?_, fun h' => h', fun _ => by first | rfl | trivial, by first | rfl | trivial, by first | rfl | trivial, by first | rfl | trivial⟩
    · simp [Shard.ok, hl.count_eq, hl.empty]
    · have := h hm; omega

/-- the loop's exit condition -/
def due {P : Type} (c : Cfg) (s : Shard P) : Bool := decide (s.cnt > 0) && (!hasTimer c || decide (s.cnt ≥ c.sbs))

theorem sendLoop_spec {P β : Type} (o : BatchOps P) (flat : P → List β) (hl : BatchLaws o flat) (c : Cfg) (now : Nat) :
    ∀ (fuel : Nat) (s : Shard P) (acc : List (Emit P)), s.ok o → s.cnt < fuel →
      (sendLoop o c now fuel s acc).1.ok o ∧
      (flatEmits flat (sendLoop o c now fuel s acc).2 ++ flat (sendLoop o c now fuel s acc).1.data).Perm
        (flatEmits flat acc ++ flat s.data) ∧
      (c.max > 0 → (∀ e ∈ acc, o.count e.p ≤ c.max) → ∀ e ∈ (sendLoop o c now fuel s acc).2, o.count e.p ≤ c.max) ∧
      due c (sendLoop o c now fuel s acc).1 = false ∧
      (sendLoop o c now fuel s acc).1.key = s.key ∧
      ((∀ e ∈ acc, e.key = s.key ∧ e.t = now) → ∀ e ∈ (sendLoop o c now fuel s acc).2, e.key = s.key ∧ e.t = now) := by
  intro fuel
  induction fuel with
  | zero => intro s acc _ h; omega
  | succ n ih =>
    intro s acc hs hf
    simp only [sendLoop]
    by_cases hd : (decide (s.cnt > 0) && (!hasTimer c || decide (s.cnt ≥ c.sbs))) = true
    · simp only [hd, if_true]
      have sp := send_spec o flat hl c now s hs
      have hpos : s.cnt > 0 := by
        simp only [Bool.and_eq_true, decide_eq_true_eq] at hd; exact hd.1
      have := ih (s.send o c now).1 (acc ++ [(s.send o c now).2]) sp.1 (by have := sp.2.2.2.1 hpos; omega)
      refine ⟨this.1, ?_, ?_, this.2.2.2.1, by rw [this.2.2.2.2.1, sp.2.2.2.2.2.2.1], ?_⟩
      · refine this.2.1.trans ?_
        simp only [flatEmits, List.flatMap_append, List.flatMap_cons, List.flatMap_nil, List.append_nil, List.append_assoc]
        exact List.Perm.append_left _ sp.2.1
      · intro hm hacc
        apply this.2.2.1 hm
        intro e he
        rcases List.mem_append.mp he with h1 | h1
        · exact hacc e h1
        · simp only [List.mem_singleton] at h1; subst h1; exact sp.2.2.1 hm
      · intro hacc e he
        have := this.2.2.2.2.2 (by
          intro e he
          rcases List.mem_append.mp he with h1 | h1
          · rw [sp.2.2.2.2.2.2.1]; exact hacc e h1
          · simp only [List.mem_singleton] at h1; subst h1
            exact ⟨by rw [sp.2.2.2.2.2.1, sp.2.2.2.2.2.2.1], sp.2.2.2.2.2.2.2⟩) e he
        rw [sp.2.2.2.2.2.2.1] at this
        exact this
    · simp only [hd, Bool.false_eq_true, if_false]
      refine ⟨hs, List.Perm.refl _, fun _ h => h, ?_, by first | rfl | trivial, fun h => h⟩
      simpa [due] using hd

end OtelVerif.C17
