import OtelVerif.Model.C17
import OtelVerif.Lemmas.C04Walk
/-! lemmas for the C17 split functions: conservation of the flattening and exact size, level by level -/
namespace OtelVerif.C17
open OtelVerif.Payload

theorem map_eq_flatMap_single {α β : Type} (g : α → β) (l : List α) : l.map g = l.flatMap (fun a => [g a]) := by
  induction l with
  | nil => rfl
  | cons a l ih => simp [List.flatMap_cons, ih]

/-! ### logs / traces -/

theorem splitItems_perm {β : Type} (g : Item → β) (size t : Nat) (items : List Item) :
    ((splitItems size t items).dest.map g ++ (splitItems size t items).rem.map g).Perm (items.map g) := by
  simp only [map_eq_flatMap_single]
  exact walk_perm _ _ _ _ (by intro s c; simp) t items

theorem cutScope_perm (r : RMeta) (size t : Nat) (s : Scope) :
    (oflat (Scope.flat r) (cutScope size t s).1 ++ oflat (Scope.flat r) (cutScope size t s).2.1).Perm (Scope.flat r s) := by
  simp only [cutScope, oflat_some, Scope.flat]
  exact splitItems_perm _ size t s.items

theorem splitScopes_perm (r : RMeta) (size t : Nat) (scopes : List Scope) :
    ((splitScopes size t scopes).dest.flatMap (Scope.flat r) ++ (splitScopes size t scopes).rem.flatMap (Scope.flat r)).Perm
      (scopes.flatMap (Scope.flat r)) :=
  walk_perm _ _ _ _ (cutScope_perm r size) t scopes

theorem oflat_res_if (r : Res) (l : List Scope) :
    oflat Res.flat (if (l.length == 0) = true then none else some { r with scopes := l }) = l.flatMap (Scope.flat r.rmeta) := by
  cases l with
  | nil => simp
  | cons a l => simp [Res.flat]

theorem cutRes_perm (size t : Nat) (r : Res) :
    (oflat Res.flat (cutRes size t r).1 ++ oflat Res.flat (cutRes size t r).2.1).Perm (Res.flat r) := by
  simp only [cutRes, oflat_some, oflat_res_if]
  exact splitScopes_perm r.rmeta size t r.scopes

theorem splitRes_perm (size t : Nat) (p : List Res) :
    (flatten (splitRes size t p).dest ++ flatten (splitRes size t p).rem).Perm (flatten p) :=
  walk_perm _ _ _ _ (cutRes_perm size) t p

/-- exact size, innermost level -/
theorem splitItems_fill (size t : Nat) (items : List Item) (h : t ≤ size) :
    (splitItems size t items).st = min size (t + items.length) ∧
    (splitItems size t items).dest.length = (splitItems size t items).st - t := by
  have := walk_fill (α := Item) size (fun t => t == size) (fun t _ => some (t + 1)) (fun t c => (none, some c, t)) (fun _ => 1)
    (by intro t; rfl) (by intro t c ht; simp; omega) (by intro t c h1 h2; omega) t items h
  have hs : ∀ l : List Item, sumBy (fun _ => 1) l = l.length := by
    intro l; induction l with
    | nil => rfl
    | cons a l ih => rw [sumBy_cons, ih]; simp; omega
  simpa [hs, splitItems] using this

theorem splitScopes_fill (size t : Nat) (scopes : List Scope) (h : t ≤ size) :
    (splitScopes size t scopes).st = min size (t + sumBy Scope.count scopes) ∧
    sumBy Scope.count (splitScopes size t scopes).dest = (splitScopes size t scopes).st - t := by
  refine walk_fill size _ _ _ Scope.count (by intro t; rfl) ?_ ?_ t scopes h
  · intro t c _
    simp only [fitsScope, Scope.count, ge_iff_le]
    by_cases hh : c.items.length + t ≤ size
    · have : t + c.items.length ≤ size := by omega
      simp [hh, this]
    · have : ¬ t + c.items.length ≤ size := by omega
      simp [hh, this]
  · intro t c h1 h2
    have := splitItems_fill size t c.items (by omega)
    simp only [Scope.count] at h2
    simp only [cutScope, ocnt_some, Scope.count]
    constructor
    · rw [this.1]; omega
    · rw [this.2, this.1]; omega

theorem ocnt_res_if (r : Res) (l : List Scope) :
    ocnt Res.count (some { rmeta := r.rmeta, scopes := l }) = sumBy Scope.count l := by
  simp [Res.count]

theorem splitRes_fill (size t : Nat) (p : List Res) (h : t ≤ size) :
    (splitRes size t p).st = min size (t + count p) ∧
    count (splitRes size t p).dest = (splitRes size t p).st - t := by
  refine walk_fill size _ _ _ Res.count (by intro t; rfl) ?_ ?_ t p h
  · intro t c _; rfl
  · intro t c h1 h2
    have := splitScopes_fill size t c.scopes (by omega)
    simp only [Res.count] at h2
    simp only [cutRes, ocnt_some, Res.count]
    constructor
    · rw [this.1]; omega
    · rw [this.2, this.1]; omega


/-! ### metrics -/

theorem splitPoints_perm {β : Type} (g : Item → β) (size : Nat) (pts : List Item) :
    ((splitPoints size pts).dest.map g ++ (splitPoints size pts).rem.map g).Perm (pts.map g) := by
  simp only [map_eq_flatMap_single]
  exact walk_perm _ _ _ _ (by intro s c; simp) 0 pts

theorem splitPoints_len_aux (size : Nat) (i : Nat) (pts : List Item) :
    (walk (fun _ => false) (fun i (_ : Item) => if i < size then some (i + 1) else none)
      (fun i c => (none, some c, i)) i pts).dest.length = min (size - i) pts.length := by
  induction pts generalizing i with
  | nil => simp [walk]
  | cons c cs ih =>
    simp only [walk, Bool.false_eq_true, if_false]
    by_cases h : i < size
    · simp only [h, if_true, List.length_cons, ih (i + 1)]; omega
    · simp only [h, if_false, Option.toList, List.nil_append, List.length_cons, ih i]; omega

theorem splitPoints_len (size : Nat) (pts : List Item) :
    (splitPoints size pts).dest.length = min size pts.length := by
  have := splitPoints_len_aux size 0 pts
  simpa [splitPoints] using this

theorem cutMetric_perm (r : RMeta) (sm : SMeta) (size t : Nat) (m : Metric) :
    (oflat (Metric.flat r sm) (cutMetric size t m).1 ++ oflat (Metric.flat r sm) (cutMetric size t m).2.1).Perm (Metric.flat r sm m) := by
  simp only [cutMetric, oflat_some, Metric.flat, fragMeta]
  exact splitPoints_perm _ (size - t) m.points

theorem splitMetricsIn_perm (r : RMeta) (sm : SMeta) (size t : Nat) (ms : List Metric) :
    ((splitMetricsIn size t ms).dest.flatMap (Metric.flat r sm) ++ (splitMetricsIn size t ms).rem.flatMap (Metric.flat r sm)).Perm
      (ms.flatMap (Metric.flat r sm)) :=
  walk_perm _ _ _ _ (cutMetric_perm r sm size) t ms

theorem cutMScope_perm (r : RMeta) (size t : Nat) (s : MScope) :
    (oflat (MScope.flat r) (cutMScope size t s).1 ++ oflat (MScope.flat r) (cutMScope size t s).2.1).Perm (MScope.flat r s) := by
  simp only [cutMScope, oflat_some, MScope.flat]
  exact splitMetricsIn_perm r s.smeta size t s.metrics

theorem splitMScopes_perm (r : RMeta) (size t : Nat) (scopes : List MScope) :
    ((splitMScopes size t scopes).dest.flatMap (MScope.flat r) ++ (splitMScopes size t scopes).rem.flatMap (MScope.flat r)).Perm
      (scopes.flatMap (MScope.flat r)) :=
  walk_perm _ _ _ _ (cutMScope_perm r size) t scopes

theorem oflat_mres_if (r : MRes) (l : List MScope) :
    oflat MRes.flat (if (l.length == 0) = true then none else some { r with scopes := l }) = l.flatMap (MScope.flat r.rmeta) := by
  cases l with
  | nil => simp
  | cons a l => simp [MRes.flat]

theorem cutMRes_perm (size t : Nat) (r : MRes) :
    (oflat MRes.flat (cutMRes size t r).1 ++ oflat MRes.flat (cutMRes size t r).2.1).Perm (MRes.flat r) := by
  simp only [cutMRes, oflat_some, oflat_mres_if]
  exact splitMScopes_perm r.rmeta size t r.scopes

theorem splitMRes_perm (size t : Nat) (p : List MRes) :
    (mflatten (splitMRes size t p).dest ++ mflatten (splitMRes size t p).rem).Perm (mflatten p) :=
  walk_perm _ _ _ _ (cutMRes_perm size) t p

theorem splitMetricsIn_fill (size t : Nat) (ms : List Metric) (h : t ≤ size) :
    (splitMetricsIn size t ms).st = min size (t + sumBy Metric.count ms) ∧
    sumBy Metric.count (splitMetricsIn size t ms).dest = (splitMetricsIn size t ms).st - t := by
  refine walk_fill size _ _ _ Metric.count (by intro t; rfl) ?_ ?_ t ms h
  · intro t c _
    simp only [fitsMetric]
    by_cases hh : c.count + t ≤ size
    · have : t + c.count ≤ size := by omega
      simp [hh, this]
    · have : ¬ t + c.count ≤ size := by omega
      simp [hh, this]
  · intro t c h1 h2
    simp only [cutMetric, ocnt_some, Metric.count, splitPoints_len]
    simp only [Metric.count] at h2
    constructor <;> omega

theorem splitMScopes_fill (size t : Nat) (scopes : List MScope) (h : t ≤ size) :
    (splitMScopes size t scopes).st = min size (t + sumBy MScope.count scopes) ∧
    sumBy MScope.count (splitMScopes size t scopes).dest = (splitMScopes size t scopes).st - t := by
  refine walk_fill size _ _ _ MScope.count (by intro t; rfl) ?_ ?_ t scopes h
  · intro t c _
    simp only [fitsMScope]
    by_cases hh : c.count + t ≤ size
    · have : t + c.count ≤ size := by omega
      simp [hh, this]
    · have : ¬ t + c.count ≤ size := by omega
      simp [hh, this]
  · intro t c h1 h2
    have := splitMetricsIn_fill size t c.metrics (by omega)
    simp only [MScope.count] at h2
    simp only [cutMScope, ocnt_some, MScope.count]
    constructor
    · rw [this.1]; omega
    · rw [this.2, this.1]; omega

theorem splitMRes_fill (size t : Nat) (p : List MRes) (h : t ≤ size) :
    (splitMRes size t p).st = min size (t + mcount p) ∧
    mcount (splitMRes size t p).dest = (splitMRes size t p).st - t := by
  refine walk_fill size _ _ _ MRes.count (by intro t; rfl) ?_ ?_ t p h
  · intro t c _; rfl
  · intro t c h1 h2
    have := splitMScopes_fill size t c.scopes (by omega)
    simp only [MRes.count] at h2
    simp only [cutMRes, ocnt_some, MRes.count]
    constructor
    · rw [this.1]; omega
    · rw [this.2, this.1]; omega

end OtelVerif.C17
