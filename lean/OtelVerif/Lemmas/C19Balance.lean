import OtelVerif.Props.C19
/-!
# C19, exporter clause: the `_partial` balance theorems turned into characterisations, and their state hypotheses
discharged from hypotheses on the static configuration

`Props/C19.lean` proves the persistent-queue balance, the `wait_for_result` balance and the three-counter clause only under
hypotheses on the FINAL STATE (`keptOf s = 0`, `enqFailedWfrOf s = 0`, `failedOf s = 0`).  Here:

* `NoKeep` — new invariant of the shutdown LTS: without `retry_on_failure` no flight is ever in back-off and none ever ends with a
  shutdown error, so `keptOf s = 0` in every reachable state (`C19_kept_zero_without_retry`);
* the balance holds in full for every retry-less configuration (`C19_exporter_balance_no_retry`), and the clause as written
  holds for every configuration without retry and without `wait_for_result` (`C19_exporter_three_counter_cfg`);
* the hypotheses of the `_partial` theorems are necessary and sufficient (`…_iff`);
* `KeptFailed` — new invariant: a flight that ended with a shutdown error did not end with a successful call; hence every
  double-counted item is a send-failed item (`C19_kept_counted_failed`) and the over-count is bounded by *send-failed*
  (`C19_exporter_overcount_bound`).
-/
namespace OtelVerif.C19
open OtelVerif.C03

/-! ## generic helpers -/

theorem forall_flights_set {P : Flight → Prop} {fs : List Flight} {f : Nat} {v : Flight} (h : ∀ fl ∈ fs, P fl) (hv : P v) :
    ∀ fl ∈ fs.set f v, P fl := by
  intro fl hfl
  cases List.mem_or_eq_of_mem_set hfl with
  | inl h1 => exact h fl h1
  | inr h1 => exact h1 ▸ hv

theorem forall_flights_new {P : Flight → Prop} {fs : List Flight} {v : Flight} (h : ∀ fl ∈ fs, P fl) (hv : P v) :
    ∀ fl ∈ fs ++ [v], P fl := by
  intro fl hfl
  simp only [List.mem_append, List.mem_singleton] at hfl
  cases hfl with
  | inl h1 => exact h fl h1
  | inr h1 => exact h1 ▸ hv

/-- a pointwise stronger filter selects a smaller sum -/
theorem sum_filter_le {α : Type} (g : α → Nat) (p q : α → Bool) :
    ∀ (l : List α), (∀ a ∈ l, p a = true → q a = true) → ((l.filter p).map g).sum ≤ ((l.filter q).map g).sum
  | [], _ => by simp
  | a :: l, h => by
    have ih := sum_filter_le g p q l (fun b hb => h b (List.mem_cons_of_mem _ hb))
    have ha := h a List.mem_cons_self
    cases hp : p a
    · cases hq : q a <;> simp only [List.filter_cons, hp, hq, if_true, if_false, Bool.false_eq_true, List.map_cons, List.sum_cons] <;> omega
    · have hq := ha hp
      simp only [List.filter_cons, hp, hq, if_true, List.map_cons, List.sum_cons]; omega

/-! ## 1. the configuration never changes -/

theorem step_cfg {s s' : State} {l : Label} (hs : Step s l s') : s'.cfg = s.cfg := by
  cases hs <;> rfl

/-! ## 2. without retry: no back-off, no shutdown error -/

/-- per flight: not kept, not in back-off -/
def FlNoKeep (fl : Flight) : Prop := fl.kept = false ∧ fl.st ≠ .backoff

/-- `retry_on_failure` disabled: no flight is kept and none is in back-off (`retry_sender.go` is not in the chain) -/
def NoKeep (s : State) : Prop := s.cfg.retry = false → ∀ fl ∈ s.flights, fl.kept = false ∧ fl.st ≠ .backoff

theorem flNoKeep_new (b : Batch) (o : Option Nat) : FlNoKeep (Flight.new b o) := by
  simp [FlNoKeep, Flight.new]

theorem noKeep_step {s s' : State} {l : Label} (h : NoKeep s) (hs : Step s l s') : NoKeep s' := by
  intro hr
  cases hs with
  | offer b => exact h hr
  | read i b late rest hc hq hg => exact h hr
  | exit i hc hp hq => exact h hr
  | sendSync i b hc hb => exact forall_flights_new (P := FlNoKeep) (h hr) (flNoKeep_new _ _)
  | consume i b flush keep hc hb hp => exact h hr
  | spawn i b rest hc hw => exact forall_flights_new (P := FlNoKeep) (h hr) (flNoKeep_new _ _)
  | timerTake b ht hc => exact h hr
  | timerSpawn b ht hw => exact forall_flights_new (P := FlNoKeep) (h hr) (flNoKeep_new _ _)
  | timerExit ht hp => exact h hr
  | expStart f fl hfl hs =>
    have hk := (h hr fl (mem_of_getElem? hfl)).1
    exact forall_flights_set (P := FlNoKeep) (h hr) ⟨hk, by simp⟩
  | expEndDrop f fl o hfl hs => exact forall_flights_set (P := FlNoKeep) (h hr) ⟨rfl, by simp⟩
  | expEndAgain f fl hfl hs hr' hp0 =>
    have hr0 : s.cfg.retry = false := hr
    rw [hr0] at hr'; exact absurd hr' (by simp)
  | expEndKeep f fl hfl hs hr' hp =>
    have hr0 : s.cfg.retry = false := hr
    rw [hr0] at hr'; exact absurd hr' (by simp)
  | giveUp f fl kept hfl hs hk => exact absurd hs (h hr fl (mem_of_getElem? hfl)).2
  | shutRetry hp => exact h hr
  | shutQueue hp => exact h hr
  | join hp hall => exact h hr
  | shutBatcher hp hh => exact h hr
  | shutSpawn b hh hp hw => exact forall_flights_new (P := FlNoKeep) (h hr) (flNoKeep_new _ _)
  | shutWait hp hb => exact h hr

theorem noKeep_reachable {s : State} (h : Reachable s) : NoKeep s := by
  induction h with
  | init cfg n w t => intro _ fl hfl; simp [init] at hfl
  | step l _ hf ih => exact noKeep_step ih (fire_step hf)

/-! ## 3.–6. persistent-queue balance -/

/-- **No retry ⇒ nothing kept.** In every reachable state of every configuration with `retry_on_failure` disabled, no flight has
ended with a shutdown error: the double count of `C19_exporter_double_count` cannot occur. -/
theorem C19_kept_zero_without_retry {s : State} (h : Reachable s) (hr : s.cfg.retry = false) : keptOf s = 0 := by
  have hk := noKeep_reachable h hr
  have hnil : s.flights.filter (fun fl => fl.st == .done && fl.kept) = [] := by
    apply List.filter_eq_nil_iff.mpr
    intro fl hfl
    simp [(hk fl hfl).1]
  simp [keptOf, hnil]

/-- **The persistent clause in full for every retry-less configuration**: hypotheses on the configuration only. -/
theorem C19_exporter_balance_no_retry {s : State} (h : Reachable s) (hp : s.phase = 5) (hr : s.cfg.retry = false) :
    sentOf s + failedOf s + storedOf s = s.accepted.length :=
  C19_exporter_balance_partial h hp (C19_kept_zero_without_retry h hr)

/-- **Characterisation**: the hypothesis of `C19_exporter_balance_partial` is necessary and sufficient. -/
theorem C19_exporter_balance_iff {s : State} (h : Reachable s) (hp : s.phase = 5) :
    sentOf s + failedOf s + storedOf s = s.accepted.length ↔ keptOf s = 0 := by
  have := C19_exporter_double_count h hp
  constructor <;> intro _ <;> omega

/-- **Characterisation, `wait_for_result`**: the balance holds exactly when no request's `Done` received an error. -/
theorem C19_exporter_wfr_balance_iff {s : State} (h : Reachable s) (hp : s.phase = 5) :
    sentOf s + failedOf s + enqFailedWfrOf s + (queueItems s.queue).length = s.accepted.length ↔ enqFailedWfrOf s = 0 := by
  have := C19_exporter_wfr_double_count h hp
  constructor <;> intro _ <;> omega

/-! ## 7. the clause as written, from the configuration alone -/

/-- without `wait_for_result` an `Offer` never returns the export error: nothing is added to enqueue-failed on that path -/
theorem C19_wfr_zero_without_wfr {s : State} (hw : s.cfg.wfr = false) : enqFailedWfrOf s = 0 := by
  simp [enqFailedWfrOf, hw]

/-- **The clause as written, additive form**, for every schedule and refusal pattern of every configuration without
`wait_for_result` and without retry: sent + send-failed + enqueue-failed + stored = given. -/
theorem C19_exporter_three_counter_cfg {x : XState} (h : XReachable x) (hp : x.s.phase = 5) (hw : x.s.cfg.wfr = false)
    (hr : x.s.cfg.retry = false) (hn : x.s.cons ≠ []) :
    sentOf x.s + failedOf x.s + enqFailedOf x + (if x.s.cfg.persistent then storedOf x.s else 0) = x.given := by
  have hwz := C19_wfr_zero_without_wfr hw
  cases hpq : x.s.cfg.persistent with
  | true =>
    have h3 := C19_exporter_three_counter h hp
    have hk := C19_kept_zero_without_retry (xreachable_inv h).1 hr
    simp only [if_true, storedOf]; omega
  | false =>
    have := C19_exporter_three_counter_memory h hp hpq hn hwz
    simp only [Bool.false_eq_true, if_false]; omega

/-! ## 8. three-counter characterisations -/

/-- persistent queue: the clause as written holds exactly when neither recorded deviation occurred -/
theorem C19_exporter_three_counter_iff_persistent {x : XState} (h : XReachable x) (hp : x.s.phase = 5)
    (hpq : x.s.cfg.persistent = true) :
    sentOf x.s + failedOf x.s + enqFailedOf x + storedOf x.s = x.given ↔ (enqFailedWfrOf x.s = 0 ∧ keptOf x.s = 0) := by
  have _ := hpq
  have h3 := C19_exporter_three_counter h hp
  simp only [storedOf]
  constructor
  · intro _; constructor <;> omega
  · intro ⟨_, _⟩; omega

/-- memory queue: the clause as written holds exactly when no `wait_for_result` request saw an export error -/
theorem C19_exporter_three_counter_iff_memory {x : XState} (h : XReachable x) (hp : x.s.phase = 5)
    (hm : x.s.cfg.persistent = false) (hn : x.s.cons ≠ []) :
    sentOf x.s + failedOf x.s + enqFailedOf x = x.given ↔ enqFailedWfrOf x.s = 0 := by
  obtain ⟨hr, hg⟩ := xreachable_inv h
  have := C19_exporter_balance_memory_full_holds x.s hr hp hm hn
  simp only [enqFailedOf]
  constructor <;> intro _ <;> omega

/-! ## 9. the deviation is bounded by what was counted send-failed -/

/-- per flight: ended with a shutdown error ⇒ the last call did not succeed -/
def FlKeptFailed (fl : Flight) : Prop := fl.st = .done → fl.kept = true → fl.attempts ≠ fl.failures + 1

def KeptFailed (s : State) : Prop := ∀ fl ∈ s.flights, FlKeptFailed fl

theorem flKeptFailed_new (b : Batch) (o : Option Nat) : FlKeptFailed (Flight.new b o) := by
  simp [FlKeptFailed, Flight.new]

theorem keptFailed_step {s s' : State} {l : Label} (h : KeptFailed s) (hok : FlightsOK s) (hs : Step s l s') : KeptFailed s' := by
  unfold KeptFailed at *
  cases hs with
  | sendSync i b hc hb => exact forall_flights_new h (flKeptFailed_new _ _)
  | spawn i b rest hc hw => exact forall_flights_new h (flKeptFailed_new _ _)
  | timerSpawn b ht hw => exact forall_flights_new h (flKeptFailed_new _ _)
  | shutSpawn b hh hp hw => exact forall_flights_new h (flKeptFailed_new _ _)
  | expStart f fl hfl hs => exact forall_flights_set h (by simp [FlKeptFailed])
  | expEndDrop f fl o hfl hs => exact forall_flights_set h (by simp [FlKeptFailed])
  | expEndAgain f fl hfl hs hr hp0 => exact forall_flights_set h (by simp [FlKeptFailed])
  | expEndKeep f fl hfl hs hr hp =>
    have hfo := hok fl (mem_of_getElem? hfl)
    simp only [FlightOK, hs] at hfo
    apply forall_flights_set h
    intro _ _
    show fl.attempts ≠ fl.failures + 1 + 1
    omega
  | giveUp f fl kept hfl hs hk =>
    have hfo := hok fl (mem_of_getElem? hfl)
    simp only [FlightOK, hs] at hfo
    apply forall_flights_set h
    intro _ _
    show fl.attempts ≠ fl.failures + 0 + 1
    omega
  | _ => exact h

theorem keptFailed_reachable {s : State} (h : Reachable s) : KeptFailed s := by
  induction h with
  | init cfg n w t => intro fl hfl; simp [init] at hfl
  | step l hr hf ih => exact keptFailed_step ih (inv_reachable hr).flights (fire_step hf)

/-- **Every double-counted item is a send-failed item**: the items of the flights that ended with a shutdown error are among the
items counted send-failed (any reachable state, any configuration). -/
theorem C19_kept_counted_failed {s : State} (h : Reachable s) : keptOf s ≤ failedOf s := by
  have hk := keptFailed_reachable h
  simp only [keptOf, failedOf]
  apply sum_filter_le
  intro fl hfl hp
  simp only [Bool.and_eq_true, beq_iff_eq] at hp
  have hne := hk fl hfl hp.1 hp.2
  simp [hp.1, Flight.finalOk, hne]

/-- **Bound on the deviation**: when shutdown has returned, sent + send-failed + stored never under-counts what was accepted, and
over-counts it by at most *send-failed*. -/
theorem C19_exporter_overcount_bound {s : State} (h : Reachable s) (hp : s.phase = 5) :
    s.accepted.length ≤ sentOf s + failedOf s + storedOf s ∧ sentOf s + failedOf s + storedOf s ≤ s.accepted.length + failedOf s := by
  have h1 := C19_exporter_double_count h hp
  have h2 := C19_kept_counted_failed h
  constructor <;> omega

/-! ## 10. non-vacuity -/

/-- persistent queue, retry disabled, disabled batcher: `[1]` fails permanently, `[2,3]` is never dispatched and stays stored -/
def demoNoRetry : List Label :=
  [.offer [1], .offer [2, 3], .read 0, .sendSync 0, .expStart 0, .expEnd 0 .perm .drop, .shutRetry, .shutQueue, .exit 0, .join,
   .shutBatcher, .shutWait]

/-- hypotheses of `C19_kept_zero_without_retry` / `C19_exporter_balance_no_retry` met by a reachable state with something stored:
phase 5, retry off, persistent; sent 0, send-failed 1, stored 2, kept 0, accepted 3 -/
example : (runFrom (init { persistent := true, batching := false, retry := false } 1 0 false) demoNoRetry).map
    (fun s => (s.phase, s.cfg.retry, s.cfg.persistent)) = some (5, false, true) := by decide
example : (runFrom (init { persistent := true, batching := false, retry := false } 1 0 false) demoNoRetry).map
    (fun s => (sentOf s, failedOf s, storedOf s, keptOf s, s.accepted.length)) = some (0, 1, 2, 0, 3) := by decide

/-- the `iff`s are not trivially true on both sides: `demoPersistent` (retry enabled, back-off interrupted by the shutdown) has
`keptOf = 1` and 1 + 1 + 2 ≠ 3; the bound of `C19_kept_counted_failed` is tight there (kept 1 ≤ send-failed 1) -/
example : (runFrom (init { persistent := true, batching := false, retry := true } 2 0 false) demoPersistent).map
    (fun s => (s.phase, keptOf s, sentOf s + failedOf s + storedOf s, s.accepted.length, failedOf s)) = some (5, 1, 4, 3, 1) := by decide

/-- `C19_exporter_wfr_balance_iff`, failing side: `demoWfr` has `enqFailedWfrOf = 2 ≠ 0` and 1 + 2 + 2 + 0 ≠ 3 -/
example : (runFrom (init { persistent := false, batching := false, retry := false, wfr := true } 1 0 false) demoWfr).map
    (fun s => (s.phase, enqFailedWfrOf s, sentOf s + failedOf s + enqFailedWfrOf s + (queueItems s.queue).length, s.accepted.length)) =
      some (5, 2, 5, 3) := by decide

/-- `C19_exporter_wfr_balance_iff`, holding side with `wait_for_result` on: one request, sent -/
example : (runFrom (init { persistent := false, batching := false, retry := false, wfr := true } 1 0 false)
      [.offer [1, 2], .read 0, .sendSync 0, .expStart 0, .expEnd 0 .ok .drop, .shutRetry, .shutQueue, .exit 0, .join, .shutBatcher,
       .shutWait]).map
    (fun s => (s.phase, enqFailedWfrOf s, sentOf s + failedOf s + enqFailedWfrOf s + (queueItems s.queue).length, s.accepted.length)) =
      some (5, 0, 2, 2) := by decide

/-- run a schedule of the exporter with its `obsQueue` front -/
def xrunFrom (x : XState) : List XLabel → Option XState
  | [] => some x
  | l :: ls => match xfire x l with
    | some x' => xrunFrom x' ls
    | none => none

theorem xreachable_of_xrunFrom {x x' : XState} (ls : List XLabel) (h : XReachable x) (hr : xrunFrom x ls = some x') : XReachable x' := by
  induction ls generalizing x with
  | nil => simp [xrunFrom] at hr; exact hr ▸ h
  | cons l ls ih =>
    simp only [xrunFrom] at hr
    cases hf : xfire x l with
    | none => simp [hf] at hr
    | some x1 => simp [hf] at hr; exact ih (XReachable.step l h hf) hr

/-- hypotheses of `C19_exporter_three_counter_cfg` / `…_iff_persistent`, persistent queue with refusals: given 5 =
sent 0 + send-failed 1 + enqueue-failed 2 + stored 2 -/
example : (xrunFrom { s := init { persistent := true, batching := false, retry := false } 1 0 false }
      ([.lts (.offer [1]), .refuse [8, 9], .lts (.offer [2, 3])] ++ (demoNoRetry.drop 2).map .lts)).map
    (fun x => (x.s.phase, x.s.cfg.wfr, x.s.cfg.retry, x.s.cfg.persistent, x.s.cons.length)) = some (5, false, false, true, 1) := by decide
example : (xrunFrom { s := init { persistent := true, batching := false, retry := false } 1 0 false }
      ([.lts (.offer [1]), .refuse [8, 9], .lts (.offer [2, 3])] ++ (demoNoRetry.drop 2).map .lts)).map
    (fun x => (sentOf x.s, failedOf x.s, enqFailedOf x, storedOf x.s, x.given)) = some (0, 1, 2, 2, 5) := by decide

/-- hypotheses of `C19_exporter_three_counter_cfg` / `…_iff_memory`, memory queue with a queue-full refusal: given 5 =
sent 2 + send-failed 0 + enqueue-failed 3 -/
example : (xrunFrom { s := init { persistent := false, batching := false, retry := false } 1 0 false }
      [.lts (.offer [1, 2]), .refuse [3, 4, 5], .lts (.read 0), .lts (.sendSync 0), .lts (.expStart 0), .lts (.expEnd 0 .ok .drop),
       .lts .shutRetry, .lts .shutQueue, .lts (.exit 0), .lts .join, .lts .shutBatcher, .lts .shutWait]).map
    (fun x => ((x.s.phase, x.s.cfg.wfr, x.s.cfg.retry, x.s.cfg.persistent, x.s.cons.length),
      (sentOf x.s, failedOf x.s, enqFailedOf x, x.given))) = some ((5, false, false, false, 1), (2, 0, 3, 5)) := by decide

end OtelVerif.C19
