import OtelVerif.Props.C03
import OtelVerif.Model.C19Exp
/-!
# C19, exporter clause: queue-size gauge and `wait_for_result` counting over the shutdown LTS

* `GaugeInv` — memory queue: `qsize` (what `obs_queue.go` observes through `Size()`) is the sum of the sizes of the enqueued
  requests whose `Done` has not fired yet (queued, in a consumer's hands, batched, in flight, in back-off).
* `ResInv` — a request's `Done` received an error only if a flight that ended with an error carried part of it.
-/
namespace OtelVerif.C19
open OtelVerif.C03

/-! ## done items under the flight updates -/

theorem doneItems_append_new (fs : List Flight) (b : Batch) (o : Option Nat) :
    doneItems (fs ++ [Flight.new b o]) = doneItems fs := by
  simp [doneItems, Flight.new, List.flatMap_append]

theorem doneItems_set_nondone (fs : List Flight) (f : Nat) (fl v : Flight) (h : fs[f]? = some fl)
    (h1 : fl.st ≠ .done) (h2 : v.st ≠ .done) : doneItems (fs.set f v) = doneItems fs := by
  unfold doneItems
  apply flatMap_set_same _ fs f fl v h
  have e1 : (fl.st == FSt.done) = false := by simpa using h1
  have e2 : (v.st == FSt.done) = false := by simpa using h2
  simp [e1, e2]

theorem mem_doneItems {fs : List Flight} {x : Item} : x ∈ doneItems fs ↔ ∃ fl ∈ fs, fl.st = .done ∧ x ∈ fl.batch := by
  simp only [doneItems, List.mem_flatMap]
  constructor
  · rintro ⟨fl, hfl, hx⟩
    by_cases hd : fl.st = .done
    · exact ⟨fl, hfl, hd, by simpa [hd] using hx⟩
    · have : (fl.st == FSt.done) = false := by simpa using hd
      simp [this] at hx
  · rintro ⟨fl, hfl, hd, hx⟩
    exact ⟨fl, hfl, by simpa [hd] using hx⟩

theorem doneItems_mono_set {fs : List Flight} {f : Nat} {fl v : Flight} (h : fs[f]? = some fl) (h1 : fl.st ≠ .done) {x : Item}
    (hx : x ∈ doneItems fs) : x ∈ doneItems (fs.set f v) := by
  obtain ⟨gl, hgl, hd, hxb⟩ := mem_doneItems.mp hx
  exact mem_doneItems.mpr ⟨gl, mem_set_of_ne h hgl (by intro he; rw [he] at hd; exact h1 hd), hd, hxb⟩

theorem reqDone_mono {fs fs' : List Flight} (hm : ∀ x, x ∈ doneItems fs → x ∈ doneItems fs') {r : Batch}
    (h : reqDone fs r = true) : reqDone fs' r = true := by
  simp only [reqDone, List.all_eq_true, List.contains_iff_mem] at h ⊢
  intro x hx
  exact hm x (h x hx)

/-! ## sums over the outstanding requests -/

def outstanding (cfg : Cfg) (fs : List Flight) (reqs : List Batch) : Nat :=
  ((reqs.filter (fun r => !reqDone fs r)).map (reqSize cfg)).sum

theorem outstanding_split (cfg : Cfg) (fs fs' : List Flight) (reqs : List Batch)
    (hm : ∀ r, reqDone fs r = true → reqDone fs' r = true) :
    outstanding cfg fs reqs =
      outstanding cfg fs' reqs + ((reqs.filter (fun r => reqDone fs' r && !reqDone fs r)).map (reqSize cfg)).sum := by
  induction reqs with
  | nil => rfl
  | cons r rs ih =>
    simp only [outstanding] at ih ⊢
    cases h1 : reqDone fs r <;> cases h2 : reqDone fs' r
    · simp [h1, h2]; omega
    · simp [h1, h2]; omega
    · have := hm r h1; rw [h2] at this; simp at this
    · simp [h1, h2]; omega

theorem outstanding_congr (cfg : Cfg) (fs fs' : List Flight) (reqs : List Batch) (h : doneItems fs' = doneItems fs) :
    outstanding cfg fs' reqs = outstanding cfg fs reqs := by
  simp only [outstanding, reqDone, h]

theorem outstanding_append (cfg : Cfg) (fs : List Flight) (reqs : List Batch) (b : Batch) (hb : reqDone fs b = false) :
    outstanding cfg fs (reqs ++ [b]) = outstanding cfg fs reqs + reqSize cfg b := by
  simp [outstanding, List.filter_append, hb]

/-! ## ghost bookkeeping: `accepted = reqs.flatten`, done items are accepted -/

def ReqsInv (s : State) : Prop := s.accepted = s.reqs.flatten

theorem reqsInv_step {s s' : State} {l : Label} (h : ReqsInv s) (hs : Step s l s') : ReqsInv s' := by
  unfold ReqsInv at *
  cases hs with
  | offer b => simp [h, List.flatten_append]
  | expEndDrop f fl o hfl hs => exact h
  | expEndKeep f fl hfl hs hr hp => exact h
  | giveUp f fl kept hfl hs hk => exact h
  | _ => exact h

theorem done_sub_accepted {s : State} (hc : Conserved s) {x : Item} (hx : x ∈ doneItems s.flights) : x ∈ s.accepted := by
  obtain ⟨fl, hfl, _, hxb⟩ := mem_doneItems.mp hx
  have hmem : x ∈ flightItems s.flights := by
    simp only [flightItems, List.mem_flatMap]; exact ⟨fl, hfl, hxb⟩
  have hpos : 0 < (places s).count x := by
    apply List.count_pos_iff.mpr
    simp only [places, List.mem_append]; exact .inr hmem
  have := hc x
  exact List.count_pos_iff.mp (by omega)

/-! ## the queue-size invariant (memory queue) -/

def GaugeInv (s : State) : Prop :=
  s.cfg.persistent = false → s.accepted.Nodup → (∀ r ∈ s.reqs, r ≠ []) → s.qsize = outstanding s.cfg s.flights s.reqs

theorem gauge_finalise {s : State} (h : GaugeInv s) {f : Nat} {fl : Flight} {kept : Bool} {fail : Nat}
    (hfl : s.flights[f]? = some fl) (hst : fl.st ≠ .done) : GaugeInv (finalise s f fl kept fail) := by
  intro hm hu hne
  have ih := h hm hu hne
  have hmono : ∀ r, reqDone s.flights r = true →
      reqDone (s.flights.set f { fl with st := .done, failures := fl.failures + fail, kept := kept }) r = true :=
    fun r hr => reqDone_mono (fun x hx => doneItems_mono_set hfl hst hx) hr
  have hsplit := outstanding_split s.cfg s.flights
    (s.flights.set f { fl with st := .done, failures := fl.failures + fail, kept := kept }) s.reqs hmono
  show s.qsize - ((completedBy s f fl kept fail).map (reqSize s.cfg)).sum =
    outstanding s.cfg (s.flights.set f { fl with st := .done, failures := fl.failures + fail, kept := kept }) s.reqs
  simp only [completedBy]
  omega

theorem gauge_flight_set {s : State} (h : GaugeInv s) {f : Nat} {fl v : Flight} (hfl : s.flights[f]? = some fl)
    (h1 : fl.st ≠ .done) (h2 : v.st ≠ .done) : GaugeInv { s with flights := s.flights.set f v } := by
  intro hm hu hne
  have ih := h hm hu hne
  show s.qsize = outstanding s.cfg (s.flights.set f v) s.reqs
  rw [outstanding_congr _ _ _ _ (doneItems_set_nondone s.flights f fl v hfl h1 h2)]; exact ih

theorem gauge_new {s : State} (h : GaugeInv s) (b : Batch) (o : Option Nat) :
    ∀ (s' : State), s'.cfg = s.cfg → s'.accepted = s.accepted → s'.reqs = s.reqs → s'.qsize = s.qsize →
      s'.flights = s.flights ++ [Flight.new b o] → GaugeInv s' := by
  intro s' h1 h2 h3 h4 h5 hm hu hne
  have ih := h (h1 ▸ hm) (h2 ▸ hu) (h3 ▸ hne)
  rw [h4, h5, h1, h3, outstanding_congr _ _ _ _ (doneItems_append_new s.flights b o)]; exact ih

theorem gauge_same {s : State} (h : GaugeInv s) :
    ∀ (s' : State), s'.cfg = s.cfg → s'.accepted = s.accepted → s'.reqs = s.reqs → s'.qsize = s.qsize →
      s'.flights = s.flights → GaugeInv s' := by
  intro s' h1 h2 h3 h4 h5 hm hu hne
  have ih := h (h1 ▸ hm) (h2 ▸ hu) (h3 ▸ hne)
  rw [h4, h5, h1, h3]; exact ih

theorem gaugeInv_step {s s' : State} {l : Label} (h : GaugeInv s) (hc : Conserved s) (hs : Step s l s') : GaugeInv s' := by
  cases hs with
  | offer b =>
    intro hm hu hne
    have hu' : (s.accepted ++ b).Nodup := hu
    have hne' : ∀ r ∈ s.reqs ++ [b], r ≠ [] := hne
    have ih := h hm (List.nodup_append.mp hu').1 (fun r hr => hne' r (List.mem_append_left _ hr))
    have hb : b ≠ [] := hne' b (by simp)
    have hnd : reqDone s.flights b = false := by
      cases hb' : b with
      | nil => exact absurd hb' hb
      | cons x xs =>
        have hx : x ∈ b := by simp [hb']
        have hxa : x ∉ s.accepted := fun hxa => (List.nodup_append.mp hu').2.2 x hxa x hx rfl
        have hxd : x ∉ doneItems s.flights := fun hxd => hxa (done_sub_accepted hc hxd)
        simp only [reqDone, List.all_cons, Bool.and_eq_false_iff]
        left; simpa using hxd
    show s.qsize + reqSize s.cfg b = outstanding s.cfg s.flights (s.reqs ++ [b])
    rw [outstanding_append _ _ _ _ hnd, ih]
  | read i b late rest hc' hq hg =>
    intro hm hu hne
    have ih := h hm hu hne
    have hm' : s.cfg.persistent = false := hm
    show (if (s.cfg.persistent && rest.isEmpty) = true then 0 else s.qsize) = outstanding s.cfg s.flights s.reqs
    simp [hm', ih]
  | exit i hc' hp hq => exact gauge_same h _ rfl rfl rfl rfl rfl
  | sendSync i b hc' hb => exact gauge_new h b (some i) _ rfl rfl rfl rfl rfl
  | consume i b flush keep hc' hb hp => exact gauge_same h _ rfl rfl rfl rfl rfl
  | spawn i b rest hc' hw => exact gauge_new h b none _ rfl rfl rfl rfl rfl
  | timerTake b ht hc' => exact gauge_same h _ rfl rfl rfl rfl rfl
  | timerSpawn b ht hw => exact gauge_new h b none _ rfl rfl rfl rfl rfl
  | timerExit ht hp => exact gauge_same h _ rfl rfl rfl rfl rfl
  | expStart f fl hfl hs =>
    exact gauge_flight_set h hfl (by cases hs with | inl h => simp [h] | inr h => simp [h]) (by simp)
  | expEndDrop f fl o hfl hs => exact gauge_finalise h hfl (by simp [hs])
  | expEndAgain f fl hfl hs hr hp0 => exact gauge_flight_set h hfl (by simp [hs]) (by simp)
  | expEndKeep f fl hfl hs hr hp => exact gauge_finalise h hfl (by simp [hs])
  | giveUp f fl kept hfl hs hk => exact gauge_finalise h hfl (by simp [hs])
  | shutRetry hp => exact gauge_same h _ rfl rfl rfl rfl rfl
  | shutQueue hp => exact gauge_same h _ rfl rfl rfl rfl rfl
  | join hp hall => exact gauge_same h _ rfl rfl rfl rfl rfl
  | shutBatcher hp hh => exact gauge_same h _ rfl rfl rfl rfl rfl
  | shutSpawn b hh hp hw => exact gauge_new h b none _ rfl rfl rfl rfl rfl
  | shutWait hp hb => exact gauge_same h _ rfl rfl rfl rfl rfl

theorem gaugeInv_reachable {s : State} (h : Reachable s) : GaugeInv s := by
  induction h with
  | init cfg n w t => intro _ _ _; simp [init, outstanding]
  | step l hr hf ih => exact gaugeInv_step ih (inv_reachable hr).conserved (fire_step hf)

/-! ## `wait_for_result`: which requests receive an error -/

def ResInv (s : State) : Prop :=
  ∀ p ∈ s.results, p.2 = true → ∃ fl ∈ s.flights, fl.st = .done ∧ fl.attempts ≠ fl.failures + 1 ∧ fl.batch ≠ []

theorem resInv_keep {s : State} (h : ResInv s) (fs' : List Flight)
    (hk : ∀ fl ∈ s.flights, fl.st = .done → fl ∈ fs') :
    ∀ p ∈ s.results, p.2 = true → ∃ fl ∈ fs', fl.st = .done ∧ fl.attempts ≠ fl.failures + 1 ∧ fl.batch ≠ [] := by
  intro p hp ht
  obtain ⟨fl, hfl, hd, ha, hb⟩ := h p hp ht
  exact ⟨fl, hk fl hfl hd, hd, ha, hb⟩

theorem reqFailed_witness {fs : List Flight} {r : Batch} (h : reqFailed fs r = true) :
    ∃ fl ∈ fs, fl.st = .done ∧ fl.attempts ≠ fl.failures + 1 ∧ fl.batch ≠ [] := by
  simp only [reqFailed, List.any_eq_true, Bool.and_eq_true] at h
  obtain ⟨fl, hfl, ⟨hd, ha⟩, x, _, hx⟩ := h
  refine ⟨fl, hfl, by simpa using hd, by simpa using ha, ?_⟩
  intro he; simp [he] at hx

theorem resInv_finalise {s : State} (h : ResInv s) {f : Nat} {fl : Flight} {kept : Bool} {fail : Nat}
    (hfl : s.flights[f]? = some fl) (hst : fl.st ≠ .done) : ResInv (finalise s f fl kept fail) := by
  intro p hp ht
  have hp' : p ∈ s.results ++ (completedBy s f fl kept fail).map
      (fun r => (r, reqFailed (s.flights.set f { fl with st := .done, failures := fl.failures + fail, kept := kept }) r)) := hp
  simp only [List.mem_append, List.mem_map] at hp'
  cases hp' with
  | inl h1 =>
    exact resInv_keep h _ (fun gl hgl hd => mem_set_of_ne hfl hgl (by intro he; rw [he] at hd; exact hst hd)) p h1 ht
  | inr h1 =>
    obtain ⟨r, _, hr⟩ := h1
    subst hr
    exact reqFailed_witness ht

theorem resInv_step {s s' : State} {l : Label} (h : ResInv s) (hs : Step s l s') : ResInv s' := by
  cases hs with
  | offer b => exact h
  | read i b late rest hc hq hg => exact h
  | exit i hc hp hq => exact h
  | sendSync i b hc hb => exact resInv_keep h _ (fun fl hfl _ => List.mem_append_left _ hfl)
  | consume i b flush keep hc hb hp => exact h
  | spawn i b rest hc hw => exact resInv_keep h _ (fun fl hfl _ => List.mem_append_left _ hfl)
  | timerTake b ht hc => exact h
  | timerSpawn b ht hw => exact resInv_keep h _ (fun fl hfl _ => List.mem_append_left _ hfl)
  | timerExit ht hp => exact h
  | expStart f fl hfl hs =>
    exact resInv_keep h _ (fun gl hgl hd => mem_set_of_ne hfl hgl (by
      intro he; rw [he] at hd; cases hs with | inl h => simp [h] at hd | inr h => simp [h] at hd))
  | expEndDrop f fl o hfl hs => exact resInv_finalise h hfl (by simp [hs])
  | expEndAgain f fl hfl hs hr hp0 =>
    exact resInv_keep h _ (fun gl hgl hd => mem_set_of_ne hfl hgl (by intro he; rw [he] at hd; simp [hs] at hd))
  | expEndKeep f fl hfl hs hr hp => exact resInv_finalise h hfl (by simp [hs])
  | giveUp f fl kept hfl hs hk => exact resInv_finalise h hfl (by simp [hs])
  | shutRetry hp => exact h
  | shutQueue hp => exact h
  | join hp hall => exact h
  | shutBatcher hp hh => exact h
  | shutSpawn b hh hp hw => exact resInv_keep h _ (fun fl hfl _ => List.mem_append_left _ hfl)
  | shutWait hp hb => exact h

theorem resInv_reachable {s : State} (h : Reachable s) : ResInv s := by
  induction h with
  | init cfg n w t => intro p hp; simp [init] at hp
  | step l _ hf ih => exact resInv_step ih (fire_step hf)

/-! ## the exporter with its `obsQueue` front: given items and refused offers next to the LTS state

`obs_queue.go` `Offer`: `numItems := req.ItemsCount()`; `err := Queue.Offer`; `if err != nil { enqueueFailed += numItems }`.
A refused offer (queue full, context done, queue stopped …) does not change the state of the shutdown LTS; an accepted one is
the LTS label `offer b`.  `XState` carries what the exporter was GIVEN and the items of the refused offers. -/

inductive XReachable : XState → Prop
  | init (cfg n w t) : XReachable { s := init cfg n w t }
  | step {x x'} (l : XLabel) : XReachable x → xfire x l = some x' → XReachable x'

theorem accepted_step {s s' : State} {l : Label} (hs : Step s l s') :
    s'.accepted.length = s.accepted.length + (match l with | .offer b => b.length | _ => 0) := by
  cases hs <;> simp [finalise, List.length_append]

theorem xreachable_inv {x : XState} (h : XReachable x) : Reachable x.s ∧ x.given = x.s.accepted.length + x.refused := by
  induction h with
  | init cfg n w t => exact ⟨Reachable.init _ _ _ _, by simp [init]⟩
  | step l _ hf ih =>
    obtain ⟨hr, hg⟩ := ih
    cases l with
    | refuse b =>
      simp only [xfire, Option.some.injEq] at hf; subst hf
      exact ⟨hr, by simp only []; omega⟩
    | lts l =>
      simp only [xfire] at hf
      split at hf
      · next s' hs' =>
        simp only [Option.some.injEq] at hf; subst hf
        refine ⟨Reachable.step l hr hs', ?_⟩
        have := accepted_step (fire_step hs')
        cases l <;> simp only [] at this ⊢ <;> omega
      · simp at hf

end OtelVerif.C19
