import OtelVerif.Props.C19
/-!
# C19, queue-size gauge of the PERSISTENT queue: it never over-reports

`persistent_queue.go` keeps `queueSize` lossily: `Read` resets it to 0 when everything that was written has been dispatched
(`if readIndex == writeIndex { queueSize = 0 }`) and `onDone` clamps the subtraction at 0.  So the equality proved for the memory
queue (`C19_gauge_lts`) is false for it (`C19_gauge_persistent_eq_full_fails`), but the one-sided bound holds on every schedule:

* `PGaugeInv` — `qsize ≤ Σ sizes of the enqueued requests whose Done has not fired` (either queue kind),
* `C19_gauge_persistent_le`, `C19_gauge_le_any_queue` — the bound in every reachable state,
* `C19_gauge_persistent_zero_when_drained` — what the reset gives: 0 right after the `Read` that empties the queue.

The hypotheses of the memory-queue theorem (unique item ids, non-empty requests) are still needed for `≤`: `reqDone` is decided per
item, so a request made of already-finished items (or an empty one) would add to `qsize` without adding to the outstanding sum.
-/
namespace OtelVerif.C19
open OtelVerif.C03

/-! ## the one-sided invariant -/

/-- `qsize` never exceeds the total size of the requests whose `Done` has not fired (no assumption on the queue kind) -/
def PGaugeInv (s : State) : Prop :=
  s.accepted.Nodup → (∀ r ∈ s.reqs, r ≠ []) → s.qsize ≤ outstanding s.cfg s.flights s.reqs

theorem pgauge_finalise {s : State} (h : PGaugeInv s) {f : Nat} {fl : Flight} {kept : Bool} {fail : Nat}
    (hfl : s.flights[f]? = some fl) (hst : fl.st ≠ .done) : PGaugeInv (finalise s f fl kept fail) := by
  intro hu hne
  have ih := h hu hne
  have hmono : ∀ r, reqDone s.flights r = true →
      reqDone (s.flights.set f { fl with st := .done, failures := fl.failures + fail, kept := kept }) r = true :=
    fun r hr => reqDone_mono (fun x hx => doneItems_mono_set hfl hst hx) hr
  have hsplit := outstanding_split s.cfg s.flights
    (s.flights.set f { fl with st := .done, failures := fl.failures + fail, kept := kept }) s.reqs hmono
  show s.qsize - ((completedBy s f fl kept fail).map (reqSize s.cfg)).sum ≤
    outstanding s.cfg (s.flights.set f { fl with st := .done, failures := fl.failures + fail, kept := kept }) s.reqs
  simp only [completedBy]
  omega

theorem pgauge_flight_set {s : State} (h : PGaugeInv s) {f : Nat} {fl v : Flight} (hfl : s.flights[f]? = some fl)
    (h1 : fl.st ≠ .done) (h2 : v.st ≠ .done) : PGaugeInv { s with flights := s.flights.set f v } := by
  intro hu hne
  have ih := h hu hne
  show s.qsize ≤ outstanding s.cfg (s.flights.set f v) s.reqs
  rw [outstanding_congr _ _ _ _ (doneItems_set_nondone s.flights f fl v hfl h1 h2)]; exact ih

theorem pgauge_new {s : State} (h : PGaugeInv s) (b : Batch) (o : Option Nat) :
    ∀ (s' : State), s'.cfg = s.cfg → s'.accepted = s.accepted → s'.reqs = s.reqs → s'.qsize = s.qsize →
      s'.flights = s.flights ++ [Flight.new b o] → PGaugeInv s' := by
  intro s' h1 h2 h3 h4 h5 hu hne
  have ih := h (h2 ▸ hu) (h3 ▸ hne)
  rw [h4, h5, h1, h3, outstanding_congr _ _ _ _ (doneItems_append_new s.flights b o)]; exact ih

theorem pgauge_same {s : State} (h : PGaugeInv s) :
    ∀ (s' : State), s'.cfg = s.cfg → s'.accepted = s.accepted → s'.reqs = s.reqs → s'.qsize = s.qsize →
      s'.flights = s.flights → PGaugeInv s' := by
  intro s' h1 h2 h3 h4 h5 hu hne
  have ih := h (h2 ▸ hu) (h3 ▸ hne)
  rw [h4, h5, h1, h3]; exact ih

theorem pgaugeInv_step {s s' : State} {l : Label} (h : PGaugeInv s) (hc : Conserved s) (hs : Step s l s') : PGaugeInv s' := by
  cases hs with
  | offer b =>
    intro hu hne
    have hu' : (s.accepted ++ b).Nodup := hu
    have hne' : ∀ r ∈ s.reqs ++ [b], r ≠ [] := hne
    have ih := h (List.nodup_append.mp hu').1 (fun r hr => hne' r (List.mem_append_left _ hr))
    have hb : b ≠ [] := hne' b (by simp)
    have hnd : reqDone s.flights b = false := by
      cases hb' : b with
      | nil => exact absurd hb' hb
      | cons x xs =>
        have hx : x ∈ b := by simp [hb']
        have hxa : x ∉ s.accepted := fun hxa => (List.nodup_append.mp hu').2.2 x hxa x hx rfl
        have hxd : x ∉ doneItems s.flights := fun hxd => hxa (done_sub_accepted hc hxd)
        simp only [reqDone, List.all_cons, Bool.and_eq_false_iff]
        left; simpa using hxd
    show s.qsize + reqSize s.cfg b ≤ outstanding s.cfg s.flights (s.reqs ++ [b])
    rw [outstanding_append _ _ _ _ hnd]
    exact Nat.add_le_add_right ih _
  | read i b late rest hc' hq hg =>
    intro hu hne
    have ih : s.qsize ≤ outstanding s.cfg s.flights s.reqs := h hu hne
    show (if (s.cfg.persistent && rest.isEmpty) = true then 0 else s.qsize) ≤ outstanding s.cfg s.flights s.reqs
    cases hcond : (s.cfg.persistent && rest.isEmpty)
    · simpa using ih
    · simp
  | exit i hc' hp hq => exact pgauge_same h _ rfl rfl rfl rfl rfl
  | sendSync i b hc' hb => exact pgauge_new h b (some i) _ rfl rfl rfl rfl rfl
  | consume i b flush keep hc' hb hp => exact pgauge_same h _ rfl rfl rfl rfl rfl
  | spawn i b rest hc' hw => exact pgauge_new h b none _ rfl rfl rfl rfl rfl
  | timerTake b ht hc' => exact pgauge_same h _ rfl rfl rfl rfl rfl
  | timerSpawn b ht hw => exact pgauge_new h b none _ rfl rfl rfl rfl rfl
  | timerExit ht hp => exact pgauge_same h _ rfl rfl rfl rfl rfl
  | expStart f fl hfl hs =>
    exact pgauge_flight_set h hfl (by cases hs with | inl h => simp [h] | inr h => simp [h]) (by simp)
  | expEndDrop f fl o hfl hs => exact pgauge_finalise h hfl (by simp [hs])
  | expEndAgain f fl hfl hs hr hp0 => exact pgauge_flight_set h hfl (by simp [hs]) (by simp)
  | expEndKeep f fl hfl hs hr hp => exact pgauge_finalise h hfl (by simp [hs])
  | giveUp f fl kept hfl hs hk => exact pgauge_finalise h hfl (by simp [hs])
  | shutRetry hp => exact pgauge_same h _ rfl rfl rfl rfl rfl
  | shutQueue hp => exact pgauge_same h _ rfl rfl rfl rfl rfl
  | join hp hall => exact pgauge_same h _ rfl rfl rfl rfl rfl
  | shutBatcher hp hh => exact pgauge_same h _ rfl rfl rfl rfl rfl
  | shutSpawn b hh hp hw => exact pgauge_new h b none _ rfl rfl rfl rfl rfl
  | shutWait hp hb => exact pgauge_same h _ rfl rfl rfl rfl rfl

theorem pgaugeInv_reachable {s : State} (h : Reachable s) : PGaugeInv s := by
  induction h with
  | init cfg n w t => intro _ _; simp [init, outstanding]
  | step l hr hf ih => exact pgaugeInv_step ih (inv_reachable hr).conserved (fire_step hf)

/-! ## the theorems -/

/-- **Queue-size gauge of the persistent queue never over-reports** (every schedule): what `Size()` returns — and the gauge
observes — is at most the total size of the enqueued requests whose `Done` has not fired (queued, held by a consumer, batched,
waiting for a worker, in flight, in back-off).  Equality is lost at the reset in `Read` and at the clamp in `onDone`
(`C19_gauge_persistent_eq_full_fails`).  Unique item ids, non-empty requests, as for `C19_gauge_lts`. -/
theorem C19_gauge_persistent_le {s : State} (h : Reachable s) (hp : s.cfg.persistent = true) (hu : s.accepted.Nodup)
    (hne : ∀ r ∈ s.reqs, r ≠ []) :
    s.qsize ≤ ((s.reqs.filter (fun r => !reqDone s.flights r)).map (reqSize s.cfg)).sum := by
  have _hkind := hp  -- the invariant itself does not depend on the queue kind; see `C19_gauge_le_any_queue`
  exact pgaugeInv_reachable h hu hne

/-- the schedule of the non-vacuity examples: `[1]` is dispatched (the reset sets the size to 0), then `[2]` is enqueued -/
def demoPGauge : List Label := [.offer [1], .read 0, .offer [2]]

/-- non-vacuity of `C19_gauge_persistent_le`: a reachable persistent state that meets the hypotheses and where the bound is strict:
`qsize = 1` while two requests (`[1]` held by the consumer, `[2]` queued) are outstanding -/
example :
    (runFrom (init { persistent := true, batching := false, retry := false } 1 0 false) demoPGauge).map
      (fun s => (s.cfg.persistent, decide s.accepted.Nodup, s.reqs.all (fun r => r != []), s.qsize,
        ((s.reqs.filter (fun r => !reqDone s.flights r)).map (reqSize s.cfg)).sum)) = some (true, true, true, 1, 2) := by decide

/-- the theorem applied to that state -/
example (s : State)
    (hd : runFrom (init { persistent := true, batching := false, retry := false } 1 0 false) demoPGauge = some s)
    (hp : s.cfg.persistent = true) (hu : s.accepted.Nodup) (hne : ∀ r ∈ s.reqs, r ≠ []) :
    s.qsize ≤ ((s.reqs.filter (fun r => !reqDone s.flights r)).map (reqSize s.cfg)).sum :=
  C19_gauge_persistent_le (reachable_of_runFrom demoPGauge (Reachable.init _ _ _ _) hd) hp hu hne

/-- a run where the bound is tight again after a `Done` (items-sized queue: 2 + 3 enqueued, `[1,2]` exported, 3 left) -/
example :
    (runFrom (init { persistent := true, batching := false, retry := false, itemsSized := true } 1 0 false)
        [.offer [1, 2], .offer [3, 4, 5], .read 0, .sendSync 0, .expStart 0, .expEnd 0 .ok .drop]).map
      (fun s => (s.qsize, ((s.reqs.filter (fun r => !reqDone s.flights r)).map (reqSize s.cfg)).sum)) = some (3, 3) := by decide

/-- the hypotheses cannot be dropped for `≤`: an empty request (`reqDone … [] = true`) and a request re-using finished item ids
both add to `qsize` without adding to the outstanding sum (model-level: 1 > 0 and 1 > 0) -/
example :
    ((runFrom (init { persistent := true, batching := false, retry := false } 1 0 false) [.offer []]).map
      (fun s => (s.qsize, ((s.reqs.filter (fun r => !reqDone s.flights r)).map (reqSize s.cfg)).sum)) = some (1, 0)) ∧
    ((runFrom (init { persistent := true, batching := false, retry := false } 1 0 false)
        [.offer [1], .read 0, .sendSync 0, .expStart 0, .expEnd 0 .ok .drop, .offer [1]]).map
      (fun s => (s.qsize, ((s.reqs.filter (fun r => !reqDone s.flights r)).map (reqSize s.cfg)).sum)) = some (1, 0)) := by decide

/-- **Either queue kind**: the size the gauge observes never exceeds the total size of the outstanding requests
(memory queue: it is equal, `C19_gauge_lts`; persistent queue: `C19_gauge_persistent_le`). -/
theorem C19_gauge_le_any_queue {s : State} (h : Reachable s) (hu : s.accepted.Nodup) (hne : ∀ r ∈ s.reqs, r ≠ []) :
    s.qsize ≤ ((s.reqs.filter (fun r => !reqDone s.flights r)).map (reqSize s.cfg)).sum := by
  cases hk : s.cfg.persistent with
  | true => exact C19_gauge_persistent_le h hk hu hne
  | false => exact Nat.le_of_eq (C19_gauge_lts h hk hu hne)

/-- non-vacuity of `C19_gauge_le_any_queue`, memory side: same schedule on a memory queue, no reset: `qsize = 2 = outstanding` -/
example :
    (runFrom (init { persistent := false, batching := false, retry := false } 1 0 false) demoPGauge).map
      (fun s => (s.cfg.persistent, decide s.accepted.Nodup, s.reqs.all (fun r => r != []), s.qsize,
        ((s.reqs.filter (fun r => !reqDone s.flights r)).map (reqSize s.cfg)).sum)) = some (false, true, true, 2, 2) := by decide

/-- **What the reset gives**: right after a `Read` that empties a persistent queue the reported size is 0, whatever it was before
(`persistent_queue.go` `Read`: `if readIndex == writeIndex { queueSize = 0 }`). -/
theorem C19_gauge_persistent_zero_when_drained {s s' : State} {i : Nat} (hf : fire s (.read i) = some s')
    (hp : s.cfg.persistent = true) (hq : s'.queue = []) : s'.qsize = 0 := by
  have hs := fire_step hf
  cases hs with
  | read i b late rest hc' hq' hg =>
    have hr : rest = [] := hq
    show (if (s.cfg.persistent && rest.isEmpty) = true then 0 else s.qsize) = 0
    simp [hp, hr]

/-- non-vacuity of `C19_gauge_persistent_zero_when_drained`: size 1 before the read, the read is enabled and empties the queue -/
example :
    ((runFrom (init { persistent := true, batching := false, retry := false } 1 0 false) [.offer [1]]).bind
      (fun s => (fire s (.read 0)).map (fun s' => (s.cfg.persistent, s.qsize, s'.queue.isEmpty, s'.qsize)))) =
      some (true, 1, true, 0) := by decide

/-- a read that does NOT empty the queue leaves the size alone (the hypothesis `s'.queue = []` matters) -/
example :
    ((runFrom (init { persistent := true, batching := false, retry := false } 1 0 false) [.offer [1], .offer [2]]).bind
      (fun s => (fire s (.read 0)).map (fun s' => (s'.queue.isEmpty, s'.qsize)))) = some (false, 2) := by decide

/-! ## the equality of the memory queue does not carry over -/

/-- the statement of `C19_gauge_lts` for persistent queues -/
def C19_gauge_persistent_eq_full : Prop :=
  ∀ s : State, Reachable s → s.cfg.persistent = true → s.accepted.Nodup → (∀ r ∈ s.reqs, r ≠ []) →
    s.qsize = ((s.reqs.filter (fun r => !reqDone s.flights r)).map (reqSize s.cfg)).sum

/-- one request enqueued and handed to the consumer: the queue is empty, so `Read` reset the size to 0 — the request's `Done` has
not fired (it has not even been exported) -/
def demoPGaugeReset : List Label := [.offer [1], .read 0]

/-- the full equality fails for the code as it is: after `demoPGaugeReset` the gauge reads 0 while request `[1]` (size 1) is
outstanding -/
theorem C19_gauge_persistent_eq_full_fails : ¬ C19_gauge_persistent_eq_full := by
  intro hfull
  cases hd : runFrom (init { persistent := true, batching := false, retry := false } 1 0 false) demoPGaugeReset with
  | none =>
    have : (runFrom (init { persistent := true, batching := false, retry := false } 1 0 false) demoPGaugeReset).isSome = true := by decide
    simp [hd] at this
  | some s =>
    have hr : Reachable s := reachable_of_runFrom demoPGaugeReset (Reachable.init _ _ _ _) hd
    have hv : (runFrom (init { persistent := true, batching := false, retry := false } 1 0 false) demoPGaugeReset).map
        (fun s => (s.cfg.persistent, s.accepted, s.reqs, s.qsize,
          ((s.reqs.filter (fun r => !reqDone s.flights r)).map (reqSize s.cfg)).sum)) = some (true, [1], [[1]], 0, 1) := by decide
    rw [hd] at hv
    simp only [Option.map_some, Option.some.injEq, Prod.mk.injEq] at hv
    obtain ⟨h1, h2, h3, h4, h5⟩ := hv
    have := hfull s hr h1 (by rw [h2]; simp) (by rw [h3]; simp)
    omega

end OtelVerif.C19
