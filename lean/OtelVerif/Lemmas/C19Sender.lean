import OtelVerif.Model.C19Sender
import OtelVerif.Props.C19
/-!
# C19 — the per-call model of `obsReportSender` / `obsQueue` (`Model/C19Sender.lean`) and its link to the counter definitions over the LTS

* the REGENERATED per-signal switches select, for each of traces / metrics / logs, the sent / send-failed / enqueue-failed instrument
  of THAT signal; profiles have no case;
* the regenerated skeletons of `Send`, `endOp`, `toNumItems`, `Offer` and the gauge callbacks have the order the model assumes;
* for every history of flight ends and offer returns the per-call model's totals are the sums by outcome; profiles: always zero;
* folding `endOp` over the ended flights of ANY state of the C03 LTS gives exactly `sentOf` / `failedOf` — the definitions all
  exporter theorems of `Props/C19.lean` are about are thereby DERIVED from the model of the code that writes the counters.
-/
namespace OtelVerif.C19
open OtelVerif.Gen.ExpInstruments OtelVerif.C03

/-- **Instrument selection** (regenerated tables): every case of `newObsReportSender`'s switch assigns the SENT instrument of the
case's own signal to `itemsSentInst` and its SEND-FAILED instrument to `itemsFailedInst`; every case of `newObsQueue`'s switch the
ENQUEUE-FAILED instrument of its own signal; both switches have exactly the cases traces, metrics, logs (no profiles, no duplicate). -/
theorem C19_exporter_instrument_table :
    (∀ r ∈ senderTable, Sig.ofCode r.1 ≠ none ∧ instKind r.2.1 = Sig.ofCode r.1 ∧ instRole r.2.1 = some .sent ∧
        instKind r.2.2 = Sig.ofCode r.1 ∧ instRole r.2.2 = some .sendFailed) ∧
    (∀ r ∈ queueTable, Sig.ofCode r.1 ≠ none ∧ instKind r.2 = Sig.ofCode r.1 ∧ instRole r.2 = some .enqueueFailed) ∧
    senderTable.map (·.1) = [0, 1, 2] ∧ queueTable.map (·.1) = [0, 1, 2] := by decide

/-- which signals record: all but profiles -/
theorem C19_sender_rows (sig : Sig) :
    ((Sender.senderRow sig).isSome = true ↔ sig ≠ .profiles) ∧ ((Sender.queueRow sig).isSome = true ↔ sig ≠ .profiles) := by
  cases sig <;> decide

/-- **Shape of the code that writes the counters** (regenerated skeletons): the item count is read before the request goes down the
chain / into the queue; `toNumItems` splits by `err != nil`; each `Add` is guarded by `!= nil`; `Offer` counts exactly on error;
the size gauge observes `delegate.Size()` and the CAPACITY gauge `delegate.Capacity()`. -/
theorem C19_sender_shape :
    Sender.countBeforeSend = true ∧ Sender.endOpAdds = true ∧ Sender.toNumItemsSplit = true ∧ Sender.offerCounts = true ∧
    Sender.gaugesObserve = true := by decide

/-- `endOp` for a recording signal: the count goes to exactly one of sent / send-failed, chosen by the error -/
theorem C19_sender_endOp (sig : Sig) (hs : sig ≠ .profiles) (n : Nat) (f : Bool) (c : Ctr) :
    (Sender.endOp sig n f c).sent = c.sent + (if f then 0 else n) ∧ (Sender.endOp sig n f c).failed = c.failed + (if f then n else 0) ∧
    (Sender.endOp sig n f c).enq = c.enq := by
  cases sig <;> first | exact absurd rfl hs | (cases f <;> simp [Sender.endOp, Sender.senderRow, senderTable, Sig.code, Sender.toNumItems])

/-- `Offer` for a recording signal -/
theorem C19_sender_offerEnd (sig : Sig) (hs : sig ≠ .profiles) (n : Nat) (r : Bool) (c : Ctr) :
    (Sender.offerEnd sig n r c).enq = c.enq + (if r then n else 0) ∧ (Sender.offerEnd sig n r c).sent = c.sent ∧
    (Sender.offerEnd sig n r c).failed = c.failed := by
  cases sig <;> first | exact absurd rfl hs | (cases r <;> simp [Sender.offerEnd, Sender.queueRow, queueTable, Sig.code])

def sentSum : List Sender.Ev → Nat
  | [] => 0
  | .flightEnd n false :: es => n + sentSum es
  | _ :: es => sentSum es
def failedSum : List Sender.Ev → Nat
  | [] => 0
  | .flightEnd n true :: es => n + failedSum es
  | _ :: es => failedSum es
def enqSum : List Sender.Ev → Nat
  | [] => 0
  | .offerRet n true :: es => n + enqSum es
  | _ :: es => enqSum es

theorem sender_fold (sig : Sig) (hs : sig ≠ .profiles) (evs : List Sender.Ev) (c : Ctr) :
    (evs.foldl (Sender.step sig) c).sent = c.sent + sentSum evs ∧ (evs.foldl (Sender.step sig) c).failed = c.failed + failedSum evs ∧
    (evs.foldl (Sender.step sig) c).enq = c.enq + enqSum evs := by
  induction evs generalizing c with
  | nil => simp [sentSum, failedSum, enqSum]
  | cons e es ih =>
    simp only [List.foldl_cons]
    obtain ⟨h1, h2, h3⟩ := ih (Sender.step sig c e)
    cases e with
    | flightEnd n f =>
      obtain ⟨e1, e2, e3⟩ := C19_sender_endOp sig hs n f c
      cases f <;> simp only [Sender.step, sentSum, failedSum, enqSum] at * <;> simp_all <;> omega
    | offerRet n r =>
      obtain ⟨e1, e2, e3⟩ := C19_sender_offerEnd sig hs n r c
      cases r <;> simp only [Sender.step, sentSum, failedSum, enqSum] at * <;> simp_all <;> omega

/-- **Totals of every history** (traces, metrics, logs): sent = items of the passes that ended without error, send-failed = items of
those that ended with an error, enqueue-failed = items of the offers that returned an error — and so sent + send-failed = items of
all passes, whatever the order of the events. -/
theorem C19_sender_totals (sig : Sig) (hs : sig ≠ .profiles) (evs : List Sender.Ev) :
    (Sender.run sig evs).sent = sentSum evs ∧ (Sender.run sig evs).failed = failedSum evs ∧ (Sender.run sig evs).enq = enqSum evs := by
  have := sender_fold sig hs evs {}
  simpa [Sender.run] using this

/-- **Profiles record nothing**, for every history: no counter moves and no item-counter series comes into existence -/
theorem C19_sender_profiles_silent (evs : List Sender.Ev) : Sender.run .profiles evs = {} ∧ (Sender.run .profiles evs).series = 0 := by
  have h : ∀ c, evs.foldl (Sender.step .profiles) c = c := by
    induction evs with
    | nil => intro c; rfl
    | cons e es ih =>
      intro c
      simp only [List.foldl_cons]
      have : Sender.step .profiles c e = c := by
        cases e <;> simp [Sender.step, Sender.endOp, Sender.offerEnd, Sender.senderRow, Sender.queueRow, senderTable, queueTable, Sig.code]
      rw [this]; exact ih c
  have := h {}
  simp only [Sender.run, this]
  exact ⟨trivial, by decide⟩

/-- the passes through `obsReportSender` that have ended in a state of the C03 LTS: one `flightEnd` per ended flight, carrying the
item count read before the first attempt and whether the final error was non-nil -/
def flightEvs (s : State) : List Sender.Ev :=
  (s.flights.filter (fun fl => fl.st == .done)).map (fun fl => .flightEnd fl.batch.length (!Flight.finalOk fl))

theorem sums_of_flights (fs : List Flight) :
    sentSum ((fs.filter (fun fl => fl.st == .done)).map (fun fl => Sender.Ev.flightEnd fl.batch.length (!Flight.finalOk fl))) =
      ((fs.filter (fun fl => fl.st == .done && Flight.finalOk fl)).map (·.batch.length)).sum ∧
    failedSum ((fs.filter (fun fl => fl.st == .done)).map (fun fl => Sender.Ev.flightEnd fl.batch.length (!Flight.finalOk fl))) =
      ((fs.filter (fun fl => fl.st == .done && !Flight.finalOk fl)).map (·.batch.length)).sum := by
  induction fs with
  | nil => simp [sentSum, failedSum]
  | cons fl fs ih =>
    obtain ⟨i1, i2⟩ := ih
    by_cases hd : fl.st = .done
    · cases hk : Flight.finalOk fl <;> simp [hd, hk, sentSum, failedSum, i1, i2]
    · have : (fl.st == FSt.done) = false := by simpa using hd
      simp [this, i1, i2]

/-- **The counter definitions over the LTS are what the per-call model of the code computes**: in EVERY state of the C03 LTS, running
`obsReportSender.endOp` once per ended flight (count read before the send, error = the flight's final error) yields exactly
`sentOf` and `failedOf` — for each recording signal. -/
theorem C19_sender_matches_lts (sig : Sig) (hs : sig ≠ .profiles) (s : State) :
    (Sender.run sig (flightEvs s)).sent = sentOf s ∧ (Sender.run sig (flightEvs s)).failed = failedOf s := by
  obtain ⟨h1, h2, _⟩ := C19_sender_totals sig hs (flightEvs s)
  obtain ⟨s1, s2⟩ := sums_of_flights s.flights
  simp only [flightEvs] at h1 h2 ⊢
  rw [h1, h2, s1, s2]
  exact ⟨rfl, rfl⟩

/-- counters are sums: the order in which flights end / offers return does not matter -/
theorem C19_sender_perm (sig : Sig) (hs : sig ≠ .profiles) {a b : List Sender.Ev} (hp : a.Perm b) :
    (Sender.run sig a).sent = (Sender.run sig b).sent ∧ (Sender.run sig a).failed = (Sender.run sig b).failed ∧
    (Sender.run sig a).enq = (Sender.run sig b).enq := by
  obtain ⟨a1, a2, a3⟩ := C19_sender_totals sig hs a
  obtain ⟨b1, b2, b3⟩ := C19_sender_totals sig hs b
  rw [a1, a2, a3, b1, b2, b3]
  clear a1 a2 a3 b1 b2 b3
  induction hp with
  | nil => exact ⟨rfl, rfl, rfl⟩
  | cons x _ ih =>
    obtain ⟨i1, i2, i3⟩ := ih
    cases x with
    | flightEnd n f => cases f <;> simp [sentSum, failedSum, enqSum, i1, i2, i3]
    | offerRet n r => cases r <;> simp [sentSum, failedSum, enqSum, i1, i2, i3]
  | swap x y l =>
    cases x with
    | flightEnd n f =>
      cases y with
      | flightEnd m g => cases f <;> cases g <;> simp [sentSum, failedSum, enqSum] <;> omega
      | offerRet m g => cases f <;> cases g <;> simp [sentSum, failedSum, enqSum]
    | offerRet n f =>
      cases y with
      | flightEnd m g => cases f <;> cases g <;> simp [sentSum, failedSum, enqSum]
      | offerRet m g => cases f <;> cases g <;> simp [sentSum, failedSum, enqSum] <;> omega
  | trans _ _ ih1 ih2 =>
    obtain ⟨x1, x2, x3⟩ := ih1
    obtain ⟨y1, y2, y3⟩ := ih2
    exact ⟨x1.trans y1, x2.trans y2, x3.trans y3⟩

/-- non-vacuity: a mixed history; the same history under profiles -/
example : (Sender.run .logs [.flightEnd 3 false, .offerRet 4 true, .flightEnd 2 true, .offerRet 1 false]) =
    { sent := 3, failed := 2, enq := 4, tSent := true, tFailed := true, tEnq := true } := by decide
example : (Sender.run .profiles [.flightEnd 3 false, .offerRet 4 true, .flightEnd 2 true]) = {} := by decide

end OtelVerif.C19
