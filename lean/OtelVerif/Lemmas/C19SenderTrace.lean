import OtelVerif.Model.C19SenderTrace
import OtelVerif.Lemmas.C19Sender
/-! # C19: the per-call sender model run on a recorded trace computes exactly `predict` -/
namespace OtelVerif.C19

theorem sentSum_append (a b : List Sender.Ev) : sentSum (a ++ b) = sentSum a + sentSum b := by
  induction a with
  | nil => simp [sentSum]
  | cons e es ih => cases e with
    | flightEnd n f => cases f <;> simp [sentSum, ih]; omega
    | offerRet n r => simp [sentSum, ih]
theorem failedSum_append (a b : List Sender.Ev) : failedSum (a ++ b) = failedSum a + failedSum b := by
  induction a with
  | nil => simp [failedSum]
  | cons e es ih => cases e with
    | flightEnd n f => cases f <;> simp [failedSum, ih]; omega
    | offerRet n r => simp [failedSum, ih]
theorem enqSum_append (a b : List Sender.Ev) : enqSum (a ++ b) = enqSum a + enqSum b := by
  induction a with
  | nil => simp [enqSum]
  | cons e es ih => cases e with
    | flightEnd n f => simp [enqSum, ih]
    | offerRet n r => cases r <;> simp [enqSum, ih]; omega

theorem sums_finals (l : List (Nat × Bool)) :
    sentSum (l.map (fun p => Sender.Ev.flightEnd p.1 p.2)) = ((l.filter (fun p => !p.2)).map (·.1)).sum ∧
    failedSum (l.map (fun p => Sender.Ev.flightEnd p.1 p.2)) = ((l.filter (fun p => p.2)).map (·.1)).sum ∧
    enqSum (l.map (fun p => Sender.Ev.flightEnd p.1 p.2)) = 0 := by
  induction l with
  | nil => simp [sentSum, failedSum, enqSum]
  | cons p ps ih =>
    obtain ⟨n, f⟩ := p
    obtain ⟨i1, i2, i3⟩ := ih
    cases f <;> simp [sentSum, failedSum, enqSum, i1, i2, i3]

theorem sums_offers (t : List XEv) :
    sentSum (offersOf t) = 0 ∧ failedSum (offersOf t) = 0 ∧
    enqSum (offersOf t) = (t.map (fun e => match e with | .rej is => is.length | _ => 0)).sum := by
  induction t with
  | nil => simp [offersOf, sentSum, failedSum, enqSum]
  | cons e es ih =>
    obtain ⟨i1, i2, i3⟩ := ih
    simp only [offersOf] at i1 i2 i3 ⊢
    cases e <;> simp [sentSum, failedSum, enqSum, i1, i2, i3]

theorem predict_sent (t : List XEv) : (predict t).sent = (((finalsOf t).filter (fun p => !p.2)).map (·.1)).sum := rfl
theorem predict_failed (t : List XEv) : (predict t).failed = (((finalsOf t).filter (fun p => p.2)).map (·.1)).sum := rfl
theorem predict_enq (t : List XEv) : (predict t).enqFailed = (t.map (fun e => match e with | .rej is => is.length | _ => 0)).sum := rfl

/-- **The driver's `obs counters` line comes from the per-call model of the code**: for each recording signal, running
`obsReportSender.endOp` / `obsQueue.Offer` over the events of a recorded trace gives exactly the counters `predict` computes
(the trace-level predictor the exporter theorems and the balance oracle are stated with); a queue-less exporter has no `obsQueue`
and therefore no enqueue-failed count. -/
theorem C19_sender_trace_eq_predict (sig : Sig) (hs : sig ≠ .profiles) (t : List XEv) (direct : Bool) :
    (Sender.run sig (senderEvs t direct)).sent = (predict t).sent ∧ (Sender.run sig (senderEvs t direct)).failed = (predict t).failed ∧
    (Sender.run sig (senderEvs t direct)).enq = if direct then 0 else (predict t).enqFailed := by
  obtain ⟨h1, h2, h3⟩ := C19_sender_totals sig hs (senderEvs t direct)
  obtain ⟨f1, f2, f3⟩ := sums_finals (finalsOf t)
  obtain ⟨o1, o2, o3⟩ := sums_offers t
  rw [h1, h2, h3, predict_sent, predict_failed, predict_enq]
  cases direct
  · simp only [senderEvs, Bool.false_eq_true, if_false, sentSum_append, failedSum_append, enqSum_append, f1, f2, f3, o1, o2, o3]
    exact ⟨by omega, by omega, by omega⟩
  · clear h1 h2 h3
    simp only [senderEvs, ↓reduceIte, sentSum_append, failedSum_append, enqSum_append, f1, f2, f3, sentSum, failedSum, enqSum]
    exact ⟨by omega, by omega, trivial⟩

end OtelVerif.C19
