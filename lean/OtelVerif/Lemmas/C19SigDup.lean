import OtelVerif.Model.C19SigDup
/-!
# C19 — every per-signal duplicate is tied: same skeleton as its twins, own signal's words (decided on the regenerated data)
-/
namespace OtelVerif.C19
open OtelVerif.Gen.SigDup SigDup

theorem aligned_proc : allSame procNewNorm = true ∧ procNewNorm.map (·.1) = [2, 1, 0] := by decide +kernel
theorem aligned_scrapeWrap : allSame scrapeWrapNorm = true ∧ scrapeWrapNorm.map (·.1) = [1, 2] := by decide +kernel
theorem aligned_scrapeCtl : allSame scrapeCtlNorm = true ∧ scrapeCtlNorm.map (·.1) = [1, 2] := by decide +kernel
theorem aligned_obs : allSame obsConsumeNorm = true ∧ obsConsumeNorm.map (·.1) = [2, 1, 0, 3] := by decide +kernel
theorem aligned_recv : allSame recvStartNorm = true ∧ allSame recvEndNorm = true ∧ recvStartNorm.map (·.1) = [0, 1, 2] ∧
    recvEndNorm.map (·.1) = [0, 1, 2] := by decide +kernel
theorem aligned_expRequest : allSame expRequestNorm = true ∧ expRequestNorm.map (·.1) = [2, 1, 0, 3] := by decide +kernel
theorem aligned_expConsume : allSame expConsumeNorm = true ∧ expConsumeNorm.map (·.1) = [2, 1, 0, 3] := by decide +kernel

theorem aligned_req : allSame reqItemsNorm = true ∧ allSame reqOnErrorNorm = true ∧ reqItemsNorm.map (·.1) = [2, 1, 0, 3] ∧
    reqOnErrorNorm.map (·.1) = [2, 1, 0, 3] := by decide +kernel

/-- **What the exporter counters count.**  `<S>Request.ItemsCount()` — the number `obsReportSender.Send`, `obsQueue.Offer` and
`BaseExporter.Send` read before the request goes on — is, for each of the four signals, the ITEM count of the signal's payload
(`LogRecordCount` / `DataPointCount` / `SpanCount` / `SampleCount`: not a cached size, not the metric count), and `OnError` narrows a
partial failure to the undelivered part of the SAME signal's error type. -/
theorem C19_request_items_count :
    allSame reqItemsNorm = true ∧ SigDup.common reqItemsNorm = ["call:v0.payload.«0»()", "return:v0.payload.«0»()"] ∧
    wordsOK [] reqItemsWordCodes = true ∧ codesMatch reqItemsWords reqItemsWordCodes = true ∧
    allSame reqOnErrorNorm = true ∧ wordsOK [] reqOnErrorWordCodes = true ∧ codesMatch reqOnErrorWords reqOnErrorWordCodes = true :=
  ⟨aligned_req.1, by decide +kernel, by decide +kernel, by decide +kernel, aligned_req.2.1, by decide +kernel, by decide +kernel⟩

/-- **Same code per signal.**  In each family every member (logs / metrics / traces and, where it exists, profiles) has the same control
skeleton after alpha-renaming of locals and abstraction of the signal's words: what is proved about / differentially checked on one
member's structure holds for its twins. -/
theorem C19_signal_duplicates_aligned :
    allSame procNewNorm = true ∧ allSame scrapeWrapNorm = true ∧ allSame scrapeCtlNorm = true ∧ allSame obsConsumeNorm = true ∧
    allSame recvStartNorm = true ∧ allSame recvEndNorm = true ∧ allSame expRequestNorm = true ∧ allSame expConsumeNorm = true ∧
    procNewNorm.map (·.1) = [2, 1, 0] ∧ obsConsumeNorm.map (·.1) = [2, 1, 0, 3] ∧ expRequestNorm.map (·.1) = [2, 1, 0, 3] ∧
    expConsumeNorm.map (·.1) = [2, 1, 0, 3] ∧ scrapeWrapNorm.map (·.1) = [1, 2] ∧ scrapeCtlNorm.map (·.1) = [1, 2] ∧
    recvStartNorm.map (·.1) = [0, 1, 2] ∧ recvEndNorm.map (·.1) = [0, 1, 2] :=
  ⟨aligned_proc.1, aligned_scrapeWrap.1, aligned_scrapeCtl.1, aligned_obs.1, aligned_recv.1, aligned_recv.2.1, aligned_expRequest.1,
   aligned_expConsume.1, aligned_proc.2, aligned_obs.2, aligned_expRequest.2, aligned_expConsume.2, aligned_scrapeWrap.2, aligned_scrapeCtl.2,
   aligned_recv.2.2.1, aligned_recv.2.2.2⟩

/-- **Own signal's words.**  Behind every placeholder each member has either the same neutral word as its twins or a word of ITS OWN
signal and of no other — item-count method = the signal's item count (`SpanCount` / `DataPointCount` / `LogRecordCount` /
`SampleCount`), instruments, signal constant, consumer method, `End<S>Op`.  The accepted quirks are spelled out: `wrapObsMetrics` feeds
`MetricCount()` to the scraped-metric-POINTS counter, `wrapObsLogs` puts `SignalMetrics` into the span's format attribute, `scrapeLogs`
opens the receiver op with `StartMetricsOp` (span name only; it ENDS it with `EndLogsOp` — the repaired counter selection). -/
theorem C19_signal_duplicates_words :
    wordsOK [] procNewWordCodes = true ∧ wordsOK [] obsConsumeWordCodes = true ∧ wordsOK [] recvStartWordCodes = true ∧ wordsOK [] recvEndWordCodes = true ∧
    wordsOK [] expRequestWordCodes = true ∧ wordsOK [] expConsumeWordCodes = true ∧
    wordsOK [(1, "MetricCount"), (2, "SignalMetrics")] scrapeWrapWordCodes = true ∧
    wordsOK [(2, "StartMetricsOp")] scrapeCtlWordCodes = true ∧ ownWordsOK procProfilesWordCodes = true :=
  ⟨by decide +kernel, by decide +kernel, by decide +kernel, by decide +kernel, by decide +kernel, by decide +kernel, by decide +kernel, by decide +kernel, by decide +kernel⟩

/-- the character-code tables the checks run on are exactly the readable word tables -/
theorem C19_signal_duplicates_codes :
    codesMatch procNewWords procNewWordCodes = true ∧ codesMatch obsConsumeWords obsConsumeWordCodes = true ∧
    codesMatch recvStartWords recvStartWordCodes = true ∧ codesMatch recvEndWords recvEndWordCodes = true ∧
    codesMatch expRequestWords expRequestWordCodes = true ∧ codesMatch expConsumeWords expConsumeWordCodes = true ∧
    codesMatch scrapeWrapWords scrapeWrapWordCodes = true ∧ codesMatch scrapeCtlWords scrapeCtlWordCodes = true ∧
    codesMatch procProfilesWords procProfilesWordCodes = true :=
  ⟨by decide +kernel, by decide +kernel, by decide +kernel, by decide +kernel, by decide +kernel, by decide +kernel, by decide +kernel,
   by decide +kernel, by decide +kernel⟩

/-- the quirks are really there (the exceptions above are not vacuous) and nothing else is excused -/
theorem C19_signal_duplicates_quirks :
    wordsOK [] scrapeWrapWordCodes = false ∧ wordsOK [(1, "MetricCount")] scrapeWrapWordCodes = false ∧
    wordsOK [(2, "SignalMetrics")] scrapeWrapWordCodes = false ∧ wordsOK [] scrapeCtlWordCodes = false :=
  ⟨by decide +kernel, by decide +kernel, by decide +kernel, by decide +kernel⟩

/-- **Order facts of the common skeletons** the hand-written models mirror: processor counts in before / out after the process function
and records before forwarding; the profiles processor records nothing; obsconsumer and the scrape controller take their count BEFORE
the next consumer (which may empty the payload) is called. -/
theorem C19_signal_duplicates_order :
    procOrder = true ∧ procProfilesSilent = true ∧ obsOrder = true ∧ scrapeOrder = true :=
  ⟨by decide +kernel, by decide +kernel, by decide +kernel, by decide +kernel⟩

end OtelVerif.C19
