import OtelVerif.Model.C20
/-! # C20 — invariants of the run-loop LTS (helper lemmas for Props/C20.lean) -/
namespace OtelVerif.C20

/-- pcs at which `col.service` is a created service that has not been shut down -/
def Pc.hasLive : Pc → Bool
  | .setup3 _ | .setupSd _ | .setup4 _ | .select | .reload1 | .reload2 | .shut1 | .shut2 | .shut3 => true
  | _ => false

def Pc.inShut : Pc → Bool
  | .shut1 | .shut2 | .shut3 | .shut4 => true
  | _ => false

/-- the value of `state` the Run goroutine has last stored, by program point (`none`: several possible) -/
def Pc.stateAt : Pc → Option CState
  | .idle | .setup1 false => some .starting
  | .setup1 true => some .closing
  | .setup2 _ | .setup3 _ | .setupSd _ | .setup4 _ | .initFail => some .starting
  | .select | .reload1 | .shut1 => some .running
  | .reload2 | .shut2 | .shut3 | .shut4 => some .closing
  | .done => none

def Pc.isSetup2 : Pc → Bool
  | .setup2 _ => true
  | _ => false

/-- Run has not got beyond the initial set-up -/
def Pc.initialPhase : Pc → Bool
  | .idle | .setup1 false | .setup2 false | .setup3 false | .setupSd false | .setup4 false | .initFail => true
  | _ => false

/-- the part of the state that only the Run goroutine writes -/
structure Core where
  pc : Pc
  st : CState
  gen : Nat
  svc : Option Nat
  live : List Nat
  created : List Nat
  sdLog : List Nat
  provSd : Nat
  everRunning : Bool
  stop : Option Ev
  ret : Option Bool
  panic : Bool

def S.core (s : S) : Core :=
  { pc := s.pc, st := s.st, gen := s.gen, svc := s.svc, live := s.live, created := s.created, sdLog := s.sdLog,
    provSd := s.provSd, everRunning := s.everRunning, stop := s.stop, ret := s.ret, panic := s.panic }

structure Inv (s : Core) : Prop where
  noPanic : s.panic = false
  stAt : ∀ c, s.pc.stateAt = some c → s.st = c
  closedDone : s.st = .closed → s.pc = .done
  svcLive : s.pc.hasLive = true → s.svc = some s.gen
  live : s.live = if s.pc.hasLive then [s.gen] else []
  created : s.created = s.sdLog ++ s.live
  bound : ∀ g ∈ s.created, if s.pc.isSetup2 then g < s.gen else g ≤ s.gen
  sorted : s.created.Pairwise (· < ·)
  prov : s.provSd = if (s.pc = .shut3 ∨ s.pc = .shut4 ∨ (s.pc = .done ∧ s.stop.isSome)) then 1 else 0
  stopPc : s.stop.isSome = true → (s.pc.inShut = true ∨ s.pc = .done)
  shutStop : s.pc.inShut = true → s.stop.isSome = true
  retDone : s.ret.isSome = true ↔ s.pc = .done
  doneStop : s.pc = .done → s.stop.isSome = true → s.st = .closed
  doneErr : s.pc = .done → s.stop = none → s.ret = some false
  ever : s.pc.initialPhase = false → s.pc ≠ .done → s.everRunning = true
  stopEver : s.stop.isSome = true → s.everRunning = true
  stopKind : ∀ e, s.stop = some e → e.stops = true
  notEver : s.pc.initialPhase = true → s.everRunning = false
  doneNoStop : s.pc = .done → s.stop = none →
    (s.everRunning = false ∧ s.st = .closed) ∨ (s.everRunning = true ∧ (s.st = .starting ∨ s.st = .closing))

theorem inv_init : Inv init.core := by
  constructor <;> simp [init, S.core, Pc.stateAt, Pc.hasLive, Pc.isSetup2, Pc.inShut, Pc.initialPhase, Ev.stops]

/-- labels of other goroutines leave the Run goroutine's part of the state untouched -/
theorem core_external (v : Variant) {s s' : S} {l : Label} (h : fire v s l = some s')
    (hl : l = .call ∨ l = .close ∨ l = .cancel ∨ ∃ e, l = .post e) : s'.core = s.core := by
  rcases hl with rfl | rfl | rfl | ⟨e, rfl⟩
  · simp only [fire, S.emit, Option.some.injEq] at h
    subst h; by_cases hh : v.honours s.st = true <;> simp [hh, S.core]
  · simp only [fire] at h
    split at h
    · simp only [Option.some.injEq] at h; subst h; rfl
    · cases h
  · simp only [fire, Option.some.injEq] at h; subst h; rfl
  · cases e <;> simp only [fire, postEv, Option.some.injEq] at h <;> first | (subst h; rfl) | cases h


set_option linter.unusedSimpArgs false

macro "c20_step_simp" h:ident hpc:ident : tactic =>
  `(tactic| simp only [stepRun, $hpc:ident, setSt, S.emit, failSetup, svcShutdown, Option.some.injEq, if_true, if_false,
      Bool.false_eq_true, reduceCtorEq] at $h:ident)

macro "c20_close" : tactic =>
  `(tactic| (constructor <;> simp_all [S.core, Pc.stateAt, Pc.hasLive, Pc.isSetup2, Pc.inShut, Pc.initialPhase, Ev.stops]))

theorem core_fatal (v : Variant) {s s' : S} (h : fire v s .fatal = some s') : s'.core = s.core := by
  simp only [fire, Option.some.injEq] at h; subst h; rfl

theorem core_giveUp (v : Variant) {s s' : S} (h : fire v s .giveUp = some s') : s'.core = s.core := by
  simp only [fire] at h
  split at h
  · simp only [Option.some.injEq] at h; subst h; rfl
  · cases h

theorem inv_step_setup1_true {s s' : S} {ok : Bool} (hi : Inv s.core) (hpc : s.pc = .setup1 true) (h : stepRun s ok = some s') : Inv s'.core := by
  obtain ⟨h1, h2, h3, h4, h5, h6, h7, h8, h9, h10, h11, h12, h13, h14, h15, h16, h17, h18, h19⟩ := hi
  simp only [S.core] at h1 h2 h3 h4 h5 h6 h7 h8 h9 h10 h11 h12 h13 h14 h15 h16 h17 h18 h19
  have h4' := h4
  simp only [hpc, Pc.hasLive] at h4'
  cases ok <;> c20_step_simp h hpc
  all_goals (first | cases h | skip)
  all_goals (try simp only [h4'] at h)
  all_goals (first | cases h | skip)
  all_goals c20_close
  all_goals (first
    | omega
    | (intro g hg; have := h7 g hg; omega)
    | (intro g hg; rcases hg with hg | rfl <;> first | omega | (have := h7 g hg; omega))
    | (refine List.pairwise_append.2 ⟨h8, List.pairwise_singleton _ _, ?_⟩
       intro a ha b hb; simp at hb; subst hb; exact h7 a ha)
    | (intro hn; simp [hn] at h11)
    | skip)

theorem inv_step_setup1_false {s s' : S} {ok : Bool} (hi : Inv s.core) (hpc : s.pc = .setup1 false) (h : stepRun s ok = some s') : Inv s'.core := by
  obtain ⟨h1, h2, h3, h4, h5, h6, h7, h8, h9, h10, h11, h12, h13, h14, h15, h16, h17, h18, h19⟩ := hi
  simp only [S.core] at h1 h2 h3 h4 h5 h6 h7 h8 h9 h10 h11 h12 h13 h14 h15 h16 h17 h18 h19
  have h4' := h4
  simp only [hpc, Pc.hasLive] at h4'
  cases ok <;> c20_step_simp h hpc
  all_goals (first | cases h | skip)
  all_goals (try simp only [h4'] at h)
  all_goals (first | cases h | skip)
  all_goals c20_close
  all_goals (first
    | omega
    | (intro g hg; have := h7 g hg; omega)
    | (intro g hg; rcases hg with hg | rfl <;> first | omega | (have := h7 g hg; omega))
    | (refine List.pairwise_append.2 ⟨h8, List.pairwise_singleton _ _, ?_⟩
       intro a ha b hb; simp at hb; subst hb; exact h7 a ha)
    | (intro hn; simp [hn] at h11)
    | skip)

theorem inv_step_setup2_true {s s' : S} {ok : Bool} (hi : Inv s.core) (hpc : s.pc = .setup2 true) (h : stepRun s ok = some s') : Inv s'.core := by
  obtain ⟨h1, h2, h3, h4, h5, h6, h7, h8, h9, h10, h11, h12, h13, h14, h15, h16, h17, h18, h19⟩ := hi
  simp only [S.core] at h1 h2 h3 h4 h5 h6 h7 h8 h9 h10 h11 h12 h13 h14 h15 h16 h17 h18 h19
  have h4' := h4
  simp only [hpc, Pc.hasLive] at h4'
  cases ok <;> c20_step_simp h hpc
  all_goals (first | cases h | skip)
  all_goals (try simp only [h4'] at h)
  all_goals (first | cases h | skip)
  all_goals c20_close
  all_goals (first
    | omega
    | (intro g hg; have := h7 g hg; omega)
    | (intro g hg; rcases hg with hg | rfl <;> first | omega | (have := h7 g hg; omega))
    | (refine List.pairwise_append.2 ⟨h8, List.pairwise_singleton _ _, ?_⟩
       intro a ha b hb; simp at hb; subst hb; exact h7 a ha)
    | (intro hn; simp [hn] at h11)
    | skip)

theorem inv_step_setup2_false {s s' : S} {ok : Bool} (hi : Inv s.core) (hpc : s.pc = .setup2 false) (h : stepRun s ok = some s') : Inv s'.core := by
  obtain ⟨h1, h2, h3, h4, h5, h6, h7, h8, h9, h10, h11, h12, h13, h14, h15, h16, h17, h18, h19⟩ := hi
  simp only [S.core] at h1 h2 h3 h4 h5 h6 h7 h8 h9 h10 h11 h12 h13 h14 h15 h16 h17 h18 h19
  have h4' := h4
  simp only [hpc, Pc.hasLive] at h4'
  cases ok <;> c20_step_simp h hpc
  all_goals (first | cases h | skip)
  all_goals (try simp only [h4'] at h)
  all_goals (first | cases h | skip)
  all_goals c20_close
  all_goals (first
    | omega
    | (intro g hg; have := h7 g hg; omega)
    | (intro g hg; rcases hg with hg | rfl <;> first | omega | (have := h7 g hg; omega))
    | (refine List.pairwise_append.2 ⟨h8, List.pairwise_singleton _ _, ?_⟩
       intro a ha b hb; simp at hb; subst hb; exact h7 a ha)
    | (intro hn; simp [hn] at h11)
    | skip)

theorem inv_step_setup3_true {s s' : S} {ok : Bool} (hi : Inv s.core) (hpc : s.pc = .setup3 true) (h : stepRun s ok = some s') : Inv s'.core := by
  obtain ⟨h1, h2, h3, h4, h5, h6, h7, h8, h9, h10, h11, h12, h13, h14, h15, h16, h17, h18, h19⟩ := hi
  simp only [S.core] at h1 h2 h3 h4 h5 h6 h7 h8 h9 h10 h11 h12 h13 h14 h15 h16 h17 h18 h19
  have h4' := h4
  simp only [hpc, Pc.hasLive] at h4'
  cases ok <;> c20_step_simp h hpc
  all_goals (first | cases h | skip)
  all_goals (try simp only [h4'] at h)
  all_goals (first | cases h | skip)
  all_goals c20_close
  all_goals (first
    | omega
    | (intro g hg; have := h7 g hg; omega)
    | (intro g hg; rcases hg with hg | rfl <;> first | omega | (have := h7 g hg; omega))
    | (refine List.pairwise_append.2 ⟨h8, List.pairwise_singleton _ _, ?_⟩
       intro a ha b hb; simp at hb; subst hb; exact h7 a ha)
    | (intro hn; simp [hn] at h11)
    | skip)

theorem inv_step_setup3_false {s s' : S} {ok : Bool} (hi : Inv s.core) (hpc : s.pc = .setup3 false) (h : stepRun s ok = some s') : Inv s'.core := by
  obtain ⟨h1, h2, h3, h4, h5, h6, h7, h8, h9, h10, h11, h12, h13, h14, h15, h16, h17, h18, h19⟩ := hi
  simp only [S.core] at h1 h2 h3 h4 h5 h6 h7 h8 h9 h10 h11 h12 h13 h14 h15 h16 h17 h18 h19
  have h4' := h4
  simp only [hpc, Pc.hasLive] at h4'
  cases ok <;> c20_step_simp h hpc
  all_goals (first | cases h | skip)
  all_goals (try simp only [h4'] at h)
  all_goals (first | cases h | skip)
  all_goals c20_close
  all_goals (first
    | omega
    | (intro g hg; have := h7 g hg; omega)
    | (intro g hg; rcases hg with hg | rfl <;> first | omega | (have := h7 g hg; omega))
    | (refine List.pairwise_append.2 ⟨h8, List.pairwise_singleton _ _, ?_⟩
       intro a ha b hb; simp at hb; subst hb; exact h7 a ha)
    | (intro hn; simp [hn] at h11)
    | skip)

theorem inv_step_setupSd_true {s s' : S} {ok : Bool} (hi : Inv s.core) (hpc : s.pc = .setupSd true) (h : stepRun s ok = some s') : Inv s'.core := by
  obtain ⟨h1, h2, h3, h4, h5, h6, h7, h8, h9, h10, h11, h12, h13, h14, h15, h16, h17, h18, h19⟩ := hi
  simp only [S.core] at h1 h2 h3 h4 h5 h6 h7 h8 h9 h10 h11 h12 h13 h14 h15 h16 h17 h18 h19
  have h4' := h4
  simp only [hpc, Pc.hasLive] at h4'
  cases ok <;> c20_step_simp h hpc
  all_goals (first | cases h | skip)
  all_goals (try simp only [h4'] at h)
  all_goals (first | cases h | skip)
  all_goals c20_close
  all_goals (first
    | omega
    | (intro g hg; have := h7 g hg; omega)
    | (intro g hg; rcases hg with hg | rfl <;> first | omega | (have := h7 g hg; omega))
    | (refine List.pairwise_append.2 ⟨h8, List.pairwise_singleton _ _, ?_⟩
       intro a ha b hb; simp at hb; subst hb; exact h7 a ha)
    | (intro hn; simp [hn] at h11)
    | skip)

theorem inv_step_setupSd_false {s s' : S} {ok : Bool} (hi : Inv s.core) (hpc : s.pc = .setupSd false) (h : stepRun s ok = some s') : Inv s'.core := by
  obtain ⟨h1, h2, h3, h4, h5, h6, h7, h8, h9, h10, h11, h12, h13, h14, h15, h16, h17, h18, h19⟩ := hi
  simp only [S.core] at h1 h2 h3 h4 h5 h6 h7 h8 h9 h10 h11 h12 h13 h14 h15 h16 h17 h18 h19
  have h4' := h4
  simp only [hpc, Pc.hasLive] at h4'
  cases ok <;> c20_step_simp h hpc
  all_goals (first | cases h | skip)
  all_goals (try simp only [h4'] at h)
  all_goals (first | cases h | skip)
  all_goals c20_close
  all_goals (first
    | omega
    | (intro g hg; have := h7 g hg; omega)
    | (intro g hg; rcases hg with hg | rfl <;> first | omega | (have := h7 g hg; omega))
    | (refine List.pairwise_append.2 ⟨h8, List.pairwise_singleton _ _, ?_⟩
       intro a ha b hb; simp at hb; subst hb; exact h7 a ha)
    | (intro hn; simp [hn] at h11)
    | skip)

theorem inv_step_setup4_true {s s' : S} {ok : Bool} (hi : Inv s.core) (hpc : s.pc = .setup4 true) (h : stepRun s ok = some s') : Inv s'.core := by
  obtain ⟨h1, h2, h3, h4, h5, h6, h7, h8, h9, h10, h11, h12, h13, h14, h15, h16, h17, h18, h19⟩ := hi
  simp only [S.core] at h1 h2 h3 h4 h5 h6 h7 h8 h9 h10 h11 h12 h13 h14 h15 h16 h17 h18 h19
  have h4' := h4
  simp only [hpc, Pc.hasLive] at h4'
  cases ok <;> c20_step_simp h hpc
  all_goals (first | cases h | skip)
  all_goals (try simp only [h4'] at h)
  all_goals (first | cases h | skip)
  all_goals c20_close
  all_goals (first
    | omega
    | (intro g hg; have := h7 g hg; omega)
    | (intro g hg; rcases hg with hg | rfl <;> first | omega | (have := h7 g hg; omega))
    | (refine List.pairwise_append.2 ⟨h8, List.pairwise_singleton _ _, ?_⟩
       intro a ha b hb; simp at hb; subst hb; exact h7 a ha)
    | (intro hn; simp [hn] at h11)
    | skip)

theorem inv_step_setup4_false {s s' : S} {ok : Bool} (hi : Inv s.core) (hpc : s.pc = .setup4 false) (h : stepRun s ok = some s') : Inv s'.core := by
  obtain ⟨h1, h2, h3, h4, h5, h6, h7, h8, h9, h10, h11, h12, h13, h14, h15, h16, h17, h18, h19⟩ := hi
  simp only [S.core] at h1 h2 h3 h4 h5 h6 h7 h8 h9 h10 h11 h12 h13 h14 h15 h16 h17 h18 h19
  have h4' := h4
  simp only [hpc, Pc.hasLive] at h4'
  cases ok <;> c20_step_simp h hpc
  all_goals (first | cases h | skip)
  all_goals (try simp only [h4'] at h)
  all_goals (first | cases h | skip)
  all_goals c20_close
  all_goals (first
    | omega
    | (intro g hg; have := h7 g hg; omega)
    | (intro g hg; rcases hg with hg | rfl <;> first | omega | (have := h7 g hg; omega))
    | (refine List.pairwise_append.2 ⟨h8, List.pairwise_singleton _ _, ?_⟩
       intro a ha b hb; simp at hb; subst hb; exact h7 a ha)
    | (intro hn; simp [hn] at h11)
    | skip)

theorem inv_step_initFail {s s' : S} {ok : Bool} (hi : Inv s.core) (hpc : s.pc = .initFail) (h : stepRun s ok = some s') : Inv s'.core := by
  obtain ⟨h1, h2, h3, h4, h5, h6, h7, h8, h9, h10, h11, h12, h13, h14, h15, h16, h17, h18, h19⟩ := hi
  simp only [S.core] at h1 h2 h3 h4 h5 h6 h7 h8 h9 h10 h11 h12 h13 h14 h15 h16 h17 h18 h19
  have h4' := h4
  simp only [hpc, Pc.hasLive] at h4'
  cases ok <;> c20_step_simp h hpc
  all_goals (first | cases h | skip)
  all_goals (try simp only [h4'] at h)
  all_goals (first | cases h | skip)
  all_goals c20_close
  all_goals (first
    | omega
    | (intro g hg; have := h7 g hg; omega)
    | (intro g hg; rcases hg with hg | rfl <;> first | omega | (have := h7 g hg; omega))
    | (refine List.pairwise_append.2 ⟨h8, List.pairwise_singleton _ _, ?_⟩
       intro a ha b hb; simp at hb; subst hb; exact h7 a ha)
    | (intro hn; simp [hn] at h11)
    | skip)

theorem inv_step_reload1 {s s' : S} {ok : Bool} (hi : Inv s.core) (hpc : s.pc = .reload1) (h : stepRun s ok = some s') : Inv s'.core := by
  obtain ⟨h1, h2, h3, h4, h5, h6, h7, h8, h9, h10, h11, h12, h13, h14, h15, h16, h17, h18, h19⟩ := hi
  simp only [S.core] at h1 h2 h3 h4 h5 h6 h7 h8 h9 h10 h11 h12 h13 h14 h15 h16 h17 h18 h19
  have h4' := h4
  simp only [hpc, Pc.hasLive] at h4'
  cases ok <;> c20_step_simp h hpc
  all_goals (first | cases h | skip)
  all_goals (try simp only [h4'] at h)
  all_goals (first | cases h | skip)
  all_goals c20_close
  all_goals (first
    | omega
    | (intro g hg; have := h7 g hg; omega)
    | (intro g hg; rcases hg with hg | rfl <;> first | omega | (have := h7 g hg; omega))
    | (refine List.pairwise_append.2 ⟨h8, List.pairwise_singleton _ _, ?_⟩
       intro a ha b hb; simp at hb; subst hb; exact h7 a ha)
    | (intro hn; simp [hn] at h11)
    | skip)

theorem inv_step_reload2 {s s' : S} {ok : Bool} (hi : Inv s.core) (hpc : s.pc = .reload2) (h : stepRun s ok = some s') : Inv s'.core := by
  obtain ⟨h1, h2, h3, h4, h5, h6, h7, h8, h9, h10, h11, h12, h13, h14, h15, h16, h17, h18, h19⟩ := hi
  simp only [S.core] at h1 h2 h3 h4 h5 h6 h7 h8 h9 h10 h11 h12 h13 h14 h15 h16 h17 h18 h19
  have h4' := h4
  simp only [hpc, Pc.hasLive] at h4'
  cases ok <;> c20_step_simp h hpc
  all_goals (first | cases h | skip)
  all_goals (try simp only [h4'] at h)
  all_goals (first | cases h | skip)
  all_goals c20_close
  all_goals (first
    | omega
    | (intro g hg; have := h7 g hg; omega)
    | (intro g hg; rcases hg with hg | rfl <;> first | omega | (have := h7 g hg; omega))
    | (refine List.pairwise_append.2 ⟨h8, List.pairwise_singleton _ _, ?_⟩
       intro a ha b hb; simp at hb; subst hb; exact h7 a ha)
    | (intro hn; simp [hn] at h11)
    | skip)

theorem inv_step_shut1 {s s' : S} {ok : Bool} (hi : Inv s.core) (hpc : s.pc = .shut1) (h : stepRun s ok = some s') : Inv s'.core := by
  obtain ⟨h1, h2, h3, h4, h5, h6, h7, h8, h9, h10, h11, h12, h13, h14, h15, h16, h17, h18, h19⟩ := hi
  simp only [S.core] at h1 h2 h3 h4 h5 h6 h7 h8 h9 h10 h11 h12 h13 h14 h15 h16 h17 h18 h19
  have h4' := h4
  simp only [hpc, Pc.hasLive] at h4'
  cases ok <;> c20_step_simp h hpc
  all_goals (first | cases h | skip)
  all_goals (try simp only [h4'] at h)
  all_goals (first | cases h | skip)
  all_goals c20_close
  all_goals (first
    | omega
    | (intro g hg; have := h7 g hg; omega)
    | (intro g hg; rcases hg with hg | rfl <;> first | omega | (have := h7 g hg; omega))
    | (refine List.pairwise_append.2 ⟨h8, List.pairwise_singleton _ _, ?_⟩
       intro a ha b hb; simp at hb; subst hb; exact h7 a ha)
    | (intro hn; simp [hn] at h11)
    | skip)

theorem inv_step_shut2 {s s' : S} {ok : Bool} (hi : Inv s.core) (hpc : s.pc = .shut2) (h : stepRun s ok = some s') : Inv s'.core := by
  obtain ⟨h1, h2, h3, h4, h5, h6, h7, h8, h9, h10, h11, h12, h13, h14, h15, h16, h17, h18, h19⟩ := hi
  simp only [S.core] at h1 h2 h3 h4 h5 h6 h7 h8 h9 h10 h11 h12 h13 h14 h15 h16 h17 h18 h19
  have h4' := h4
  simp only [hpc, Pc.hasLive] at h4'
  cases ok <;> c20_step_simp h hpc
  all_goals (first | cases h | skip)
  all_goals (try simp only [h4'] at h)
  all_goals (first | cases h | skip)
  all_goals c20_close
  all_goals (first
    | omega
    | (intro g hg; have := h7 g hg; omega)
    | (intro g hg; rcases hg with hg | rfl <;> first | omega | (have := h7 g hg; omega))
    | (refine List.pairwise_append.2 ⟨h8, List.pairwise_singleton _ _, ?_⟩
       intro a ha b hb; simp at hb; subst hb; exact h7 a ha)
    | (intro hn; simp [hn] at h11)
    | skip)

theorem inv_step_shut3 {s s' : S} {ok : Bool} (hi : Inv s.core) (hpc : s.pc = .shut3) (h : stepRun s ok = some s') : Inv s'.core := by
  obtain ⟨h1, h2, h3, h4, h5, h6, h7, h8, h9, h10, h11, h12, h13, h14, h15, h16, h17, h18, h19⟩ := hi
  simp only [S.core] at h1 h2 h3 h4 h5 h6 h7 h8 h9 h10 h11 h12 h13 h14 h15 h16 h17 h18 h19
  have h4' := h4
  simp only [hpc, Pc.hasLive] at h4'
  cases ok <;> c20_step_simp h hpc
  all_goals (first | cases h | skip)
  all_goals (try simp only [h4'] at h)
  all_goals (first | cases h | skip)
  all_goals c20_close
  all_goals (first
    | omega
    | (intro g hg; have := h7 g hg; omega)
    | (intro g hg; rcases hg with hg | rfl <;> first | omega | (have := h7 g hg; omega))
    | (refine List.pairwise_append.2 ⟨h8, List.pairwise_singleton _ _, ?_⟩
       intro a ha b hb; simp at hb; subst hb; exact h7 a ha)
    | (intro hn; simp [hn] at h11)
    | skip)

theorem inv_step_shut4 {s s' : S} {ok : Bool} (hi : Inv s.core) (hpc : s.pc = .shut4) (h : stepRun s ok = some s') : Inv s'.core := by
  obtain ⟨h1, h2, h3, h4, h5, h6, h7, h8, h9, h10, h11, h12, h13, h14, h15, h16, h17, h18, h19⟩ := hi
  simp only [S.core] at h1 h2 h3 h4 h5 h6 h7 h8 h9 h10 h11 h12 h13 h14 h15 h16 h17 h18 h19
  have h4' := h4
  simp only [hpc, Pc.hasLive] at h4'
  cases ok <;> c20_step_simp h hpc
  all_goals (first | cases h | skip)
  all_goals (try simp only [h4'] at h)
  all_goals (first | cases h | skip)
  all_goals c20_close
  all_goals (first
    | omega
    | (intro g hg; have := h7 g hg; omega)
    | (intro g hg; rcases hg with hg | rfl <;> first | omega | (have := h7 g hg; omega))
    | (refine List.pairwise_append.2 ⟨h8, List.pairwise_singleton _ _, ?_⟩
       intro a ha b hb; simp at hb; subst hb; exact h7 a ha)
    | (intro hn; simp [hn] at h11)
    | skip)

theorem inv_step {s s' : S} {ok : Bool} (hi : Inv s.core) (h : stepRun s ok = some s') : Inv s'.core := by
  cases hpc : s.pc
  case idle => simp [stepRun, hpc] at h
  case select => simp [stepRun, hpc] at h
  case done => simp [stepRun, hpc] at h
  case setup1 rl => cases rl <;> first | exact inv_step_setup1_false hi hpc h | exact inv_step_setup1_true hi hpc h
  case setup2 rl => cases rl <;> first | exact inv_step_setup2_false hi hpc h | exact inv_step_setup2_true hi hpc h
  case setup3 rl => cases rl <;> first | exact inv_step_setup3_false hi hpc h | exact inv_step_setup3_true hi hpc h
  case setupSd rl => cases rl <;> first | exact inv_step_setupSd_false hi hpc h | exact inv_step_setupSd_true hi hpc h
  case setup4 rl => cases rl <;> first | exact inv_step_setup4_false hi hpc h | exact inv_step_setup4_true hi hpc h
  case initFail => exact inv_step_initFail hi hpc h
  case reload1 => exact inv_step_reload1 hi hpc h
  case reload2 => exact inv_step_reload2 hi hpc h
  case shut1 => exact inv_step_shut1 hi hpc h
  case shut2 => exact inv_step_shut2 hi hpc h
  case shut3 => exact inv_step_shut3 hi hpc h
  case shut4 => exact inv_step_shut4 hi hpc h

theorem inv_pick {s s' : S} {e : Ev} (hi : Inv s.core) (hpc : s.pc = .select) (h : pickEv s e = some s') : Inv s'.core := by
  obtain ⟨h1, h2, h3, h4, h5, h6, h7, h8, h9, h10, h11, h12, h13, h14, h15, h16, h17, h18, h19⟩ := hi
  simp only [S.core] at h1 h2 h3 h4 h5 h6 h7 h8 h9 h10 h11 h12 h13 h14 h15 h16 h17 h18 h19
  cases e <;> simp only [pickEv, leave, S.emit] at h <;> split at h <;> simp only [Option.some.injEq, reduceCtorEq] at h
  all_goals subst h
  all_goals c20_close

theorem inv_begin {s s' : S} (hi : Inv s.core) (hpc : s.pc = .idle) (h : s' = { s with pc := .setup1 false }) : Inv s'.core := by
  obtain ⟨h1, h2, h3, h4, h5, h6, h7, h8, h9, h10, h11, h12, h13, h14, h15, h16, h17, h18, h19⟩ := hi
  simp only [S.core] at h1 h2 h3 h4 h5 h6 h7 h8 h9 h10 h11 h12 h13 h14 h15 h16 h17 h18 h19
  subst h
  c20_close

theorem inv_fire (v : Variant) {s s' : S} {l : Label} (hi : Inv s.core) (h : fire v s l = some s') : Inv s'.core := by
  cases l with
  | call => rw [core_external v h (Or.inl rfl)]; exact hi
  | close => rw [core_external v h (Or.inr (Or.inl rfl))]; exact hi
  | cancel => rw [core_external v h (Or.inr (Or.inr (Or.inl rfl)))]; exact hi
  | fatal => rw [core_fatal v h]; exact hi
  | giveUp => rw [core_giveUp v h]; exact hi
  | post e => rw [core_external v h (Or.inr (Or.inr (Or.inr ⟨e, rfl⟩)))]; exact hi
  | begin =>
    simp only [fire] at h
    split at h
    · rename_i hpc; simp only [Option.some.injEq] at h; exact inv_begin hi hpc h.symm
    · cases h
  | step ok => exact inv_step hi h
  | pick e =>
    simp only [fire] at h
    split at h
    · rename_i hpc; exact inv_pick hi hpc h
    · cases h

theorem runFrom_append (v : Variant) (s : S) (l1 l2 : List Label) :
    runFrom v s (l1 ++ l2) = (runFrom v s l1).bind (fun s' => runFrom v s' l2) := by
  induction l1 generalizing s with
  | nil => simp [runFrom]
  | cons l ls ih =>
    simp only [List.cons_append, runFrom]
    cases fire v s l with
    | none => simp
    | some s1 => simp [ih]

theorem inv_runFrom (v : Variant) {s s' : S} (ls : List Label) (hi : Inv s.core) (h : runFrom v s ls = some s') : Inv s'.core := by
  induction ls generalizing s with
  | nil => simp only [runFrom, Option.some.injEq] at h; subst h; exact hi
  | cons l ls ih =>
    simp only [runFrom] at h
    cases hf : fire v s l with
    | none => simp [hf] at h
    | some s1 => simp only [hf, Option.bind_some] at h; exact ih (inv_fire v hi hf) h

theorem inv_reachable {v : Variant} {s : S} (h : Reachable v s) : Inv s.core := by
  obtain ⟨ls, h⟩ := h
  exact inv_runFrom v ls inv_init h

theorem sdLog_count_le_one (v : Variant) (s : S) (h : Reachable v s) (g : Nat) :
    s.sdLog.count g ≤ 1 := by
  have hi := inv_reachable h
  have hs := hi.sorted
  have hc := hi.created
  simp only [S.core] at hs hc
  rw [hc] at hs
  have hnd : s.sdLog.Nodup := (List.pairwise_append.1 hs).1.imp (fun h => Nat.ne_of_lt h)
  exact (List.nodup_iff_count.1 hnd) g

theorem created_all_shutdown {v : Variant} {s : S} (h : Reachable v s) (hl : s.live = []) :
    ∀ g ∈ s.created, s.sdLog.count g = 1 := by
  intro g hg
  have hi := inv_reachable h
  have hc := hi.created
  simp only [S.core] at hc
  rw [hc, hl, List.append_nil] at hg
  have := sdLog_count_le_one v s h g
  have : 0 < s.sdLog.count g := List.count_pos_iff.2 hg
  omega

/-- steps the Run goroutine still has to execute on the shutdown path -/
def Pc.remaining : Pc → Nat
  | .shut1 => 4 | .shut2 => 3 | .shut3 => 2 | .shut4 => 1 | _ => 0

def Label.isStep : Label → Bool
  | .step _ => true
  | _ => false

theorem shut_fire {v : Variant} {s s' : S} {l : Label} (hp : s.pc.inShut = true ∨ s.pc = .done) (h : fire v s l = some s') :
    (s'.pc.inShut = true ∨ s'.pc = .done) ∧ s'.pc.remaining + (if l.isStep then 1 else 0) = s.pc.remaining := by
  cases l with
  | call =>
    have := congrArg Core.pc (core_external v h (Or.inl rfl)); simp only [S.core] at this
    simp [this, hp, Label.isStep]
  | close =>
    have := congrArg Core.pc (core_external v h (Or.inr (Or.inl rfl))); simp only [S.core] at this
    simp [this, hp, Label.isStep]
  | cancel =>
    have := congrArg Core.pc (core_external v h (Or.inr (Or.inr (Or.inl rfl)))); simp only [S.core] at this
    simp [this, hp, Label.isStep]
  | fatal =>
    have := congrArg Core.pc (core_fatal v h); simp only [S.core] at this
    simp [this, hp, Label.isStep]
  | giveUp =>
    have := congrArg Core.pc (core_giveUp v h); simp only [S.core] at this
    simp [this, hp, Label.isStep]
  | post e =>
    have := congrArg Core.pc (core_external v h (Or.inr (Or.inr (Or.inr ⟨e, rfl⟩)))); simp only [S.core] at this
    simp [this, hp, Label.isStep]
  | begin =>
    simp only [fire] at h
    split at h
    · rename_i hpc; simp [hpc, Pc.inShut] at hp
    · cases h
  | pick e =>
    simp only [fire] at h
    split at h
    · rename_i hpc; simp [hpc, Pc.inShut] at hp
    · cases h
  | step ok =>
    simp only [fire] at h
    cases hpc : s.pc <;> simp [hpc, Pc.inShut] at hp
    all_goals cases ok <;> simp [stepRun, hpc, setSt, S.emit, svcShutdown] at h
    all_goals (first | (subst h; simp [Pc.inShut, Pc.remaining, Label.isStep]) | skip)
    all_goals (cases hsvc : s.svc <;> simp [hsvc] at h <;> subst h <;> simp [Pc.inShut, Pc.remaining, Label.isStep, S.emit])

def countSteps (ls : List Label) : Nat := (ls.filter Label.isStep).length

theorem shut_runFrom {v : Variant} {s s' : S} (ls : List Label) (hp : s.pc.inShut = true ∨ s.pc = .done)
    (h : runFrom v s ls = some s') :
    (s'.pc.inShut = true ∨ s'.pc = .done) ∧ s'.pc.remaining + countSteps ls = s.pc.remaining := by
  induction ls generalizing s with
  | nil => simp only [runFrom, Option.some.injEq] at h; subst h; simp [hp, countSteps]
  | cons l ls ih =>
    simp only [runFrom] at h
    cases hf : fire v s l with
    | none => simp [hf] at h
    | some s1 =>
      simp only [hf, Option.bind_some] at h
      obtain ⟨hp1, hr1⟩ := shut_fire hp hf
      obtain ⟨hp2, hr2⟩ := ih hp1 h
      refine ⟨hp2, ?_⟩
      simp only [countSteps, List.filter_cons] at hr2 ⊢
      cases hl : l.isStep <;> simp [hl] at hr1 ⊢ <;> omega

/-- the request is pending (a goroutine is between the guard and `close`), visible to the select, or moot -/
def NotLost (s : S) : Prop := s.req = true → s.chanClosed = true ∨ s.closers > 0 ∨ s.pc = .done

theorem notLost_fire {s s' : S} {l : Label} (hi : Inv s.core) (hn : NotLost s) (h : fire .fixed s l = some s') : NotLost s' := by
  unfold NotLost at *
  cases l with
  | call =>
    simp only [fire, S.emit, Option.some.injEq] at h
    by_cases hh : Variant.honours .fixed s.st = true
    · simp only [hh, if_true] at h; subst h; intro _; right; left; simp
    · simp only [hh] at h; subst h
      have hc : s.st = .closed := by simpa [Variant.honours] using hh
      have := hi.closedDone hc
      simp only [S.core] at this
      intro _; right; right; exact this
  | close =>
    simp only [fire] at h
    split at h
    · simp only [Option.some.injEq] at h; subst h; intro _; left; rfl
    · cases h
  | cancel => simp only [fire, Option.some.injEq] at h; subst h; exact hn
  | fatal => simp only [fire, Option.some.injEq] at h; subst h; exact hn
  | giveUp =>
    simp only [fire] at h
    split at h
    · simp only [Option.some.injEq] at h; subst h; exact hn
    · cases h
  | post e => cases e <;> simp only [fire, postEv, Option.some.injEq, reduceCtorEq] at h <;> first | (subst h; exact hn) | cases h
  | begin =>
    simp only [fire] at h
    split at h
    · rename_i hpc; simp only [Option.some.injEq] at h; subst h
      intro hr; rcases hn hr with h1 | h1 | h1
      · exact Or.inl h1
      · exact Or.inr (Or.inl h1)
      · simp [hpc] at h1
    · cases h
  | pick e =>
    simp only [fire] at h
    split at h
    · rename_i hpc
      cases e <;> simp only [pickEv, leave, S.emit] at h <;> split at h <;> simp only [Option.some.injEq, reduceCtorEq] at h
      all_goals subst h
      all_goals (intro hr; rcases hn hr with h1 | h1 | h1)
      all_goals (first | exact Or.inl h1 | exact Or.inr (Or.inl h1) | simp [hpc] at h1)
    · cases h
  | step ok =>
    simp only [fire] at h
    intro hr
    have key : s'.req = s.req ∧ s'.chanClosed = s.chanClosed ∧ s'.closers = s.closers ∧ s.pc ≠ .done := by
      cases hpc : s.pc <;> cases ok <;>
        simp only [stepRun, hpc, setSt, S.emit, Option.some.injEq, if_true, if_false, Bool.false_eq_true, reduceCtorEq] at h
      all_goals subst h
      all_goals simp only [failSetup, svcShutdown, S.emit]
      all_goals (try (rename_i rl; cases rl))
      all_goals (cases s.svc <;> simp)
    obtain ⟨k1, k2, k3, _⟩ := key
    rw [k1] at hr
    rcases hn hr with h1 | h1 | h1
    · left; rw [k2]; exact h1
    · right; left; rw [k3]; exact h1
    · cases hpc : s.pc <;> simp [stepRun, hpc] at h h1


/-- with a fatal report pending before `service.Shutdown`, no label other than a Run statement changes that -/
theorem wedged_stable {v : Variant} {s s' : S} {l : Label} (hpc : s.pc = .shut3) (hf : s.nFatal > 0) (hl : l.isStep = false)
    (h : fire v s l = some s') : s'.pc = .shut3 ∧ s'.nFatal > 0 := by
  cases l with
  | step ok => simp [Label.isStep] at hl
  | call =>
    simp only [fire, S.emit, Option.some.injEq] at h
    by_cases hh : v.honours s.st = true <;> simp only [hh, if_true, if_false, Bool.false_eq_true] at h <;> subst h <;> exact ⟨hpc, hf⟩
  | close =>
    simp only [fire] at h
    split at h
    · simp only [Option.some.injEq] at h; subst h; exact ⟨hpc, hf⟩
    · cases h
  | cancel => simp only [fire, Option.some.injEq] at h; subst h; exact ⟨hpc, hf⟩
  | fatal => simp only [fire, Option.some.injEq] at h; subst h; exact ⟨hpc, Nat.lt_succ_of_lt hf⟩
  | giveUp =>
    simp only [fire] at h
    split at h
    · simp only [Option.some.injEq] at h; subst h; exact ⟨hpc, hf⟩
    · cases h
  | post e => cases e <;> simp only [fire, postEv, Option.some.injEq, reduceCtorEq] at h <;> first | (subst h; exact ⟨hpc, hf⟩) | cases h
  | begin => simp [fire, hpc] at h
  | pick e => simp [fire, hpc] at h


end OtelVerif.C20
