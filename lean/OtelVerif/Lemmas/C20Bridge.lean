import OtelVerif.Lemmas.C20
import OtelVerif.Lemmas.C20Mon
/-! # C20 — every log the model can produce is accepted by the monitor (bridge lemmas) -/
namespace OtelVerif.C20
set_option linter.unusedSimpArgs false

theorem Mon.run_append (m : Mon) (a b : List TEv) :
    Mon.run m (a ++ b) = match Mon.run m a with | .ok m' => Mon.run m' b | .error e => .error e := by
  induction a generalizing m with
  | nil => simp [Mon.run]
  | cons x xs ih =>
    simp only [List.cons_append, Mon.run_cons]
    cases m.step x with
    | error e => simp
    | ok m1 => simp [ih]

theorem Mon.run_append_ok {m0 m : Mon} {a : List TEv} (h : Mon.run m0 a = .ok m) (b : List TEv) :
    Mon.run m0 (a ++ b) = Mon.run m b := by
  rw [Mon.run_append, h]

/-- pcs at which the current service has been started (possibly partially) and not shut down -/
def Pc.hasStarted : Pc → Bool
  | .setupSd _ | .setup4 _ | .select | .reload1 | .reload2 | .shut1 | .shut2 | .shut3 => true
  | _ => false

/-- the monitor state that corresponds to a model state -/
structure Rel (c : Core) (req : Bool) (m : Mon) : Prop where
  live : m.live = if c.pc.hasStarted then [(c.gen, 0)] else []
  shut : m.shutOnce = (c.sdLog.map (fun g => (g, 0))).reverse
  prov : m.prov = c.provSd
  st : m.st = c.st
  stopped : m.stopped = c.stop.isSome
  ret : m.ret = c.ret
  ever : m.everRunning = c.everRunning
  req : m.req = req

def Acc (s : S) : Prop := ∃ m, Mon.run {} s.log = .ok m ∧ Rel s.core s.req m

theorem acc_init : Acc init := ⟨{}, rfl, by constructor <;> simp [init, S.core, Pc.hasStarted]⟩

theorem gen_fresh {c : Core} (hi : Inv c) (h : c.pc.hasLive = true) : c.gen ∉ c.sdLog := by
  have hc := hi.created
  have hl := hi.live
  have hs := hi.sorted
  rw [hl, h] at hc
  simp only [if_true] at hc
  rw [hc] at hs
  intro hmem
  have := (List.pairwise_append.1 hs).2.2 c.gen hmem c.gen (by simp)
  omega

theorem acc_step_setup1_true {s s' : S} {ok : Bool} (hi : Inv s.core) (ha : Acc s) (hpc : s.pc = .setup1 true) (h : stepRun s ok = some s') : Acc s' := by
  obtain ⟨m, hm, r1, r2, r3, r4, r5, r6, r7, r8⟩ := ha
  have hfresh := gen_fresh hi
  have hsvc := hi.svcLive
  have hprov := hi.prov
  have hst := hi.stAt
  have hstop := hi.shutStop
  have hstop' := hi.stopPc
  simp only [S.core, hpc, Pc.hasLive, Pc.hasStarted, Pc.stateAt, Pc.inShut, forall_const, if_true, if_false, true_or, or_true, or_false, false_or,
    Option.some.injEq, forall_eq', reduceCtorEq, Bool.false_eq_true, false_and, and_false, false_implies, implies_true] at r1 r2 r3 r4 r5 r6 r7 r8 hfresh hsvc hprov hst hstop hstop'
  have hsn : s.stop = none := by
    cases hx : s.stop with
    | none => rfl
    | some e => simp [hx] at hstop'
  cases ok <;> c20_step_simp h hpc
  all_goals (try simp only [hsvc] at h)
  all_goals subst h
  all_goals simp only [Acc, List.append_assoc]
  all_goals simp [Mon.run_append_ok hm, hm, Mon.run, Mon.step, r1, r2, r3, r4, r5, r6, r7, r8, hfresh, hprov, hst, hsn, exists_eq_left']
  all_goals (try refine ⟨_, rfl, ?_⟩)
  all_goals (constructor <;> simp_all [S.core, Pc.hasStarted])

theorem acc_step_setup1_false {s s' : S} {ok : Bool} (hi : Inv s.core) (ha : Acc s) (hpc : s.pc = .setup1 false) (h : stepRun s ok = some s') : Acc s' := by
  obtain ⟨m, hm, r1, r2, r3, r4, r5, r6, r7, r8⟩ := ha
  have hfresh := gen_fresh hi
  have hsvc := hi.svcLive
  have hprov := hi.prov
  have hst := hi.stAt
  have hstop := hi.shutStop
  have hstop' := hi.stopPc
  simp only [S.core, hpc, Pc.hasLive, Pc.hasStarted, Pc.stateAt, Pc.inShut, forall_const, if_true, if_false, true_or, or_true, or_false, false_or,
    Option.some.injEq, forall_eq', reduceCtorEq, Bool.false_eq_true, false_and, and_false, false_implies, implies_true] at r1 r2 r3 r4 r5 r6 r7 r8 hfresh hsvc hprov hst hstop hstop'
  have hsn : s.stop = none := by
    cases hx : s.stop with
    | none => rfl
    | some e => simp [hx] at hstop'
  cases ok <;> c20_step_simp h hpc
  all_goals (try simp only [hsvc] at h)
  all_goals subst h
  all_goals simp only [Acc, List.append_assoc]
  all_goals simp [Mon.run_append_ok hm, hm, Mon.run, Mon.step, r1, r2, r3, r4, r5, r6, r7, r8, hfresh, hprov, hst, hsn, exists_eq_left']
  all_goals (try refine ⟨_, rfl, ?_⟩)
  all_goals (constructor <;> simp_all [S.core, Pc.hasStarted])

theorem acc_step_setup2_true {s s' : S} {ok : Bool} (hi : Inv s.core) (ha : Acc s) (hpc : s.pc = .setup2 true) (h : stepRun s ok = some s') : Acc s' := by
  obtain ⟨m, hm, r1, r2, r3, r4, r5, r6, r7, r8⟩ := ha
  have hfresh := gen_fresh hi
  have hsvc := hi.svcLive
  have hprov := hi.prov
  have hst := hi.stAt
  have hstop := hi.shutStop
  have hstop' := hi.stopPc
  simp only [S.core, hpc, Pc.hasLive, Pc.hasStarted, Pc.stateAt, Pc.inShut, forall_const, if_true, if_false, true_or, or_true, or_false, false_or,
    Option.some.injEq, forall_eq', reduceCtorEq, Bool.false_eq_true, false_and, and_false, false_implies, implies_true] at r1 r2 r3 r4 r5 r6 r7 r8 hfresh hsvc hprov hst hstop hstop'
  have hsn : s.stop = none := by
    cases hx : s.stop with
    | none => rfl
    | some e => simp [hx] at hstop'
  cases ok <;> c20_step_simp h hpc
  all_goals (try simp only [hsvc] at h)
  all_goals subst h
  all_goals simp only [Acc, List.append_assoc]
  all_goals simp [Mon.run_append_ok hm, hm, Mon.run, Mon.step, r1, r2, r3, r4, r5, r6, r7, r8, hfresh, hprov, hst, hsn, exists_eq_left']
  all_goals (try refine ⟨_, rfl, ?_⟩)
  all_goals (constructor <;> simp_all [S.core, Pc.hasStarted])

theorem acc_step_setup2_false {s s' : S} {ok : Bool} (hi : Inv s.core) (ha : Acc s) (hpc : s.pc = .setup2 false) (h : stepRun s ok = some s') : Acc s' := by
  obtain ⟨m, hm, r1, r2, r3, r4, r5, r6, r7, r8⟩ := ha
  have hfresh := gen_fresh hi
  have hsvc := hi.svcLive
  have hprov := hi.prov
  have hst := hi.stAt
  have hstop := hi.shutStop
  have hstop' := hi.stopPc
  simp only [S.core, hpc, Pc.hasLive, Pc.hasStarted, Pc.stateAt, Pc.inShut, forall_const, if_true, if_false, true_or, or_true, or_false, false_or,
    Option.some.injEq, forall_eq', reduceCtorEq, Bool.false_eq_true, false_and, and_false, false_implies, implies_true] at r1 r2 r3 r4 r5 r6 r7 r8 hfresh hsvc hprov hst hstop hstop'
  have hsn : s.stop = none := by
    cases hx : s.stop with
    | none => rfl
    | some e => simp [hx] at hstop'
  cases ok <;> c20_step_simp h hpc
  all_goals (try simp only [hsvc] at h)
  all_goals subst h
  all_goals simp only [Acc, List.append_assoc]
  all_goals simp [Mon.run_append_ok hm, hm, Mon.run, Mon.step, r1, r2, r3, r4, r5, r6, r7, r8, hfresh, hprov, hst, hsn, exists_eq_left']
  all_goals (try refine ⟨_, rfl, ?_⟩)
  all_goals (constructor <;> simp_all [S.core, Pc.hasStarted])

theorem acc_step_setup3_true {s s' : S} {ok : Bool} (hi : Inv s.core) (ha : Acc s) (hpc : s.pc = .setup3 true) (h : stepRun s ok = some s') : Acc s' := by
  obtain ⟨m, hm, r1, r2, r3, r4, r5, r6, r7, r8⟩ := ha
  have hfresh := gen_fresh hi
  have hsvc := hi.svcLive
  have hprov := hi.prov
  have hst := hi.stAt
  have hstop := hi.shutStop
  have hstop' := hi.stopPc
  simp only [S.core, hpc, Pc.hasLive, Pc.hasStarted, Pc.stateAt, Pc.inShut, forall_const, if_true, if_false, true_or, or_true, or_false, false_or,
    Option.some.injEq, forall_eq', reduceCtorEq, Bool.false_eq_true, false_and, and_false, false_implies, implies_true] at r1 r2 r3 r4 r5 r6 r7 r8 hfresh hsvc hprov hst hstop hstop'
  have hsn : s.stop = none := by
    cases hx : s.stop with
    | none => rfl
    | some e => simp [hx] at hstop'
  cases ok <;> c20_step_simp h hpc
  all_goals (try simp only [hsvc] at h)
  all_goals subst h
  all_goals simp only [Acc, List.append_assoc]
  all_goals simp [Mon.run_append_ok hm, hm, Mon.run, Mon.step, r1, r2, r3, r4, r5, r6, r7, r8, hfresh, hprov, hst, hsn, exists_eq_left']
  all_goals (try refine ⟨_, rfl, ?_⟩)
  all_goals (constructor <;> simp_all [S.core, Pc.hasStarted])

theorem acc_step_setup3_false {s s' : S} {ok : Bool} (hi : Inv s.core) (ha : Acc s) (hpc : s.pc = .setup3 false) (h : stepRun s ok = some s') : Acc s' := by
  obtain ⟨m, hm, r1, r2, r3, r4, r5, r6, r7, r8⟩ := ha
  have hfresh := gen_fresh hi
  have hsvc := hi.svcLive
  have hprov := hi.prov
  have hst := hi.stAt
  have hstop := hi.shutStop
  have hstop' := hi.stopPc
  simp only [S.core, hpc, Pc.hasLive, Pc.hasStarted, Pc.stateAt, Pc.inShut, forall_const, if_true, if_false, true_or, or_true, or_false, false_or,
    Option.some.injEq, forall_eq', reduceCtorEq, Bool.false_eq_true, false_and, and_false, false_implies, implies_true] at r1 r2 r3 r4 r5 r6 r7 r8 hfresh hsvc hprov hst hstop hstop'
  have hsn : s.stop = none := by
    cases hx : s.stop with
    | none => rfl
    | some e => simp [hx] at hstop'
  cases ok <;> c20_step_simp h hpc
  all_goals (try simp only [hsvc] at h)
  all_goals subst h
  all_goals simp only [Acc, List.append_assoc]
  all_goals simp [Mon.run_append_ok hm, hm, Mon.run, Mon.step, r1, r2, r3, r4, r5, r6, r7, r8, hfresh, hprov, hst, hsn, exists_eq_left']
  all_goals (try refine ⟨_, rfl, ?_⟩)
  all_goals (constructor <;> simp_all [S.core, Pc.hasStarted])

theorem acc_step_setupSd_true {s s' : S} {ok : Bool} (hi : Inv s.core) (ha : Acc s) (hpc : s.pc = .setupSd true) (h : stepRun s ok = some s') : Acc s' := by
  obtain ⟨m, hm, r1, r2, r3, r4, r5, r6, r7, r8⟩ := ha
  have hfresh := gen_fresh hi
  have hsvc := hi.svcLive
  have hprov := hi.prov
  have hst := hi.stAt
  have hstop := hi.shutStop
  have hstop' := hi.stopPc
  simp only [S.core, hpc, Pc.hasLive, Pc.hasStarted, Pc.stateAt, Pc.inShut, forall_const, if_true, if_false, true_or, or_true, or_false, false_or,
    Option.some.injEq, forall_eq', reduceCtorEq, Bool.false_eq_true, false_and, and_false, false_implies, implies_true] at r1 r2 r3 r4 r5 r6 r7 r8 hfresh hsvc hprov hst hstop hstop'
  have hsn : s.stop = none := by
    cases hx : s.stop with
    | none => rfl
    | some e => simp [hx] at hstop'
  cases ok <;> c20_step_simp h hpc
  all_goals (try simp only [hsvc] at h)
  all_goals subst h
  all_goals simp only [Acc, List.append_assoc]
  all_goals simp [Mon.run_append_ok hm, hm, Mon.run, Mon.step, r1, r2, r3, r4, r5, r6, r7, r8, hfresh, hprov, hst, hsn, exists_eq_left']
  all_goals (try refine ⟨_, rfl, ?_⟩)
  all_goals (constructor <;> simp_all [S.core, Pc.hasStarted])

theorem acc_step_setupSd_false {s s' : S} {ok : Bool} (hi : Inv s.core) (ha : Acc s) (hpc : s.pc = .setupSd false) (h : stepRun s ok = some s') : Acc s' := by
  obtain ⟨m, hm, r1, r2, r3, r4, r5, r6, r7, r8⟩ := ha
  have hfresh := gen_fresh hi
  have hsvc := hi.svcLive
  have hprov := hi.prov
  have hst := hi.stAt
  have hstop := hi.shutStop
  have hstop' := hi.stopPc
  simp only [S.core, hpc, Pc.hasLive, Pc.hasStarted, Pc.stateAt, Pc.inShut, forall_const, if_true, if_false, true_or, or_true, or_false, false_or,
    Option.some.injEq, forall_eq', reduceCtorEq, Bool.false_eq_true, false_and, and_false, false_implies, implies_true] at r1 r2 r3 r4 r5 r6 r7 r8 hfresh hsvc hprov hst hstop hstop'
  have hsn : s.stop = none := by
    cases hx : s.stop with
    | none => rfl
    | some e => simp [hx] at hstop'
  cases ok <;> c20_step_simp h hpc
  all_goals (try simp only [hsvc] at h)
  all_goals subst h
  all_goals simp only [Acc, List.append_assoc]
  all_goals simp [Mon.run_append_ok hm, hm, Mon.run, Mon.step, r1, r2, r3, r4, r5, r6, r7, r8, hfresh, hprov, hst, hsn, exists_eq_left']
  all_goals (try refine ⟨_, rfl, ?_⟩)
  all_goals (constructor <;> simp_all [S.core, Pc.hasStarted])

theorem acc_step_setup4_true {s s' : S} {ok : Bool} (hi : Inv s.core) (ha : Acc s) (hpc : s.pc = .setup4 true) (h : stepRun s ok = some s') : Acc s' := by
  obtain ⟨m, hm, r1, r2, r3, r4, r5, r6, r7, r8⟩ := ha
  have hfresh := gen_fresh hi
  have hsvc := hi.svcLive
  have hprov := hi.prov
  have hst := hi.stAt
  have hstop := hi.shutStop
  have hstop' := hi.stopPc
  simp only [S.core, hpc, Pc.hasLive, Pc.hasStarted, Pc.stateAt, Pc.inShut, forall_const, if_true, if_false, true_or, or_true, or_false, false_or,
    Option.some.injEq, forall_eq', reduceCtorEq, Bool.false_eq_true, false_and, and_false, false_implies, implies_true] at r1 r2 r3 r4 r5 r6 r7 r8 hfresh hsvc hprov hst hstop hstop'
  have hsn : s.stop = none := by
    cases hx : s.stop with
    | none => rfl
    | some e => simp [hx] at hstop'
  cases ok <;> c20_step_simp h hpc
  all_goals (try simp only [hsvc] at h)
  all_goals subst h
  all_goals simp only [Acc, List.append_assoc]
  all_goals simp [Mon.run_append_ok hm, hm, Mon.run, Mon.step, r1, r2, r3, r4, r5, r6, r7, r8, hfresh, hprov, hst, hsn, exists_eq_left']
  all_goals (try refine ⟨_, rfl, ?_⟩)
  all_goals (constructor <;> simp_all [S.core, Pc.hasStarted])

theorem acc_step_setup4_false {s s' : S} {ok : Bool} (hi : Inv s.core) (ha : Acc s) (hpc : s.pc = .setup4 false) (h : stepRun s ok = some s') : Acc s' := by
  obtain ⟨m, hm, r1, r2, r3, r4, r5, r6, r7, r8⟩ := ha
  have hfresh := gen_fresh hi
  have hsvc := hi.svcLive
  have hprov := hi.prov
  have hst := hi.stAt
  have hstop := hi.shutStop
  have hstop' := hi.stopPc
  simp only [S.core, hpc, Pc.hasLive, Pc.hasStarted, Pc.stateAt, Pc.inShut, forall_const, if_true, if_false, true_or, or_true, or_false, false_or,
    Option.some.injEq, forall_eq', reduceCtorEq, Bool.false_eq_true, false_and, and_false, false_implies, implies_true] at r1 r2 r3 r4 r5 r6 r7 r8 hfresh hsvc hprov hst hstop hstop'
  have hsn : s.stop = none := by
    cases hx : s.stop with
    | none => rfl
    | some e => simp [hx] at hstop'
  cases ok <;> c20_step_simp h hpc
  all_goals (try simp only [hsvc] at h)
  all_goals subst h
  all_goals simp only [Acc, List.append_assoc]
  all_goals simp [Mon.run_append_ok hm, hm, Mon.run, Mon.step, r1, r2, r3, r4, r5, r6, r7, r8, hfresh, hprov, hst, hsn, exists_eq_left']
  all_goals (try refine ⟨_, rfl, ?_⟩)
  all_goals (constructor <;> simp_all [S.core, Pc.hasStarted])

theorem acc_step_initFail {s s' : S} {ok : Bool} (hi : Inv s.core) (ha : Acc s) (hpc : s.pc = .initFail) (h : stepRun s ok = some s') : Acc s' := by
  obtain ⟨m, hm, r1, r2, r3, r4, r5, r6, r7, r8⟩ := ha
  have hfresh := gen_fresh hi
  have hsvc := hi.svcLive
  have hprov := hi.prov
  have hst := hi.stAt
  have hstop := hi.shutStop
  have hstop' := hi.stopPc
  simp only [S.core, hpc, Pc.hasLive, Pc.hasStarted, Pc.stateAt, Pc.inShut, forall_const, if_true, if_false, true_or, or_true, or_false, false_or,
    Option.some.injEq, forall_eq', reduceCtorEq, Bool.false_eq_true, false_and, and_false, false_implies, implies_true] at r1 r2 r3 r4 r5 r6 r7 r8 hfresh hsvc hprov hst hstop hstop'
  have hsn : s.stop = none := by
    cases hx : s.stop with
    | none => rfl
    | some e => simp [hx] at hstop'
  cases ok <;> c20_step_simp h hpc
  all_goals (try simp only [hsvc] at h)
  all_goals subst h
  all_goals simp only [Acc, List.append_assoc]
  all_goals simp [Mon.run_append_ok hm, hm, Mon.run, Mon.step, r1, r2, r3, r4, r5, r6, r7, r8, hfresh, hprov, hst, hsn, exists_eq_left']
  all_goals (try refine ⟨_, rfl, ?_⟩)
  all_goals (constructor <;> simp_all [S.core, Pc.hasStarted])

theorem acc_step_reload1 {s s' : S} {ok : Bool} (hi : Inv s.core) (ha : Acc s) (hpc : s.pc = .reload1) (h : stepRun s ok = some s') : Acc s' := by
  obtain ⟨m, hm, r1, r2, r3, r4, r5, r6, r7, r8⟩ := ha
  have hfresh := gen_fresh hi
  have hsvc := hi.svcLive
  have hprov := hi.prov
  have hst := hi.stAt
  have hstop := hi.shutStop
  have hstop' := hi.stopPc
  simp only [S.core, hpc, Pc.hasLive, Pc.hasStarted, Pc.stateAt, Pc.inShut, forall_const, if_true, if_false, true_or, or_true, or_false, false_or,
    Option.some.injEq, forall_eq', reduceCtorEq, Bool.false_eq_true, false_and, and_false, false_implies, implies_true] at r1 r2 r3 r4 r5 r6 r7 r8 hfresh hsvc hprov hst hstop hstop'
  have hsn : s.stop = none := by
    cases hx : s.stop with
    | none => rfl
    | some e => simp [hx] at hstop'
  cases ok <;> c20_step_simp h hpc
  all_goals (try simp only [hsvc] at h)
  all_goals subst h
  all_goals simp only [Acc, List.append_assoc]
  all_goals simp [Mon.run_append_ok hm, hm, Mon.run, Mon.step, r1, r2, r3, r4, r5, r6, r7, r8, hfresh, hprov, hst, hsn, exists_eq_left']
  all_goals (try refine ⟨_, rfl, ?_⟩)
  all_goals (constructor <;> simp_all [S.core, Pc.hasStarted])

theorem acc_step_reload2 {s s' : S} {ok : Bool} (hi : Inv s.core) (ha : Acc s) (hpc : s.pc = .reload2) (h : stepRun s ok = some s') : Acc s' := by
  obtain ⟨m, hm, r1, r2, r3, r4, r5, r6, r7, r8⟩ := ha
  have hfresh := gen_fresh hi
  have hsvc := hi.svcLive
  have hprov := hi.prov
  have hst := hi.stAt
  have hstop := hi.shutStop
  have hstop' := hi.stopPc
  simp only [S.core, hpc, Pc.hasLive, Pc.hasStarted, Pc.stateAt, Pc.inShut, forall_const, if_true, if_false, true_or, or_true, or_false, false_or,
    Option.some.injEq, forall_eq', reduceCtorEq, Bool.false_eq_true, false_and, and_false, false_implies, implies_true] at r1 r2 r3 r4 r5 r6 r7 r8 hfresh hsvc hprov hst hstop hstop'
  have hsn : s.stop = none := by
    cases hx : s.stop with
    | none => rfl
    | some e => simp [hx] at hstop'
  cases ok <;> c20_step_simp h hpc
  all_goals (try simp only [hsvc] at h)
  all_goals subst h
  all_goals simp only [Acc, List.append_assoc]
  all_goals simp [Mon.run_append_ok hm, hm, Mon.run, Mon.step, r1, r2, r3, r4, r5, r6, r7, r8, hfresh, hprov, hst, hsn, exists_eq_left']
  all_goals (try refine ⟨_, rfl, ?_⟩)
  all_goals (constructor <;> simp_all [S.core, Pc.hasStarted])

theorem acc_step_shut1 {s s' : S} {ok : Bool} (hi : Inv s.core) (ha : Acc s) (hpc : s.pc = .shut1) (h : stepRun s ok = some s') : Acc s' := by
  obtain ⟨m, hm, r1, r2, r3, r4, r5, r6, r7, r8⟩ := ha
  have hfresh := gen_fresh hi
  have hsvc := hi.svcLive
  have hprov := hi.prov
  have hst := hi.stAt
  have hstop := hi.shutStop
  have hstop' := hi.stopPc
  simp only [S.core, hpc, Pc.hasLive, Pc.hasStarted, Pc.stateAt, Pc.inShut, forall_const, if_true, if_false, true_or, or_true, or_false, false_or,
    Option.some.injEq, forall_eq', reduceCtorEq, Bool.false_eq_true, false_and, and_false, false_implies, implies_true] at r1 r2 r3 r4 r5 r6 r7 r8 hfresh hsvc hprov hst hstop hstop'
  cases ok <;> c20_step_simp h hpc
  all_goals (try simp only [hsvc] at h)
  all_goals subst h
  all_goals simp only [Acc, List.append_assoc]
  all_goals simp [Mon.run_append_ok hm, hm, Mon.run, Mon.step, r1, r2, r3, r4, r5, r6, r7, r8, hfresh, hprov, hst, hstop, hstop', exists_eq_left']
  all_goals (try refine ⟨_, rfl, ?_⟩)
  all_goals (constructor <;> simp_all [S.core, Pc.hasStarted])

theorem acc_step_shut2 {s s' : S} {ok : Bool} (hi : Inv s.core) (ha : Acc s) (hpc : s.pc = .shut2) (h : stepRun s ok = some s') : Acc s' := by
  obtain ⟨m, hm, r1, r2, r3, r4, r5, r6, r7, r8⟩ := ha
  have hfresh := gen_fresh hi
  have hsvc := hi.svcLive
  have hprov := hi.prov
  have hst := hi.stAt
  have hstop := hi.shutStop
  have hstop' := hi.stopPc
  simp only [S.core, hpc, Pc.hasLive, Pc.hasStarted, Pc.stateAt, Pc.inShut, forall_const, if_true, if_false, true_or, or_true, or_false, false_or,
    Option.some.injEq, forall_eq', reduceCtorEq, Bool.false_eq_true, false_and, and_false, false_implies, implies_true] at r1 r2 r3 r4 r5 r6 r7 r8 hfresh hsvc hprov hst hstop hstop'
  cases ok <;> c20_step_simp h hpc
  all_goals (try simp only [hsvc] at h)
  all_goals subst h
  all_goals simp only [Acc, List.append_assoc]
  all_goals simp [Mon.run_append_ok hm, hm, Mon.run, Mon.step, r1, r2, r3, r4, r5, r6, r7, r8, hfresh, hprov, hst, hstop, hstop', exists_eq_left']
  all_goals (try refine ⟨_, rfl, ?_⟩)
  all_goals (constructor <;> simp_all [S.core, Pc.hasStarted])

theorem acc_step_shut3 {s s' : S} {ok : Bool} (hi : Inv s.core) (ha : Acc s) (hpc : s.pc = .shut3) (h : stepRun s ok = some s') : Acc s' := by
  obtain ⟨m, hm, r1, r2, r3, r4, r5, r6, r7, r8⟩ := ha
  have hfresh := gen_fresh hi
  have hsvc := hi.svcLive
  have hprov := hi.prov
  have hst := hi.stAt
  have hstop := hi.shutStop
  have hstop' := hi.stopPc
  simp only [S.core, hpc, Pc.hasLive, Pc.hasStarted, Pc.stateAt, Pc.inShut, forall_const, if_true, if_false, true_or, or_true, or_false, false_or,
    Option.some.injEq, forall_eq', reduceCtorEq, Bool.false_eq_true, false_and, and_false, false_implies, implies_true] at r1 r2 r3 r4 r5 r6 r7 r8 hfresh hsvc hprov hst hstop hstop'
  cases ok <;> c20_step_simp h hpc
  all_goals (try simp only [hsvc] at h)
  all_goals subst h
  all_goals simp only [Acc, List.append_assoc]
  all_goals simp [Mon.run_append_ok hm, hm, Mon.run, Mon.step, r1, r2, r3, r4, r5, r6, r7, r8, hfresh, hprov, hst, hstop, hstop', exists_eq_left']
  all_goals (try refine ⟨_, rfl, ?_⟩)
  all_goals (constructor <;> simp_all [S.core, Pc.hasStarted])

theorem acc_step_shut4 {s s' : S} {ok : Bool} (hi : Inv s.core) (ha : Acc s) (hpc : s.pc = .shut4) (h : stepRun s ok = some s') : Acc s' := by
  obtain ⟨m, hm, r1, r2, r3, r4, r5, r6, r7, r8⟩ := ha
  have hfresh := gen_fresh hi
  have hsvc := hi.svcLive
  have hprov := hi.prov
  have hst := hi.stAt
  have hstop := hi.shutStop
  have hstop' := hi.stopPc
  simp only [S.core, hpc, Pc.hasLive, Pc.hasStarted, Pc.stateAt, Pc.inShut, forall_const, if_true, if_false, true_or, or_true, or_false, false_or,
    Option.some.injEq, forall_eq', reduceCtorEq, Bool.false_eq_true, false_and, and_false, false_implies, implies_true] at r1 r2 r3 r4 r5 r6 r7 r8 hfresh hsvc hprov hst hstop hstop'
  cases ok <;> c20_step_simp h hpc
  all_goals (try simp only [hsvc] at h)
  all_goals subst h
  all_goals simp only [Acc, List.append_assoc]
  all_goals simp [Mon.run_append_ok hm, hm, Mon.run, Mon.step, r1, r2, r3, r4, r5, r6, r7, r8, hfresh, hprov, hst, hstop, hstop', exists_eq_left']
  all_goals (try refine ⟨_, rfl, ?_⟩)
  all_goals (constructor <;> simp_all [S.core, Pc.hasStarted])

theorem acc_step {s s' : S} {ok : Bool} (hi : Inv s.core) (ha : Acc s) (h : stepRun s ok = some s') : Acc s' := by
  cases hpc : s.pc
  case idle => simp [stepRun, hpc] at h
  case select => simp [stepRun, hpc] at h
  case done => simp [stepRun, hpc] at h
  case setup1 rl => cases rl <;> first | exact acc_step_setup1_false hi ha hpc h | exact acc_step_setup1_true hi ha hpc h
  case setup2 rl => cases rl <;> first | exact acc_step_setup2_false hi ha hpc h | exact acc_step_setup2_true hi ha hpc h
  case setup3 rl => cases rl <;> first | exact acc_step_setup3_false hi ha hpc h | exact acc_step_setup3_true hi ha hpc h
  case setupSd rl => cases rl <;> first | exact acc_step_setupSd_false hi ha hpc h | exact acc_step_setupSd_true hi ha hpc h
  case setup4 rl => cases rl <;> first | exact acc_step_setup4_false hi ha hpc h | exact acc_step_setup4_true hi ha hpc h
  case initFail => exact acc_step_initFail hi ha hpc h
  case reload1 => exact acc_step_reload1 hi ha hpc h
  case reload2 => exact acc_step_reload2 hi ha hpc h
  case shut1 => exact acc_step_shut1 hi ha hpc h
  case shut2 => exact acc_step_shut2 hi ha hpc h
  case shut3 => exact acc_step_shut3 hi ha hpc h
  case shut4 => exact acc_step_shut4 hi ha hpc h

theorem acc_fire (v : Variant) {s s' : S} {l : Label} (hi : Inv s.core) (ha : Acc s) (h : fire v s l = some s') : Acc s' := by
  cases l with
  | step ok => exact acc_step hi ha h
  | call =>
    obtain ⟨m, hm, r1, r2, r3, r4, r5, r6, r7, r8⟩ := ha
    simp only [fire, S.emit, Option.some.injEq] at h
    by_cases hh : v.honours s.st = true <;> simp only [hh, if_true, if_false, Bool.false_eq_true] at h <;> subst h <;>
      simp only [Acc] <;> simp [Mon.run_append_ok hm, Mon.run, Mon.step, exists_eq_left'] <;>
      (constructor <;> first | assumption | simp_all [S.core])
  | close =>
    obtain ⟨m, hm, hr⟩ := ha
    simp only [fire] at h
    split at h
    · simp only [Option.some.injEq] at h; subst h; exact ⟨m, hm, hr⟩
    · cases h
  | cancel =>
    obtain ⟨m, hm, hr⟩ := ha
    simp only [fire, Option.some.injEq] at h; subst h; exact ⟨m, hm, hr⟩
  | fatal =>
    obtain ⟨m, hm, hr⟩ := ha
    simp only [fire, Option.some.injEq] at h; subst h; exact ⟨m, hm, hr⟩
  | giveUp =>
    obtain ⟨m, hm, hr⟩ := ha
    simp only [fire] at h
    split at h
    · simp only [Option.some.injEq] at h; subst h; exact ⟨m, hm, hr⟩
    · cases h
  | post e =>
    obtain ⟨m, hm, hr⟩ := ha
    cases e <;> simp only [fire, postEv, Option.some.injEq, reduceCtorEq] at h <;> first | (subst h; exact ⟨m, hm, hr⟩) | cases h
  | begin =>
    obtain ⟨m, hm, r1, r2, r3, r4, r5, r6, r7, r8⟩ := ha
    simp only [fire] at h
    split at h
    · rename_i hpc
      simp only [Option.some.injEq] at h; subst h
      refine ⟨m, hm, ?_⟩
      constructor <;> simp_all [S.core, Pc.hasStarted]
    · cases h
  | pick e =>
    obtain ⟨m, hm, r1, r2, r3, r4, r5, r6, r7, r8⟩ := ha
    simp only [fire] at h
    split at h
    · rename_i hpc
      cases e <;> simp only [pickEv, leave, S.emit] at h <;> split at h <;> simp only [Option.some.injEq, reduceCtorEq] at h
      all_goals subst h
      all_goals simp only [Acc]
      all_goals simp [Mon.run_append_ok hm, hm, Mon.run, Mon.step, exists_eq_left']
      all_goals (constructor <;> simp_all [S.core, Pc.hasStarted])
    · cases h

theorem acc_runFrom (v : Variant) {s s' : S} (ls : List Label) (hi : Inv s.core) (ha : Acc s) (h : runFrom v s ls = some s') : Acc s' := by
  induction ls generalizing s with
  | nil => simp only [runFrom, Option.some.injEq] at h; subst h; exact ha
  | cons l ls ih =>
    simp only [runFrom] at h
    cases hf : fire v s l with
    | none => simp [hf] at h
    | some s1 => simp only [hf, Option.bind_some] at h; exact ih (inv_fire v hi hf) (acc_fire v hi ha hf) h

theorem acc_reachable {v : Variant} {s : S} (h : Reachable v s) : Acc s := by
  obtain ⟨ls, h⟩ := h
  exact acc_runFrom v ls inv_init acc_init h

end OtelVerif.C20
