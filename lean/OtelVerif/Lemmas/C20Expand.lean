import OtelVerif.Lemmas.C20Bridge
/-!
# C20 — service.Start / service.Shutdown as many steps (component level), on logs

The LTS treats a service as one unit (component index 0). `expand n k` replaces each service-level event by what the
real service does at component level, with C10's facts as the shape: a service of generation `g` has `n g` components,
`service.New` creates them, `service.Start` starts them one after the other and stops at the first failure (`k g ≤ n g`
of them started), `service.Shutdown` shuts every one of the `n g` down exactly once. Accepted service-level logs stay
accepted after expansion.
-/
namespace OtelVerif.C20
set_option linter.unusedSimpArgs false

def TEv.idx0 : TEv → Bool
  | .created _ c | .started _ c | .shut _ c => c == 0
  | _ => true

def expand (n k : Nat → Nat) : TEv → List TEv
  | .created g _ => (List.range (n g)).map (TEv.created g)
  | .started g _ => (List.range (k g)).map (TEv.started g)
  | .shut g _ => (List.range (n g)).map (TEv.shut g)
  | e => [e]

theorem run_created_list (M : Mon) (g : Nat) (l : List Nat) (h : ∀ p ∈ M.live, p.1 = g) :
    Mon.run M (l.map (TEv.created g)) = .ok M := by
  induction l with
  | nil => rfl
  | cons c cs ih =>
    have hf : M.live.find? (fun p => p.1 ≠ g) = none := by
      simp only [List.find?_eq_none, decide_eq_true_eq, Decidable.not_not]; exact h
    simp only [List.map_cons, Mon.run_cons, Mon.step, hf]
    exact ih

theorem run_started_list (M : Mon) (g : Nat) (l : List Nat) (h : ∀ p ∈ M.live, p.1 = g) :
    Mon.run M (l.map (TEv.started g)) = .ok { M with live := (l.reverse.map (fun c => (g, c))) ++ M.live } := by
  induction l generalizing M with
  | nil => rfl
  | cons c cs ih =>
    have hf : M.live.find? (fun p => p.1 ≠ g) = none := by
      simp only [List.find?_eq_none, decide_eq_true_eq, Decidable.not_not]; exact h
    simp only [List.map_cons, Mon.run_cons, Mon.step, hf]
    rw [ih]
    · simp
    · intro p hp
      simp only [List.mem_cons] at hp
      rcases hp with rfl | hp
      · rfl
      · exact h p hp

theorem run_shut_list (M : Mon) (g : Nat) (l : List Nat) (hnd : l.Nodup) (h : ∀ c ∈ l, (g, c) ∉ M.shutOnce) :
    Mon.run M (l.map (TEv.shut g)) =
      .ok { M with live := M.live.filter (fun p => !(p.1 == g && l.contains p.2)),
                   shutOnce := (l.reverse.map (fun c => (g, c))) ++ M.shutOnce } := by
  induction l generalizing M with
  | nil =>
    cases M; simp only [List.map_nil, Mon.run, List.reverse_nil, List.nil_append, Except.ok.injEq]
    congr 1
    exact (List.filter_eq_self.2 (by simp)).symm
  | cons c cs ih =>
    have hc : (g, c) ∉ M.shutOnce := h c (by simp)
    simp only [List.map_cons, Mon.run_cons, Mon.step, hc, if_false]
    have hnd' := (List.nodup_cons.1 hnd)
    rw [ih _ hnd'.2]
    · simp only [Except.ok.injEq]
      congr 1
      · simp only [List.filter_filter]
        apply List.filter_congr
        intro p _
        rcases p with ⟨a, b⟩
        by_cases h1 : a = g <;> by_cases h2 : b = c <;> simp [h1, h2]
      · simp
    · intro c' hc' hmem
      simp only [List.mem_cons, Prod.mk.injEq] at hmem
      rcases hmem with ⟨_, rfl⟩ | hmem
      · exact hnd'.1 hc'
      · exact h c' (by simp [hc']) hmem

/-- simulation relation: the component-level monitor state `M` refines the service-level one `m` -/
structure Exp (k : Nat → Nat) (m M : Mon) : Prop where
  live : ∀ p ∈ M.live, (p.1, 0) ∈ m.live ∧ p.2 < k p.1
  shut : ∀ p ∈ M.shutOnce, (p.1, 0) ∈ m.shutOnce
  prov : M.prov = m.prov
  st : M.st = m.st
  ever : M.everRunning = m.everRunning
  req : M.req = m.req
  reqSt : M.reqSt = m.reqSt
  stopped : M.stopped = m.stopped
  ret : M.ret = m.ret

theorem exp_step {n k : Nat → Nat} (hk : ∀ g, k g ≤ n g) {m m' M : Mon} {e : TEv} (he : e.idx0 = true) (hE : Exp k m M)
    (h : m.step e = .ok m') : ∃ M', Mon.run M (expand n k e) = .ok M' ∧ Exp k m' M' := by
  obtain ⟨k1, k2, k3, k4, k5, k6, k7, k8, k9⟩ := Mon.step_ok h
  obtain ⟨e1, e2, e3, e4, e5, e6, e7, e8, e9⟩ := hE
  cases e with
  | created g c =>
    obtain ⟨hm, hg⟩ := k1 g c rfl
    have hM : ∀ p ∈ M.live, p.1 = g := fun p hp => hg (p.1, 0) (e1 p hp).1
    exact ⟨M, run_created_list M g _ hM, by subst hm; exact ⟨e1, e2, e3, e4, e5, e6, e7, e8, e9⟩⟩
  | started g c =>
    obtain ⟨hm, hg⟩ := k2 g c rfl
    have hc : c = 0 := by simpa [TEv.idx0] using he
    subst hc
    have hM : ∀ p ∈ M.live, p.1 = g := fun p hp => hg (p.1, 0) (e1 p hp).1
    refine ⟨_, run_started_list M g _ hM, ?_⟩
    subst hm
    refine ⟨?_, e2, e3, e4, e5, e6, e7, e8, e9⟩
    intro p hp
    simp only [List.mem_append, List.mem_map, List.mem_reverse, List.mem_range] at hp
    rcases hp with ⟨c, hc, rfl⟩ | hp
    · exact ⟨by simp, hc⟩
    · exact ⟨List.mem_cons_of_mem _ (e1 p hp).1, (e1 p hp).2⟩
  | shut g c =>
    obtain ⟨hnot, hm⟩ := k3 g c rfl
    have hc : c = 0 := by simpa [TEv.idx0] using he
    subst hc
    have hM : ∀ c ∈ List.range (n g), (g, c) ∉ M.shutOnce := fun c _ hmem => hnot (e2 _ hmem)
    refine ⟨_, run_shut_list M g _ List.nodup_range hM, ?_⟩
    subst hm
    refine ⟨?_, ?_, e3, e4, e5, e6, e7, e8, e9⟩
    · intro p hp
      simp only [List.mem_filter, Bool.not_eq_true', Bool.and_eq_false_iff, beq_eq_false_iff_ne, ne_eq,
        List.contains_eq_mem, List.mem_range, decide_eq_false_iff_not, Nat.not_lt] at hp
      obtain ⟨hp1, hp2⟩ := hp
      obtain ⟨q1, q2⟩ := e1 p hp1
      refine ⟨?_, q2⟩
      simp only [List.mem_filter, decide_eq_true_eq, ne_eq, Prod.mk.injEq, not_and]
      refine ⟨q1, ?_⟩
      intro hpg
      rcases hp2 with hp2 | hp2
      · exact absurd hpg hp2
      · have := hk g; rw [hpg] at q2; omega
    · intro p hp
      simp only [List.mem_append, List.mem_map, List.mem_reverse, List.mem_range] at hp
      rcases hp with ⟨c, _, rfl⟩ | hp
      · simp
      · exact List.mem_cons_of_mem _ (e2 p hp)
  | prov =>
    obtain ⟨hz, hm⟩ := k4 rfl
    refine ⟨{ M with prov := 1 }, ?_, ?_⟩
    · simp [expand, Mon.run, Mon.step, e3, hz]
    · subst hm; exact ⟨e1, e2, rfl, e4, e5, e6, e7, e8, e9⟩
  | st c =>
    have hm := k5 c rfl
    refine ⟨{ M with st := c, everRunning := M.everRunning || c == .running }, ?_, ?_⟩
    · simp [expand, Mon.run, Mon.step]
    · subst hm; exact ⟨e1, e2, e3, rfl, by simp [e5], e6, e7, e8, e9⟩
  | call =>
    have hm := k6 rfl
    refine ⟨{ M with req := M.req || M.everRunning, reqSt := if M.req then M.reqSt else M.st }, ?_, ?_⟩
    · simp [expand, Mon.run, Mon.step]
    · subst hm; exact ⟨e1, e2, e3, e4, e5, by simp [e5, e6], by simp [e4, e6, e7], e8, e9⟩
  | stop =>
    have hm := k7 rfl
    refine ⟨{ M with stopped := true }, ?_, ?_⟩
    · simp [expand, Mon.run, Mon.step]
    · subst hm; exact ⟨e1, e2, e3, e4, e5, e6, e7, rfl, e9⟩
  | quiet =>
    obtain ⟨hm, hq⟩ := k8 rfl
    refine ⟨M, ?_, ?_⟩
    · by_cases hreq : m.req = true
      · have h2 := hq hreq
        cases hret : m.ret with
        | none => simp [hret] at h2
        | some b => simp [expand, Mon.run, Mon.step, e6, e9, hreq, hret]
      · simp [expand, Mon.run, Mon.step, e6, hreq]
    · subst hm; exact ⟨e1, e2, e3, e4, e5, e6, e7, e8, e9⟩
  | ret ok =>
    obtain ⟨hm, hl, hs⟩ := k9 ok rfl
    have hML : M.live = [] := by
      cases hML : M.live with
      | nil => rfl
      | cons p ps => have := (e1 p (by simp [hML])).1; rw [hl] at this; cases this
    refine ⟨{ M with ret := some ok }, ?_, ?_⟩
    · simp only [expand, Mon.run_cons, Mon.step, hML]
      by_cases hst : m.stopped = true
      · obtain ⟨s1, s2⟩ := hs hst
        simp [e8, e4, e3, hst, s1, s2, Mon.run]
      · simp [e8, hst, Mon.run]
    · subst hm; exact ⟨e1, e2, e3, e4, e5, e6, e7, e8, rfl⟩

theorem exp_run {n k : Nat → Nat} (hk : ∀ g, k g ≤ n g) {m m' M : Mon} {t : List TEv} (h0 : ∀ e ∈ t, e.idx0 = true)
    (hE : Exp k m M) (h : Mon.run m t = .ok m') : ∃ M', Mon.run M (t.flatMap (expand n k)) = .ok M' ∧ Exp k m' M' := by
  induction t generalizing m M with
  | nil => simp only [Mon.run, Except.ok.injEq] at h; subst h; exact ⟨M, rfl, hE⟩
  | cons e es ih =>
    simp only [Mon.run_cons] at h
    cases hs : m.step e with
    | error b => simp [hs] at h
    | ok m1 =>
      simp only [hs] at h
      obtain ⟨M1, hr1, hE1⟩ := exp_step hk (h0 e (by simp)) hE hs
      obtain ⟨M2, hr2, hE2⟩ := ih (fun e he => h0 e (by simp [he])) hE1 h
      refine ⟨M2, ?_, hE2⟩
      simp only [List.flatMap_cons]
      rw [Mon.run_append_ok hr1]; exact hr2

/-- the model only ever logs service-level events (component index 0) -/
def LogIdx0 (s : S) : Prop := ∀ e ∈ s.log, e.idx0 = true

theorem logIdx0_fire (v : Variant) {s s' : S} {l : Label} (hl : LogIdx0 s) (h : fire v s l = some s') : LogIdx0 s' := by
  unfold LogIdx0 at *
  cases l with
  | call =>
    simp only [fire, S.emit, Option.some.injEq] at h
    by_cases hh : v.honours s.st = true <;> simp only [hh, if_true, if_false, Bool.false_eq_true] at h <;> subst h <;>
      (intro e he; simp only [List.mem_append, List.mem_singleton] at he; rcases he with he | rfl <;> first | exact hl e he | rfl)
  | close =>
    simp only [fire] at h
    split at h
    · simp only [Option.some.injEq] at h; subst h; exact hl
    · cases h
  | cancel => simp only [fire, Option.some.injEq] at h; subst h; exact hl
  | fatal => simp only [fire, Option.some.injEq] at h; subst h; exact hl
  | giveUp =>
    simp only [fire] at h
    split at h
    · simp only [Option.some.injEq] at h; subst h; exact hl
    · cases h
  | post e => cases e <;> simp only [fire, postEv, Option.some.injEq, reduceCtorEq] at h <;> first | (subst h; exact hl) | cases h
  | begin =>
    simp only [fire] at h
    split at h
    · simp only [Option.some.injEq] at h; subst h; exact hl
    · cases h
  | pick e =>
    simp only [fire] at h
    split at h
    · cases e <;> simp only [pickEv, leave, S.emit] at h <;> split at h <;> simp only [Option.some.injEq, reduceCtorEq] at h
      all_goals subst h
      all_goals (intro e he; simp only [List.mem_append, List.mem_singleton] at he)
      all_goals (first | exact hl e he | (rcases he with he | rfl <;> first | exact hl e he | rfl))
    · cases h
  | step ok =>
    simp only [fire] at h
    cases hpc : s.pc <;> cases ok <;>
      simp only [stepRun, hpc, setSt, S.emit, Option.some.injEq, if_true, if_false, Bool.false_eq_true, reduceCtorEq] at h
    all_goals subst h
    all_goals (try (rename_i rl; cases rl))
    all_goals (cases hsvc : s.svc)
    all_goals simp only [failSetup, svcShutdown, S.emit, hsvc, if_true, if_false, Bool.false_eq_true]
    all_goals (try simp only [List.forall_mem_append, List.forall_mem_singleton, List.forall_mem_cons, List.not_mem_nil,
      false_implies, implies_true, and_true])
    all_goals (first
      | exact hl | exact ⟨hl, rfl⟩ | exact ⟨⟨hl, rfl⟩, rfl⟩ | exact ⟨⟨⟨hl, rfl⟩, rfl⟩, rfl⟩
      | exact ⟨hl, rfl, rfl⟩ | exact ⟨hl, rfl, rfl, rfl⟩ | exact ⟨⟨hl, rfl⟩, rfl, rfl⟩)

theorem logIdx0_reachable {v : Variant} {s : S} (h : Reachable v s) : LogIdx0 s := by
  obtain ⟨ls, h⟩ := h
  suffices ∀ (ls : List Label) (s0 : S), LogIdx0 s0 → runFrom v s0 ls = some s → LogIdx0 s from
    this ls init (by simp [LogIdx0, init]) h
  intro ls
  induction ls with
  | nil => intro s0 hl h; simp only [runFrom, Option.some.injEq] at h; subst h; exact hl
  | cons l ls ih =>
    intro s0 hl h
    simp only [runFrom] at h
    cases hf : fire v s0 l with
    | none => simp [hf] at h
    | some s1 => simp only [hf, Option.bind_some] at h; exact ih s1 (logIdx0_fire v hl hf) h

end OtelVerif.C20
