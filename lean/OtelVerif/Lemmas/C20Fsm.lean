import OtelVerif.Model.C20
import OtelVerif.Lemmas.C20
import OtelVerif.Gen.CollectorFsm
/-!
# C20 — the documented lifecycle FSM, and the model's statements read back as source facts

`fsmEdge` is the lifecycle the property text documents (Starting → Running → Closing → Closed), plus the two
edges the code adds: Closing → Starting (a reload brings the next configuration up) and Starting → Closed (the
initial configuration could not be brought up), plus the initial no-op Starting → Starting (`NewCollector` stored
Starting, `setupConfigurationComponents` stores it again).

The second half derives, FROM THE MODEL (by executing `stepRun` / `pickEv` on probe states and reading the event
log), the facts that the translator `collectorfsm` extracts from `otelcol/collector.go`: the `setCollectorState`
sites, the order of the calls that matter in each lifecycle function, the outcome of each select branch. Props/C20
states their equality with the regenerated data — a source change re-checks it.
-/
namespace OtelVerif.C20

/-- the strictly documented chain (what the property text spells out) -/
def fsmDocumented : CState → CState → Bool
  | .starting, .running | .running, .closing | .closing, .closed => true
  | _, _ => false

theorem fsmDocumented_sub (a b : CState) (h : fsmDocumented a b = true) : fsmEdge a b = true := by
  cases a <;> cases b <;> simp_all [fsmDocumented, fsmEdge]

/-- labels other than `step` never write the state word -/
theorem st_external (v : Variant) {s s' : S} {l : Label} (h : fire v s l = some s') (hl : ∀ ok, l ≠ .step ok) :
    s'.st = s.st := by
  cases l with
  | call =>
    simp only [fire, S.emit, Option.some.injEq] at h
    subst h; by_cases hh : v.honours s.st = true <;> simp [hh]
  | close =>
    simp only [fire] at h
    split at h
    · simp only [Option.some.injEq] at h; subst h; rfl
    · cases h
  | post e => cases e <;> simp only [fire, postEv, Option.some.injEq] at h <;> first | (subst h; rfl) | cases h
  | cancel => simp only [fire, Option.some.injEq] at h; subst h; rfl
  | fatal => simp only [fire, Option.some.injEq] at h; subst h; rfl
  | giveUp =>
    simp only [fire] at h
    split at h
    · simp only [Option.some.injEq] at h; subst h; rfl
    · cases h
  | begin =>
    simp only [fire] at h
    split at h
    · simp only [Option.some.injEq] at h; subst h; rfl
    · cases h
  | step ok => exact absurd rfl (hl ok)
  | pick e =>
    simp only [fire] at h
    split at h
    · cases e <;> simp only [pickEv, leave, S.emit] at h <;> split at h <;>
        first | (simp only [Option.some.injEq] at h; subst h; rfl) | cases h
    · cases h

/-- what a statement of the Run goroutine does to the state word, given the state word the invariant says it finds -/
theorem st_step {s s' : S} {ok : Bool} (hi : Inv s.core) (h : stepRun s ok = some s') :
    s'.st = s.st ∨ fsmEdge s.st s'.st = true := by
  have hst := hi.stAt
  simp only [S.core] at hst
  cases hpc : s.pc with
  | idle => simp [stepRun, hpc] at h
  | select => simp [stepRun, hpc] at h
  | done => simp [stepRun, hpc] at h
  | setup1 rl =>
    have h0 := hst
    cases rl <;> cases ok <;> simp only [stepRun, hpc, setSt, S.emit, if_true, if_false, Bool.false_eq_true, Option.some.injEq, reduceCtorEq] at h
    · have := h0 .starting (by simp [hpc, Pc.stateAt]); subst h; right; simp [this, fsmEdge]
    · have := h0 .closing (by simp [hpc, Pc.stateAt]); subst h; right; simp [this, fsmEdge]
  | setup2 rl =>
    cases ok <;> simp only [stepRun, hpc, failSetup, S.emit, if_true, if_false, Bool.false_eq_true, Option.some.injEq] at h
    · cases rl <;> simp only [if_true, if_false, Bool.false_eq_true] at h <;> (subst h; left; rfl)
    · subst h; left; rfl
  | setup3 rl =>
    cases ok <;> simp only [stepRun, hpc, S.emit, if_true, if_false, Bool.false_eq_true, Option.some.injEq] at h <;> (subst h; left; rfl)
  | setupSd rl =>
    simp only [stepRun, hpc, failSetup, svcShutdown, S.emit, Option.some.injEq] at h
    cases hs : s.svc <;> cases rl <;> simp only [hs, if_true, if_false, Bool.false_eq_true] at h <;> (subst h; left; rfl)
  | setup4 rl =>
    cases ok <;> simp only [stepRun, hpc, setSt, S.emit, if_true, if_false, Bool.false_eq_true, Option.some.injEq, reduceCtorEq] at h
    have := hst .starting (by simp [hpc, Pc.stateAt]); subst h; right; simp [this, fsmEdge]
  | initFail =>
    cases ok <;> simp only [stepRun, hpc, setSt, S.emit, if_true, if_false, Bool.false_eq_true, Option.some.injEq, reduceCtorEq] at h
    have := hst .starting (by simp [hpc, Pc.stateAt]); subst h; right; simp [this, fsmEdge]
  | reload1 =>
    cases ok <;> simp only [stepRun, hpc, setSt, S.emit, if_true, if_false, Bool.false_eq_true, Option.some.injEq, reduceCtorEq] at h
    have := hst .running (by simp [hpc, Pc.stateAt]); subst h; right; simp [this, fsmEdge]
  | reload2 =>
    simp only [stepRun, hpc, svcShutdown, S.emit] at h
    cases hs : s.svc <;> cases ok <;> simp only [hs, if_true, if_false, Bool.false_eq_true, Option.some.injEq] at h <;> (subst h; left; rfl)
  | shut1 =>
    cases ok <;> simp only [stepRun, hpc, setSt, S.emit, if_true, if_false, Bool.false_eq_true, Option.some.injEq, reduceCtorEq] at h
    have := hst .running (by simp [hpc, Pc.stateAt]); subst h; right; simp [this, fsmEdge]
  | shut2 =>
    simp only [stepRun, hpc, S.emit, Option.some.injEq] at h; subst h; left; rfl
  | shut3 =>
    simp only [stepRun, hpc, svcShutdown, S.emit, Option.some.injEq] at h
    cases hs : s.svc <;> simp only [hs] at h <;> (subst h; left; rfl)
  | shut4 =>
    cases ok <;> simp only [stepRun, hpc, setSt, S.emit, if_true, if_false, Bool.false_eq_true, Option.some.injEq, reduceCtorEq] at h
    have := hst .closing (by simp [hpc, Pc.stateAt]); subst h; right; simp [this, fsmEdge]

/-- the sequence of values of the state word along a run from `s` (one entry per label) -/
def stHist (v : Variant) (s : S) : List Label → List CState
  | [] => []
  | l :: ls => match fire v s l with
    | some s' => s'.st :: stHist v s' ls
    | none => []

/-- `path a cs`: starting from `a`, each next value is the same or an FSM edge away -/
def fsmPath : CState → List CState → Prop
  | _, [] => True
  | a, b :: cs => (b = a ∨ fsmEdge a b = true) ∧ fsmPath b cs

theorem stHist_path (v : Variant) (ls : List Label) : ∀ (s : S), Inv s.core → fsmPath s.st (stHist v s ls) := by
  induction ls with
  | nil => intro s _; simp [stHist, fsmPath]
  | cons l ls ih =>
    intro s hi
    simp only [stHist]
    cases hf : fire v s l with
    | none => simp [fsmPath]
    | some s' =>
      simp only [fsmPath]
      refine ⟨?_, ih s' (inv_fire v hi hf)⟩
      by_cases hl : ∃ ok, l = .step ok
      · obtain ⟨ok, rfl⟩ := hl
        simp only [fire] at hf
        exact st_step hi hf
      · left; exact st_external v hf (fun ok h => hl ⟨ok, h⟩)


/-- every consecutive pair is an edge of the FSM (no stuttering) -/
def fsmStrict : List CState → Prop
  | a :: b :: cs => fsmEdge a b = true ∧ fsmStrict (b :: cs)
  | _ => True

/-- the executable check the driver applies to the implementation's sampled state word (`tr st …`: one sample per CHANGE) is
sound: in an accepted sample sequence every consecutive pair is an edge of the FSM -/
theorem fsmTraceBad_none : ∀ (l : List CState), fsmTraceBad l = none → fsmStrict l
  | [] => fun _ => trivial
  | [_] => fun _ => trivial
  | a :: b :: cs => fun h => by
    simp only [fsmTraceBad] at h
    split at h
    · rename_i he
      exact ⟨he, fsmTraceBad_none (b :: cs) h⟩
    · cases h

theorem fsmStrict_path : ∀ (a : CState) (cs : List CState), fsmStrict (a :: cs) → fsmPath a cs
  | _, [] => fun _ => trivial
  | _, b :: cs => fun h => ⟨Or.inr h.1, fsmStrict_path b cs h.2⟩


/-! ## a request that passed the guard stays pending until the channel is closed, and the channel stays closed -/

set_option linter.unusedSimpArgs false in
/-- "the channel is closed, or a caller is about to close it" is stable under every label of every goroutine -/
theorem pending_fire (v : Variant) {s s' : S} {l : Label} (h : fire v s l = some s')
    (hp : s.chanClosed = true ∨ s.closers > 0) : s'.chanClosed = true ∨ s'.closers > 0 := by
  cases l with
  | call =>
    simp only [fire, S.emit, Option.some.injEq] at h
    by_cases hh : v.honours s.st = true <;> simp only [hh, if_true, if_false, Bool.false_eq_true] at h <;> subst h
    · rcases hp with hp | hp
      · exact Or.inl hp
      · exact Or.inr (Nat.succ_pos _)
    · exact hp
  | close =>
    simp only [fire] at h
    split at h
    · simp only [Option.some.injEq] at h; subst h; exact Or.inl rfl
    · cases h
  | cancel => simp only [fire, Option.some.injEq] at h; subst h; exact hp
  | fatal => simp only [fire, Option.some.injEq] at h; subst h; exact hp
  | giveUp =>
    simp only [fire] at h
    split at h
    · simp only [Option.some.injEq] at h; subst h; exact hp
    · cases h
  | post e => cases e <;> simp only [fire, postEv, Option.some.injEq, reduceCtorEq] at h <;> first | (subst h; exact hp) | cases h
  | begin =>
    simp only [fire] at h
    split at h
    · simp only [Option.some.injEq] at h; subst h; exact hp
    · cases h
  | pick e =>
    simp only [fire] at h
    split at h
    · cases e <;> simp only [pickEv, leave, S.emit] at h
      all_goals (split at h <;> simp only [Option.some.injEq, reduceCtorEq] at h)
      all_goals subst h
      all_goals exact hp
    · cases h
  | step ok =>
    simp only [fire] at h
    cases hpc : s.pc <;> cases ok <;>
      simp only [stepRun, hpc, setSt, S.emit, Option.some.injEq, if_true, if_false, Bool.false_eq_true, reduceCtorEq] at h
    all_goals subst h
    all_goals (try (rename_i rl; cases rl))
    all_goals (cases hsvc : s.svc)
    all_goals simp only [failSetup, svcShutdown, S.emit, hsvc, if_true, if_false, Bool.false_eq_true]
    all_goals exact hp

theorem pending_runFrom (v : Variant) (ls : List Label) : ∀ {s s' : S}, runFrom v s ls = some s' →
    (s.chanClosed = true ∨ s.closers > 0) → (s'.chanClosed = true ∨ s'.closers > 0) := by
  induction ls with
  | nil => intro s s' h hp; simp only [runFrom, Option.some.injEq] at h; subst h; exact hp
  | cons l ls ih =>
    intro s s' h hp
    simp only [runFrom] at h
    cases hf : fire v s l with
    | none => simp [hf] at h
    | some s1 => simp only [hf, Option.bind_some] at h; exact ih h (pending_fire v hf hp)

/-! ## the model's statements read back as source-level facts -/

/-- a probe state at program point `pc` (a service exists, so `service.Shutdown` does not nil-deref) -/
def probe (pc : Pc) : S := { pc := pc, svc := some 1, gen := 1, live := [1], created := [1] }

/-- source-level name of what an event of the log records -/
def TEv.callName : TEv → Option String
  | .st c => some ("set:" ++ c.name)
  | .created _ _ => some "service.New"
  | .started _ _ => some "service.Start"
  | .shut _ _ => some "service.Shutdown"
  | .prov => some "provider.Shutdown"
  | _ => none

/-- the Go function a program point belongs to -/
def Pc.func : Pc → String
  | .setup1 _ | .setup2 _ | .setup3 _ | .setupSd _ | .setup4 _ => "Collector.setupConfigurationComponents"
  | .reload1 | .reload2 => "Collector.reloadConfiguration"
  | .shut1 | .shut2 | .shut3 | .shut4 => "Collector.shutdown"
  | .initFail | .idle | .select | .done => "Collector.Run"

/-- what the statement at `pc` does, as source-level call names (read from the log it appends), followed by
`call:setup` when control passes into `setupConfigurationComponents` -/
def Pc.effects (pc : Pc) (ok : Bool) : List String :=
  match stepRun (probe pc) ok with
  | none => []
  | some s' =>
    s'.log.filterMap TEv.callName ++
      (match pc, s'.pc with
       | .setup1 _, _ => []
       | _, .setup1 _ => ["call:setup"]
       | _, _ => [])

/-- the straight path of a function: follow `ok = true` from `pc` while the program point stays in the same function -/
def straight (fuel : Nat) (pc : Pc) : List String :=
  match fuel with
  | 0 => []
  | n + 1 =>
    match stepRun (probe pc) true with
    | none => []
    | some s' => pc.effects true ++ (if s'.pc.func = pc.func ∧ s'.pc ≠ .done then straight n s'.pc else [])

/-- the same program point on the initial path (the `rl` flag only records whether a reload is in progress) -/
def Pc.unrl : Pc → Pc
  | .setup1 _ => .setup1 false | .setup2 _ => .setup2 false | .setup3 _ => .setup3 false
  | .setupSd _ => .setupSd false | .setup4 _ => .setup4 false | pc => pc

/-- program points in source order, one per statement (the `rl` flag does not change the code executed) -/
def sourcePcs : List Pc :=
  [.setup1 false, .setup2 false, .setup3 false, .setupSd false, .setup4 false, .reload1, .reload2, .initFail,
   .shut1, .shut2, .shut3, .shut4]

/-- the `setCollectorState` sites of the MODEL: (function, state) for every program point whose statement stores a state -/
def modelSetSites : List (String × String) :=
  sourcePcs.flatMap (fun pc => ((stepRun (probe pc) true).map (·.log)).getD [] |>.filterMap
    (fun e => match e with | .st c => some (pc.func, c.name) | _ => none))

/-- labels of the regenerated call sequences that the model has a counterpart for -/
def modelled (x : Nat × String) : Bool :=
  ["set:Starting", "set:Running", "set:Closing", "set:Closed", "service.New", "service.Start", "service.Shutdown",
   "provider.Shutdown", "call:setup"].contains x.2

def genSeq (f : String) (depth : Nat) : List String :=
  ((Gen.CollectorFsm.callSeq.lookup f).getD []).filter (fun x => x.1 == depth && modelled x) |>.map (·.2)

/-- outcome of the select receiving `e`, read from the model -/
def pickOutcome (e : Ev) : String :=
  let ready : S := { pc := .select, nWatchOk := 1, nWatchErr := 1, nHup := 1, nTerm := 1, nAsync := 1, chanClosed := true, ctxDone := true }
  match pickEv ready e with
  | some s' => if s'.pc = .reload1 then "reload" else if s'.pc = .shut1 then "stop" else "?"
  | none => "?"

/-- the model's select table in the translator's format: channel, distinguishing condition, outcome if it holds / not -/
def modelBranches : List (String × String × String × String) :=
  [("col.configProvider.Watch()", "err != nil", pickOutcome .watchErr, pickOutcome .watchOk),
   ("col.asyncErrorChannel", "", pickOutcome .async, pickOutcome .async),
   ("col.signalsChannel", "s != syscall.SIGHUP", pickOutcome .term, pickOutcome .hup),
   ("col.shutdownChan", "", pickOutcome .shutdown, pickOutcome .shutdown),
   ("ctx.Done()", "", pickOutcome .ctx, pickOutcome .ctx)]

/-- `return col.shutdown(context.Background())` and `break LOOP; return col.shutdown(ctx)` are the same program point -/
def normOutcome (s : String) : String := if s == "stop-background-ctx" then "stop" else s

def genBranches : List (String × String × String × String) :=
  Gen.CollectorFsm.selectBranches.map (fun b => (b.1, b.2.1, normOutcome b.2.2.1, normOutcome b.2.2.2))

def CState.ofName : String → Option CState
  | "Starting" => some .starting | "Running" => some .running | "Closing" => some .closing | "Closed" => some .closed | _ => none

end OtelVerif.C20
