import OtelVerif.Model.C20
import OtelVerif.Lemmas.C20
import OtelVerif.Lemmas.C20Fsm
/-!
# C20 — every event log the model can produce is accepted by the driver's lifecycle oracle `fsmLogBad`

(the completeness direction of `prop fsm` relative to the model: the oracle cannot alarm on behaviour the LTS allows)
-/
namespace OtelVerif.C20
set_option linter.unusedSimpArgs false

def stTr (log : List TEv) : List CState := log.filterMap TEv.stOf

@[simp] theorem stOf_st (c : CState) : TEv.stOf (.st c) = some c := rfl
@[simp] theorem stOf_created (g c : Nat) : TEv.stOf (.created g c) = none := rfl
@[simp] theorem stOf_started (g c : Nat) : TEv.stOf (.started g c) = none := rfl
@[simp] theorem stOf_shut (g c : Nat) : TEv.stOf (.shut g c) = none := rfl
@[simp] theorem stOf_prov : TEv.stOf .prov = none := rfl
@[simp] theorem stOf_call : TEv.stOf .call = none := rfl
@[simp] theorem stOf_stop : TEv.stOf .stop = none := rfl
@[simp] theorem stOf_quiet : TEv.stOf .quiet = none := rfl
@[simp] theorem stOf_ret (b : Bool) : TEv.stOf (.ret b) = none := rfl

/-- each label appends at most one state sample to the log, and that sample is the new state word -/
theorem stTr_fire (v : Variant) {s s' : S} {l : Label} (h : fire v s l = some s') :
    (stTr s'.log = stTr s.log ∧ s'.st = s.st) ∨ stTr s'.log = stTr s.log ++ [s'.st] := by
  cases l with
  | call =>
    simp only [fire, S.emit, Option.some.injEq] at h
    by_cases hh : v.honours s.st = true <;> simp only [hh, if_true, if_false, Bool.false_eq_true] at h <;> subst h <;>
      exact Or.inl ⟨by simp [stTr, List.filterMap_append], rfl⟩
  | close =>
    simp only [fire] at h
    split at h
    · simp only [Option.some.injEq] at h; subst h; exact Or.inl ⟨rfl, rfl⟩
    · cases h
  | cancel => simp only [fire, Option.some.injEq] at h; subst h; exact Or.inl ⟨rfl, rfl⟩
  | fatal => simp only [fire, Option.some.injEq] at h; subst h; exact Or.inl ⟨rfl, rfl⟩
  | giveUp =>
    simp only [fire] at h
    split at h
    · simp only [Option.some.injEq] at h; subst h; exact Or.inl ⟨rfl, rfl⟩
    · cases h
  | post e => cases e <;> simp only [fire, postEv, Option.some.injEq, reduceCtorEq] at h <;> first | (subst h; exact Or.inl ⟨rfl, rfl⟩) | cases h
  | begin =>
    simp only [fire] at h
    split at h
    · simp only [Option.some.injEq] at h; subst h; exact Or.inl ⟨rfl, rfl⟩
    · cases h
  | pick e =>
    simp only [fire] at h
    split at h
    · cases e <;> simp only [pickEv, leave, S.emit] at h
      all_goals (split at h <;> simp only [Option.some.injEq, reduceCtorEq] at h)
      all_goals subst h
      all_goals exact Or.inl ⟨by simp [stTr, List.filterMap_append], rfl⟩
    · cases h
  | step ok =>
    simp only [fire] at h
    cases hpc : s.pc <;> cases ok <;>
      simp only [stepRun, hpc, setSt, S.emit, Option.some.injEq, if_true, if_false, Bool.false_eq_true, reduceCtorEq] at h
    all_goals subst h
    all_goals (try (rename_i rl; cases rl))
    all_goals (cases hsvc : s.svc)
    all_goals try simp only [failSetup, svcShutdown, S.emit, hsvc, if_true, if_false, Bool.false_eq_true]
    all_goals first
      | (left; simp [stTr, List.filterMap_append]; done)
      | (right; simp [stTr, List.filterMap_append]; done)

/-- consecutive samples are equal or an edge of the FSM -/
def loose : List CState → Prop
  | a :: b :: r => (b = a ∨ fsmEdge a b = true) ∧ loose (b :: r)
  | _ => True

theorem loose_snoc : ∀ (l : List CState) (a c : CState), loose l → l.getLast? = some a → (c = a ∨ fsmEdge a c = true) →
    loose (l ++ [c])
  | [], _, _, _, h, _ => by simp at h
  | [x], a, c, _, h, hc => by
    simp at h; subst h; exact ⟨hc, trivial⟩
  | x :: y :: r, a, c, hl, h, hc => by
    have h' : (y :: r).getLast? = some a := by simpa [List.getLast?_cons_cons] using h
    exact ⟨hl.1, loose_snoc (y :: r) a c hl.2 h' hc⟩

theorem dedupAdj_head : ∀ (a : CState) (r : List CState), ∃ t, dedupAdj (a :: r) = a :: t
  | a, [] => ⟨[], rfl⟩
  | a, b :: r => by
    simp only [dedupAdj]
    split
    · rename_i hab; subst hab; exact dedupAdj_head a r
    · exact ⟨_, rfl⟩

/-- a loose path, with repeated consecutive samples dropped, is accepted by the strict check -/
theorem loose_dedup_ok : ∀ (l : List CState), loose l → fsmTraceBad (dedupAdj l) = none
  | [], _ => rfl
  | [_], _ => rfl
  | a :: b :: r, h => by
    have ih := loose_dedup_ok (b :: r) h.2
    simp only [dedupAdj]
    split
    · exact ih
    · rename_i hab
      obtain ⟨t, ht⟩ := dedupAdj_head b r
      rw [ht] at ih ⊢
      have he : fsmEdge a b = true := by
        rcases h.1 with h1 | h1
        · exact absurd h1.symm hab
        · exact h1
      simp only [fsmTraceBad, he, if_true]
      exact ih

structure LogInv (s : S) : Prop where
  last : (CState.starting :: stTr s.log).getLast? = some s.st
  path : loose (CState.starting :: stTr s.log)

theorem logInv_init : LogInv init := ⟨by simp [init, stTr], by simp [init, stTr, loose]⟩

theorem logInv_fire (v : Variant) {s s' : S} {l : Label} (hi : Inv s.core) (hl : LogInv s) (h : fire v s l = some s') :
    LogInv s' := by
  have hedge : s'.st = s.st ∨ fsmEdge s.st s'.st = true := by
    by_cases hs : ∃ ok, l = .step ok
    · obtain ⟨ok, rfl⟩ := hs
      simp only [fire] at h
      exact st_step hi h
    · left; exact st_external v h (fun ok he => hs ⟨ok, he⟩)
  rcases stTr_fire v h with ⟨h1, h2⟩ | h1
  · exact ⟨by rw [h1, h2]; exact hl.last, by rw [h1]; exact hl.path⟩
  · refine ⟨?_, ?_⟩
    · rw [h1, ← List.cons_append, List.getLast?_append]; simp
    · rw [h1, ← List.cons_append]
      exact loose_snoc _ s.st s'.st hl.path hl.last hedge

theorem logInv_runFrom (v : Variant) (ls : List Label) : ∀ {s s' : S}, Inv s.core → LogInv s → runFrom v s ls = some s' → LogInv s' := by
  induction ls with
  | nil => intro s s' _ hl h; simp only [runFrom, Option.some.injEq] at h; subst h; exact hl
  | cons l ls ih =>
    intro s s' hi hl h
    simp only [runFrom] at h
    cases hf : fire v s l with
    | none => simp [hf] at h
    | some s1 => simp only [hf, Option.bind_some] at h; exact ih (inv_fire v hi hf) (logInv_fire v hi hl hf) h

end OtelVerif.C20
