import OtelVerif.Model.C20
import OtelVerif.Lemmas.C20
/-!
# C20 — liveness of the Run goroutine under an explicit fairness hypothesis: a ranking function

`mu s` bounds the number of statements / select receives the Run goroutine can still execute from `s` if no further
reload trigger arrives: every `step`/`pick` label decreases it by at least one, labels of other goroutines leave it alone,
except a reload trigger (`post hup`, `post watchOk`: +8, one more trip round the reload) and the call of Run (`begin`: +5).
Hence in ANY history (any interleaving) the Run goroutine executes at most `mu init + 8·(reload triggers) + 5` labels:
with finitely many external events it comes to a state in which none of its labels is enabled — and that state is "Run has
returned", or "in the select with nothing ready".
-/
namespace OtelVerif.C20
set_option linter.unusedSimpArgs false

/-- labels executed by the goroutine that runs `Run` -/
def Label.isRun : Label → Bool
  | .step _ | .pick _ => true
  | _ => false

/-- statements left until the Run goroutine is back in the select / has returned, by program point -/
def Pc.rank : Pc → Nat
  | .idle | .done | .select => 0
  | .reload1 => 7 | .reload2 => 6
  | .setup1 _ => 5 | .setup2 _ => 4 | .setup3 _ => 3 | .setupSd _ => 2 | .setup4 _ => 1
  | .initFail => 1
  | .shut1 => 4 | .shut2 => 3 | .shut3 => 2 | .shut4 => 1

/-- the ranking function: 8 per pending reload trigger, 5 while the final shutdown has not begun, plus the rank of the pc -/
def mu (s : S) : Nat :=
  8 * (s.nHup + s.nWatchOk) + (if s.pc.inShut = true ∨ s.pc = .done then 0 else 5) + s.pc.rank

def Label.runCost (l : Label) : Nat := if l.isRun then 1 else 0

/-- what a label of another goroutine can add to the work of the Run goroutine -/
def Label.gain : Label → Nat
  | .post .hup | .post .watchOk => 8
  | .begin => 5
  | _ => 0

theorem mu_fire (v : Variant) {s s' : S} {l : Label} (h : fire v s l = some s') : mu s' + l.runCost ≤ mu s + l.gain := by
  cases l with
  | call =>
    simp only [fire, S.emit, Option.some.injEq] at h
    by_cases hh : v.honours s.st = true <;> simp only [hh, if_true, if_false, Bool.false_eq_true] at h <;> subst h <;>
      simp [mu, Label.runCost, Label.isRun, Label.gain]
  | close =>
    simp only [fire] at h
    split at h
    · simp only [Option.some.injEq] at h; subst h; simp [mu, closeStep, Label.runCost, Label.isRun, Label.gain]; exact Nat.le_refl _
    · cases h
  | cancel => simp only [fire, Option.some.injEq] at h; subst h; simp [mu, Label.runCost, Label.isRun, Label.gain]
  | fatal => simp only [fire, Option.some.injEq] at h; subst h; simp [mu, Label.runCost, Label.isRun, Label.gain]
  | giveUp =>
    simp only [fire] at h
    split at h
    · simp only [Option.some.injEq] at h; subst h; simp [mu, Label.runCost, Label.isRun, Label.gain]
    · cases h
  | post e =>
    cases e <;> simp only [fire, postEv, Option.some.injEq, reduceCtorEq] at h <;> first | cases h | subst h
    all_goals simp only [mu, Label.runCost, Label.isRun, Label.gain, if_false, Bool.false_eq_true]
    all_goals omega
  | begin =>
    simp only [fire] at h
    split at h
    · rename_i hpc
      simp only [Option.some.injEq] at h; subst h
      simp [mu, hpc, Pc.rank, Pc.inShut, Label.runCost, Label.isRun, Label.gain]
    · cases h
  | pick e =>
    simp only [fire] at h
    split at h
    · rename_i hpc
      cases e <;> simp only [pickEv, leave, S.emit] at h
      all_goals (split at h <;> simp only [Option.some.injEq, reduceCtorEq] at h)
      all_goals subst h
      all_goals simp only [mu, hpc, Pc.rank, Pc.inShut, Label.runCost, Label.isRun, Label.gain, if_true, if_false,
        Bool.false_eq_true, reduceCtorEq, or_self, or_false, false_or, true_or, or_true]
      all_goals omega
    · cases h
  | step ok =>
    simp only [fire] at h
    cases hpc : s.pc <;> cases ok <;>
      simp only [stepRun, hpc, setSt, S.emit, Option.some.injEq, if_true, if_false, Bool.false_eq_true, reduceCtorEq] at h
    all_goals subst h
    all_goals (try (rename_i rl; cases rl))
    all_goals (cases hsvc : s.svc)
    all_goals try simp only [failSetup, svcShutdown, S.emit, hsvc, if_true, if_false, Bool.false_eq_true]
    all_goals simp only [mu, hpc, Pc.rank, Pc.inShut, Label.runCost, Label.isRun, Label.gain, if_true, if_false,
        Bool.false_eq_true, reduceCtorEq, or_self, or_false, false_or, true_or, or_true]
    all_goals omega

def runCount (ls : List Label) : Nat := (ls.map Label.runCost).sum
def gainSum (ls : List Label) : Nat := (ls.map Label.gain).sum

theorem mu_runFrom (v : Variant) (ls : List Label) : ∀ {s s' : S}, runFrom v s ls = some s' →
    mu s' + runCount ls ≤ mu s + gainSum ls := by
  induction ls with
  | nil => intro s s' h; simp only [runFrom, Option.some.injEq] at h; subst h; simp [runCount, gainSum]
  | cons l ls ih =>
    intro s s' h
    simp only [runFrom] at h
    cases hf : fire v s l with
    | none => simp [hf] at h
    | some s1 =>
      simp only [hf, Option.bind_some] at h
      have h1 := mu_fire v hf
      have h2 := ih h
      simp only [runCount, gainSum, List.map_cons, List.sum_cons] at h2 ⊢
      omega

/-- the Run goroutine has no enabled label -/
def RunMaximal (v : Variant) (s : S) : Prop := ∀ l, l.isRun = true → fire v s l = none

/-- a state in which the Run goroutine cannot move is: not started, returned, or in the select with nothing ready -/
theorem runMaximal_rest (v : Variant) (s : S) (hm : RunMaximal v s) :
    s.pc = .idle ∨ s.pc = .done ∨ (s.pc = .select ∧ s.anyReady = false) := by
  cases hpc : s.pc with
  | idle => simp
  | done => simp
  | select =>
    right; right
    refine ⟨rfl, ?_⟩
    cases ha : s.anyReady with
    | false => rfl
    | true =>
      exfalso
      have pk : ∀ e, pickEv s e = none := fun e => by
        have := hm (.pick e) rfl
        simpa [fire, hpc] using this
      have h1 := pk .watchOk; have h2 := pk .watchErr; have h3 := pk .hup; have h4 := pk .term
      have h5 := pk .async; have h6 := pk .shutdown; have h7 := pk .ctx
      simp only [pickEv] at h1 h2 h3 h4 h5 h6 h7
      simp only [S.anyReady, Bool.or_eq_true, decide_eq_true_eq] at ha
      simp at h1 h2 h3 h4 h5 h6 h7
      obtain ⟨h5a, h5b, h5c⟩ := h5
      simp [h1, h2, h3, h4, h5a, h5b, h5c, h6, h7] at ha
  | _ =>
    exfalso
    have h1 := hm (.step true) rfl
    have h2 := hm (.step false) rfl
    simp [fire, stepRun, hpc, failSetup] at h1 h2

/-- a closed shutdown channel, a cancelled context and "Run has been called" are never undone -/
theorem sticky_fire (v : Variant) {s s' : S} {l : Label} (h : fire v s l = some s') :
    (s.chanClosed = true → s'.chanClosed = true) ∧ (s.ctxDone = true → s'.ctxDone = true) ∧ (s.pc ≠ .idle → s'.pc ≠ .idle) := by
  cases l with
  | call =>
    simp only [fire, S.emit, Option.some.injEq] at h
    by_cases hh : v.honours s.st = true <;> simp only [hh, if_true, if_false, Bool.false_eq_true] at h <;> subst h <;>
      exact ⟨id, id, id⟩
  | close =>
    simp only [fire] at h
    split at h
    · simp only [Option.some.injEq] at h; subst h; exact ⟨fun _ => rfl, id, id⟩
    · cases h
  | cancel => simp only [fire, Option.some.injEq] at h; subst h; exact ⟨id, fun _ => rfl, id⟩
  | fatal => simp only [fire, Option.some.injEq] at h; subst h; exact ⟨id, id, id⟩
  | giveUp =>
    simp only [fire] at h
    split at h
    · simp only [Option.some.injEq] at h; subst h; exact ⟨id, id, id⟩
    · cases h
  | post e => cases e <;> simp only [fire, postEv, Option.some.injEq, reduceCtorEq] at h <;> first | (subst h; exact ⟨id, id, id⟩) | cases h
  | begin =>
    simp only [fire] at h
    split at h
    · simp only [Option.some.injEq] at h; subst h; exact ⟨id, id, fun _ => by simp⟩
    · cases h
  | pick e =>
    simp only [fire] at h
    split at h
    · cases e <;> simp only [pickEv, leave, S.emit] at h
      all_goals (split at h <;> simp only [Option.some.injEq, reduceCtorEq] at h)
      all_goals subst h
      all_goals exact ⟨id, id, fun _ => by simp⟩
    · cases h
  | step ok =>
    simp only [fire] at h
    cases hpc : s.pc <;> cases ok <;>
      simp only [stepRun, hpc, setSt, S.emit, Option.some.injEq, if_true, if_false, Bool.false_eq_true, reduceCtorEq] at h
    all_goals subst h
    all_goals (try (rename_i rl; cases rl))
    all_goals (cases hsvc : s.svc)
    all_goals try simp only [failSetup, svcShutdown, S.emit, hsvc, if_true, if_false, Bool.false_eq_true]
    all_goals exact ⟨id, id, fun _ => by simp⟩

theorem sticky_runFrom (v : Variant) (ls : List Label) : ∀ {s s' : S}, runFrom v s ls = some s' →
    (s.chanClosed = true → s'.chanClosed = true) ∧ (s.ctxDone = true → s'.ctxDone = true) ∧ (s.pc ≠ .idle → s'.pc ≠ .idle) := by
  induction ls with
  | nil => intro s s' h; simp only [runFrom, Option.some.injEq] at h; subst h; exact ⟨id, id, id⟩
  | cons l ls ih =>
    intro s s' h
    simp only [runFrom] at h
    cases hf : fire v s l with
    | none => simp [hf] at h
    | some s1 =>
      simp only [hf, Option.bind_some] at h
      obtain ⟨a1, a2, a3⟩ := sticky_fire v hf
      obtain ⟨b1, b2, b3⟩ := ih h
      exact ⟨fun x => b1 (a1 x), fun x => b2 (a2 x), fun x => b3 (a3 x)⟩

/-- from every state there is a continuation made of Run-goroutine labels only, no longer than `mu s`, after which the Run
goroutine cannot move: the fairness hypothesis `RunMaximal` of the liveness theorems can always be met -/
theorem fair_completion (v : Variant) : ∀ (n : Nat) (s : S), mu s ≤ n →
    ∃ ls s', (∀ l ∈ ls, l.isRun = true) ∧ ls.length ≤ mu s ∧ runFrom v s ls = some s' ∧ RunMaximal v s' := by
  intro n
  induction n with
  | zero =>
    intro s hn
    refine ⟨[], s, by simp, by simp, rfl, ?_⟩
    intro l hl
    cases hf : fire v s l with
    | none => rfl
    | some s1 =>
      have := mu_fire v hf
      simp only [Label.runCost, hl, if_true] at this
      have hg : l.gain = 0 := by cases l <;> simp_all [Label.isRun, Label.gain]
      omega
  | succ n ih =>
    intro s hn
    by_cases hm : RunMaximal v s
    · exact ⟨[], s, by simp, by simp, rfl, hm⟩
    · simp only [RunMaximal, Classical.not_forall] at hm
      obtain ⟨l, hl, hne⟩ := hm
      cases hf : fire v s l with
      | none => exact absurd hf hne
      | some s1 =>
        have h1 := mu_fire v hf
        simp only [Label.runCost, hl, if_true] at h1
        have hg : l.gain = 0 := by cases l <;> simp_all [Label.isRun, Label.gain]
        obtain ⟨ls, s', a1, a2, a3, a4⟩ := ih s1 (by omega)
        refine ⟨l :: ls, s', ?_, ?_, ?_, a4⟩
        · intro x hx
          simp only [List.mem_cons] at hx
          rcases hx with rfl | hx
          · exact hl
          · exact a1 x hx
        · simp only [List.length_cons]; omega
        · simp [runFrom, hf, a3]


end OtelVerif.C20
