import OtelVerif.Model.C20
/-! # C20 — lemmas about the trace monitor `Mon` (soundness of `check`) -/
namespace OtelVerif.C20
set_option linter.unusedSimpArgs false

theorem Mon.run_cons (m : Mon) (e : TEv) (es : List TEv) :
    Mon.run m (e :: es) = match m.step e with | .ok m' => m'.run es | .error b => .error b := rfl

/-- decomposition of an accepted trace at an event -/
theorem Mon.run_split {m m' : Mon} {a b : List TEv} {e : TEv} (h : Mon.run m (a ++ e :: b) = .ok m') :
    ∃ ma me, Mon.run m a = .ok ma ∧ ma.step e = .ok me ∧ Mon.run me b = .ok m' := by
  induction a generalizing m with
  | nil =>
    simp only [List.nil_append, Mon.run_cons] at h
    cases hs : m.step e with
    | error b => simp [hs] at h
    | ok me => simp only [hs] at h; exact ⟨m, me, rfl, hs, h⟩
  | cons x xs ih =>
    simp only [List.cons_append, Mon.run_cons] at h
    cases hs : m.step x with
    | error b => simp [hs] at h
    | ok mx =>
      simp only [hs] at h
      obtain ⟨ma, me, h1, h2, h3⟩ := ih h
      exact ⟨ma, me, by simp only [Mon.run_cons, hs]; exact h1, h2, h3⟩

/-- effect of one accepted event on the monitor, field by field -/
theorem Mon.step_ok {m m' : Mon} {e : TEv} (h : m.step e = .ok m') :
    (∀ g c, e = .created g c → m' = m ∧ ∀ p ∈ m.live, p.1 = g) ∧
    (∀ g c, e = .started g c → m' = { m with live := (g, c) :: m.live } ∧ ∀ p ∈ m.live, p.1 = g) ∧
    (∀ g c, e = .shut g c → (g, c) ∉ m.shutOnce ∧ m' = { m with live := m.live.filter (· ≠ (g, c)), shutOnce := (g, c) :: m.shutOnce }) ∧
    (e = .prov → m.prov = 0 ∧ m' = { m with prov := 1 }) ∧
    (∀ s, e = .st s → m' = { m with st := s, everRunning := m.everRunning || s == .running }) ∧
    (e = .call → m' = { m with req := m.req || m.everRunning, reqSt := if m.req then m.reqSt else m.st }) ∧
    (e = .stop → m' = { m with stopped := true }) ∧
    (e = .quiet → m' = m ∧ (m.req = true → m.ret.isSome = true)) ∧
    (∀ ok, e = .ret ok → m' = { m with ret := some ok } ∧ m.live = [] ∧ (m.stopped = true → m.st = .closed ∧ m.prov = 1)) := by
  cases e with
  | created g c =>
    simp only [Mon.step] at h
    split at h
    · cases h
    · rename_i hf
      simp only [Except.ok.injEq] at h
      simp only [List.find?_eq_none, decide_eq_true_eq, Decidable.not_not] at hf
      simp [h.symm]; intro a b hab; exact hf (a, b) hab
  | started g c =>
    simp only [Mon.step] at h
    split at h
    · cases h
    · rename_i hf
      simp only [Except.ok.injEq] at h
      simp only [List.find?_eq_none, decide_eq_true_eq, Decidable.not_not] at hf
      simp [h.symm]; intro a b hab; exact hf (a, b) hab
  | shut g c =>
    simp only [Mon.step] at h
    split at h
    · cases h
    · rename_i hf; simp only [Except.ok.injEq] at h; simp [h.symm, hf]
  | prov =>
    simp only [Mon.step] at h
    split at h
    · cases h
    · rename_i hf; simp only [Except.ok.injEq] at h
      have : m.prov = 0 := by omega
      simp [h.symm, this]
  | st s => simp only [Mon.step, Except.ok.injEq] at h; simp [h.symm]
  | call => simp only [Mon.step, Except.ok.injEq] at h; simp [h.symm]
  | stop => simp only [Mon.step, Except.ok.injEq] at h; simp [h.symm]
  | quiet =>
    simp only [Mon.step] at h
    split at h
    · cases h
    · rename_i hf; simp only [Except.ok.injEq] at h
      simp only [Bool.and_eq_true, not_and, Bool.not_eq_true, Option.isNone_eq_false_iff] at hf
      simp [h.symm]; intro hr; simpa using hf hr
  | ret ok =>
    simp only [Mon.step] at h
    split at h
    · cases h
    · rename_i hl
      split at h
      · cases h
      · rename_i h1
        split at h
        · cases h
        · rename_i h2
          simp only [Except.ok.injEq] at h
          simp only [Bool.and_eq_true, not_and, Bool.not_eq_true, bne_eq_false_iff_eq, beq_iff_eq, bne_iff_ne, ne_eq, Decidable.not_not] at h1 h2
          simp [h.symm, hl]; intro hs; exact ⟨by simpa using h1 hs, by simpa using h2 hs⟩

/-- a component that is live stays live as long as its Shutdown does not occur -/
theorem Mon.live_keeps {m m' : Mon} {p : List TEv} {x : Nat × Nat} (h : Mon.run m p = .ok m') (hx : x ∈ m.live)
    (hn : TEv.shut x.1 x.2 ∉ p) : x ∈ m'.live := by
  induction p generalizing m with
  | nil => simp only [Mon.run, Except.ok.injEq] at h; subst h; exact hx
  | cons e es ih =>
    simp only [Mon.run_cons] at h
    cases hs : m.step e with
    | error b => simp [hs] at h
    | ok m1 =>
      simp only [hs] at h
      simp only [List.mem_cons, not_or] at hn
      refine ih h ?_ hn.2
      obtain ⟨k1, k2, k3, k4, k5, k6, k7, k8, k9⟩ := Mon.step_ok hs
      cases e with
      | created g c => rw [(k1 g c rfl).1]; exact hx
      | started g c => rw [(k2 g c rfl).1]; exact List.mem_cons_of_mem _ hx
      | shut g c =>
        rw [(k3 g c rfl).2]
        simp only [List.mem_filter, decide_eq_true_eq]
        refine ⟨hx, ?_⟩
        intro hxe; apply hn.1; rw [hxe]
      | prov => rw [(k4 rfl).2]; exact hx
      | st s => rw [k5 s rfl]; exact hx
      | call => rw [k6 rfl]; exact hx
      | stop => rw [k7 rfl]; exact hx
      | quiet => rw [(k8 rfl).1]; exact hx
      | ret ok => rw [(k9 ok rfl).1]; exact hx

/-- a started component whose Shutdown has not occurred since is live -/
theorem Mon.started_live {m m' : Mon} {p1 p2 : List TEv} {g c : Nat} (h : Mon.run m (p1 ++ .started g c :: p2) = .ok m')
    (hn : TEv.shut g c ∉ p2) : (g, c) ∈ m'.live := by
  obtain ⟨ma, me, _, h2, h3⟩ := Mon.run_split h
  have := ((Mon.step_ok h2).2.1 g c rfl).1
  exact Mon.live_keeps h3 (by rw [this]; exact List.mem_cons_self) hn

def ind (b : Prop) [Decidable b] : Nat := if b then 1 else 0

/-- bookkeeping of completed Shutdowns: occurrences in the trace + "already seen before" = "seen after" ∈ {0,1} -/
theorem Mon.shut_count {m m' : Mon} {p : List TEv} (h : Mon.run m p = .ok m') (g c : Nat) :
    p.count (.shut g c) + ind ((g, c) ∈ m.shutOnce) = ind ((g, c) ∈ m'.shutOnce) := by
  induction p generalizing m with
  | nil => simp only [Mon.run, Except.ok.injEq] at h; subst h; simp
  | cons e es ih =>
    simp only [Mon.run_cons] at h
    cases hs : m.step e with
    | error b => simp [hs] at h
    | ok m1 =>
      simp only [hs] at h
      have := ih h
      obtain ⟨k1, k2, k3, k4, k5, k6, k7, k8, k9⟩ := Mon.step_ok hs
      rw [← this]
      cases e with
      | shut g' c' =>
        obtain ⟨hnot, hm⟩ := k3 g' c' rfl
        rw [hm]
        by_cases heq : (g', c') = (g, c)
        · simp only [Prod.mk.injEq] at heq; obtain ⟨rfl, rfl⟩ := heq
          simp [ind, hnot]
        · have hne : TEv.shut g' c' ≠ TEv.shut g c := by intro hh; injection hh with a b; exact heq (by rw [a, b])
          have hne' : ¬ ((g, c) = (g', c')) := fun hh => heq hh.symm
          simp [List.count_cons, hne, ind, hne']
      | created g' c' => rw [(k1 g' c' rfl).1]; simp [List.count_cons]
      | started g' c' => rw [(k2 g' c' rfl).1]; simp [List.count_cons]
      | prov => rw [(k4 rfl).2]; simp [List.count_cons]
      | st s => rw [k5 s rfl]; simp [List.count_cons]
      | call => rw [k6 rfl]; simp [List.count_cons]
      | stop => rw [k7 rfl]; simp [List.count_cons]
      | quiet => rw [(k8 rfl).1]; simp [List.count_cons]
      | ret ok => rw [(k9 ok rfl).1]; simp [List.count_cons]

theorem Mon.prov_count {m m' : Mon} {p : List TEv} (h : Mon.run m p = .ok m') (h0 : m.prov ≤ 1) :
    m'.prov = m.prov + p.count .prov ∧ m'.prov ≤ 1 := by
  induction p generalizing m with
  | nil => simp only [Mon.run, Except.ok.injEq] at h; subst h; simp [h0]
  | cons e es ih =>
    simp only [Mon.run_cons] at h
    cases hs : m.step e with
    | error b => simp [hs] at h
    | ok m1 =>
      simp only [hs] at h
      obtain ⟨k1, k2, k3, k4, k5, k6, k7, k8, k9⟩ := Mon.step_ok hs
      cases e with
      | prov =>
        obtain ⟨hz, hm⟩ := k4 rfl
        have := ih h (by rw [hm]; exact Nat.le_refl 1)
        rw [hm] at this; simp only [List.count_cons_self] at this ⊢; omega
      | created g' c' => have := ih h (by rw [(k1 g' c' rfl).1]; exact h0); rw [(k1 g' c' rfl).1] at this; simpa [List.count_cons] using this
      | started g' c' => have := ih h (by rw [(k2 g' c' rfl).1]; exact h0); rw [(k2 g' c' rfl).1] at this; simpa [List.count_cons] using this
      | shut g' c' => have := ih h (by rw [(k3 g' c' rfl).2]; exact h0); rw [(k3 g' c' rfl).2] at this; simpa [List.count_cons] using this
      | st s => have := ih h (by rw [k5 s rfl]; exact h0); rw [k5 s rfl] at this; simpa [List.count_cons] using this
      | call => have := ih h (by rw [k6 rfl]; exact h0); rw [k6 rfl] at this; simpa [List.count_cons] using this
      | stop => have := ih h (by rw [k7 rfl]; exact h0); rw [k7 rfl] at this; simpa [List.count_cons] using this
      | quiet => have := ih h (by rw [(k8 rfl).1]; exact h0); rw [(k8 rfl).1] at this; simpa [List.count_cons] using this
      | ret ok => have := ih h (by rw [(k9 ok rfl).1]; exact h0); rw [(k9 ok rfl).1] at this; simpa [List.count_cons] using this

/-- the last sampled state of a trace -/
def lastSt (c : CState) : List TEv → CState
  | [] => c
  | .st s :: es => lastSt s es
  | _ :: es => lastSt c es

theorem lastSt_cons (c : CState) (e : TEv) (es : List TEv) : lastSt c (e :: es) = lastSt (lastSt c [e]) es := by
  cases e <;> simp [lastSt]

theorem Mon.flags {m m' : Mon} {p : List TEv} (h : Mon.run m p = .ok m') :
    (m.stopped = true → m'.stopped = true) ∧ (TEv.stop ∈ p → m'.stopped = true) ∧
    (m.everRunning = true → m'.everRunning = true) ∧ (m.req = true → m'.req = true) ∧
    (m'.ret.isSome = true → m.ret.isSome = true ∨ ∃ ok, TEv.ret ok ∈ p) ∧
    m'.st = lastSt m.st p := by
  induction p generalizing m with
  | nil => simp only [Mon.run, Except.ok.injEq] at h; subst h; simp [lastSt]
  | cons e es ih =>
    simp only [Mon.run_cons] at h
    cases hs : m.step e with
    | error b => simp [hs] at h
    | ok m1 =>
      simp only [hs] at h
      obtain ⟨i1, i2, i3, i4, i5, i6⟩ := ih h
      have gen : (m.stopped = true → m1.stopped = true) → (e = .stop → m1.stopped = true) →
          (m.everRunning = true → m1.everRunning = true) → (m.req = true → m1.req = true) →
          (m1.ret.isSome = true → m.ret.isSome = true ∨ ∃ ok, e = .ret ok) → (m1.st = lastSt m.st [e]) →
          ((m.stopped = true → m'.stopped = true) ∧ (TEv.stop ∈ e :: es → m'.stopped = true) ∧
           (m.everRunning = true → m'.everRunning = true) ∧ (m.req = true → m'.req = true) ∧
           (m'.ret.isSome = true → m.ret.isSome = true ∨ ∃ ok, TEv.ret ok ∈ e :: es) ∧
           m'.st = lastSt m.st (e :: es)) := by
        intro g1 g2 g3 g4 g5 g6
        refine ⟨fun hh => i1 (g1 hh), ?_, fun hh => i3 (g3 hh), fun hh => i4 (g4 hh), ?_, ?_⟩
        · intro hh
          rcases List.mem_cons.1 hh with hh | hh
          · exact i1 (g2 hh.symm)
          · exact i2 hh
        · intro hh
          rcases i5 hh with h1 | ⟨ok, h1⟩
          · rcases g5 h1 with h2 | ⟨ok, h2⟩
            · exact Or.inl h2
            · exact Or.inr ⟨ok, by rw [h2]; exact List.mem_cons_self⟩
          · exact Or.inr ⟨ok, List.mem_cons_of_mem _ h1⟩
        · rw [lastSt_cons, ← g6]; exact i6
      obtain ⟨k1, k2, k3, k4, k5, k6, k7, k8, k9⟩ := Mon.step_ok hs
      cases e with
      | created g' c' => have hm := (k1 g' c' rfl).1; apply gen <;> (rw [hm]; simp [lastSt])
      | started g' c' => have hm := (k2 g' c' rfl).1; apply gen <;> (rw [hm]; simp [lastSt])
      | shut g' c' => have hm := (k3 g' c' rfl).2; apply gen <;> (rw [hm]; simp [lastSt])
      | prov => have hm := (k4 rfl).2; apply gen <;> (rw [hm]; simp [lastSt])
      | st s => have hm := k5 s rfl; apply gen <;> (rw [hm]; simp [lastSt]) <;> (intro hh; simp [hh])
      | call => have hm := k6 rfl; apply gen <;> (rw [hm]; simp [lastSt]) <;> (intro hh; simp [hh])
      | stop => have hm := k7 rfl; apply gen <;> (rw [hm]; simp [lastSt])
      | quiet => have hm := (k8 rfl).1; apply gen <;> (rw [hm]; simp [lastSt])
      | ret ok => have hm := (k9 ok rfl).1; apply gen <;> (rw [hm]; simp [lastSt])

theorem check_ok {t : List TEv} (h : check t = true) : ∃ m, Mon.run {} t = .ok m := by
  simp only [check] at h
  cases hr : Mon.run {} t with
  | ok m => exact ⟨m, rfl⟩
  | error b => simp [hr] at h


end OtelVerif.C20
