import OtelVerif.Model.C20
/-! # C20 — `callerPanic` is only ever set by an unprotected second `close` -/
namespace OtelVerif.C20
set_option linter.unusedSimpArgs false

theorem callerPanic_fire (v : Variant) {s s' : S} {l : Label} (hrec : Gen.ShutdownShape.closeRecovered = true)
    (h : fire v s l = some s') : s'.callerPanic = s.callerPanic := by
  cases l with
  | call =>
    simp only [fire, S.emit, Option.some.injEq] at h
    by_cases hh : v.honours s.st = true <;> simp only [hh, if_true, if_false, Bool.false_eq_true] at h <;> subst h <;> rfl
  | close =>
    simp only [fire] at h
    split at h
    · simp only [Option.some.injEq] at h; subst h; simp [closeStep, hrec]
    · cases h
  | cancel => simp only [fire, Option.some.injEq] at h; subst h; rfl
  | fatal => simp only [fire, Option.some.injEq] at h; subst h; rfl
  | giveUp =>
    simp only [fire] at h
    split at h
    · simp only [Option.some.injEq] at h; subst h; rfl
    · cases h
  | post e => cases e <;> simp only [fire, postEv, Option.some.injEq, reduceCtorEq] at h <;> first | (subst h; rfl) | cases h
  | begin =>
    simp only [fire] at h
    split at h
    · simp only [Option.some.injEq] at h; subst h; rfl
    · cases h
  | pick e =>
    simp only [fire] at h
    split at h
    · cases e <;> simp only [pickEv, leave, S.emit] at h <;> split at h <;> simp only [Option.some.injEq, reduceCtorEq] at h
      all_goals subst h
      all_goals rfl
    · cases h
  | step ok =>
    simp only [fire] at h
    cases hpc : s.pc <;> cases ok <;>
      simp only [stepRun, hpc, setSt, S.emit, Option.some.injEq, if_true, if_false, Bool.false_eq_true, reduceCtorEq] at h
    all_goals subst h
    all_goals (try (rename_i rl; cases rl))
    all_goals (cases hsvc : s.svc)
    all_goals simp only [failSetup, svcShutdown, S.emit, hsvc, if_true, if_false, Bool.false_eq_true]

theorem callerPanic_runFrom (v : Variant) (hrec : Gen.ShutdownShape.closeRecovered = true) {s s' : S} (ls : List Label)
    (h : runFrom v s ls = some s') : s'.callerPanic = s.callerPanic := by
  induction ls generalizing s with
  | nil => simp only [runFrom, Option.some.injEq] at h; subst h; rfl
  | cons l ls ih =>
    simp only [runFrom] at h
    cases hf : fire v s l with
    | none => simp [hf] at h
    | some s1 => simp only [hf, Option.bind_some] at h; rw [ih h, callerPanic_fire v hrec hf]

/-- the watcher is a lossless queue: an outstanding error notification can only go away by being received -/
theorem watchErr_fire (v : Variant) {s s' : S} {l : Label} (hl : l ≠ .pick .watchErr)
    (h : fire v s l = some s') : s.nWatchErr ≤ s'.nWatchErr := by
  cases l with
  | call =>
    simp only [fire, S.emit, Option.some.injEq] at h
    by_cases hh : v.honours s.st = true <;> simp only [hh, if_true, if_false, Bool.false_eq_true] at h <;> subst h <;> exact Nat.le_refl _
  | close =>
    simp only [fire] at h
    split at h
    · simp only [Option.some.injEq] at h; subst h; exact Nat.le_refl _
    · cases h
  | cancel => simp only [fire, Option.some.injEq] at h; subst h; exact Nat.le_refl _
  | fatal => simp only [fire, Option.some.injEq] at h; subst h; exact Nat.le_refl _
  | giveUp =>
    simp only [fire] at h
    split at h
    · simp only [Option.some.injEq] at h; subst h; exact Nat.le_refl _
    · cases h
  | post e =>
    cases e <;> simp only [fire, postEv, Option.some.injEq, reduceCtorEq] at h <;>
      first | (subst h; first | exact Nat.le_refl _ | exact Nat.le_succ _) | cases h
  | begin =>
    simp only [fire] at h
    split at h
    · simp only [Option.some.injEq] at h; subst h; exact Nat.le_refl _
    · cases h
  | pick e =>
    simp only [fire] at h
    split at h
    · cases e <;> simp only [pickEv, leave, S.emit] at h <;> first | exact absurd rfl hl | skip
      all_goals (split at h <;> simp only [Option.some.injEq, reduceCtorEq] at h)
      all_goals subst h
      all_goals exact Nat.le_refl _
    · cases h
  | step ok =>
    simp only [fire] at h
    cases hpc : s.pc <;> cases ok <;>
      simp only [stepRun, hpc, setSt, S.emit, Option.some.injEq, if_true, if_false, Bool.false_eq_true, reduceCtorEq] at h
    all_goals subst h
    all_goals (try (rename_i rl; cases rl))
    all_goals (cases hsvc : s.svc)
    all_goals simp only [failSetup, svcShutdown, S.emit, hsvc, if_true, if_false, Bool.false_eq_true]
    all_goals exact Nat.le_refl _

end OtelVerif.C20
