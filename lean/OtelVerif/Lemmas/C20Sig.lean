import OtelVerif.Model.C20Sig
import OtelVerif.Lemmas.C20
/-! # C20 — invariants of the signal layer (`Model/C20Sig.lean`) and its refinement to the run-loop LTS -/
namespace OtelVerif.C20
set_option linter.unusedSimpArgs false

/-- labels that touch the signal counters of the core model -/
def Label.isSig : Label → Bool
  | .post .hup | .post .term | .pick .hup | .pick .term => true
  | _ => false

/-- every other label leaves `nHup`, `nTerm` alone -/
theorem sigs_fire (v : Variant) {s s' : S} {l : Label} (hl : l.isSig = false) (h : fire v s l = some s') :
    s'.nHup = s.nHup ∧ s'.nTerm = s.nTerm := by
  cases l with
  | call =>
    simp only [fire, S.emit, Option.some.injEq] at h
    by_cases hh : v.honours s.st = true <;> simp only [hh, if_true, if_false, Bool.false_eq_true] at h <;> subst h <;> exact ⟨rfl, rfl⟩
  | close =>
    simp only [fire] at h
    split at h
    · simp only [Option.some.injEq] at h; subst h; exact ⟨rfl, rfl⟩
    · cases h
  | cancel => simp only [fire, Option.some.injEq] at h; subst h; exact ⟨rfl, rfl⟩
  | fatal => simp only [fire, Option.some.injEq] at h; subst h; exact ⟨rfl, rfl⟩
  | giveUp =>
    simp only [fire] at h
    split at h
    · simp only [Option.some.injEq] at h; subst h; exact ⟨rfl, rfl⟩
    · cases h
  | post e =>
    cases e <;> simp only [Label.isSig, Bool.true_eq_false] at hl <;>
      simp only [fire, postEv, Option.some.injEq, reduceCtorEq] at h <;> first | (subst h; exact ⟨rfl, rfl⟩) | cases h
  | begin =>
    simp only [fire] at h
    split at h
    · simp only [Option.some.injEq] at h; subst h; exact ⟨rfl, rfl⟩
    · cases h
  | pick e =>
    simp only [fire] at h
    split at h
    · cases e <;> simp only [Label.isSig, Bool.true_eq_false] at hl <;> simp only [pickEv, leave, S.emit] at h
      all_goals (split at h <;> simp only [Option.some.injEq, reduceCtorEq] at h)
      all_goals subst h
      all_goals exact ⟨rfl, rfl⟩
    · cases h
  | step ok =>
    simp only [fire] at h
    cases hpc : s.pc <;> cases ok <;>
      simp only [stepRun, hpc, setSt, S.emit, Option.some.injEq, if_true, if_false, Bool.false_eq_true, reduceCtorEq] at h
    all_goals subst h
    all_goals (try (rename_i rl; cases rl))
    all_goals (cases hsvc : s.svc)
    all_goals simp only [failSetup, svcShutdown, S.emit, hsvc, if_true, if_false, Bool.false_eq_true]
    all_goals first | exact ⟨rfl, rfl⟩ | simp

/-- only the select's receive writes `stop`, and it writes the branch taken -/
theorem stop_fire (v : Variant) {s s' : S} {l : Label} (h : fire v s l = some s') :
    s'.stop = s.stop ∨ ∃ e, l = .pick e ∧ s'.stop = some e := by
  cases l with
  | call =>
    simp only [fire, S.emit, Option.some.injEq] at h
    by_cases hh : v.honours s.st = true <;> simp only [hh, if_true, if_false, Bool.false_eq_true] at h <;> subst h <;> exact Or.inl rfl
  | close =>
    simp only [fire] at h
    split at h
    · simp only [Option.some.injEq] at h; subst h; exact Or.inl rfl
    · cases h
  | cancel => simp only [fire, Option.some.injEq] at h; subst h; exact Or.inl rfl
  | fatal => simp only [fire, Option.some.injEq] at h; subst h; exact Or.inl rfl
  | giveUp =>
    simp only [fire] at h
    split at h
    · simp only [Option.some.injEq] at h; subst h; exact Or.inl rfl
    · cases h
  | post e =>
    cases e <;> simp only [fire, postEv, Option.some.injEq, reduceCtorEq] at h <;> first | (subst h; exact Or.inl rfl) | cases h
  | begin =>
    simp only [fire] at h
    split at h
    · simp only [Option.some.injEq] at h; subst h; exact Or.inl rfl
    · cases h
  | pick e =>
    simp only [fire] at h
    split at h
    · cases e <;> simp only [pickEv, leave, S.emit] at h
      all_goals (split at h <;> simp only [Option.some.injEq, reduceCtorEq] at h)
      all_goals subst h
      all_goals first | exact Or.inl rfl | exact Or.inr ⟨_, rfl, rfl⟩
    · cases h
  | step ok =>
    simp only [fire] at h
    cases hpc : s.pc <;> cases ok <;>
      simp only [stepRun, hpc, setSt, S.emit, Option.some.injEq, if_true, if_false, Bool.false_eq_true, reduceCtorEq] at h
    all_goals subst h
    all_goals (try (rename_i rl; cases rl))
    all_goals (cases hsvc : s.svc)
    all_goals simp only [failSetup, svcShutdown, S.emit, hsvc, if_true, if_false, Bool.false_eq_true]
    all_goals first | exact Or.inl rfl | simp

/-- how the program counter moves with respect to "Run has not got beyond the initial set-up" -/
theorem pc_fire (v : Variant) {s s' : S} {l : Label} (h : fire v s l = some s') (hd : s'.pc ≠ .done) :
    s.pc ≠ .done ∧ (s'.pc.initialPhase = s.pc.initialPhase ∨ (s.pc = .setup4 false ∧ s'.pc = .select)) := by
  cases l with
  | call => have := congrArg Core.pc (core_external v h (Or.inl rfl)); simp only [S.core] at this; rw [this] at hd; exact ⟨hd, Or.inl (by rw [this])⟩
  | close => have := congrArg Core.pc (core_external v h (Or.inr (Or.inl rfl))); simp only [S.core] at this; rw [this] at hd; exact ⟨hd, Or.inl (by rw [this])⟩
  | cancel => have := congrArg Core.pc (core_external v h (Or.inr (Or.inr (Or.inl rfl)))); simp only [S.core] at this; rw [this] at hd; exact ⟨hd, Or.inl (by rw [this])⟩
  | post e => have := congrArg Core.pc (core_external v h (Or.inr (Or.inr (Or.inr ⟨e, rfl⟩)))); simp only [S.core] at this; rw [this] at hd; exact ⟨hd, Or.inl (by rw [this])⟩
  | fatal => have := congrArg Core.pc (core_fatal v h); simp only [S.core] at this; rw [this] at hd; exact ⟨hd, Or.inl (by rw [this])⟩
  | giveUp => have := congrArg Core.pc (core_giveUp v h); simp only [S.core] at this; rw [this] at hd; exact ⟨hd, Or.inl (by rw [this])⟩
  | begin =>
    simp only [fire] at h
    split at h
    · rename_i hpc
      simp only [Option.some.injEq] at h; subst h
      exact ⟨by simp [hpc], Or.inl (by simp [hpc, Pc.initialPhase])⟩
    · cases h
  | pick e =>
    simp only [fire] at h
    split at h
    · rename_i hpc
      refine ⟨by simp [hpc], Or.inl ?_⟩
      cases e <;> simp only [pickEv, leave, S.emit] at h
      all_goals (split at h <;> simp only [Option.some.injEq, reduceCtorEq] at h)
      all_goals subst h
      all_goals simp [hpc, Pc.initialPhase]
    · cases h
  | step ok =>
    simp only [fire] at h
    cases hpc : s.pc <;> cases ok <;>
      simp only [stepRun, hpc, setSt, S.emit, Option.some.injEq, if_true, if_false, Bool.false_eq_true, reduceCtorEq] at h
    all_goals subst h
    all_goals (try (rename_i rl; cases rl))
    all_goals (cases hsvc : s.svc)
    all_goals simp only [failSetup, svcShutdown, S.emit, hsvc, if_true, if_false, Bool.false_eq_true, ne_eq, not_true_eq_false,
      reduceCtorEq, not_false_eq_true, Pc.initialPhase, true_and, and_self, or_true, true_or, and_true] at hd ⊢

/-- for a reachable core state that has not returned: Running was reached iff Run is beyond the initial set-up -/
theorem ever_iff {s : Core} (hi : Inv s) (hd : s.pc ≠ .done) : s.everRunning = !s.pc.initialPhase := by
  cases hp : s.pc.initialPhase with
  | true => simpa using hi.notEver hp
  | false => simpa using hi.ever hp hd

theorem notifySet_true : notifySet true = [.hup] := by decide
theorem notifySet_false : notifySet false = [.hup, .int, .term] := by decide
theorem sigCap_eq : sigCap = 3 := by decide
theorem stopDeferred : Gen.CollectorFsm.signalStopDeferred = true := by decide

structure SInv (ss : SS) : Prop where
  cap : ss.q.length ≤ sigCap
  hupCount : ss.core.nHup = ss.q.count .hup
  total : ss.core.nHup + ss.core.nTerm = ss.q.length
  regd : ∀ sg ∈ ss.q, sg ∈ notifySet ss.dg
  notif : ss.notified = if (ss.regDone = true ∧ ss.core.pc ≠ .done) then notifySet ss.dg else []
  noTermStop : ss.dg = true → ss.core.stop ≠ some .term

theorem sinv_init (dg : Bool) : SInv (initS dg) := by
  constructor <;> simp [initS]

theorem map_some' {α β : Type} {f : α → β} {x : Option α} {y : β} (h : x.map f = some y) : ∃ c, x = some c ∧ f c = y := by
  cases x <;> simp_all

/-- the signal layer only ever does what the run-loop LTS can do: one `fireS` is one `fire` of the core (or nothing) -/
theorem fireS_core {ss ss' : SS} {l : SLabel} (h : fireS ss l = some ss') :
    ss'.dg = ss.dg ∧ (ss'.core = ss.core ∨ ∃ l', fire .fixed ss.core l' = some ss'.core) := by
  cases l with
  | os sg =>
    simp only [fireS] at h
    split at h
    · split at h
      · obtain ⟨c, hf, he⟩ := map_some' h; subst he; exact ⟨rfl, Or.inr ⟨_, hf⟩⟩
      · simp only [Option.some.injEq] at h; subst h; exact ⟨rfl, Or.inl rfl⟩
    · simp only [Option.some.injEq] at h; subst h; exact ⟨rfl, Or.inl rfl⟩
  | register =>
    simp only [fireS] at h
    split at h
    · simp only [Option.some.injEq] at h; subst h; exact ⟨rfl, Or.inl rfl⟩
    · cases h
  | core l =>
    simp only [fireS] at h
    cases hg : sigGuard ss l with
    | none => simp [hg] at h
    | some q' =>
      simp only [hg, Option.bind_some] at h
      obtain ⟨c, hf, he⟩ := map_some' h; subst he; exact ⟨rfl, Or.inr ⟨_, hf⟩⟩

theorem sigGuard_other (ss : SS) {l : Label} {q' : List Sig} (hl : l.isSig = false) (hg : sigGuard ss l = some q') : q' = ss.q := by
  cases l with
  | post e => cases e <;> simp_all [Label.isSig, sigGuard]
  | pick e =>
    cases e <;> simp only [Label.isSig, Bool.true_eq_false] at hl <;> simp only [sigGuard] at hg <;> split at hg <;>
      first | (exact (Option.some.inj hg).symm) | cases hg
  | _ => exact (Option.some.inj hg).symm

/-- a transition of the run loop changes the registrations only by Run's return (deferred `signal.Stop`) -/
theorem notif_upd {ss : SS} {c : S} {l : Label} (hi : SInv ss)
    (hf : fire .fixed ss.core l = some c) :
    regAfter ss c = if (ss.regDone = true ∧ c.pc ≠ .done) then notifySet ss.dg else [] := by
  unfold regAfter
  by_cases hd : c.pc = .done
  · simp [hd, stopDeferred]
  · obtain ⟨hsd, _⟩ := pc_fire .fixed hf hd
    simp only [hd, if_false]
    rw [hi.notif]; simp [hd, hsd]

theorem count_hup_cons (sg : Sig) (rest : List Sig) (h : sg ≠ .hup) : (sg :: rest).count .hup = rest.count .hup := by
  simp [List.count_cons, h]

theorem sinv_fireS {ss ss' : SS} {l : SLabel} (hi : SInv ss)
    (h : fireS ss l = some ss') : SInv ss' := by
  cases l with
  | register =>
    simp only [fireS] at h
    split at h
    · rename_i hc
      simp only [Option.some.injEq] at h; subst h
      exact ⟨hi.cap, hi.hupCount, hi.total, hi.regd, by simp [hc.1], hi.noTermStop⟩
    · cases h
  | os sg =>
    simp only [fireS] at h
    split at h
    · rename_i hn
      split at h
      · rename_i hroom
        obtain ⟨c, hf, he⟩ := map_some' h
        have hcore : c.core = ss.core.core := core_external .fixed hf (Or.inr (Or.inr (Or.inr ⟨_, rfl⟩)))
        have hmem : sg ∈ notifySet ss.dg := by
          rw [hi.notif] at hn
          split at hn
          · exact hn
          · simp at hn
        subst he
        have hcnt : c.nHup = ss.core.nHup + (if sg = .hup then 1 else 0) ∧ c.nTerm = ss.core.nTerm + (if sg = .hup then 0 else 1) := by
          cases sg <;> simp only [fire, postEv, Sig.ev, Option.some.injEq] at hf <;> subst hf <;> simp
        refine ⟨?_, ?_, ?_, ?_, ?_, ?_⟩
        · simp only [List.length_append, List.length_singleton]; omega
        · simp only [List.count_append, hcnt.1, hi.hupCount]
          by_cases hs : sg = .hup <;> simp [hs, List.count_cons]
        · simp only [List.length_append, List.length_singleton, hcnt.1, hcnt.2]
          have := hi.total
          by_cases hs : sg = .hup <;> simp [hs] <;> omega
        · intro x hx
          simp only [List.mem_append, List.mem_singleton] at hx
          rcases hx with hx | hx
          · exact hi.regd x hx
          · subst hx; exact hmem
        · have h2 := congrArg Core.pc hcore
          simp only [S.core] at h2
          simp only [h2]; exact hi.notif
        · have h1 := congrArg Core.stop hcore
          simp only [S.core] at h1
          simp only [h1]; exact hi.noTermStop
      · simp only [Option.some.injEq] at h; subst h
        exact ⟨hi.cap, hi.hupCount, hi.total, hi.regd, hi.notif, hi.noTermStop⟩
    · simp only [Option.some.injEq] at h; subst h
      exact ⟨hi.cap, hi.hupCount, hi.total, hi.regd, hi.notif, hi.noTermStop⟩
  | core l =>
    simp only [fireS] at h
    cases hg : sigGuard ss l with
    | none => simp [hg] at h
    | some q' =>
      simp only [hg, Option.bind_some] at h
      obtain ⟨c, hf, he⟩ := map_some' h
      subst he
      have hnotif := notif_upd hi hf
      by_cases hl : l.isSig = false
      · -- a label that does not touch the signal channel
        have hq : q' = ss.q := sigGuard_other ss hl hg
        subst hq
        obtain ⟨n1, n2⟩ := sigs_fire .fixed hl hf
        refine ⟨hi.cap, ?_, ?_, hi.regd, hnotif, ?_⟩
        · show c.nHup = _; rw [n1]; exact hi.hupCount
        · show c.nHup + c.nTerm = _; rw [n1, n2]; exact hi.total
        · intro hdg
          show c.stop ≠ some .term
          rcases stop_fire .fixed hf with hs | ⟨e, rfl, hs⟩
          · rw [hs]; exact hi.noTermStop hdg
          · rw [hs]; intro he; cases he; simp [Label.isSig] at hl
      · -- post/pick of hup/term
        cases l with
        | post e => cases e <;> simp_all [Label.isSig, sigGuard]
        | pick e =>
          cases e <;> simp only [Label.isSig, Bool.true_eq_false, not_false_eq_true, not_true_eq_false] at hl
          case hup =>
            have hrd : ss.regDone = true := by
              cases hr0 : ss.regDone
              · simp [sigGuard, hr0] at hg
              · rfl
            simp only [sigGuard, hrd, if_true] at hg
            split at hg
            · rename_i rest hqq
              simp only [Option.some.injEq] at hg; subst hg
              have hcap := hi.cap; have hh := hi.hupCount; have ht := hi.total; have hreg := hi.regd
              rw [hqq] at hcap hh ht hreg
              simp only [fire] at hf
              split at hf
              · simp only [pickEv] at hf
                split at hf
                · simp only [Option.some.injEq] at hf; subst hf
                  refine ⟨?_, ?_, ?_, ?_, hnotif, ?_⟩
                  · simp only [List.length_cons] at hcap; show rest.length ≤ sigCap; omega
                  · have hh' : ss.core.nHup = rest.count .hup + 1 := by rw [hh]; simp [List.count_cons]
                    show ss.core.nHup - 1 = rest.count .hup; omega
                  · have hh' : ss.core.nHup = rest.count .hup + 1 := by rw [hh]; simp [List.count_cons]
                    simp only [List.length_cons] at ht
                    show ss.core.nHup - 1 + ss.core.nTerm = rest.length; omega
                  · intro x hx; exact hreg x (List.mem_cons_of_mem _ hx)
                  · exact hi.noTermStop
                · cases hf
              · cases hf
            · cases hg
          case term =>
            have hrd : ss.regDone = true := by
              cases hr0 : ss.regDone
              · simp [sigGuard, hr0] at hg
              · rfl
            simp only [sigGuard, hrd, if_true] at hg
            split at hg
            · rename_i sg rest hqq
              split at hg
              · rename_i hne
                simp only [Option.some.injEq] at hg; subst hg
                have hcap := hi.cap; have hh := hi.hupCount; have ht := hi.total; have hreg := hi.regd
                rw [hqq] at hcap hh ht hreg
                simp only [fire] at hf
                split at hf
                · simp only [pickEv] at hf
                  split at hf
                  · rename_i hpos
                    simp only [leave, S.emit, Option.some.injEq] at hf; subst hf
                    refine ⟨?_, ?_, ?_, ?_, hnotif, ?_⟩
                    · simp only [List.length_cons] at hcap; show rest.length ≤ sigCap; omega
                    · show ss.core.nHup = rest.count .hup; rw [hh]; exact count_hup_cons sg rest hne
                    · simp only [List.length_cons] at ht
                      show ss.core.nHup + (ss.core.nTerm - 1) = rest.length; omega
                    · intro x hx; exact hreg x (List.mem_cons_of_mem _ hx)
                    · intro hdg
                      have hdg' : ss.dg = true := hdg
                      have := hreg sg (List.mem_cons_self)
                      rw [hdg', notifySet_true] at this
                      simp at this; exact absurd this hne
                  · cases hf
                · cases hf
              · cases hg
            · cases hg
        | _ => simp [Label.isSig] at hl

/-- every state the signal layer reaches projects to a reachable state of the run-loop LTS and satisfies `SInv` -/
theorem reachS_inv (dg : Bool) (ls : List SLabel) : ∀ (ss ss' : SS), Reachable .fixed ss.core → SInv ss → ss.dg = dg →
    runFromS ss ls = some ss' → Reachable .fixed ss'.core ∧ SInv ss' ∧ ss'.dg = dg := by
  induction ls with
  | nil => intro ss ss' hr hi hd h; simp only [runFromS, Option.some.injEq] at h; subst h; exact ⟨hr, hi, hd⟩
  | cons l ls ih =>
    intro ss ss' hr hi hd h
    simp only [runFromS] at h
    cases hf : fireS ss l with
    | none => simp [hf] at h
    | some s1 =>
      simp only [hf, Option.bind_some] at h
      obtain ⟨hdg, hc⟩ := fireS_core hf
      have hr1 : Reachable .fixed s1.core := by
        rcases hc with he | ⟨l', hl'⟩
        · rw [he]; exact hr
        · obtain ⟨ls0, h0⟩ := hr
          exact ⟨ls0 ++ [l'], by
            show runFrom .fixed init (ls0 ++ [l']) = some s1.core
            rw [runFrom_append]
            have : runFrom .fixed init ls0 = some ss.core := h0
            simp [this, runFrom, hl']⟩
      exact ih s1 ss' hr1 (sinv_fireS hi hf) (by rw [hdg, hd]) h

end OtelVerif.C20
