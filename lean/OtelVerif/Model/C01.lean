import OtelVerif.Gen.PQKeys
/-!
# C01 — persistent sending queue as a store/memory machine with crash steps

Model of `exporter/exporterhelper/internal/queuebatch/persistent_queue.go` **as repaired** by the two
`fix:` commits of worktree `/tmp/wt-C01` (atomic move of dispatched items during recovery without
capacity check; a missing read index next to a stored write index means 0).

* `Store`  = the durable keys `ri`, `wi`, `si`, `di`, `<index>` (abstract of the byte encodings; the
  codecs are modelled separately in `Model/C01Codec.lean`).
* `Mem`    = the in-memory fields of `persistentQueue` that matter (`readIndex`, `writeIndex`,
  `currentlyDispatchedItems`, `queueSize`, `stopped`) plus the ghost `outst` = hand-offs (index,request)
  whose `Done` callback has not been called yet.
* `Pc`     = where inside an operation the incarnation is.  **Every firing of a label performs at most one
  `storage.Client` call** (`calls` counts them), so a `crash` label between two firings is exactly
  "the process dies at a storage-operation boundary"; `crash` is allowed in every state, also inside
  `start` (recovery).
* history variables: `accepted` (request whose put-batch was committed — a superset of "Offer returned
  nil"), `handed` (requests returned by `Read`), `finalised` (hand-offs whose `Done` was called with a
  final, i.e. non-shutdown, outcome).

Indexes are `Nat` (the code uses `uint64`; fewer than 2^64 writes is an assumption of the trusted base).
-/
namespace OtelVerif.C01
open OtelVerif.Gen

structure Req where
  id : Nat
  size : Nat
deriving DecidableEq, Repr, Inhabited

/-- queue settings: capacity and whether the sizer is `request.RequestsSizer` -/
structure Conf where
  cap : Nat := 0
  reqSized : Bool := true
  /-- `blockOnOverflow`: a full queue makes `Offer` wait for space instead of returning `ErrQueueIsFull` -/
  block : Bool := false
deriving Repr

/-- `pq.set.sizer.Sizeof(req)` -/
def Conf.sizeof (k : Conf) (r : Req) : Nat := if k.reqSized then 1 else r.size

def upd (f : Nat → Option Req) (i : Nat) (v : Option Req) : Nat → Option Req :=
  fun j => if j = i then v else f j

structure Store where
  ri : Option Nat := none
  wi : Option Nat := none
  si : Option Nat := none
  /-- decoded `di`; an unset key and an empty array decode to the same `nil` in `bytesToItemIndexArray` -/
  di : List Nat := []
  items : Nat → Option Req := fun _ => none

/-- write index that `initPersistentContiguousStorage` loads -/
def Store.W (s : Store) : Nat := s.wi.getD 0
/-- read index that `initPersistentContiguousStorage` loads: a missing `wi` resets both to 0,
    a missing `ri` next to a stored `wi` is 0 (second fix commit) -/
def Store.R (s : Store) : Nat :=
  match s.wi with
  | none => 0
  | some _ => s.ri.getD 0

/-! the storage calls that write (each is ONE atomic `Batch`/`Set` of the client) -/

/-- `writeInternal`: `Batch(set wi := w+1, set <w> := r)` -/
def Store.putB (s : Store) (w : Nat) (r : Req) : Store :=
  { s with wi := some (w + 1), items := upd s.items w (some r) }
/-- `getNextItem`: `Batch(set ri := ri', set di := cdi, get <ri'-1>)` -/
def Store.getB (s : Store) (ri' : Nat) (cdi : List Nat) : Store :=
  { s with ri := some ri', di := cdi }
/-- `itemDispatchingFinish`: `Batch(set di := cdi, delete <i>)`; also the clean-up batch of recovery for a
    dispatched index whose item cannot be read: `Batch(delete <i>, set di := cdi)` -/
def Store.finB (s : Store) (cdi : List Nat) (i : Nat) : Store :=
  { s with di := cdi, items := upd s.items i none }
/-- `backupQueueSize`: `Set si` -/
def Store.setSi (s : Store) (v : Nat) : Store := { s with si := some v }
/-- first fallback of `itemDispatchingFinish`: `Batch(delete <i>)` -/
def Store.delB (s : Store) (i : Nat) : Store := { s with items := upd s.items i none }
/-- second fallback of `itemDispatchingFinish`: `Batch(set di := cdi)` -/
def Store.setDi (s : Store) (cdi : List Nat) : Store := { s with di := cdi }
/-- recovery (repaired): `Batch(set wi := w+1, set <w> := r, delete <i>, set di := rest)` -/
def Store.moveB (s : Store) (w : Nat) (r : Req) (i : Nat) (rest : List Nat) : Store :=
  { s with wi := some (w + 1), items := upd (upd s.items w (some r)) i none, di := rest }

structure Mem where
  ri : Nat := 0
  wi : Nat := 0
  cdi : List Nat := []
  size : Nat := 0
  stopped : Bool := false
  outst : List (Nat × Req) := []
  /-- `blockOnOverflow`: the offers blocked in `hasMoreSpace.Wait`, in arrival order (`cond.waiters` is FIFO) -/
  waiting : List Req := []

inductive Outcome
  | final        -- success or any non-shutdown failure
  | shutdownErr  -- experr.IsShutdownErr
deriving DecidableEq, Repr

inductive Res
  | none | offerOk | offerFull | offerBlocked | offerTooLarge | offerCancelled | readItem (i : Nat) (r : Req) | readStopped | readEmpty
  | doneOk | doneUnknown | shutOk
  | err          -- the operation returned a storage error (only in the machine with storage errors, `Model/C01Err.lean`)
deriving DecidableEq, Repr

/-- who called `itemDispatchingFinish`: `getNextItem` (then `Read`'s loop continues) or `onDone` -/
inductive FinK
  | read
  | done
deriving DecidableEq, Repr

inductive Pc
  | idle
  | backup                                          -- next call: `Set si` (tail of putInternal / onDone)
  | readRet (i : Nat) (r : Req)                     -- getNextItem's batch returned the item; next: return it
  | readFin (i : Nat)                               -- getNextItem found nothing under i; next call: itemDispatchingFinish
  | readLoop                                        -- back at the head of Read's inner loop
  | init1                                           -- indexes loaded; next call: `Get si` (if needed) else `Get di`
  | init2                                           -- next call: `Get di`
  | init3 (ds : List Nat)                           -- next call: retrieve batch over ds
  | moving (todo : List (Nat × Option Req))         -- next call: move batch for the head of todo
  | movingBackup (todo : List (Nat × Option Req))   -- next call: `Set si` inside writeInternal, then continue
  -- the three batches of `itemDispatchingFinish` as pending calls; the in-memory list has the index removed already.
  -- Entered only after a storage error (`Model/C01Err.lean`); the error-free machine never reaches them.
  | fin1 (i : Nat) (k : FinK)                       -- next call: `Batch(set di, delete <i>)`
  | fin2 (i : Nat) (k : FinK)                       -- next call: `Batch(delete <i>)`
  | fin3 (i : Nat) (k : FinK)                       -- next call: `Batch(set di)`

inductive Phase
  | dead
  | live (m : Mem) (pc : Pc)

structure Cfg where
  k : Conf
  st : Store := {}
  ph : Phase := .dead
  accepted : List Req := []
  handed : List Req := []
  finalised : List Req := []
  calls : Nat := 0
  res : Res := .none

inductive Label
  | offer (r : Req)
  | read
  | done (i : Nat) (oc : Outcome)
  | shutdown
  | start
  | tick
  | crash
  | wake                 -- the blocked offer at the head of `waiting` re-locks the queue and re-checks the capacity
  | promote (j : Nat)    -- scheduler choice: of the producers woken by `hasMoreSpace.Broadcast` (all of them since c2c5f2c26),
                         -- the j-th is the next to re-lock the queue mutex: it becomes the head of `waiting`
  | cancel (j : Nat)     -- the context of the j-th blocked offer is cancelled: its `Offer` returns the context error
deriving Repr

/-- `(idx % 10) == m` guard of the periodic `backupQueueSize`, which is a no-op for request-sized queues -/
def backupDue (k : Conf) (idx md rm : Nat) : Bool := !k.reqSized && idx % md == rm
/-- `(pq.writeIndex % 10) == 5` in `writeInternal`; modulus and remainder are regenerated from the source -/
def writeBackupDue (k : Conf) (wi : Nat) : Bool := backupDue k wi PQKeys.writeBackupMod PQKeys.writeBackupRem
/-- `(pq.readIndex % 10) == 0` in `onDone`; regenerated likewise -/
def readBackupDue (k : Conf) (ri : Nat) : Bool := backupDue k ri PQKeys.readBackupMod PQKeys.readBackupRem

/-- `itemDispatchingFinish`'s removal: overwrite the first occurrence with the last element, drop the last -/
def swapRemove : List Nat → Nat → List Nat
  | [], _ => []
  | [a], x => if a = x then [] else [a]
  | a :: b :: t, x =>
    if a = x then (b :: t).getLast (by simp) :: (b :: t).dropLast else a :: swapRemove (b :: t) x

def afterMove (todo : List (Nat × Option Req)) : Pc :=
  match todo with
  | [] => .idle
  | _ :: _ => .moving todo

/-- `writeInternal` for a new request (first storage call of an accepted `Offer`) -/
def doPut (c : Cfg) (m : Mem) (r : Req) : Cfg :=
  let m' := { m with wi := m.wi + 1, size := m.size + c.k.sizeof r }
  { c with calls := c.calls + 1, accepted := r :: c.accepted,
           st := c.st.putB m.wi r,
           ph := .live m' (if writeBackupDue c.k (m.wi + 1) then .backup else .idle),
           res := .offerOk }

/-- `putInternal` when `queueSize + reqSize > capacity`: reject, or (blockOnOverflow) reject a request that can never
    fit, or wait for space — no storage call in any case -/
def doOfferFull (c : Cfg) (m : Mem) (r : Req) : Cfg :=
  if c.k.block = false then { c with res := .offerFull }
  else if c.k.sizeof r > c.k.cap then { c with res := .offerTooLarge }
  else { c with ph := .live { m with waiting := m.waiting ++ [r] } .idle, res := .offerBlocked }

/-- `Offer` → `putInternal` -/
def doOffer (c : Cfg) (m : Mem) (r : Req) : Cfg :=
  if m.size + c.k.sizeof r > c.k.cap then doOfferFull c m r else doPut c m r

/-- the oldest waiter returns from `hasMoreSpace.Wait` and goes round `putInternal`'s loop again: still no room →
    it waits again (at the back of the FIFO); room → `writeInternal` -/
def doWake (c : Cfg) (m : Mem) : Cfg :=
  match m.waiting with
  | [] => c
  | r :: rest =>
    if m.size + c.k.sizeof r > c.k.cap then
      { c with ph := .live { m with waiting := rest ++ [r] } .idle, res := .offerBlocked }
    else doPut c { m with waiting := rest } r

/-- `Broadcast` wakes every waiter; they re-lock the mutex in an order chosen by the Go scheduler.  `promote j` makes the
    j-th blocked offer the next one to do so (memory only); `wake` then lets it go round `putInternal`'s loop.  A woken
    producer that does not fit re-registers at the back. -/
def doPromote (c : Cfg) (m : Mem) (j : Nat) : Cfg :=
  match m.waiting[j]? with
  | none => c
  | some r => { c with ph := .live { m with waiting := r :: m.waiting.eraseIdx j } .idle }

def doCancel (c : Cfg) (m : Mem) (j : Nat) : Cfg :=
  { c with ph := .live { m with waiting := m.waiting.eraseIdx j } .idle, res := .offerCancelled }

/-- head of `Read`'s loop: stopped → false; empty → would block (`readEmpty`); else `getNextItem`'s batch
    (set `ri`, set `di`, get item).  The `queueSize = 0` resynchronisation is memory-only and applied at once. -/
def doRead (c : Cfg) (m : Mem) : Cfg :=
  if m.stopped then { c with ph := .live m .idle, res := .readStopped }
  else if m.ri = m.wi then { c with ph := .live m .idle, res := .readEmpty }
  else
    let cdi := m.cdi ++ [m.ri]
    let m' := { m with ri := m.ri + 1, cdi := cdi, size := if m.ri + 1 = m.wi then 0 else m.size }
    { c with calls := c.calls + 1,
             st := c.st.getB (m.ri + 1) cdi,
             ph := .live m' (match c.st.items m.ri with
                             | some r => .readRet m.ri r
                             | none => .readFin m.ri),
             res := .none }

/-- `onDone`: size bookkeeping; a shutdown error returns without touching storage; otherwise
    `itemDispatchingFinish` (one batch: set `di`, delete the item) and possibly the size backup -/
def doDone (c : Cfg) (m : Mem) (i : Nat) (oc : Outcome) : Cfg :=
  match m.outst.lookup i with
  | none => { c with res := .doneUnknown }
  | some r =>
    let m1 := { m with outst := m.outst.filter (fun p => p.1 != i), size := m.size - c.k.sizeof r }
    match oc with
    | .shutdownErr => { c with ph := .live m1 .idle, res := .doneOk }
    | .final =>
      let cdi := swapRemove m.cdi i
      { c with calls := c.calls + 1, finalised := r :: c.finalised,
               st := c.st.finB cdi i,
               ph := .live { m1 with cdi := cdi } (if readBackupDue c.k m.ri then .backup else .idle),
               res := .doneOk }

/-- `Shutdown`: `backupQueueSize` (one `Set si` unless request-sized), `stopped = true` -/
def doShutdown (c : Cfg) (m : Mem) : Cfg :=
  { c with calls := if c.k.reqSized then c.calls else c.calls + 1,
           st := if c.k.reqSized then c.st else c.st.setSi m.size,
           ph := .live { m with stopped := true } .idle, res := .shutOk }

/-- `initPersistentContiguousStorage`, first call: `Batch(get ri, get wi)` -/
def doStart (c : Cfg) : Cfg :=
  { c with calls := c.calls + 1,
           ph := .live { ri := c.st.R, wi := c.st.W, size := c.st.W - c.st.R } .init1, res := .none }

/-- `retrieveAndEnqueueNotDispatchedReqs`, first call: `Get di` -/
def doGetDi (c : Cfg) (m : Mem) : Cfg :=
  match c.st.di with
  | [] => { c with calls := c.calls + 1, ph := .live m .idle }
  | d :: ds => { c with calls := c.calls + 1, ph := .live m (.init3 (d :: ds)) }

/-- one iteration of the recovery loop (repaired code): a single batch per dispatched index -/
def doMove (c : Cfg) (m : Mem) (todo : List (Nat × Option Req)) : Cfg :=
  match todo with
  | [] => { c with ph := .live m .idle }
  | (i, none) :: rest =>
    { c with calls := c.calls + 1,
             st := c.st.finB (rest.map Prod.fst) i,
             ph := .live m (afterMove rest) }
  | (i, some r) :: rest =>
    let m' := { m with wi := m.wi + 1, size := m.size + c.k.sizeof r }
    { c with calls := c.calls + 1,
             st := c.st.moveB m.wi r i (rest.map Prod.fst),
             ph := .live m' (if writeBackupDue c.k (m.wi + 1) then .movingBackup rest else afterMove rest) }

/-- where control goes when `itemDispatchingFinish` returns -/
def finCont (k : Conf) (m : Mem) : FinK → Pc
  | .read => .readLoop
  | .done => if readBackupDue k m.ri then .backup else .idle

def doTick (c : Cfg) (m : Mem) : Pc → Cfg
  | .fin1 i k => { c with calls := c.calls + 1, st := c.st.finB m.cdi i, ph := .live m (finCont c.k m k) }
  | .fin2 i k => { c with calls := c.calls + 1, st := c.st.delB i, ph := .live m (.fin3 i k) }
  | .fin3 _ k => { c with calls := c.calls + 1, st := c.st.setDi m.cdi, ph := .live m (finCont c.k m k) }
  | .idle => c
  | .backup => { c with calls := c.calls + 1, st := c.st.setSi m.size, ph := .live m .idle }
  | .readRet i r =>
    { c with ph := .live { m with outst := (i, r) :: m.outst } .idle, handed := r :: c.handed, res := .readItem i r }
  | .readFin i =>
    let cdi := swapRemove m.cdi i
    { c with calls := c.calls + 1,
             st := c.st.finB cdi i,
             ph := .live { m with cdi := cdi } .readLoop }
  | .readLoop => doRead c m
  | .init1 =>
    if m.size > 0 ∧ c.k.reqSized = false then
      { c with calls := c.calls + 1, ph := .live { m with size := c.st.si.getD m.size } .init2 }
    else doGetDi c m
  | .init2 => doGetDi c m
  | .init3 ds =>
    { c with calls := c.calls + 1, ph := .live m (.moving (ds.map (fun i => (i, c.st.items i)))) }
  | .moving todo => doMove c m todo
  | .movingBackup todo =>
    { c with calls := c.calls + 1, st := c.st.setSi m.size, ph := .live m (afterMove todo) }

/-- the machine.  Operations start only in an idle live incarnation (the queue mutex serialises them),
    `start` only when no incarnation is alive, `tick` continues a pending operation, `crash` always. -/
def fire (c : Cfg) : Label → Cfg
  | .crash => { c with ph := .dead }
  | .start => match c.ph with
    | .dead => doStart c
    | _ => c
  | .tick => match c.ph with
    | .live m pc => doTick c m pc
    | .dead => c
  | .offer r => match c.ph with
    | .live m .idle => doOffer c m r
    | _ => c
  | .read => match c.ph with
    | .live m .idle => doRead c m
    | _ => c
  | .done i oc => match c.ph with
    | .live m .idle => doDone c m i oc
    | _ => c
  | .shutdown => match c.ph with
    | .live m .idle => doShutdown c m
    | _ => c
  | .wake => match c.ph with
    | .live m .idle => doWake c m
    | _ => c
  | .cancel j => match c.ph with
    | .live m .idle => doCancel c m j
    | _ => c
  | .promote j => match c.ph with
    | .live m .idle => doPromote c m j
    | _ => c

def init (k : Conf) : Cfg := { k := k }

def run (k : Conf) (ls : List Label) : Cfg := ls.foldl fire (init k)

def Cfg.idle (c : Cfg) : Bool :=
  match c.ph with
  | .live _ .idle => true
  | _ => false

def Cfg.alive (c : Cfg) : Bool :=
  match c.ph with
  | .live _ _ => true
  | .dead => false

end OtelVerif.C01
