/-! C01 model (stub) -/
namespace OtelVerif.C01
end OtelVerif.C01
