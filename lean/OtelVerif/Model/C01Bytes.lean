import OtelVerif.Model.C01
import OtelVerif.Model.C01Codec
import OtelVerif.Gen.PQKeys
/-!
# C01 — the byte-level store: what `storage.Client` really holds, and what start-up reads back

`encodeStore` maps the abstract `Store` of `Model/C01.lean` to the key/value map the code writes (key names regenerated
from the source into `Gen/PQKeys.lean`, index codecs of `Model/C01Codec.lean`, item keys = `strconv.FormatUint(i, 10)`,
item bodies through the exporter's `Encoding`, a parameter with a round-trip law).  `readIndexes` / `readDi` /
`readItem` mirror what `initPersistentContiguousStorage` and `retrieveAndEnqueueNotDispatchedReqs` / `getNextItem`
decode from such a map.  `Props/C01.lean` proves that decoding the encoding gives back exactly the abstract view.
-/
namespace OtelVerif.C01
open OtelVerif.Gen Codec

abbrev Bytes := List Nat
abbrev ByteStore := String → Option Bytes

/-- `getItemKey(index) = strconv.FormatUint(index, 10)` -/
def itemKey (i : Nat) : String := Nat.repr i

/-- the exporter's `Encoding[T]` -/
structure ReqCodec where
  enc : Req → Bytes
  dec : Bytes → Option Req
  law : ∀ r, dec (enc r) = some r

def encodeStore (rc : ReqCodec) (s : Store) : ByteStore := fun key =>
  if key = PQKeys.readIndexKey then s.ri.map itemIndexToBytes
  else if key = PQKeys.writeIndexKey then s.wi.map itemIndexToBytes
  else if key = PQKeys.queueSizeKey then s.si.map itemIndexToBytes
  else if key = PQKeys.dispatchedKey then some (itemIndexArrayToBytes s.di)
  else match key.toNat? with
    | some i => if itemKey i = key then (s.items i).map rc.enc else none
    | none => none

/-- `initPersistentContiguousStorage` (repaired): parse `ri`; a missing `ri` next to a present `wi` is 0; then parse `wi`;
    any remaining error resets both -/
def readIndexes (b : ByteStore) : Nat × Nat :=
  let r? : Except String Nat :=
    match bytesToItemIndex (b PQKeys.readIndexKey) with
    | .ok r => .ok r
    | .error e => if e = "notset" ∧ (b PQKeys.writeIndexKey).isSome then .ok 0 else .error e
  match r? with
  | .error _ => (0, 0)
  | .ok r =>
    match bytesToItemIndex (b PQKeys.writeIndexKey) with
    | .ok w => (r, w)
    | .error _ => (0, 0)

/-- `Get di` + `bytesToItemIndexArray` (a decoding error is logged and treated like "nothing dispatched") -/
def readDi (b : ByteStore) : List Nat :=
  match b PQKeys.dispatchedKey with
  | none => []
  | some buf =>
    match bytesToItemIndexArray buf with
    | .ok l => l
    | .error _ => []

/-- `Get <index>` + `Encoding.Unmarshal` -/
def readItemWith (dec : Bytes → Option Req) (b : ByteStore) (i : Nat) : Option Req := (b (itemKey i)).bind dec

def readItem (rc : ReqCodec) (b : ByteStore) (i : Nat) : Option Req := readItemWith rc.dec b i

/-- a byte store given as a key/value list (how the driver receives the raw storage map of the implementation) -/
def ByteStore.ofList (kvs : List (String × Bytes)) : ByteStore := fun key => kvs.lookup key

end OtelVerif.C01
