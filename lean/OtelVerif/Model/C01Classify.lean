import OtelVerif.Model.C01
/-!
# C01 — classification of the outcome handed to `Done.OnDone`

`onDone` asks `experr.IsShutdownErr(err)` (= `errors.As(err, &shutdownErr{})`).  The error is an arbitrary tree: senders
wrap with `%w`, a request exported in several batch parts gets the part errors combined (`multierr.Append`), callers
may `errors.Join`.  `errors.As` visits the whole tree (`Unwrap() error` and `Unwrap() []error`), so the label
`done i outcome` of the queue machine stands for: `outcome = shutdownErr` iff the tree contains a shutdown error.
An n-ary join is a nested binary one here.
-/
namespace OtelVerif.C01

inductive ErrTree
  | plain                          -- any other error (also a consumererror permanent error)
  | shutdown (inner : ErrTree)     -- experr.NewShutdownErr(inner)
  | wrap (inner : ErrTree)         -- fmt.Errorf("…%w", inner)
  | join (a b : ErrTree)           -- errors.Join(a, b) / multierr.Append(a, b)
deriving Repr, DecidableEq

def ErrTree.isShutdown : ErrTree → Bool
  | .plain => false
  | .shutdown _ => true
  | .wrap t => t.isShutdown
  | .join a b => a.isShutdown || b.isShutdown

/-- somewhere in the tree there is a shutdown error -/
inductive ErrTree.ContainsShutdown : ErrTree → Prop
  | here (t : ErrTree) : ContainsShutdown (.shutdown t)
  | wrap {t : ErrTree} : ContainsShutdown t → ContainsShutdown (.wrap t)
  | left {a : ErrTree} (b : ErrTree) : ContainsShutdown a → ContainsShutdown (.join a b)
  | right (a : ErrTree) {b : ErrTree} : ContainsShutdown b → ContainsShutdown (.join a b)

/-- the outcome label of the queue machine for the error (or nil) a consumer reports -/
def outcomeOf : Option ErrTree → Outcome
  | none => .final
  | some t => if t.isShutdown then .shutdownErr else .final

/-- `multierr.Append(a, b)`: nil is neutral, otherwise the two errors are combined into one multi-error -/
def appendErr : Option ErrTree → Option ErrTree → Option ErrTree
  | none, b => b
  | some a, none => some a
  | some a, some b => some (.join a b)

/-- `refCountDone` (`default_batcher.go`): a request that the batcher exports in several flushes reports, when the last
    flush has returned, `multierr.Append` over the errors of the flushes in the order in which they returned -/
def aggregate (parts : List (Option ErrTree)) : Option ErrTree := parts.foldl appendErr none

/-- shapes as printed by the harness: `E` `P` plain, `S` / `S(t)` shutdown, `W(t)` wrap, `J(a,b)` `M(a,b)` join -/
def parseErrTree : Nat → List Char → Option (ErrTree × List Char)
  | 0, _ => none
  | fuel + 1, cs =>
    match cs with
    | 'E' :: rest => some (.plain, rest)
    | 'P' :: rest => some (.plain, rest)
    | 'S' :: '(' :: rest =>
      match parseErrTree fuel rest with
      | some (t, ')' :: rest') => some (.shutdown t, rest')
      | _ => none
    | 'S' :: rest => some (.shutdown .plain, rest)
    | 'W' :: '(' :: rest =>
      match parseErrTree fuel rest with
      | some (t, ')' :: rest') => some (.wrap t, rest')
      | _ => none
    | c :: '(' :: rest =>
      if c = 'J' ∨ c = 'M' then
        match parseErrTree fuel rest with
        | some (a, ',' :: rest') =>
          match parseErrTree fuel rest' with
          | some (b, ')' :: rest'') => some (.join a b, rest'')
          | _ => none
        | _ => none
      else none
    | _ => none

def parseShape (s : String) : Option (Option ErrTree) :=
  if s = "nil" then some none
  else match parseErrTree (s.length + 1) s.toList with
    | some (t, []) => some (some t)
    | _ => none

end OtelVerif.C01
