/-!
# C01 — byte codecs of the durable indexes (`itemIndexToBytes`, `bytesToItemIndex`,
`itemIndexArrayToBytes`, `bytesToItemIndexArray` of persistent_queue.go), over lists of byte values.
A missing key (`nil` slice) is `none`.
-/
namespace OtelVerif.C01.Codec

/-- `n` little-endian bytes of `v` (the value is truncated to `n` bytes like the Go conversions) -/
def leBytes : Nat → Nat → List Nat
  | 0, _ => []
  | n + 1, v => (v % 256) :: leBytes n (v / 256)

def leVal : List Nat → Nat
  | [] => 0
  | b :: bs => b + 256 * leVal bs

/-- `binary.LittleEndian.AppendUint64([]byte{}, value)` -/
def itemIndexToBytes (v : Nat) : List Nat := leBytes 8 v

def bytesToItemIndex (buf : Option (List Nat)) : Except String Nat :=
  match buf with
  | none => .error "notset"
  | some b => if b.length < 8 then .error "invalid" else .ok (leVal (b.take 8))

/-- uint32 length prefix, then 8 bytes per element -/
def itemIndexArrayToBytes (arr : List Nat) : List Nat :=
  leBytes 4 arr.length ++ arr.flatMap (leBytes 8)

def chunks : Nat → List Nat → List Nat
  | 0, _ => []
  | n + 1, b => leVal (b.take 8) :: chunks n (b.drop 8)

def bytesToItemIndexArray (buf : List Nat) : Except String (List Nat) :=
  if buf.length = 0 then .ok []
  else if buf.length < 4 then .error "invalid"
  else
    let size := leVal (buf.take 4)
    if size = 0 then .ok []
    else if (buf.drop 4).length < size * 8 then .error "invalid"
    else .ok (chunks size (buf.drop 4))

end OtelVerif.C01.Codec
