/-!
# C01 — from the exporter's options to the queue object that is actually built

Whether an exporter HAS a persistent sending queue, with which capacity / blocking / consumers, is decided by straight-line
code between the public options and `newPersistentQueue`:

* `base_exporter.go`  `WithQueue` / `WithQueueBatch` (a disabled config is ignored), `WithBatcher`, `WithRetry` (a disabled
  config is ignored), `NewBaseExporter` (queue sender iff queue or legacy batcher enabled; retry sender iff retry enabled);
* `queue_sender.go`  `newQueueBatchConfig` (merge of the legacy `WithBatcher` config into the queue config);
* `queue_batch.go`  `newQueueBatch` (unsupported sizer → error; `Batch != nil` forces one consumer; `StorageID == nil` →
  memory queue, else persistent queue with `capacity = QueueSize`, `blockOnOverflow`, the chosen sizer);
* `config.go`  `Config.Validate`.

`component.ID` of the storage extension is abstracted to a number; durations and sizes are integers.
-/
namespace OtelVerif.C01.Cfg

inductive SizerT
  | requests | items | bytes
  | other            -- a sizer type for which `Settings.Sizers` has no entry
deriving DecidableEq, Repr

structure BatchCfg where
  flush : Int
  min : Int
  max : Int
deriving DecidableEq, Repr

/-- `queuebatch.Config` -/
structure QCfg where
  enabled : Bool := false
  waitForResult : Bool := false
  sizer : SizerT := .requests
  queueSize : Int := 0
  blockOnOverflow : Bool := false
  storage : Option Nat := none
  numConsumers : Int := 0
  batch : Option BatchCfg := none
deriving DecidableEq, Repr

/-- `BatcherConfig` of the deprecated `WithBatcher` (the fields that are used) -/
structure LegacyB where
  enabled : Bool := false
  flush : Int := 0
  min : Int := 0
  max : Int := 0
deriving DecidableEq, Repr

inductive Opt
  | queue (q : QCfg)        -- `WithQueue` / `WithQueueBatch`
  | batcher (b : LegacyB)   -- `WithBatcher`
  | retry (enabled : Bool)  -- `WithRetry`
deriving Repr

/-- the fields of `BaseExporter` that the options set -/
structure BE where
  /-- the zero value of `queuebatch.Config`: its `Sizer` is the empty `SizerType`, for which no sizer is registered -/
  queueCfg : QCfg := { sizer := .other }
  batcherCfg : LegacyB := {}
  retry : Bool := false
deriving DecidableEq, Repr

/-- one option applied (`WithQueueBatch`: a disabled config leaves the exporter untouched; `WithRetry` likewise;
    `WithBatcher` always overwrites) -/
def applyOpt (be : BE) : Opt → BE
  | .queue q => if q.enabled then { be with queueCfg := q } else be
  | .batcher b => { be with batcherCfg := b }
  | .retry e => if e then { be with retry := true } else be

def applyOpts (opts : List Opt) : BE := opts.foldl applyOpt {}

/-- `NewBaseExporter`: is there a queue sender at all -/
def BE.hasQueueSender (be : BE) : Bool := be.queueCfg.enabled || be.batcherCfg.enabled

/-- `newQueueBatchConfig` (`maxInt` = `math.MaxInt`, `numCPU` = `runtime.NumCPU()`) -/
def mergeLegacy (q : QCfg) (b : LegacyB) (maxInt numCPU : Int) : QCfg :=
  if !b.enabled then q
  else if q.enabled then { q with batch := some ⟨b.flush, b.min, b.max⟩ }
  else { enabled := true, waitForResult := true, sizer := .requests, queueSize := maxInt, numConsumers := numCPU,
         blockOnOverflow := true, storage := none, batch := some ⟨b.flush, b.min, b.max⟩ }

inductive QueueKind
  | memory
  | persistent (storage : Nat)
deriving DecidableEq, Repr

/-- what `newQueueBatch` builds -/
structure Runtime where
  kind : QueueKind
  capacity : Int
  blockOnOverflow : Bool
  sizer : SizerT
  numConsumers : Int
  /-- `none` = `disabledBatcher`; `some (cfg, sizer)` = `defaultBatcher` with that sizer type -/
  batcher : Option (BatchCfg × SizerT)
deriving DecidableEq, Repr

/-- `newQueueBatch(set, cfg, next, oldBatcher)`; `none` = the error "unsupported sizer" -/
def build (cfg : QCfg) (legacy : Bool) : Option Runtime :=
  if cfg.sizer = .other then none else
  some { kind := match cfg.storage with
                 | none => .memory
                 | some s => .persistent s,
         capacity := cfg.queueSize,
         blockOnOverflow := cfg.blockOnOverflow,
         sizer := cfg.sizer,
         numConsumers := if cfg.batch.isSome then 1 else cfg.numConsumers,
         batcher := cfg.batch.map (fun b => (b, if legacy then SizerT.items else cfg.sizer)) }

/-- `NewQueueSender`: legacy constructor iff the legacy batcher is enabled -/
def buildSender (q : QCfg) (b : LegacyB) (maxInt numCPU : Int) : Option Runtime :=
  build (mergeLegacy q b maxInt numCPU) b.enabled

inductive VRes
  | ok | numConsumers | queueSize | waitForResult | persistentSizer | batchSizer
deriving DecidableEq, Repr

/-- `Config.Validate` (first failing check) -/
def validate (c : QCfg) : VRes :=
  if !c.enabled then .ok
  else if c.numConsumers ≤ 0 then .numConsumers
  else if c.queueSize ≤ 0 then .queueSize
  else if c.storage.isSome && c.waitForResult then .waitForResult
  else if c.storage.isSome && c.sizer != .requests then .persistentSizer
  else if c.batch.isSome && (c.sizer != .items && c.sizer != .bytes) then .batchSizer
  else .ok

end OtelVerif.C01.Cfg
