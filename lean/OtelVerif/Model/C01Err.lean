import OtelVerif.Model.C01
/-!
# C01 — the queue machine with storage errors

`Model/C01.lean` is the machine in which every storage call succeeds unless the process dies.  Here every storage call
may in addition **return an error** (`Get`/`Set`/`Batch` returning a non-nil error, with no effect on the stored data —
the contract of a transactional client, recorded in the trusted base).  Nothing of the base machine is changed:

* `LabelE.op l`   fires the base label `l`; if the flag `failNext` is set, the storage call made by that firing
                  returns an error instead (`fireErr`: the error branch of the Go code at exactly that call); a firing
                  that makes no storage call leaves the flag alone;
* `LabelE.fail b` sets/clears `failNext` (the fault injector of the harness: "the k-th call of this operation fails").

So an arbitrary `List LabelE` is an arbitrary mix of operations, continuation ticks, deaths and failing calls.

Ghost fields: `dropped` collects the requests that the code *decides to give up* on an error — the four places where
that happens are exactly the `CfgE.failed … (dr := …)` calls below with a non-empty list — and `poisoned` records that
the very first call of a start-up (`Batch(get ri, get wi)`) failed, after which the code restarts both indexes from 0
on top of whatever is stored.
-/
namespace OtelVerif.C01

structure CfgE where
  base : Cfg
  failNext : Bool := false
  dropped : List Req := []
  poisoned : Bool := false

inductive LabelE
  | op (l : Label)
  | fail (b : Bool)
deriving Repr

/-- the requests stored under the given indexes -/
def itemsAt (s : Store) (l : List Nat) : List Req := l.filterMap s.items

/-- the storage call of this firing returned an error: one more call made, flag consumed, `dr` given up -/
def CfgE.failed (ce : CfgE) (c' : Cfg) (dr : List Req := []) : CfgE :=
  { ce with base := { c' with calls := ce.base.calls + 1 }, failNext := false, dropped := dr ++ ce.dropped }

/-- `writeInternal`'s batch fails: `Offer` returns the error, nothing changed -/
def doOfferErr (ce : CfgE) (m : Mem) (r : Req) : CfgE :=
  let c := ce.base
  if m.size + c.k.sizeof r > c.k.cap then { ce with base := doOffer c m r }   -- rejected / blocked before any storage call
  else ce.failed { c with res := .err }

/-- a woken blocked offer whose `writeInternal` batch fails: its `Offer` returns the error -/
def doWakeErr (ce : CfgE) (m : Mem) : CfgE :=
  let c := ce.base
  match m.waiting with
  | [] => ce
  | r :: rest =>
    if m.size + c.k.sizeof r > c.k.cap then { ce with base := doWake c m }
    else ce.failed { c with ph := .live { m with waiting := rest } .idle, res := .err }

/-- `getNextItem`'s batch fails.  The code has already advanced `readIndex` and appended the index ("so even if errors
    happen below, it always iterates"), now calls `itemDispatchingFinish(index)` — which removes the index from the
    in-memory list and then tries to DELETE the item — and `Read`'s loop goes on to the next item: the request is given up. -/
def doReadErr (ce : CfgE) (m : Mem) : CfgE :=
  let c := ce.base
  if m.stopped then { ce with base := doRead c m }
  else if m.ri = m.wi then { ce with base := doRead c m }
  else
    let m' := { m with ri := m.ri + 1, cdi := swapRemove (m.cdi ++ [m.ri]) m.ri,
                       size := if m.ri + 1 = m.wi then 0 else m.size }
    ce.failed { c with ph := .live m' (.fin1 m.ri .read), res := .none } (itemsAt c.st [m.ri])

/-- `onDone(final)`: the first batch of `itemDispatchingFinish` fails → first fallback pending -/
def doDoneErr (ce : CfgE) (m : Mem) (i : Nat) (oc : Outcome) : CfgE :=
  let c := ce.base
  match m.outst.lookup i with
  | none => { ce with base := doDone c m i oc }
  | some r =>
    match oc with
    | .shutdownErr => { ce with base := doDone c m i oc }       -- no storage call
    | .final =>
      let m1 := { m with outst := m.outst.filter (fun p => p.1 != i), size := m.size - c.k.sizeof r,
                         cdi := swapRemove m.cdi i }
      ce.failed { c with finalised := r :: c.finalised, ph := .live m1 (.fin2 i .done), res := .doneOk }

/-- `Shutdown`: `Set si` fails; the error is returned, the queue is stopped all the same -/
def doShutdownErr (ce : CfgE) (m : Mem) : CfgE :=
  let c := ce.base
  if c.k.reqSized then { ce with base := doShutdown c m }
  else ce.failed { c with ph := .live { m with stopped := true } .idle, res := .err }

/-- `initPersistentContiguousStorage`: `Batch(get ri, get wi)` fails → "starting with new ones": both indexes 0 -/
def doStartErr (ce : CfgE) : CfgE :=
  { ce.failed { ce.base with ph := .live { ri := 0, wi := 0, size := 0 } .init1, res := .none } with poisoned := true }

/-- `retrieveAndEnqueueNotDispatchedReqs`: `Get di` fails → logged, recovery skipped; the in-memory dispatched list is
    empty, so the next dequeue overwrites `di`: the dispatched requests are given up -/
def doGetDiErr (ce : CfgE) (m : Mem) : CfgE :=
  ce.failed { ce.base with ph := .live m .idle } (itemsAt ce.base.st ce.base.st.di)

/-- recovery loop: the batch for the head of `todo` fails → counted, loop continues; a later successful batch writes
    the remaining list without this index: the request is given up -/
def doMoveErr (ce : CfgE) (m : Mem) (todo : List (Nat × Option Req)) : CfgE :=
  let c := ce.base
  match todo with
  | [] => { ce with base := doMove c m [] }
  | (_, none) :: rest => ce.failed { c with ph := .live m (afterMove rest) }
  | (_, some r) :: rest => ce.failed { c with ph := .live m (afterMove rest) } [r]

def doTickErr (ce : CfgE) (m : Mem) : Pc → CfgE
  | .idle => ce
  | .backup => ce.failed { ce.base with ph := .live m .idle }                           -- logged only
  | .readRet i r => { ce with base := doTick ce.base m (.readRet i r) }                 -- no storage call
  | .readFin i => ce.failed { ce.base with ph := .live { m with cdi := swapRemove m.cdi i } (.fin2 i .read) }
  | .readLoop => doReadErr ce m
  | .init1 =>
    if m.size > 0 ∧ ce.base.k.reqSized = false then ce.failed { ce.base with ph := .live m .init2 }   -- size kept
    else doGetDiErr ce m
  | .init2 => doGetDiErr ce m
  | .init3 ds => ce.failed { ce.base with ph := .live m .idle } (itemsAt ce.base.st ds)  -- retrieve failed: return
  | .moving todo => doMoveErr ce m todo
  | .movingBackup todo => ce.failed { ce.base with ph := .live m (afterMove todo) }
  | .fin1 i k => ce.failed { ce.base with ph := .live m (.fin2 i k) }
  | .fin2 _ k => ce.failed { ce.base with ph := .live m (finCont ce.base.k m k) }         -- error returned, logged
  | .fin3 _ k => ce.failed { ce.base with ph := .live m (finCont ce.base.k m k) }

/-- the firing `l` whose storage call (if it makes one) returns an error -/
def fireErr (ce : CfgE) : Label → CfgE
  | .crash => { ce with base := fire ce.base .crash }
  | .start => match ce.base.ph with
    | .dead => doStartErr ce
    | _ => ce
  | .tick => match ce.base.ph with
    | .live m pc => doTickErr ce m pc
    | .dead => ce
  | .offer r => match ce.base.ph with
    | .live m .idle => doOfferErr ce m r
    | _ => ce
  | .read => match ce.base.ph with
    | .live m .idle => doReadErr ce m
    | _ => ce
  | .done i oc => match ce.base.ph with
    | .live m .idle => doDoneErr ce m i oc
    | _ => ce
  | .shutdown => match ce.base.ph with
    | .live m .idle => doShutdownErr ce m
    | _ => ce
  | .wake => match ce.base.ph with
    | .live m .idle => doWakeErr ce m
    | _ => ce
  | .cancel j => { ce with base := fire ce.base (.cancel j) }
  | .promote j => { ce with base := fire ce.base (.promote j) }

def fireE (ce : CfgE) : LabelE → CfgE
  | .fail b => { ce with failNext := b }
  | .op l => if ce.failNext then fireErr ce l else { ce with base := fire ce.base l }

def initE (k : Conf) : CfgE := { base := init k }

def runE (k : Conf) (ls : List LabelE) : CfgE := ls.foldl fireE (initE k)

end OtelVerif.C01
