import OtelVerif.Model.C01
import OtelVerif.Model.C01Classify
/-!
# C01 — the glue between the persistent queue and the export function

The queue machine of `Model/C01.lean` takes `read` and `done i outcome` as free labels.  In the repository these two are
issued by nobody but the consumer goroutines of `asyncQueue`, and what lies between them is code of this repository:

* `async_queue.go`  `asyncQueue.Start`: `numConsumers` goroutines, each `for { ctx, req, done, ok := Read(); if !ok { return };
  consumeFunc(ctx, req, done) }`;
* `disabled_batcher.go`  `disabledBatcher.Consume`: `done.OnDone(db.consumeFunc(ctx, req))`;
* `queue_sender.go`  `NewQueueSender.exportFunc`: `next.Send(ctx, req)`, the error is returned as it is;
* `retry_sender.go`  `retrySender.Send` (present iff retry is enabled): attempt; nil → nil; permanent → wrapped error;
  otherwise back off, and the wait ends with "no more retries" / context done (wrapped plain error), with `stopCh` closed
  (`experr.NewShutdownErr(err)`), or with the timer (next attempt);
* `persistent_queue.go`  `indexDone.OnDone` → `onDone(index, size, err)`, which classifies with `experr.IsShutdownErr`
  (`outcomeOf`, `Model/C01Classify.lean`);
* `base_exporter.go`  `Shutdown`: retry sender first (`close(stopCh)`), then the queue.

`GCfg` = queue configuration + one program counter per consumer goroutine + `stopCh`.  `fireG` fires AT MOST ONE label of
the queue machine per glue label (recorded in the ghost `emitted`), so the queue component of every glue run is a run of
the queue machine (`C01_glue_refines_queue`) and every theorem of `Props/C01.lean` holds for it.  The export function
itself (what `next.Send` does and returns) and the scheduler are the environment: labels `expRet`, `backoffEnd`, and the
choice of `j`.  Ghost histories: `invoked` (the export function was called with the request), `returned` (a call of it
with the request has returned).
-/
namespace OtelVerif.C01

/-- what the export function (`next.Send` below the retry sender) returned: nil, or an arbitrary error tree together
    with `consumererror.IsPermanent(err)` -/
inductive ExpRes
  | ok
  | err (t : ErrTree) (permanent : Bool)
deriving DecidableEq, Repr

/-- how the wait after a retryable failure ends in `retrySender.Send` -/
inductive BackoffEnd
  | exhausted   -- `NextBackOff() = Stop` / max elapsed time / deadline before the next retry: "no more retries left: %w"
  | ctxDone     -- request context cancelled or timed out: "request is cancelled or timed out: %w"
  | stop        -- `<-rs.stopCh` (enabled only once `stopCh` is closed): `experr.NewShutdownErr(err)`
  | timer       -- the back-off elapsed: next attempt
deriving DecidableEq, Repr

/-- program counter of one consumer goroutine of `asyncQueue` -/
inductive CPc
  | idle                                         -- head of the loop: about to call `Read`
  | inQueue                                      -- inside `Read` or `onDone` (see `GCfg.inOp`)
  | got (i : Nat) (r : Req)                      -- `Read` returned (i, r); `consumeFunc` not yet entered
  | sending (i : Nat) (r : Req)                  -- the export function is running on r
  | backoff (i : Nat) (r : Req) (t : ErrTree)    -- retry sender: the attempt failed with the retryable error t; waiting
  | ret (i : Nat) (r : Req) (e : Option ErrTree) -- `consumeFunc` returned e; `done.OnDone(e)` not yet entered
  | exited                                       -- `Read` returned !ok: the goroutine has returned
deriving DecidableEq, Repr

inductive OpK
  | read
  | done
deriving DecidableEq, Repr

structure GConf where
  /-- `numConsumers` -/
  n : Nat := 1
  /-- `retry_on_failure::enabled`: is there a `retrySender` below the queue -/
  retry : Bool := true
deriving Repr

structure GCfg where
  gk : GConf
  q : Cfg
  cons : List CPc := []
  /-- the consumer that is inside a queue operation (holds the queue mutex), and which operation -/
  inOp : Option (Nat × OpK) := none
  /-- `retrySender.stopCh` is closed -/
  stopCh : Bool := false
  invoked : List Req := []
  returned : List Req := []
  /-- ghost: the labels of the queue machine fired so far, newest first -/
  emitted : List Label := []

inductive GLabel
  /-- producers, `Start`/`Shutdown` of the queue, the passage of one storage call (`tick`), process death.  `read` and
      `done` are NOT available to the environment: only consumers issue them (`cRead`, `cDone`). -/
  | env (l : Label)
  | cRead (j : Nat)                       -- consumer j calls `Read`
  | cInvoke (j : Nat)                     -- consumer j: `consumeFunc` → `Consume` → `exportFunc` → (`retrySender.Send` →) `next.Send`
  | expRet (j : Nat) (res : ExpRes)       -- the export function returns to consumer j
  | backoffEnd (j : Nat) (why : BackoffEnd)
  | cDone (j : Nat)                       -- consumer j calls `done.OnDone(e)`
  | rsShutdown                            -- `retrySender.Shutdown`: `close(stopCh)`
deriving Repr

/-- fire one label of the queue machine -/
def qfire (g : GCfg) (l : Label) : GCfg := { g with q := fire g.q l, emitted := l :: g.emitted }

/-- the queue operation a consumer is inside has returned without an item: `Read` → stopped (`!ok`: the goroutine returns)
    or nothing to read (it waits in `hasMoreElements.Wait`, i.e. it is back at the head of `Read`'s loop); `onDone` →
    back at the head of the consumer loop -/
def settle (g : GCfg) : GCfg :=
  match g.inOp with
  | none => g
  | some (j, k) =>
    if g.q.idle then
      { g with inOp := none,
               cons := g.cons.set j (match k, g.q.res with
                 | .read, .readStopped => .exited
                 | _, _ => .idle) }
    else g

/-- error returned by `retrySender.Send` (or by `next.Send` itself without retry sender) for an attempt that failed
    permanently -/
def permErr (retry : Bool) (t : ErrTree) : ErrTree := if retry then .wrap t else t

def fireG (g : GCfg) : GLabel → GCfg
  | .env .read => g
  | .env (.done _ _) => g
  | .env .crash => { qfire g .crash with cons := [], inOp := none }
  | .env .start =>
    match g.q.ph with
    | .dead => { qfire g .start with cons := List.replicate g.gk.n .idle, inOp := none, stopCh := false }
    | _ => g
  | .env .tick =>
    match g.q.ph, g.inOp with
    | .live _ (.readRet i r), some (j, .read) =>
      -- `Read` returns the item to the consumer that called it
      { qfire g .tick with inOp := none, cons := g.cons.set j (.got i r) }
    | _, _ => settle (qfire g .tick)
  | .env l => settle (qfire g l)
  | .cRead j =>
    if g.inOp = none ∧ g.q.idle = true ∧ g.cons[j]? = some .idle then
      settle { qfire g .read with inOp := some (j, .read), cons := g.cons.set j .inQueue }
    else g
  | .cInvoke j =>
    match g.cons[j]? with
    | some (.got i r) => { g with cons := g.cons.set j (.sending i r), invoked := r :: g.invoked }
    | _ => g
  | .expRet j res =>
    match g.cons[j]? with
    | some (.sending i r) =>
      let g1 := { g with returned := r :: g.returned }
      match res with
      | .ok => { g1 with cons := g.cons.set j (.ret i r none) }
      | .err t perm =>
        if g.gk.retry = false ∨ perm = true then { g1 with cons := g.cons.set j (.ret i r (some (permErr g.gk.retry t))) }
        else { g1 with cons := g.cons.set j (.backoff i r t) }
    | _ => g
  | .backoffEnd j why =>
    match g.cons[j]? with
    | some (.backoff i r t) =>
      match why with
      | .exhausted => { g with cons := g.cons.set j (.ret i r (some (.wrap t))) }
      | .ctxDone => { g with cons := g.cons.set j (.ret i r (some (.wrap t))) }
      | .stop => if g.stopCh then { g with cons := g.cons.set j (.ret i r (some (.shutdown t))) } else g
      | .timer => { g with cons := g.cons.set j (.sending i r), invoked := r :: g.invoked }
    | _ => g
  | .cDone j =>
    if g.inOp = none ∧ g.q.idle = true then
      match g.cons[j]? with
      | some (.ret i _ e) =>
        settle { qfire g (.done i (outcomeOf e)) with inOp := some (j, .done), cons := g.cons.set j .inQueue }
      | _ => g
    else g
  | .rsShutdown => { g with stopCh := true }

def initG (gk : GConf) (k : Conf) : GCfg := { gk := gk, q := init k }

def runG (gk : GConf) (k : Conf) (ls : List GLabel) : GCfg := ls.foldl fireG (initG gk k)

/-- the hand-off (index, request) a consumer goroutine holds: `Read` returned it and `OnDone` was not yet entered -/
def CPc.held : CPc → Option (Nat × Req)
  | .got i r => some (i, r)
  | .sending i r => some (i, r)
  | .backoff i r _ => some (i, r)
  | .ret i r _ => some (i, r)
  | _ => none

end OtelVerif.C01
