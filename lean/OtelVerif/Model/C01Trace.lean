/-!
# C01 — trace-level statement of the property and its executable checker (search oracle)

Events are what the harness observes on the IMPLEMENTATION (never the model's opinion):
`accept id`  an `Offer` of request `id` returned nil;
`hand id`    `Read` returned request `id` (any incarnation);
`final id`   the `Done` callback of a hand-off of `id` was called with a final (non-shutdown) outcome;
`dump ids`   after an operation: the ids of the requests that are stored AND reachable from the durable
             indexes (under a key in `di`, or under a key in `[ri, wi)`), decoded by the harness from the
             raw bytes of the storage map.
-/
namespace OtelVerif.C01

inductive Ev
  | accept (id : Nat)
  | hand (id : Nat)
  | final (id : Nat)
  | dump (ids : List Nat)
deriving DecidableEq, Repr

structure TState where
  accepted : List Nat := []
  finalised : List Nat := []
  handed : List Nat := []
  /-- first accepted, not finalised request found missing at a dump (with the dump's position) -/
  lost : Option (Nat × Nat) := none
  pos : Nat := 0

def TState.step (s : TState) : Ev → TState
  | .accept id => { s with accepted := id :: s.accepted, pos := s.pos + 1 }
  | .hand id => { s with handed := id :: s.handed, pos := s.pos + 1 }
  | .final id => { s with finalised := id :: s.finalised, pos := s.pos + 1 }
  | .dump ids =>
    match s.lost, s.accepted.find? (fun id => !(s.finalised.contains id) && !(ids.contains id)) with
    | none, some id => { s with lost := some (id, s.pos), pos := s.pos + 1 }
    | _, _ => { s with pos := s.pos + 1 }

def traceState (t : List Ev) : TState := t.foldl TState.step {}

/-- clause 2 of the property: at every dump every accepted request is still stored or was finalised -/
def checkStored (t : List Ev) : Bool := (traceState t).lost.isNone

/-- clause 1: every accepted request was handed over at least once (meaningful on traces that end with a
    restart and a complete drain, which every harness case does) -/
def checkHanded (t : List Ev) : Bool :=
  let s := traceState t
  s.accepted.all (fun id => s.handed.contains id)

def neverHanded (t : List Ev) : Option Nat :=
  let s := traceState t
  s.accepted.find? (fun id => !(s.handed.contains id))

end OtelVerif.C01
