/-! C02 model (stub) -/
namespace OtelVerif.C02
end OtelVerif.C02
