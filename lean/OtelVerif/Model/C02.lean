/-!
# C02 model: in-memory sending queue + context-aware condition variable, as an interleaving LTS

Mirrors `exporter/exporterhelper/internal/queuebatch/memory_queue.go` (`Offer`, `add`, `Read`, `onDone`,
`Shutdown`, `linkedQueue`, `blockingDone`) and `cond.go` **as repaired** (space is freed with `Broadcast`, `Shutdown` broadcasts to the producers too; per-waiter channels: `Signal`
closes the channel of the first registered waiter and therefore never blocks; a cancelled waiter that
finds itself already signalled forwards the signal).  The pinned `cond.go` (one shared channel of
capacity 1, `Signal` sends while holding the lock) is modelled separately in `Model/C02Pinned.lean`,
where its reachable deadlock is exhibited.

Granularity: one transition per mutex critical section and one per `select` exit.  A critical
section is atomic because (a) every access to the shared fields happens under `mu`, and (b) no
operation inside a critical section can block: `close(ch)`, `sync.Cond.Signal/Broadcast`, and the send
on the fresh capacity-1 `blockingDone.ch` (trusted Go semantics, see trusted base).

Threads: any number.  Producer `p` performs one `Offer` of the request with id `p`; consumers call
`Read` any number of times; `complete id e` is `Done.OnDone(e)` for a handed-over request, by any
goroutine; `cancel p` ends producer `p`'s context; `shutdown` is `Shutdown`.

`sync.Cond` (`hasMoreElements`) is modelled exactly (Go's `sync.Cond` has no spurious wake-ups): a consumer that
finds nothing to read parks (`cwait`, arrival order); `Signal` moves the longest-parked consumer to `cwoken`,
`Broadcast` moves all; a woken consumer re-acquires the lock and re-evaluates the loop of `Read` (`recheck`), and
parks again if there is still nothing to read.
-/
namespace OtelVerif.C02

/-- pointwise update of a thread map -/
def upd {α : Type} (f : Nat → α) (i : Nat) (a : α) : Nat → α := fun j => if j = i then a else f j

@[simp] theorem upd_same {α : Type} (f : Nat → α) (i : Nat) (a : α) : upd f i a i = a := by simp [upd]
theorem upd_other {α : Type} (f : Nat → α) (i j : Nat) (a : α) (h : j ≠ i) : upd f i a j = f j := by simp [upd, h]

structure Cfg where
  cap : Int
  block : Bool     -- block_on_overflow
  wfr : Bool       -- wait_for_result
deriving Repr, DecidableEq

/-- what `Offer` returned -/
inductive Res
  | ok                 -- nil (zero-sized request ignored, or enqueued without wait_for_result)
  | invalid            -- errInvalidSize
  | tooLarge           -- errSizeTooLarge
  | full               -- ErrQueueIsFull
  | ctxErr             -- ctx.Err()
  | stopped            -- errQueueIsStopped: offered (or released from the overflow wait) after Shutdown
  | result (e : Nat)   -- wait_for_result: the error passed to OnDone (0 = nil)
deriving Repr, DecidableEq

/-- where a producer goroutine is -/
inductive Ph
  | idle               -- has not called Offer
  | sel                -- in `select` inside cond.Wait
  | wokenTok           -- left the select through its own (closed) channel, about to `L.Lock()`
  | wokenCtx           -- left the select through ctx.Done(), about to `L.Lock()`
  | waitRes            -- enqueued, in the `select` on done.ch / ctx.Done()  (wait_for_result)
  | done (r : Res)     -- Offer returned r
deriving Repr, DecidableEq

structure P where
  ph : Ph := .idle
  el : Int := 0          -- size of the request
  sig : Bool := false    -- this waiter's channel has been closed by Signal
  canc : Bool := false   -- ctx.Done() is closed
deriving Repr, DecidableEq

structure St where
  ps : Nat → P := fun _ => {}
  waiters : List Nat := []            -- cond.waiters, arrival order
  items : List (Nat × Int) := []      -- linkedQueue, head first: (id, size)
  inflight : List (Nat × Int) := []   -- popped by Read, OnDone not called yet
  size : Int := 0                     -- mq.size
  stopped : Bool := false
  cwait : List Nat := []              -- consumers parked in hasMoreElements.Wait(), arrival order
  cwoken : List Nat := []             -- consumers notified by Signal/Broadcast that have not re-taken the lock yet
  results : List (Nat × Nat) := []    -- blockingDone.ch contents: (id, err) sent, not received yet
  -- history
  accepted : List Nat := []           -- ids in the order `add` pushed them
  refused : List Nat := []            -- ids whose Offer returned without pushing (error)
  handed : List Nat := []             -- ids in the order Read popped them
  finished : List Nat := []           -- ids whose OnDone ran
  outcomes : List (Nat × Nat) := []   -- (id, err) of every OnDone

inductive Label
  | offer (p : Nat) (el : Int)
  | cancel (p : Nat)
  | wakeTok (p : Nat) | wakeCtx (p : Nat) | relockTok (p : Nat) | relockCtx (p : Nat)
  | getRes (p : Nat) | resCtx (p : Nat)
  | read (c : Nat) | recheck (c : Nat)
  | complete (id : Nat) (e : Nat)
  | shutdown
deriving Repr, DecidableEq

def setP (s : St) (p : Nat) (x : P) : St := { s with ps := upd s.ps p x }

/-- `cond.Signal()`: close the channel of the first registered waiter -/
def condSignal (s : St) : St :=
  match s.waiters with
  | [] => s
  | w :: ws => { s with waiters := ws, ps := upd s.ps w { s.ps w with sig := true } }

/-- `cond.Broadcast()`: close the channel of every registered waiter; each of them re-evaluates its own condition -/
def condBroadcast (s : St) : St :=
  { s with waiters := [], ps := fun q => if q ∈ s.waiters then { s.ps q with sig := true } else s.ps q }

/-- Offer returns an error without having pushed -/
def refuse (s : St) (p : Nat) (r : Res) : St :=
  { s with refused := s.refused ++ [p], ps := upd s.ps p { s.ps p with ph := .done r, sig := false } }

/-- `add` after the loop: `size += elSize; items.push; hasMoreElements.Signal()` (the longest-parked consumer, if
any, is notified: `cwait.drop 1` / `cwait.take 1`) -/
def accept (k : Cfg) (s : St) (p : Nat) (el : Int) : St :=
  { s with size := s.size + el, items := s.items ++ [(p, el)], accepted := s.accepted ++ [p],
           cwait := s.cwait.drop 1, cwoken := s.cwoken ++ s.cwait.take 1,
           ps := upd s.ps p { s.ps p with ph := if k.wfr then .waitRes else .done .ok, el := el, sig := false } }

/-- `cond.Wait` up to the select: append a fresh channel, unlock -/
def register (s : St) (p : Nat) (el : Int) : St :=
  { s with waiters := s.waiters ++ [p], ps := upd s.ps p { s.ps p with ph := .sel, el := el, sig := false } }

/-- one evaluation of the `for mq.size+elSize > mq.cap` loop of `add`, holding the lock, followed (when the element fits)
by `if mq.stopped { return errQueueIsStopped }` -/
def tryAdd (k : Cfg) (s : St) (p : Nat) (el : Int) : St :=
  if s.size + el > k.cap then
    if k.block then
      if s.stopped then refuse s p .stopped   -- inside the loop, before Wait: nobody waits for space on a stopped queue
      else register s p el
    else refuse s p .full
  else if s.stopped then refuse s p .stopped   -- the guard AFTER the overflow loop, still under the lock
  else accept k s p el

/-- `items.pop()` inside Read -/
def pop (s : St) : Option St :=
  match s.items with
  | [] => none
  | (id, el) :: t => some { s with items := t, inflight := s.inflight ++ [(id, el)], handed := s.handed ++ [id] }

/-- `cond.Wait`, ctx branch after `L.Lock()`: `if !c.remove(ch) { c.Signal() }` -/
def ctxCleanup (s : St) (p : Nat) : St :=
  if p ∈ s.waiters then { s with waiters := s.waiters.erase p } else condSignal s

/-- `onDone`: `size -= elSize; hasMoreSpace.Broadcast(); if waitForResult { bd.ch <- err }` -/
def finish (k : Cfg) (s : St) (id : Nat) (el : Int) (e : Nat) : St :=
  let s1 := condBroadcast { s with size := s.size - el, inflight := s.inflight.filter (fun x => x.1 != id),
                                   finished := s.finished ++ [id], outcomes := s.outcomes ++ [(id, e)] }
  if k.wfr then { s1 with results := s1.results ++ [(id, e)] } else s1

def fire (k : Cfg) (s : St) : Label → Option St
  | .offer p el =>
    if (s.ps p).ph = .idle then
      if el = 0 then some (setP s p { s.ps p with ph := .done .ok })
      else if el < 0 then some (refuse s p .invalid)
      else if el > k.cap then some (refuse s p .tooLarge)
      else some (tryAdd k s p el)
    else none
  | .cancel p => some (setP s p { s.ps p with canc := true })
  | .wakeTok p =>
    if (s.ps p).ph = .sel ∧ (s.ps p).sig = true then some (setP s p { s.ps p with ph := .wokenTok }) else none
  | .wakeCtx p =>
    if (s.ps p).ph = .sel ∧ (s.ps p).canc = true then some (setP s p { s.ps p with ph := .wokenCtx }) else none
  | .relockTok p =>
    if (s.ps p).ph = .wokenTok then some (tryAdd k s p (s.ps p).el) else none
  | .relockCtx p =>
    if (s.ps p).ph = .wokenCtx then some (refuse (ctxCleanup s p) p .ctxErr) else none
  | .getRes p =>
    if (s.ps p).ph = .waitRes then
      match s.results.lookup p with
      | some e => some { s with results := s.results.filter (fun x => x.1 != p),
                                ps := upd s.ps p { s.ps p with ph := .done (.result e) } }
      | none => none
    else none
  | .resCtx p =>
    if (s.ps p).ph = .waitRes ∧ (s.ps p).canc = true then some (setP s p { s.ps p with ph := .done .ctxErr }) else none
  | .read c =>
    if c ∈ s.cwait ++ s.cwoken then none else
    match pop s with
    | some s' => some s'
    | none => if s.stopped then some s else some { s with cwait := s.cwait ++ [c] }
  | .recheck c =>
    if c ∈ s.cwoken then
      match pop s with
      | some s' => some { s' with cwoken := s'.cwoken.erase c }
      | none => if s.stopped then some { s with cwoken := s.cwoken.erase c }
                else some { s with cwoken := s.cwoken.erase c, cwait := s.cwait ++ [c] }
    else none
  | .complete id e =>
    match s.inflight.lookup id with
    | some el => some (finish k s id el e)
    | none => none
  | .shutdown => some (condBroadcast { s with stopped := true, cwait := [], cwoken := s.cwoken ++ s.cwait })

/-- run a schedule; `none` if some label is not enabled -/
def runSched (k : Cfg) : St → List Label → Option St
  | s, [] => some s
  | s, l :: ls => match fire k s l with
    | some s' => runSched k s' ls
    | none => none

/-- reachable from the initial state by some schedule -/
def Reachable (k : Cfg) (s : St) : Prop := ∃ ls, runSched k {} ls = some s

/-- labels that model the goroutines' own progress (as opposed to the environment: offer, cancel, read,
complete, shutdown) -/
def Label.internal : Label → Bool
  | .wakeTok _ | .wakeCtx _ | .relockTok _ | .relockCtx _ | .getRes _ | .resCtx _ | .recheck _ => true
  | _ => false

/-! ## cond.go alone (repaired), for the scheduler-controlled cond harness -/

inductive CRes | nil | ctx
deriving Repr, DecidableEq

inductive CPh | idle | sel | wokenTok | wokenCtx | done (r : CRes)
deriving Repr, DecidableEq

structure W where
  ph : CPh := .idle
  sig : Bool := false
  canc : Bool := false
deriving Repr, DecidableEq

structure CSt where
  ws : Nat → W := fun _ => {}
  waiters : List Nat := []
  signals : Nat := 0      -- Signal calls that found a registered waiter (incl. forwarded ones)

inductive CLabel
  | wait (i : Nat) | cancel (i : Nat) | wakeTok (i : Nat) | wakeCtx (i : Nat) | relockTok (i : Nat) | relockCtx (i : Nat)
  | signal | broadcast
deriving Repr, DecidableEq

def CSt.signal (s : CSt) : CSt :=
  match s.waiters with
  | [] => s
  | w :: ws => { s with waiters := ws, ws := upd s.ws w { s.ws w with sig := true }, signals := s.signals + 1 }

def CSt.broadcast (s : CSt) : CSt :=
  { s with waiters := [], ws := fun j => if j ∈ s.waiters then { s.ws j with sig := true } else s.ws j }

def cfire (s : CSt) : CLabel → Option CSt
  | .wait i =>
    if (s.ws i).ph = .idle then
      some { s with waiters := s.waiters ++ [i], ws := upd s.ws i { s.ws i with ph := .sel, sig := false } }
    else none
  | .cancel i => some { s with ws := upd s.ws i { s.ws i with canc := true } }
  | .wakeTok i =>
    if (s.ws i).ph = .sel ∧ (s.ws i).sig = true then some { s with ws := upd s.ws i { s.ws i with ph := .wokenTok } } else none
  | .wakeCtx i =>
    if (s.ws i).ph = .sel ∧ (s.ws i).canc = true then some { s with ws := upd s.ws i { s.ws i with ph := .wokenCtx } } else none
  | .relockTok i =>
    if (s.ws i).ph = .wokenTok then some { s with ws := upd s.ws i { s.ws i with ph := .done .nil, sig := false } } else none
  | .relockCtx i =>
    if (s.ws i).ph = .wokenCtx then
      let s1 := if i ∈ s.waiters then { s with waiters := s.waiters.erase i } else s.signal
      some { s1 with ws := upd s1.ws i { s1.ws i with ph := .done .ctx, sig := false } }
    else none
  | .signal => some s.signal
  | .broadcast => some s.broadcast

def crun : CSt → List CLabel → Option CSt
  | s, [] => some s
  | s, l :: ls => match cfire s l with
    | some s' => crun s' ls
    | none => none

end OtelVerif.C02
