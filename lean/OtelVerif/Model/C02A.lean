import OtelVerif.Model.C02P
/-!
# C02 model of `async_queue.go`: the consumer pool in front of the memory / persistent queue

`asyncQueue.Start` launches `numConsumers` goroutines, each running

    for { ctx, req, done, ok := qc.Read(ctx); if !ok { return }; qc.consumeFunc(ctx, req, done) }

The pool is modelled as a layer over the queue LTS (`fire` / `pfire`): a consumer is at the top of its loop (`loop`, about to
call `Read`), parked inside `Read` (`parked`: in `hasMoreElements.Wait()`), inside `consumeFunc` with the request it was
handed (`busy id`), or gone (`exited`: `Read` returned `ok = false`).  Labels: a consumer calls `Read` (`cread`), a notified
consumer re-takes the lock inside `Read` (`crecheck`), `consumeFunc` returns (`cret`); every other label is a label of the
queue LTS (`q l`: Offer, cancel, the producers' own steps, `OnDone`, `Shutdown`) — `read` / `recheck` of the queue can only be
taken by the pool's consumers.  `OnDone` of a handed request is independent of `cret`: `consumeFunc` may complete the
request itself (no batcher) or hand it to a batcher that completes it later from another goroutine.
(`Shutdown`'s `stopWG.Wait()` belongs to the shutdown protocol, C03.)
-/
namespace OtelVerif.C02.A

open OtelVerif.C02

inductive CPh
  | loop | parked | busy (id : Nat) | exited
deriving Repr, DecidableEq

structure Pool where
  n : Nat                -- numConsumers
  persistent : Bool

structure ASt where
  q : St := {}
  cs : Nat → CPh := fun _ => .loop

inductive ALabel
  | q (l : Label)
  | cread (c : Nat)
  | crecheck (c : Nat)
  | cret (c : Nat)
deriving Repr, DecidableEq

def fireQ (k : Cfg) (pl : Pool) (s : St) (l : Label) : Option St := if pl.persistent then pfire k s l else fire k s l

/-- where a consumer is after `Read` took the lock and went through its loop once: it got the request that was just
popped, it sleeps on `hasMoreElements`, or `Read` returned `false` -/
def after (q q' : St) (c : Nat) : CPh :=
  if q'.handed.length > q.handed.length then .busy (q'.handed.getLast?.getD 0)
  else if c ∈ q'.cwait then .parked
  else .exited

def afire (k : Cfg) (pl : Pool) (a : ASt) : ALabel → Option ASt
  | .q l =>
    match l with
    | .read _ => none
    | .recheck _ => none
    | l => (fireQ k pl a.q l).map (fun q' => { a with q := q' })
  | .cread c =>
    if c < pl.n ∧ a.cs c = .loop then
      (fireQ k pl a.q (.read c)).map (fun q' => { q := q', cs := upd a.cs c (after a.q q' c) })
    else none
  | .crecheck c =>
    if c < pl.n ∧ a.cs c = .parked then
      (fireQ k pl a.q (.recheck c)).map (fun q' => { q := q', cs := upd a.cs c (after a.q q' c) })
    else none
  | .cret c =>
    match a.cs c with
    | .busy _ => if c < pl.n then some { a with cs := upd a.cs c .loop } else none
    | _ => none

def arun (k : Cfg) (pl : Pool) : ASt → List ALabel → Option ASt
  | a, [] => some a
  | a, l :: ls => match afire k pl a l with
    | some a' => arun k pl a' ls
    | none => none

def AReachable (k : Cfg) (pl : Pool) (a : ASt) : Prop := ∃ ls, arun k pl {} ls = some a

/-- the queue label a pool label stands for (`cret` is invisible to the queue) -/
def ALabel.proj : ALabel → Option Label
  | .q l => some l
  | .cread c => some (.read c)
  | .crecheck c => some (.recheck c)
  | .cret _ => none

/-- steps the goroutines take on their own: the producers' own steps, and every step of a consumer of the pool except the
return of `consumeFunc` (which belongs to the exporter) -/
def ALabel.internal : ALabel → Bool
  | .q l => l.internal
  | .cread _ => true
  | .crecheck _ => true
  | .cret _ => false

def AQuiescent (k : Cfg) (pl : Pool) (a : ASt) : Prop := ∀ l, ALabel.internal l = true → afire k pl a l = none

/-! ## oracle clauses on the implementation's observations (proved sound in `Props/C02.lean`) -/

/-- the pool is work-conserving: at rest a request is queued only while every consumer is inside `consumeFunc` (the persistent
queue's consumers leave at `Shutdown`; with a `consumeFunc` that returns at once nobody is ever busy at rest) -/
def workClause (n : Nat) (persistent deferred stopped : Bool) (queued busy : Nat) : Bool :=
  (persistent && stopped) || queued == 0 || (!deferred && busy == n)

/-- no request is inside `consumeFunc` twice: `left` = requests whose `consumeFunc` has returned, `busy` = those inside now -/
def onceClause (left busy : List Nat) : Bool := busy.all (fun id => !left.contains id) && busy.eraseDups.length == busy.length

end OtelVerif.C02.A
