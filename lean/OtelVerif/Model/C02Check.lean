/-!
# C02 search oracle: the property's clauses evaluated directly on what the IMPLEMENTATION showed

Independent of the LTS model (`Model/C02.lean`): it looks only at the op lines and at the
implementation's `obs size=… Q=… P=… C=…` snapshots taken at quiescence after every label, and checks
each clause of the property statement.  `fifoStep` is the core of the exactly-once/FIFO clause and is
proved sound in `Props/C02.lean` (`C02_check_fifo_sound`).
-/
namespace OtelVerif.C02.Check

/-- one step of the FIFO discipline: the queue `q` became `q'` while the ids `h` were handed to
consumers; returns the ids that must have been pushed in between, or `none` if no push sequence explains it -/
def fifoStep (q h q' : List Nat) : Option (List Nat) :=
  let total := h ++ q'
  if q.isPrefixOf total then some (total.drop q.length) else none

/-- fold `fifoStep` over a trace of (handed-in-this-step, queue-after) pairs: returns (accepted in order, handed in order, final queue) -/
def fifoRun : List Nat × List Nat × List Nat → List (List Nat × List Nat) → Option (List Nat × List Nat × List Nat)
  | st, [] => some st
  | (acc, handed, q), (h, q') :: rest =>
    match fifoStep q h q' with
    | some a => fifoRun (acc ++ a, handed ++ h, q') rest
    | none => none

/-! ### the remaining clauses as pure functions (proved sound in `Props/C02.lean`, `C02_check_*_sound`) -/

/-- size clause: within `[0, cap]`; memory queue: equal to the summed size of the unfinished requests;
persistent queue: at most that sum, and 0 when nothing is unfinished -/
def sizeClause (persistent : Bool) (cap size unfinishedSum : Int) (noneUnfinished : Bool) : Bool :=
  decide (0 ≤ size) && decide (size ≤ cap) &&
  (if persistent then decide (size ≤ unfinishedSum) && (!noneUnfinished || size == 0) else size == unfinishedSum)

/-- size clause for a persistent queue restarted on non-empty storage (`C02_persistent_size_any_start`): never negative,
never above max(capacity, restored size); whenever nothing is queued at most the summed size of what is in flight, hence
0 when nothing is unfinished.  (`size ≤ capacity` and `size ≤ Σ unfinished` are NOT promised before the queue has been
read empty once: the snapshot may be stale, the capacity may have been lowered.) -/
def sizeClauseRestart (cap restored size inflightSum : Int) (queuedNone noneUnfinished : Bool) : Bool :=
  decide (0 ≤ size) && (decide (size ≤ cap) || decide (size ≤ restored)) &&
  (!queuedNone || decide (size ≤ inflightSum)) && (!noneUnfinished || size == 0)

/-- what an Offer of size `el` must return at once, given the size reported before it and whether `Shutdown` has been
called: the refusal rule (memory queue: a non-blocking queue answers "full" first; a stopped queue neither accepts nor
lets anybody wait) -/
def expectedRefusal (persistent block stopped : Bool) (cap sizeBefore el : Int) : String :=
  if persistent then
    if sizeBefore + el > cap then (if !block then "full" else if el > cap then "big" else "") else ""
  else
    if el == 0 then "" else if el < 0 then "inv" else if el > cap then "big"
    else if sizeBefore + el > cap then (if !block then "full" else if stopped then "stopped" else "")
    else if stopped then "stopped" else ""

/-- refusal clause: the Offer returned exactly the refusal the rule prescribes ("" = no refusal: `st` is not one
of full/inv/big/stopped) -/
def refusalClause (persistent block stopped : Bool) (cap sizeBefore el : Int) (st : String) : Bool :=
  let want := expectedRefusal persistent block stopped cap sizeBefore el
  if want == "" then !(st == "full" || st == "inv" || st == "big" || st == "stopped") else st == want

/-- blocked-while-empty clause: `blockedForSpace` producers exist only while something is unfinished
(memory: reported size > 0) -/
def blockedClause (persistent : Bool) (size : Int) (noneUnfinished : Bool) (blockedForSpace : Nat) : Bool :=
  blockedForSpace == 0 || (if persistent then !noneUnfinished else size != 0)

/-- release clause as worded: at rest every producer still blocked for space does not fit (`els` = their sizes) -/
def fitsClause (cap size : Int) (els : List Int) : Bool := els.all (fun el => decide (size + el > cap))

/-- consumer wake-up clause: at quiescence no request is queued while a consumer is parked in `Read` -/
def parkedClause (queued parked : Nat) : Bool := queued == 0 || parked == 0

/-- wait_for_result clause: a returned result equals the recorded outcome of the producer's own request -/
def routingClause (outcomes : List (Nat × Nat)) (p : Nat) (st : String) : Bool :=
  match outcomes.lookup p with
  | some 0 => st == "nil"
  | some e => st == s!"e{e}"
  | none => false

structure Snap where
  size : Int := 0
  q : List Nat := []
  ps : List (Nat × String) := []
  cs : List (Nat × String) := []

structure Mon where
  cap : Int := 0
  block : Bool := false
  wfr : Bool := false
  persistent : Bool := false
  stopped : Bool := false      -- `Shutdown` has been called (the property speaks about a running queue)
  restored : Option Int := none   -- persistent queue started on non-empty storage: the restored size
  lastOp : List String := []
  prev : Snap := {}
  els : List (Nat × Int) := []
  accepted : List Nat := []
  handed : List Nat := []
  inflight : List Nat := []
  finished : List Nat := []
  outcomes : List (Nat × Nat) := []
  cancelled : List Nat := []
  fails : List String := []

def kvOf (toks : List String) (k : String) : Option String :=
  toks.findSome? (fun t => if t.startsWith (k ++ "=") then some ((t.drop (k.length + 1)).toString) else none)

def parsePairs (s : String) : List (Nat × String) :=
  if s = "-" then [] else
  (s.splitOn ",").filterMap (fun t =>
    match t.splitOn ":" with
    | [a, b] => a.toNat?.map (fun n => (n, b))
    | _ => none)

def parseIds (s : String) : List Nat :=
  if s = "-" then [] else (s.splitOn ",").filterMap String.toNat?

def parseSnap (toks : List String) : Option Snap :=
  match (kvOf toks "size").bind String.toInt?, kvOf toks "Q", kvOf toks "P", kvOf toks "C" with
  | some sz, some q, some p, some c => some { size := sz, q := parseIds q, ps := parsePairs p, cs := parsePairs c }
  | _, _, _, _ => none

def handedId (s : String) : Option Nat :=
  if s.startsWith "i" then (s.drop 1).toString.toNat? else none

def Mon.fail (m : Mon) (sig detail : String) : Mon :=
  { m with fails := m.fails ++ [s!"sig={sig} {detail}"] }

def Mon.failIf (m : Mon) (c : Bool) (sig detail : String) : Mon := if c then m.fail sig detail else m

def Mon.onOp (m : Mon) (toks : List String) : Mon :=
  let m := { m with lastOp := toks }
  match toks with
  | ["offer", p, el] =>
    match p.toNat?, el.toInt? with
    | some p, some el => { m with els := (p, el) :: m.els }
    | _, _ => m
  | ["cancel", p] =>
    match p.toNat? with
    | some p => { m with cancelled := p :: m.cancelled }
    | none => m
  | "burst" :: rest =>
    let rec go : List String → List (Nat × Int) → List (Nat × Int)
      | p :: el :: r, acc => match p.toNat?, el.toInt? with
        | some p, some el => go r ((p, el) :: acc)
        | _, _ => acc
      | _, acc => acc
    { m with els := go rest [] ++ m.els }
  | ["shutdown"] => { m with stopped := true }
  | "restore" :: rest =>
    let rec goR : List String → List (Nat × Int) → List (Nat × Int)
      | p :: el :: r, acc => match p.toNat?, el.toInt? with
        | some p, some el => goR r (acc ++ [(p, el)])
        | _, _ => acc
      | _, acc => acc
    let items := goR (rest.filter (fun t => !(t.startsWith "size="))) []
    let sz := ((kvOf rest "size").bind String.toInt?).getD 0
    { m with els := items ++ m.els, accepted := m.accepted ++ items.map (·.1), restored := some sz,
             prev := { m.prev with size := sz, q := items.map (·.1) } }
  | ["done", id, e] =>
    match id.toNat?, e.toNat? with
    | some id, some e =>
      let m := m.failIf (!(m.inflight.contains id)) "C02/harness/done-of-unhanded" s!"id={id}"
      { m with inflight := m.inflight.erase id, finished := m.finished ++ [id], outcomes := m.outcomes ++ [(id, e)] }
    | _, _ => m
  | _ => m

def sumEls (els : List (Nat × Int)) (ids : List Nat) : Int :=
  ids.foldl (fun a id => a + (els.lookup id).getD 0) 0

def isRefusal (wfr : Bool) (st : String) : Bool :=
  st = "full" || st = "inv" || st = "big" || st = "stopped" || (!wfr && st = "ctx")

def Mon.onObs (m : Mon) (toks : List String) : Mon :=
  match toks with
  | "obs" :: rest =>
    match parseSnap rest with
    | none => m.fail "C02/harness/unparsable-obs" (" ".intercalate rest)
    | some cur =>
      let at_ := " after op " ++ "_".intercalate m.lastOp
      -- ids newly handed to consumers in this step
      let newH := cur.cs.filterMap (fun (c, st) =>
        match handedId st with
        | some id => if m.prev.cs.lookup c = some st then none else some id
        | none => none)
      -- exactly-once / FIFO
      let m :=
        match fifoStep m.prev.q newH cur.q with
        | none => m.fail "C02/queue/fifo-order" s!"queue {m.prev.q} -> handed {newH} queue {cur.q}{at_}"
        | some a =>
          let fresh := a.all (fun id => !(m.accepted.contains id) && (m.els.lookup id).isSome) && a.eraseDups.length == a.length
          let m := m.failIf (!fresh) "C02/queue/duplicate-or-unknown-handoff" s!"pushed {a}{at_}"
          { m with accepted := m.accepted ++ a }
      let m := { m with handed := m.handed ++ newH, inflight := m.inflight ++ newH }
      let m := m.failIf (m.handed.eraseDups.length != m.handed.length) "C02/queue/handed-twice" s!"handed {m.handed}{at_}"
      -- refused / zero-sized never enqueued; accepted means enqueued
      let m := cur.ps.foldl (fun m (p, st) =>
        let el := (m.els.lookup p).getD 0
        let m := m.failIf (isRefusal m.wfr st && m.accepted.contains p) "C02/queue/refused-but-enqueued" s!"p={p} {st}{at_}"
        let m := m.failIf (!m.persistent && el == 0 && m.accepted.contains p) "C02/queue/zero-size-enqueued" s!"p={p}{at_}"
        let m := m.failIf (st == "nil" && (el != 0 || m.persistent) && !(m.accepted.contains p)) "C02/queue/accepted-but-not-enqueued" s!"p={p}{at_}"
        -- wait_for_result: exactly the outcome of its own request
        let m := if m.wfr && el != 0 && (st == "nil" || st.startsWith "e") then
            m.failIf (!(routingClause m.outcomes p st)) "C02/queue/result-crosstalk" s!"p={p} got {st} own outcome {m.outcomes.lookup p}{at_}"
          else m
        let m := m.failIf (m.wfr && st == "B" && m.finished.contains p) "C02/queue/result-not-delivered" s!"p={p}{at_}"
        m) m
      -- size clause
      let unfinished := cur.q ++ m.inflight
      let want := sumEls m.els unfinished
      let m := match m.restored with
        | none =>
          let m := m.failIf (cur.size < 0 || cur.size > m.cap) "C02/queue/size-out-of-bounds" s!"size={cur.size} cap={m.cap}{at_}"
          m.failIf (!(cur.size < 0 || cur.size > m.cap) && !(sizeClause m.persistent m.cap cur.size want unfinished.isEmpty))
            "C02/queue/size-accounting" s!"size={cur.size} sum-of-unfinished={want}{at_}"
        | some r =>
          m.failIf (!(sizeClauseRestart m.cap r cur.size (sumEls m.els m.inflight) cur.q.isEmpty unfinished.isEmpty))
            "C02/queue/size-after-restart" s!"size={cur.size} cap={m.cap} restored={r} in-flight-sum={sumEls m.els m.inflight} queued={cur.q}{at_}"
      -- refusal exactly when size + el > cap (plus the guards)
      let m := match m.lastOp with
        | ["offer", p, el] =>
          match p.toNat?, el.toInt? with
          | some p, some el =>
            let st := (cur.ps.lookup p).getD "?"
            let wantR := expectedRefusal m.persistent m.block m.stopped m.cap m.prev.size el
            let sig := if wantR == "inv" || st == "inv" then "C02/queue/invalid-size-guard"
                       else if wantR == "big" || st == "big" then "C02/queue/too-large-guard" else "C02/queue/refusal-not-exact"
            m.failIf (!(refusalClause m.persistent m.block m.stopped m.cap m.prev.size el st)) sig
              s!"p={p} el={el} size-before={m.prev.size} cap={m.cap} got {st} want-refusal '{wantR}'{at_}"
          | _, _ => m
        | _ => m
      -- never left blocked (for space) while the queue is empty
      let blockedForSpace := cur.ps.filter (fun (p, st) => st == "B" && !(m.accepted.contains p))
      let m := m.failIf (!(blockedClause m.persistent cur.size unfinished.isEmpty blockedForSpace.length)) "C02/queue/blocked-while-empty" s!"blocked={blockedForSpace.map (·.1)}{at_}"
      -- released once enough space is free: whoever is still blocked for space does not fit
      let m := m.failIf (!(fitsClause m.cap cur.size (blockedForSpace.map (fun (p, _) => (m.els.lookup p).getD 0))))
        "C02/queue/blocked-although-request-fits" s!"size={cur.size} cap={m.cap} blocked={blockedForSpace.map (fun (p, _) => (p, (m.els.lookup p).getD 0))}{at_}"
      -- consumer side: nothing queued beside a parked consumer
      let parked := (cur.cs.filter (fun (_, st) => st == "B")).length
      let m := m.failIf (!(parkedClause cur.q.length parked)) "C02/queue/request-waits-beside-parked-consumer" s!"queued={cur.q} parked-consumers={parked}{at_}"
      -- a blocked producer whose context ended must have returned
      let m := m.failIf (cur.ps.any (fun (p, st) => st == "B" && m.cancelled.contains p)) "C02/queue/cancelled-still-blocked" at_
      { m with prev := cur }
  | _ => m

def Mon.verdict (m : Mon) : List String :=
  match m.fails with
  | [] => ["prop queue=ok"]
  | f :: _ => [s!"prop queue=FAIL {f}"]

end OtelVerif.C02.Check

namespace OtelVerif.C02.Check

/-! ## cond-level oracle: signal conservation, from the implementation's status vectors only

`credits` = signals issued to goroutines inside `Wait` and not yet consumed by a `nil` return.  A `Signal` is
effective iff fewer credits than goroutines inside `Wait` exist; a `nil` return consumes one; a `ctx` return
either was not signalled or must forward, so at most `inside` credits remain.  In run-to-quiescence mode a
signalled waiter has left the select (status `L`), hence: `0 ≤ credits ≤ #waiters queued for the lock`.
A waiter asleep in the select while an unconsumed signal exists is a lost wake-up. -/
structure CMon where
  kinds : List (Nat × String) := []
  entered : List Nat := []
  returned : List Nat := []
  credits : Int := 0
  lastOp : List String := []
  fails : List String := []

def CMon.onOp (m : CMon) (toks : List String) : CMon :=
  let m := { m with lastOp := toks }
  match toks with
  | ["start", t, k] => match t.toNat? with
    | some t => { m with kinds := (t, k) :: m.kinds }
    | none => m
  | _ => m

def CMon.onObs (m : CMon) (toks : List String) : CMon :=
  match toks with
  | "obs" :: "st" :: rest =>
    let vec := parsePairs (",".intercalate rest)
    let inside0 := m.entered.filter (fun t => !(m.returned.contains t))
    let m := match m.lastOp with
      | ["grant", t] =>
        match t.toNat? with
        | some t =>
          match m.kinds.lookup t with
          | some "w" => if m.entered.contains t then m else { m with entered := t :: m.entered }
          | some "s" => if m.credits < (inside0.length : Int) then { m with credits := m.credits + 1 } else m
          | some "b" => { m with credits := (inside0.length : Int) }
          | _ => m
        | none => m
      | _ => m
    let m : CMon := vec.foldl (fun (m : CMon) (x : Nat × String) =>
      let t := x.1
      let st := x.2
      if (st == "N" || st == "C") && !(m.returned.contains t) && m.kinds.lookup t == some "w" then
        let m := { m with returned := t :: m.returned }
        let inside : Int := (m.entered.filter (fun t => !(m.returned.contains t))).length
        if st == "N" then { m with credits := m.credits - 1 }
        else { m with credits := if m.credits > inside then inside else m.credits }
      else m) m
    let inside := m.entered.filter (fun t => !(m.returned.contains t))
    let queued : Int := (inside.filter (fun t => vec.lookup t == some "L")).length
    let at_ := " after op " ++ "_".intercalate m.lastOp ++ " st " ++ " ".intercalate rest
    if m.credits < 0 then { m with fails := m.fails ++ [s!"sig=C02/cond/wakeup-without-signal{at_}"], credits := 0 }
    else if m.credits > queued then
      { m with fails := m.fails ++ [s!"sig=C02/cond/lost-wakeup unconsumed-signals={m.credits} waiters-queued-for-lock={queued} inside-wait={inside.length}{at_}"], credits := queued }
    else m
  | _ => m

def CMon.verdict (m : CMon) : List String :=
  match m.fails with
  | [] => ["prop cond=ok"]
  | f :: _ => [s!"prop cond=FAIL {f}"]

end OtelVerif.C02.Check

namespace OtelVerif.C02.Check

/-! ## soak monitor: native-scheduler runs, judged on the event log alone

Events are logged by the harness around the real calls: `ret` when an Offer returned, `hand` inside the consume
function (after `Read` popped the request), `fin` just before `OnDone`, `size` for sampled `Size()` values, `final`
for `Size()` after everything was drained.  Request ids are `producer*1000 + k`, `k` increasing per producer.
Only schedule-independent facts are checked. -/
inductive SEv
  | ret (id : Nat) (el : Int) (st : String)
  | hand (id : Nat)
  | fin (id : Nat) (e : Nat)
  | size (n : Int)
  | final (n : Int)
  | stall (handed want : Nat)   -- `want` requests enqueued back to back with `want` consumers idle and completions held back: how many were handed over
deriving Repr, DecidableEq

structure SCfg where
  cap : Int
  wfr : Bool
  persistent : Bool
  singleConsumer : Bool

def handedOf (evs : List SEv) : List Nat := evs.filterMap (fun e => match e with | .hand id => some id | _ => none)
def retsOf (evs : List SEv) : List (Nat × Int × String) :=
  evs.filterMap (fun e => match e with | .ret id el st => some (id, el, st) | _ => none)
def finsOf (evs : List SEv) : List (Nat × Nat) := evs.filterMap (fun e => match e with | .fin id e => some (id, e) | _ => none)
def sizesOf (evs : List SEv) : List Int := evs.filterMap (fun e => match e with | .size n => some n | .final n => some n | _ => none)
def finalsOf (evs : List SEv) : List Int := evs.filterMap (fun e => match e with | .final n => some n | _ => none)

/-- the Offer of this id may have enqueued it (not a refusal; a zero-sized memory request is never enqueued) -/
def mayBeQueued (c : SCfg) (r : Nat × Int × String) : Bool :=
  let st := r.2.2
  !(st == "full" || st == "inv" || st == "big" || st == "stopped" || (!c.wfr && st == "ctx")) && (c.persistent || r.2.1 != 0)

/-- the Offer of this id certainly enqueued it -/
def surelyQueued (c : SCfg) (r : Nat × Int × String) : Bool :=
  let st := r.2.2
  (st == "nil" || st.startsWith "e") && (c.persistent || r.2.1 != 0)

def ascending : List Nat → Bool
  | a :: b :: t => decide (a < b) && ascending (b :: t)
  | _ => true

def nodupB : List Nat → Bool
  | [] => true
  | a :: t => !(t.contains a) && nodupB t

def soakOnce (evs : List SEv) : Bool := nodupB (handedOf evs)
def soakOnlyAccepted (c : SCfg) (evs : List SEv) : Bool :=
  (handedOf evs).all (fun id => (retsOf evs).any (fun r => r.1 == id && mayBeQueued c r))
def soakAllHanded (c : SCfg) (evs : List SEv) : Bool :=
  (retsOf evs).all (fun r => !(surelyQueued c r) || (handedOf evs).contains r.1)
def soakSizes (c : SCfg) (evs : List SEv) : Bool :=
  (sizesOf evs).all (fun n => decide (0 ≤ n) && decide (n ≤ c.cap)) && (finalsOf evs).all (fun n => n == 0)
def soakFifo (c : SCfg) (evs : List SEv) : Bool :=
  !c.singleConsumer ||
  ((handedOf evs).map (· / 1000)).eraseDups.all (fun p => ascending ((handedOf evs).filter (fun id => id / 1000 == p)))
def soakRouting (c : SCfg) (evs : List SEv) : Bool :=
  !c.wfr || (retsOf evs).all (fun r => !(surelyQueued c r) || routingClause (finsOf evs) r.1 r.2.2)

/-- every request enqueued while enough consumers were idle was handed over although earlier ones were still in flight -/
def soakStall (evs : List SEv) : Bool :=
  evs.all (fun e => match e with | .stall h w => decide (w ≤ h) | _ => true)

/-- every schedule-independent clause at once (sound: `C02_check_soak_sound`) -/
def soakAll (c : SCfg) (evs : List SEv) : Bool :=
  soakOnce evs && soakOnlyAccepted c evs && soakAllHanded c evs && soakSizes c evs && soakFifo c evs && soakRouting c evs && soakStall evs

def soakVerdict (c : SCfg) (evs : List SEv) : List String :=
  if soakAll c evs then ["prop soak=ok"]
  else if !soakOnce evs then [s!"prop soak=FAIL sig=C02/soak/handed-twice ids handed more than once: {((handedOf evs).filter (fun id => ((handedOf evs).filter (· == id)).length > 1)).eraseDups} (of {(handedOf evs).length} hand-offs)"]
  else if !soakOnlyAccepted c evs then
    [s!"prop soak=FAIL sig=C02/soak/refused-or-unknown-handed {(handedOf evs).filter (fun id => !((retsOf evs).any (fun r => r.1 == id && mayBeQueued c r)))}"]
  else if !soakAllHanded c evs then
    [s!"prop soak=FAIL sig=C02/soak/accepted-never-handed {((retsOf evs).filter (fun r => surelyQueued c r && !((handedOf evs).contains r.1))).map (·.1)}"]
  else if !soakSizes c evs then [s!"prop soak=FAIL sig=C02/soak/size-out-of-bounds-or-final-nonzero sizes={(sizesOf evs).eraseDups} final={finalsOf evs} cap={c.cap}"]
  else if !soakFifo c evs then [s!"prop soak=FAIL sig=C02/soak/single-consumer-order handed={handedOf evs}"]
  else if !soakRouting c evs then [s!"prop soak=FAIL sig=C02/soak/result-crosstalk"]
  else [s!"prop soak=FAIL sig=C02/soak/request-waits-beside-idle-consumer {evs.filterMap (fun e => match e with | .stall h w => some (h, w) | _ => none)}"]

def parseSEv (toks : List String) : Option SEv :=
  match toks with
  | ["ret", id, el, st] => match id.toNat?, el.toInt? with
    | some id, some el => some (.ret id el st)
    | _, _ => none
  | ["hand", id] => id.toNat?.map SEv.hand
  | ["fin", id, e] => match id.toNat?, e.toNat? with
    | some id, some e => some (.fin id e)
    | _, _ => none
  | ["size", n] => n.toInt?.map SEv.size
  | ["final", n] => n.toInt?.map SEv.final
  | ["stall", h, w] => match h.toNat?, w.toNat? with
    | some h, some w => some (.stall h w)
    | _, _ => none
  | _ => none

end OtelVerif.C02.Check
