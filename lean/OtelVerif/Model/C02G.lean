import OtelVerif.Model.C02P
import OtelVerif.Gen.QueueGuards
/-!
# C02: interpreter of the regenerated guard tables (`Gen/QueueGuards.lean`)

`translators/cmd/queueguards` extracts, as data, the guard sequence of `memoryQueue.Offer`, the overflow loops of
`memoryQueue.add` / `persistentQueue.putInternal` and the call sites of Signal / Broadcast.  Here the tables get their meaning;
`Props/C02.lean` proves that the hand-written transitions of the LTS (`fire .offer`, `tryAdd`, `ptryAdd`) ARE the
interpretation of the tables regenerated from the current source — a changed operator, guard order or returned error changes the
table and the proof no longer builds.
-/
namespace OtelVerif.C02.G

open OtelVerif.C02

structure Env where
  el : Int
  cap : Int
  size : Int
  block : Bool
  stopped : Bool

def opnd (e : Env) : String → Option Int
  | "elSize" => some e.el
  | "0" => some 0
  | "cap" => some e.cap
  | "size+elSize" => some (e.size + e.el)
  | "blockOnOverflow" => some (if e.block then 1 else 0)
  | "stopped" => some (if e.stopped then 1 else 0)
  | _ => none

def cmp : String → Option (Int → Int → Bool)
  | "==" => some (fun a b => decide (a = b))
  | "!=" => some (fun a b => decide (a ≠ b))
  | "<=" => some (fun a b => decide (a ≤ b))
  | "<" => some (fun a b => decide (a < b))
  | ">" => some (fun a b => decide (a > b))
  | ">=" => some (fun a b => decide (a ≥ b))
  | "id" => some (fun a _ => decide (a ≠ 0))     -- a bare flag
  | "!" => some (fun a _ => decide (a = 0))       -- a negated flag
  | _ => none

def ret : String → Option Res
  | "nil" => some .ok
  | "errInvalidSize" => some .invalid
  | "errSizeTooLarge" => some .tooLarge
  | "ErrQueueIsFull" => some .full
  | "errQueueIsStopped" => some .stopped
  | _ => none

/-- does the condition hold? `none` = a token the interpreter does not know -/
def holds (e : Env) (c : String × String × String) : Option Bool :=
  match opnd e c.1, cmp c.2.1, opnd e c.2.2 with
  | some a, some f, some b => some (f a b)
  | _, _, _ => none

/-- run a guard sequence: `some (some r)` = the first guard whose condition holds returns `r`, `some none` = all pass,
`none` = malformed table -/
def first (e : Env) : List (String × String × String × String) → Option (Option Res)
  | [] => some none
  | g :: gs =>
    match holds e (g.1, g.2.1, g.2.2.1), ret g.2.2.2 with
    | some true, some r => some (some r)
    | some false, some _ => first e gs
    | _, _ => none

end OtelVerif.C02.G
