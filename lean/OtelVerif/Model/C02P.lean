import OtelVerif.Model.C02
/-!
# C02 model of the PERSISTENT queue's size / blocking / hand-off protocol

Mirrors `persistent_queue.go` (`Offer`/`putInternal`, `Read`/`getNextItem`, `onDone`, `Shutdown`) over the same state
space, labels and condition variable as the memory queue (`Model/C02.lean`).  What differs, branch by branch:

* `putInternal` has no zero/negative-size guard (a zero-sized request is stored); while `queueSize+reqSize > capacity`
  it returns `ErrQueueIsFull` when not blocking, `errSizeTooLarge` when blocking and `reqSize > capacity` (the repair),
  otherwise waits on the cond; no `wait_for_result`.
* `Read` checks `stopped` first; after `getNextItem`, when `readIndex == writeIndex` it does `queueSize = 0` and
  `hasMoreSpace.Broadcast()` — the size is reset although requests are still in flight.
* `onDone` does `queueSize -= elSize`, clamps at 0, `Broadcast()`.

Storage is outside this model (C01 owns it): the client never fails, items are identified by the id of the Offer,
the queue starts empty.  Environment assumptions (labels not enabled): sizes are ≥ 0 (every real sizer), no `Offer`
after `Shutdown` (the storage client may be closed).
-/
namespace OtelVerif.C02

/-- `getItemKey(index)` = `strconv.FormatUint(index, radix)`: the storage key of the request with that index (for
radix ≤ 10 `Nat.toDigits` is exactly the Go function) -/
def itemKey (radix i : Nat) : String := String.ofList (Nat.toDigits radix i)

/-- `putInternal` after the loop: store, `writeIndex++`, `queueSize += reqSize`, `hasMoreElements.Signal()` -/
def paccept (s : St) (p : Nat) (el : Int) : St :=
  { s with size := s.size + el, items := s.items ++ [(p, el)], accepted := s.accepted ++ [p],
           cwait := s.cwait.drop 1, cwoken := s.cwoken ++ s.cwait.take 1,
           ps := upd s.ps p { s.ps p with ph := .done .ok, el := el, sig := false } }

/-- one evaluation of the `for pq.queueSize+reqSize > pq.set.capacity` loop, holding the lock -/
def ptryAdd (k : Cfg) (s : St) (p : Nat) (el : Int) : St :=
  if s.size + el > k.cap then
    if k.block then
      if el > k.cap then refuse s p .tooLarge else register s p el
    else refuse s p .full
  else paccept s p el

/-- `getNextItem` + "ensure the used size and the channel size are in sync" -/
def ppop (s : St) : Option St :=
  match pop s with
  | none => none
  | some s1 => some (if s1.items.isEmpty then condBroadcast { s1 with size := 0 } else s1)

/-- `onDone`: `queueSize -= elSize; if queueSize < 0 { queueSize = 0 }; hasMoreSpace.Broadcast()` -/
def pfinish (s : St) (id : Nat) (el : Int) (e : Nat) : St :=
  condBroadcast { s with size := (if s.size - el < 0 then 0 else s.size - el),
                         inflight := s.inflight.filter (fun x => x.1 != id),
                         finished := s.finished ++ [id], outcomes := s.outcomes ++ [(id, e)] }

def pfire (k : Cfg) (s : St) : Label → Option St
  | .offer p el =>
    if (s.ps p).ph = .idle ∧ 0 ≤ el ∧ s.stopped = false then some (ptryAdd k s p el) else none
  | .cancel p => some (setP s p { s.ps p with canc := true })
  | .wakeTok p =>
    if (s.ps p).ph = .sel ∧ (s.ps p).sig = true then some (setP s p { s.ps p with ph := .wokenTok }) else none
  | .wakeCtx p =>
    if (s.ps p).ph = .sel ∧ (s.ps p).canc = true then some (setP s p { s.ps p with ph := .wokenCtx }) else none
  | .relockTok p =>
    if (s.ps p).ph = .wokenTok then some (ptryAdd k s p (s.ps p).el) else none
  | .relockCtx p =>
    if (s.ps p).ph = .wokenCtx then some (refuse (ctxCleanup s p) p .ctxErr) else none
  | .getRes _ => none
  | .resCtx _ => none
  | .read c =>
    if c ∈ s.cwait ++ s.cwoken then none else
    if s.stopped then some s else
    match ppop s with
    | some s' => some s'
    | none => some { s with cwait := s.cwait ++ [c] }
  | .recheck c =>
    if c ∈ s.cwoken then
      if s.stopped then some { s with cwoken := s.cwoken.erase c } else
      match ppop s with
      | some s' => some { s' with cwoken := s'.cwoken.erase c }
      | none => some { s with cwoken := s.cwoken.erase c, cwait := s.cwait ++ [c] }
    else none
  | .complete id e =>
    match s.inflight.lookup id with
    | some el => some (pfinish s id el e)
    | none => none
  | .shutdown => some { s with stopped := true, cwait := [], cwoken := s.cwoken ++ s.cwait }

def prunSched (k : Cfg) : St → List Label → Option St
  | s, [] => some s
  | s, l :: ls => match pfire k s l with
    | some s' => prunSched k s' ls
    | none => none

def PReachable (k : Cfg) (s : St) : Prop := ∃ ls, prunSched k {} ls = some s

end OtelVerif.C02
