/-!
# C02: the *pinned* cond.go (before the `fix:` commit), as an LTS with an explicit lock

One shared channel `ch` of capacity 1 and a counter `waiting`.  `Signal` does `waiting--; ch <- {}`
**while holding the lock**; a cancelled `Wait` re-locks and then either decrements `waiting` or drains
`ch`.  Kept only to exhibit the reachable deadlock that the repair removes (`Props/C02.lean`,
`C02_pinned_cond_deadlock`); the same 12-step schedule is corpus case 0 of the cond harness, where it
makes the real pinned code block in `Signal` holding the lock.
-/
namespace OtelVerif.C02.Pinned

inductive W | idle | hasLock | sel (cancelled : Bool) | wokenTok | wokenCtx | drainBlocked | done
deriving DecidableEq, Repr
inductive S | idle | hasLock | sending | done
deriving DecidableEq, Repr

structure St where
  lockFree : Bool
  waiting : Nat
  buf : Nat
  ws : List W
  ss : List S
deriving DecidableEq, Repr

inductive Lbl | wLock (i : Nat) | wWait (i : Nat) | cancel (i : Nat) | wTake (i : Nat) | wCtx (i : Nat)
  | wRelockTok (i : Nat) | wRelockCtx (i : Nat) | wDrain (i : Nat) | sLock (j : Nat) | sSignal (j : Nat) | sSendDone (j : Nat)
deriving DecidableEq, Repr

def setW (s : St) (i : Nat) (w : W) : St := { s with ws := s.ws.set i w }
def setS (s : St) (j : Nat) (x : S) : St := { s with ss := s.ss.set j x }

def fire (s : St) : Lbl → Option St
  | .wLock i => if s.ws[i]? = some .idle ∧ s.lockFree then some { setW s i .hasLock with lockFree := false } else none
  | .wWait i => if s.ws[i]? = some .hasLock then some { setW s i (.sel false) with lockFree := true, waiting := s.waiting + 1 } else none
  | .cancel i => if s.ws[i]? = some (.sel false) then some (setW s i (.sel true)) else none
  | .wTake i => match s.ws[i]? with
      | some (.sel _) => if s.buf > 0 then some { setW s i .wokenTok with buf := s.buf - 1 } else none
      | _ => none
  | .wCtx i => if s.ws[i]? = some (.sel true) then some (setW s i .wokenCtx) else none
  | .wRelockTok i => if s.ws[i]? = some .wokenTok ∧ s.lockFree then some (setW s i .done) else none
  | .wRelockCtx i =>
      if s.ws[i]? = some .wokenCtx ∧ s.lockFree then
        if s.waiting = 0 then
          if s.buf > 0 then some { setW s i .done with buf := s.buf - 1 }
          else some { setW s i .drainBlocked with lockFree := false }
        else some { setW s i .done with waiting := s.waiting - 1 }
      else none
  | .wDrain i => if s.ws[i]? = some .drainBlocked ∧ s.buf > 0 then some { setW s i .done with buf := s.buf - 1, lockFree := true } else none
  | .sLock j => if s.ss[j]? = some .idle ∧ s.lockFree then some { setS s j .hasLock with lockFree := false } else none
  | .sSignal j =>
      if s.ss[j]? = some .hasLock then
        if s.waiting = 0 then some { setS s j .done with lockFree := true }
        else if s.buf = 0 then some { setS s j .done with lockFree := true, waiting := s.waiting - 1, buf := 1 }
        else some { setS s j .sending with waiting := s.waiting - 1 }   -- the send blocks, the lock is kept
      else none
  | .sSendDone j => if s.ss[j]? = some .sending ∧ s.buf = 0 then some { setS s j .done with buf := 1, lockFree := true } else none

def run : St → List Lbl → Option St
  | s, [] => some s
  | s, l :: ls => match fire s l with
    | some s' => run s' ls
    | none => none

def allLbls (nw ns : Nat) : List Lbl :=
  (List.range nw).flatMap (fun i => [.wLock i, .wWait i, .cancel i, .wTake i, .wCtx i, .wRelockTok i, .wRelockCtx i, .wDrain i]) ++
  (List.range ns).flatMap (fun j => [.sLock j, .sSignal j, .sSendDone j])

/-- no label at all is enabled (not even a cancellation), yet some thread is in the middle of an operation -/
def stuck (s : St) : Bool :=
  (allLbls s.ws.length s.ss.length).all (fun l => (fire s l).isNone) &&
  (s.ws.any (fun w => w != .done && w != .idle) || s.ss.any (fun x => x != .done && x != .idle))

def init (nw ns : Nat) : St := { lockFree := true, waiting := 0, buf := 0, ws := List.replicate nw .idle, ss := List.replicate ns .idle }

/-- two waiters, both contexts end, both leave the select and queue for the lock; two completions signal in a row -/
def witness : List Lbl :=
  [.wLock 0, .wWait 0, .cancel 0, .wCtx 0, .wLock 1, .wWait 1, .cancel 1, .wCtx 1, .sLock 0, .sSignal 0, .sLock 1, .sSignal 1]

end OtelVerif.C02.Pinned
