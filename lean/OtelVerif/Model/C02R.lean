import OtelVerif.Model.C02P
import OtelVerif.Gen.PQKeys
/-!
# C02 model of the persistent queue's SIZE ACCOUNTING across lives (back-ups, restart, re-enqueue)

Mirrors, branch by branch, the parts of `persistent_queue.go` that decide what `Size()` reports and what is compared with
the capacity, including everything that survives a restart:

* `putInternal` (non-blocking form) / `writeInternal`: `queueSize+reqSize > capacity` → `ErrQueueIsFull`; otherwise the item
  is stored at `writeIndex`, `writeIndex++`, `queueSize += reqSize`, and when `writeIndex % M == R` the size is backed up.
* `Read` / `getNextItem`: `readIndex++`, the index joins `currentlyDispatchedItems` (stored under `di`), and
  `queueSize = 0` when `readIndex == writeIndex`.
* `onDone`: `queueSize -= elSize`, clamp at 0; a shutdown error leaves the item dispatched; otherwise
  `itemDispatchingFinish` (swap-with-last removal from the list, delete the item) and a back-up when `readIndex % M == R`.
* `backupQueueSize`: nothing for the requests sizer, otherwise `si := queueSize`.  `Shutdown`: back-up, `stopped`.
* a new life on the same storage — `initPersistentContiguousStorage` (`ri`/`wi` with the "only `wi` stored" case,
  `queueSize = wi - ri`, replaced by the `si` snapshot when `> 0`, not request-sized and the snapshot is readable) followed by
  `retrieveAndEnqueueNotDispatchedReqs` (every stored dispatched item is re-written at the back through `writeInternal`,
  WITHOUT a capacity check, size measured with the NEW life's sizer).

Everything runs under `pq.mu`, so this part is a sequential machine.  The moduli/remainders of the back-up cadence are
regenerated from the source (`Gen/PQKeys.lean`).  Storage operations never fail and stored items decode (C01 owns the
failure branches); a request is the pair (id, number of items), ids are handed out by a counter.
-/
namespace OtelVerif.C02.R

open OtelVerif.Gen.PQKeys

structure RCfg where
  cap : Int
  reqSized : Bool     -- `isRequestSized`: the sizer is `request.RequestsSizer`
deriving Repr, DecidableEq

/-- `pq.set.sizer.Sizeof(req)` for a request of `n` items -/
def sizeOf (c : RCfg) (n : Nat) : Int := if c.reqSized then 1 else (n : Int)

structure RSt where
  -- in memory (one life)
  ri : Nat := 0
  wi : Nat := 0
  disp : List Nat := []                 -- pq.currentlyDispatchedItems
  size : Int := 0                       -- pq.queueSize
  stopped : Bool := false
  infl : List (Nat × Int) := []         -- live `indexDone` objects of this life: index ↦ size recorded by `Read`
  -- storage (survives a restart)
  sRi : Option Nat := none
  sWi : Option Nat := none
  sDi : List Nat := []
  sSi : Option Nat := none
  store : List (Nat × (Nat × Nat)) := []   -- index ↦ (request id, items of the request)
  -- ids
  next : Nat := 0
  -- environment: `client.Set(queueSizeKey, …)` fails (injected by the harness; a property of the storage, survives a restart)
  siFails : Bool := false

/-- `backupQueueSize`; when the `Set` fails the error is only logged by `writeInternal` / `onDone` (and joined into `Shutdown`'s
result): nothing else changes, in particular the write that preceded it stays committed -/
def backup (c : RCfg) (s : RSt) : RSt := if c.reqSized || s.siFails then s else { s with sSi := some s.size.toNat }

/-- `writeInternal` (extra operations of the same transaction are applied by the caller) -/
def writeInternal (c : RCfg) (s : RSt) (id n : Nat) : RSt :=
  let s1 : RSt := { s with store := s.store ++ [(s.wi, (id, n))], sWi := some (s.wi + 1), wi := s.wi + 1,
                           size := s.size + sizeOf c n }
  if s1.wi % writeBackupMod = writeBackupRem then backup c s1 else s1

/-- `Offer` of a request with `n` items on a non-blocking queue; the request gets the next id.  `true` = accepted -/
def offer (c : RCfg) (s : RSt) (n : Nat) : RSt × Bool :=
  let s0 := { s with next := s.next + 1 }
  if s.size + sizeOf c n > c.cap then (s0, false) else (writeInternal c s0 s.next n, true)

/-- `Read` when it does not have to wait: `none` = stopped / nothing stored / item missing (not modelled).
Returns the index, the request id and the size recorded in the `indexDone` -/
def read (c : RCfg) (s : RSt) : Option (RSt × Nat × Nat × Int) :=
  if s.stopped then none else
  if s.ri = s.wi then none else
  match s.store.lookup s.ri with
  | none => none
  | some (id, n) =>
    let d := s.disp ++ [s.ri]
    let s1 : RSt := { s with ri := s.ri + 1, disp := d, sRi := some (s.ri + 1), sDi := d, infl := s.infl ++ [(s.ri, sizeOf c n)] }
    let s2 : RSt := if s1.ri = s1.wi then { s1 with size := 0 } else s1
    some (s2, s.ri, id, sizeOf c n)

/-- the removal loop of `itemDispatchingFinish`: the first occurrence is overwritten with the last element, the last is dropped -/
def removeSwap (l : List Nat) (idx : Nat) : List Nat :=
  if idx ∈ l then
    match l.getLast? with
    | some last => (l.replace idx last).dropLast
    | none => l
  else l

/-- `onDone(index, elSize, err)` -/
def done (c : RCfg) (s : RSt) (idx : Nat) (shutdownErr : Bool) : Option RSt :=
  match s.infl.lookup idx with
  | none => none
  | some el =>
    let sz := if s.size - el < 0 then 0 else s.size - el
    let s1 : RSt := { s with size := sz, infl := s.infl.filter (fun x => x.1 != idx) }
    if shutdownErr then some s1 else
    let d := removeSwap s1.disp idx
    let s2 : RSt := { s1 with disp := d, sDi := d, store := s1.store.filter (fun x => x.1 != idx) }
    some (if s2.ri % readBackupMod = readBackupRem then backup c s2 else s2)

/-- `Shutdown` -/
def shutdown (c : RCfg) (s : RSt) : RSt := { backup c s with stopped := true }

/-- index part of `initPersistentContiguousStorage` -/
def restartIdx (s : RSt) : Nat × Nat :=
  match s.sRi, s.sWi with
  | some r, some w => (r, w)
  | none, some w => (0, w)      -- only the write index is stored: reading starts from the first item
  | _, none => (0, 0)           -- errValueNotSet: a new queue

/-- size part of `initPersistentContiguousStorage` -/
def restoreSize (c : RCfg) (ri wi : Nat) (si : Option Nat) : Int :=
  let q := wi - ri
  if 0 < q ∧ c.reqSized = false then
    match si with
    | some v => (v : Int)
    | none => (q : Int)
  else (q : Int)

/-- the loop of `retrieveAndEnqueueNotDispatchedReqs` over the stored list of dispatched items -/
def reenqueue (c : RCfg) : RSt → List Nat → RSt
  | s, [] => s
  | s, it :: rest =>
    match s.store.lookup it with
    | none => reenqueue c { s with sDi := rest } rest
    | some (id, n) =>
      let s1 : RSt := { s with store := s.store.filter (fun x => x.1 != it), sDi := rest }
      reenqueue c (writeInternal c s1 id n) rest

/-- a new queue object started on the storage the previous life left behind (after `Shutdown` or without it),
possibly with another capacity / sizer -/
def restart (c : RCfg) (s : RSt) : RSt :=
  let iw := restartIdx s
  let s0 : RSt := { ri := iw.1, wi := iw.2, disp := [], size := restoreSize c iw.1 iw.2 s.sSi, stopped := false, infl := [],
                    sRi := s.sRi, sWi := s.sWi, sDi := s.sDi, sSi := s.sSi, store := s.store, next := s.next, siFails := s.siFails }
  reenqueue c s0 s.sDi

/-- what is queued: the stored requests at the indices `[ri, wi)`, as (id, size under the sizer of `c`) -/
def queued (c : RCfg) (s : RSt) : List (Nat × Int) :=
  (List.range' s.ri (s.wi - s.ri)).filterMap (fun i => (s.store.lookup i).map (fun x => (x.1, sizeOf c x.2)))

/-- the operations of the machine -/
inductive ROp
  | offer (n : Nat)
  | read
  | done (idx : Nat) (shutdownErr : Bool)
  | shutdown
  | restart (c : RCfg)
deriving Repr

/-- one operation; a disabled operation leaves the state unchanged (`ok = false`) -/
def step (c : RCfg) (s : RSt) : ROp → RCfg × RSt × Bool
  | .offer n => let r := offer c s n; (c, r.1, true)
  | .read => match read c s with
    | some r => (c, r.1, true)
    | none => (c, s, false)
  | .done idx e => match done c s idx e with
    | some s' => (c, s', true)
    | none => (c, s, false)
  | .shutdown => (c, shutdown c s, true)
  | .restart c' => (c', restart c' s, true)

/-- run a script from an empty storage -/
def run (c : RCfg) (s : RSt) : List ROp → RCfg × RSt
  | [] => (c, s)
  | o :: os => let r := step c s o; run r.1 r.2.1 os

/-- the start state of the queue LTS (`pfire`) that a restarted queue is: the stored requests are queued, their producers
are long gone -/
def toSt (c : RCfg) (s : RSt) : St :=
  let items := queued c s
  let ids := items.map Prod.fst
  { items := items, size := s.size, accepted := ids,
    ps := fun p => if p ∈ ids then { ph := .done .ok } else {} }

/-! ## oracle clauses on the implementation's observations (proved sound in `Props/C02.lean`) -/

/-- a non-blocking `Offer` answers "full" exactly when the reported size plus the request's size exceeds the capacity -/
def refusalClause (cap sizeBefore el : Int) (full : Bool) : Bool := full == decide (sizeBefore + el > cap)

/-- an `Offer` that did not return nil stored nothing (so the request can never be handed over) -/
def refusedClause (accepted : Bool) (wiBefore wiAfter : Nat) : Bool := accepted || wiBefore == wiAfter

/-- right after a (re)start: nothing queued ⇒ size 0; requests sizer ⇒ the size is the number of queued requests -/
def restartClause (reqSized : Bool) (size : Int) (nQueued : Nat) : Bool :=
  (nQueued != 0 || size == 0) && (!reqSized || size == (nQueued : Int))

/-- a life on storage that was empty when it started: `0 ≤ size ≤ cap` and `size ≤ Σ unfinished` -/
def freshClause (cap size sumUnfinished : Int) : Bool := decide (0 ≤ size) && decide (size ≤ cap) && decide (size ≤ sumUnfinished)

/-- every life: never negative; nothing queued ⇒ at most what is in flight (hence 0 when all finished) -/
def anyClause (size sumInflight : Int) (nQueued : Nat) : Bool := decide (0 ≤ size) && (nQueued != 0 || decide (size ≤ sumInflight))

end OtelVerif.C02.R
