import OtelVerif.Model.C02
/-!
# C02 model of `queuebatch.Config.Validate` / `BatchConfig.Validate` (config.go): the gate every written configuration passes
before a queue is built from it

Branch by branch, in source order.  What it buys the queue theorems: every hypothesis they make about the configuration
(`0 ≤ capacity`, at least one consumer, no `wait_for_result` on the persistent queue) holds for every configuration that
passes validation (`C02_validated_config_meets_hypotheses`).
-/
namespace OtelVerif.C02.V

inductive Sizer | requests | items | bytes | other
deriving Repr, DecidableEq

structure Batch where
  flushTimeout : Int
  minSize : Int
  maxSize : Int
deriving Repr, DecidableEq

structure QCfg where
  enabled : Bool
  numConsumers : Int
  queueSize : Int
  storage : Bool          -- `StorageID != nil`
  wfr : Bool
  sizer : Sizer
  batch : Option Batch
deriving Repr, DecidableEq

inductive VErr
  | ok | numConsumers | queueSize | wfrStorage | sizerStorage | batchSizer
  | flushTimeout | minSize | maxSize | maxLtMin
deriving Repr, DecidableEq

/-- `(*Config).Validate` -/
def validate (c : QCfg) : VErr :=
  if !c.enabled then .ok
  else if c.numConsumers ≤ 0 then .numConsumers
  else if c.queueSize ≤ 0 then .queueSize
  else if c.storage && c.wfr then .wfrStorage
  else if c.storage && c.sizer != .requests then .sizerStorage
  else if c.batch.isSome && (c.sizer != .items && c.sizer != .bytes) then .batchSizer
  else .ok

/-- `(*BatchConfig).Validate` -/
def validateBatch : Option Batch → VErr
  | none => .ok
  | some b =>
    if b.flushTimeout ≤ 0 then .flushTimeout
    else if b.minSize < 0 then .minSize
    else if b.maxSize < 0 then .maxSize
    else if b.maxSize > 0 && b.maxSize < b.minSize then .maxLtMin
    else .ok

def VErr.str : VErr → String
  | .ok => "ok" | .numConsumers => "num_consumers" | .queueSize => "queue_size" | .wfrStorage => "wfr_storage"
  | .sizerStorage => "sizer_storage" | .batchSizer => "batch_sizer" | .flushTimeout => "flush_timeout"
  | .minSize => "min_size" | .maxSize => "max_size" | .maxLtMin => "max_lt_min"

/-- oracle clause on the implementation's verdict: an ENABLED configuration that was accepted has a positive queue size and
consumer count, and with `storage` it uses the requests sizer without `wait_for_result` -/
def acceptClause (accepted enabled : Bool) (numConsumers queueSize : Int) (storage wfr reqSizer : Bool) : Bool :=
  !(accepted && enabled) || (decide (0 < numConsumers) && decide (0 < queueSize) && (!storage || (reqSizer && !wfr)))

end OtelVerif.C02.V
