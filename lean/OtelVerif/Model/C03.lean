/-! C03 model (stub) -/
namespace OtelVerif.C03
end OtelVerif.C03
