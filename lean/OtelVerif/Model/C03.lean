/-!
# C03 model: shutdown protocol of the exporter helper (queue → batcher → retry → export) as an LTS

Mirrors, at the granularity of the code's critical sections / channel operations / joins:

* `exporterhelper/internal/base_exporter.go` `Shutdown` (retry sender, then queue sender, then the wrapped exporter),
* `queuebatch/queue_batch.go` `Shutdown` (`queue.Shutdown` — which joins the consumers — then `batcher.Shutdown`),
* `queuebatch/async_queue.go` (consumer loop `Read` → `consumeFunc`; `Shutdown` = stop + `stopWG.Wait`),
* `queuebatch/memory_queue.go` `Read` (keeps serving queued items after stop, returns `false` only when stopped AND empty;
  `Offer` after stop is refused — repaired code) and `queuebatch/persistent_queue.go` `Read` (returns `false` as soon as stopped; items
  stay in storage; `onDone` with a shutdown error keeps the item stored),
* `queuebatch/disabled_batcher.go` (consumer calls the export chain itself) and `queuebatch/default_batcher.go`
  (`Consume` critical section = merge with the current batch and re-partition; `flush` = `stopWG.Add`, take a worker slot, `go`;
  timer goroutine `flushCurrentBatchIfNecessary`; `Shutdown` = close `shutdownCh`, final flush, `stopWG.Wait`),
* `retry_sender.go` (`Send` loop: call, on transient failure either back off, give up, or — once `stopCh` is closed — return a
  shutdown error).

Abstractions (all are over-approximations, i.e. the LTS allows at least the behaviours of the code):
payload items are natural numbers; a request / batch is a list of items; the re-partition done by `MergeSplit`
is ANY lists `flush`, `keep` whose concatenation is a permutation of current batch ++ request (covers every sizer and every
min/max size); queue capacity / refusals do not appear (a refused offer changes nothing); time does not appear (every timer may
fire at any moment; a back-off may end, be interrupted, or be given up at any moment); the backend outcome of every call is arbitrary.
Storage is tracked per item (`stored`), an item leaves it when a flight containing it ends without a shutdown error — the real
queue deletes per request and therefore keeps at least these items (under-approximation of what is kept).
-/
namespace OtelVerif.C03

abbrev Item := Nat
abbrev Batch := List Item

/-- static configuration -/
structure Cfg where
  persistent : Bool   -- `StorageID != nil`
  batching : Bool     -- `Batch != nil` (default batcher) vs disabled batcher
  retry : Bool        -- `retry_on_failure.enabled`
  wfr : Bool := false         -- `wait_for_result` (memory queue; also what the legacy batcher without a queue forces):
                              -- `Offer` returns what `done.OnDone` receives
  itemsSized : Bool := false  -- queue sized by items (`sizer: items`) instead of by requests
deriving DecidableEq, Repr

/-- `sizer.Sizeof(req)` for the two sizers the model distinguishes -/
def reqSize (cfg : Cfg) (b : List Nat) : Nat := if cfg.itemsSized then b.length else 1

/-- state of one queue consumer goroutine (`asyncQueue.Start`) -/
inductive CSt
  | idle                         -- in `Read` (blocked or about to pop)
  | holding (b : Batch)          -- popped a request, about to call `consumeFunc`
  | flushing (pend : List Batch) -- default batcher: left the critical section, still has `flush()` calls to make
  | busy (f : Nat)               -- disabled batcher: inside the export chain, as flight `f`
  | exited
deriving DecidableEq, Repr

/-- the default batcher's timer goroutine; `dead` also stands for "never started" (`flush_timeout = 0`, disabled batcher) -/
inductive TSt
  | idle
  | holding (b : Batch)          -- took the current batch, blocked in `flush()` for a worker slot
  | dead
deriving DecidableEq, Repr

inductive FSt
  | pending   -- goroutine started / export chain entered, export function not yet called
  | calling   -- inside the export function
  | backoff   -- retry sender waiting between attempts
  | done      -- `done.OnDone` called
deriving DecidableEq, Repr

/-- one pass of a batch through obsreport → retry → timeout → export (a flush goroutine, or the consumer itself) -/
structure Flight where
  batch : Batch
  st : FSt
  attempts : Nat          -- calls of the export function
  failures : Nat          -- of which returned an error
  owner : Option Nat      -- `some i`: runs on consumer goroutine `i` (disabled batcher)
  kept : Bool             -- ended with a shutdown error: a persistent queue keeps the request stored
deriving DecidableEq, Repr

def Flight.new (b : Batch) (owner : Option Nat) : Flight :=
  { batch := b, st := .pending, attempts := 0, failures := 0, owner := owner, kept := false }

structure State where
  cfg : Cfg
  /-- progress of the goroutine running `BaseExporter.Shutdown`:
  0 not requested · 1 retry sender stopped (`close(stopCh)`) · 2 queue stopped (`stopped = true; Broadcast`) ·
  3 consumers joined (`stopWG.Wait` of the async queue returned) · 4 batcher `shutdownCh` closed and current batch taken ·
  5 `stopWG.Wait` of the batcher returned = shutdown returned -/
  phase : Nat
  queue : List (Batch × Bool)     -- requests in the queue; flag = enqueued after shutdown was requested
  cons : List CSt
  cur : Option Batch              -- `defaultBatcher.currentBatch`
  workers : Nat                   -- free slots of `workerPool`
  timer : TSt
  shutHand : Option Batch         -- batch taken by the final `flushCurrentBatchIfNecessary`, not yet handed to a goroutine
  flights : List Flight           -- never shrinks; index = flight id
  early : List Item               -- ghost: items whose enqueue completed before shutdown was requested
  accepted : List Item            -- ghost: items of every completed enqueue
  stored : List Item              -- ghost (persistent queue): items in storage
  reqs : List Batch := []         -- ghost: every enqueued request, in order
  qsize : Nat := 0                -- `memoryQueue.size` / `persistentQueue.queueSize` (what the size gauge observes)
  results : List (Batch × Bool) := []  -- ghost: requests whose `done.OnDone(err)` was called, with `err != nil`
deriving Repr

def init (cfg : Cfg) (nCons workers : Nat) (timer : Bool) : State :=
  { cfg := cfg, phase := 0, queue := [], cons := List.replicate nCons .idle, cur := none, workers := workers,
    timer := if cfg.batching && timer then .idle else .dead, shutHand := none, flights := [],
    early := [], accepted := [], stored := [], reqs := [], qsize := 0, results := [] }

inductive Outcome | ok | perm | trans
deriving DecidableEq, Repr

/-- what the retry sender does after a failed call -/
inductive After
  | again   -- wait and retry
  | drop    -- return the error (permanent / retries exhausted / retry disabled / context done)
  | keep    -- return a shutdown error (`case <-rs.stopCh`)
deriving DecidableEq, Repr

inductive Label
  | offer (b : Batch)                                   -- an enqueue completes (`Offer` past `add`/`putInternal`)
  | read (i : Nat)
  | exit (i : Nat)
  | sendSync (i : Nat)                                  -- disabled batcher: consumer enters the export chain
  | consume (i : Nat) (flush : List Batch) (keep : Option Batch)   -- default batcher critical section
  | spawn (i : Nat)                                     -- consumer's `flush()`: slot taken, goroutine started
  | timerTake | timerSpawn | timerExit
  | expStart (f : Nat)
  | expEnd (f : Nat) (o : Outcome) (a : After)
  | giveUp (f : Nat) (kept : Bool)                      -- back-off interrupted (`stopCh` → kept, `ctx.Done` → not)
  | shutRetry | shutQueue | join | shutBatcher | shutSpawn | shutWait
deriving DecidableEq, Repr

def afterFlush : List Batch → CSt
  | [] => .idle
  | p :: ps => .flushing (p :: ps)

/-- items of the flights that have ended -/
def doneItems (fs : List Flight) : List Item := fs.flatMap (fun fl => if fl.st == .done then fl.batch else [])

/-- every piece of the request has ended its flight: the request's (ref-counted) `Done` fires.  `default_batcher.go` hands a
request's `Done` exactly to the flushes that contain part of it. -/
def reqDone (fs : List Flight) (r : Batch) : Bool := r.all (fun x => (doneItems fs).contains x)

/-- the error a request's `Done` receives is non-nil iff some flight carrying part of it ended with an error
(`refCountDone` joins the errors with `multierr.Append`) -/
def reqFailed (fs : List Flight) (r : Batch) : Bool :=
  fs.any (fun fl => fl.st == .done && fl.attempts != fl.failures + 1 && r.any (fun x => fl.batch.contains x))

/-- the consumer goroutine that ran flight `f` itself returns to its `Read` loop -/
def releaseOwner (cons : List CSt) (f : Nat) : Option Nat → List CSt
  | some i => if cons[i]? = some (.busy f) then cons.set i .idle else cons
  | none => cons

/-- the requests whose last piece ends with flight `f` -/
def completedBy (s : State) (f : Nat) (fl : Flight) (kept : Bool) (fail : Nat) : List Batch :=
  s.reqs.filter (fun r =>
    reqDone (s.flights.set f { fl with st := .done, failures := fl.failures + fail, kept := kept }) r && !reqDone s.flights r)

/-- the flight ends: `done.OnDone(err)`; releases its consumer or its worker slot -/
def finalise (s : State) (f : Nat) (fl : Flight) (kept : Bool) (fail : Nat) : State :=
  { s with
    flights := s.flights.set f { fl with st := .done, failures := fl.failures + fail, kept := kept }
    cons := releaseOwner s.cons f fl.owner
    workers := match fl.owner with | some _ => s.workers | none => s.workers + 1
    stored := if kept then s.stored else s.stored.filter (fun x => !fl.batch.contains x)
    -- `onDone` of every request completed by this flight: the queue releases its size (Nat subtraction = the clamp at 0 of
    -- persistent_queue.onDone), the producer of a `wait_for_result` queue receives the error
    qsize := s.qsize - ((completedBy s f fl kept fail).map (reqSize s.cfg)).sum
    results := s.results ++ (completedBy s f fl kept fail).map
      (fun r => (r, reqFailed (s.flights.set f { fl with st := .done, failures := fl.failures + fail, kept := kept }) r)) }

def allDoneOrOwned (fs : List Flight) : Bool := fs.all (fun fl => fl.owner.isSome || fl.st == .done)

def fire (s : State) : Label → Option State
  | .offer b =>
    -- memory_queue.add refuses once the queue is stopped (`errQueueIsStopped`; the refusal is counted enqueue-failed by obsQueue);
    -- a persistent queue keeps accepting (and storing) until its storage client is closed
    if s.cfg.persistent = false ∧ 2 ≤ s.phase then none else
    some { s with
      queue := s.queue ++ [(b, decide (1 ≤ s.phase))]
      accepted := s.accepted ++ b
      early := if s.phase = 0 then s.early ++ b else s.early
      stored := if s.cfg.persistent then s.stored ++ b else s.stored
      reqs := s.reqs ++ [b]
      qsize := s.qsize + reqSize s.cfg b }
  | .read i =>
    match s.cons[i]?, s.queue with
    | some .idle, (b, _) :: rest =>
      -- persistent_queue.Read checks `stopped` before looking at the storage; memory_queue.Read pops first
      if s.cfg.persistent && decide (2 ≤ s.phase) then none
      else some { s with queue := rest, cons := s.cons.set i (.holding b)
                         -- persistent_queue.Read: `if readIndex == writeIndex { queueSize = 0 }`
                         qsize := if s.cfg.persistent && rest.isEmpty then 0 else s.qsize }
    | _, _ => none
  | .exit i =>
    match s.cons[i]? with
    | some .idle =>
      if 2 ≤ s.phase ∧ (s.cfg.persistent = true ∨ s.queue = []) then some { s with cons := s.cons.set i .exited } else none
    | _ => none
  | .sendSync i =>
    match s.cons[i]? with
    | some (.holding b) =>
      if s.cfg.batching then none
      else some { s with cons := s.cons.set i (.busy s.flights.length), flights := s.flights ++ [Flight.new b (some i)] }
    | _ => none
  | .consume i flush keep =>
    match s.cons[i]? with
    | some (.holding b) =>
      if s.cfg.batching && (flush.flatten ++ keep.getD []).isPerm (s.cur.getD [] ++ b)
      then some { s with cur := keep, cons := s.cons.set i (afterFlush flush) } else none
    | _ => none
  | .spawn i =>
    match s.cons[i]? with
    | some (.flushing (b :: rest)) =>
      if 0 < s.workers then
        some { s with workers := s.workers - 1, cons := s.cons.set i (afterFlush rest), flights := s.flights ++ [Flight.new b none] }
      else none
    | _ => none
  | .timerTake =>
    match s.timer, s.cur with
    | .idle, some b => some { s with timer := .holding b, cur := none }
    | _, _ => none
  | .timerSpawn =>
    match s.timer with
    | .holding b =>
      if 0 < s.workers then some { s with workers := s.workers - 1, timer := .idle, flights := s.flights ++ [Flight.new b none] } else none
    | _ => none
  | .timerExit =>
    match s.timer with
    | .idle => if 4 ≤ s.phase then some { s with timer := .dead } else none
    | _ => none
  | .expStart f =>
    match s.flights[f]? with
    | some fl =>
      if fl.st = .pending ∨ fl.st = .backoff
      then some { s with flights := s.flights.set f { fl with st := .calling, attempts := fl.attempts + 1 } } else none
    | none => none
  | .expEnd f o a =>
    match s.flights[f]? with
    | some fl =>
      if fl.st = .calling then
        match o, a with
        | .ok, .drop => some (finalise s f fl false 0)
        | .perm, .drop => some (finalise s f fl false 1)
        | .trans, .drop => some (finalise s f fl false 1)
        | .trans, .again =>
          -- retry_sender.go checks `stopCh` before it starts the back-off: once the retry sender is stopped no retry is scheduled
          if s.cfg.retry && decide (s.phase = 0) then some { s with flights := s.flights.set f { fl with st := .backoff, failures := fl.failures + 1 } } else none
        | .trans, .keep => if s.cfg.retry && decide (1 ≤ s.phase) then some (finalise s f fl true 1) else none
        | _, _ => none
      else none
    | none => none
  | .giveUp f kept =>
    match s.flights[f]? with
    | some fl =>
      if fl.st = .backoff ∧ (kept = true → 1 ≤ s.phase) then some (finalise s f fl kept 0) else none
    | none => none
  | .shutRetry => if s.phase = 0 then some { s with phase := 1 } else none
  | .shutQueue => if s.phase = 1 then some { s with phase := 2 } else none
  | .join => if s.phase = 2 ∧ s.cons.all (· == .exited) = true then some { s with phase := 3 } else none
  | .shutBatcher =>
    -- `shutHand` is the local `batchToFlush` of the final flushCurrentBatchIfNecessary: it does not exist before this step
    if s.phase = 3 ∧ s.shutHand = none then some { s with phase := 4, shutHand := s.cur, cur := none } else none
  | .shutSpawn =>
    match s.shutHand with
    | some b =>
      if s.phase = 4 ∧ 0 < s.workers
      then some { s with shutHand := none, workers := s.workers - 1, flights := s.flights ++ [Flight.new b none] } else none
    | none => none
  | .shutWait =>
    -- disabledBatcher.Shutdown is a no-op; defaultBatcher.Shutdown waits for the timer goroutine and every flush goroutine
    if s.phase = 4 ∧ (s.cfg.batching = true → s.shutHand = none ∧ s.timer = .dead ∧ allDoneOrOwned s.flights = true)
    then some { s with phase := 5 } else none

/-- run a schedule (list of labels); `none` if some label is not enabled -/
def runFrom (s : State) : List Label → Option State
  | [] => some s
  | l :: ls => match fire s l with
    | some s' => runFrom s' ls
    | none => none

/-- reachable from an initial state -/
inductive Reachable : State → Prop
  | init (cfg nCons workers timer) : Reachable (init cfg nCons workers timer)
  | step {s s'} (l : Label) : Reachable s → fire s l = some s' → Reachable s'

theorem reachable_of_runFrom {s s' : State} (ls : List Label) (h : Reachable s) (hr : runFrom s ls = some s') : Reachable s' := by
  induction ls generalizing s with
  | nil => simp [runFrom] at hr; exact hr ▸ h
  | cons l ls ih =>
    simp only [runFrom] at hr
    cases hf : fire s l with
    | none => simp [hf] at hr
    | some s1 => simp [hf] at hr; exact ih (Reachable.step l h hf) hr

/-! ## where the items are -/

def CSt.items : CSt → List Item
  | .holding b => b
  | .flushing pend => pend.flatten
  | _ => []

def TSt.items : TSt → List Item
  | .holding b => b
  | _ => []

def optItems : Option Batch → List Item
  | some b => b
  | none => []

def queueItems (q : List (Batch × Bool)) : List Item := q.flatMap (·.1)
def queueEarly (q : List (Batch × Bool)) : List Item := q.flatMap (fun p => if p.2 then [] else p.1)
def consItems (cs : List CSt) : List Item := cs.flatMap CSt.items
def flightItems (fs : List Flight) : List Item := fs.flatMap (·.batch)

/-- every place an item can be (flights are kept after they ended) -/
def places (s : State) : List Item :=
  queueItems s.queue ++ consItems s.cons ++ optItems s.cur ++ s.timer.items ++ optItems s.shutHand ++ flightItems s.flights

/-- the same without the requests enqueued after shutdown was requested that still sit in the queue -/
def placesEarly (s : State) : List Item :=
  queueEarly s.queue ++ consItems s.cons ++ optItems s.cur ++ s.timer.items ++ optItems s.shutHand ++ flightItems s.flights

/-! ## trace-level monitor (M tie): events recorded from the real exporter, checked by `check` -/

inductive Ev
  | acc (items : List Item)          -- a `Send` returned nil
  | shutReq
  | es (call : Nat) (items : List Item)   -- the export function was entered
  | ee (call : Nat) (failed : Bool)       -- … and returned
  | shutRet
deriving DecidableEq, Repr

def evsBefore (p : Ev → Bool) : List Ev → List Ev
  | [] => []
  | e :: es => if p e then [] else e :: evsBefore p es

def isShutReq : Ev → Bool | .shutReq => true | _ => false
def isShutRet : Ev → Bool | .shutRet => true | _ => false

/-- items accepted before shutdown was requested -/
def earlyItems (t : List Ev) : List Item :=
  (evsBefore isShutReq t).flatMap (fun e => match e with | .acc is => is | _ => [])

def startsOf (t : List Ev) : List (Nat × List Item) :=
  t.filterMap (fun e => match e with | .es c is => some (c, is) | _ => none)
def endsOf (t : List Ev) : List (Nat × Bool) :=
  t.filterMap (fun e => match e with | .ee c f => some (c, f) | _ => none)

/-- number of export calls containing `x` -/
def attemptsOf (t : List Ev) (x : Item) : Nat := ((startsOf t).filter (fun p => p.2.contains x)).length
/-- some call containing `x` returned an error -/
def failedFor (t : List Ev) (x : Item) : Bool :=
  (startsOf t).any (fun p => p.2.contains x && (endsOf t).contains (p.1, true))

def evsAfter (p : Ev → Bool) : List Ev → List Ev
  | [] => []
  | e :: es => if p e then es else evsAfter p es

structure Verdict where
  returned : Bool
  undrained : List Item      -- early items never attempted before shutdown returned
  duplicated : List Item     -- early items attempted more than once although no attempt containing them failed
  openCalls : List Nat       -- calls entered before shutdown returned that had not returned by then
  lateCalls : List Nat       -- calls entered after shutdown returned
deriving Repr, DecidableEq

/-- the property's clauses evaluated on a recorded trace (memory-queue reading; the persistent-queue clause replaces
`undrained` by "neither attempted nor recovered", see `lostPersistent`) -/
def verdict (t : List Ev) : Verdict :=
  let pre := evsBefore isShutRet t
  let post := evsAfter isShutRet t
  let early := earlyItems t
  { returned := t.any isShutRet
    undrained := early.filter (fun x => attemptsOf pre x == 0)
    duplicated := early.filter (fun x => !failedFor pre x && decide (1 < attemptsOf pre x) && decide (early.count x ≤ 1))
    openCalls := ((startsOf pre).map (·.1)).filter (fun c => !((endsOf pre).map (·.1)).contains c)
    lateCalls := (startsOf post).map (·.1) }

/-- persistent queue: early items neither attempted before the return nor recovered by the next start -/
def lostPersistent (t : List Ev) (recovered : List Item) : List Item :=
  (earlyItems t).filter (fun x => attemptsOf (evsBefore isShutRet t) x == 0 && !recovered.contains x)

def checkMemory (t : List Ev) : Bool :=
  let v := verdict t
  v.returned && v.undrained.isEmpty && v.duplicated.isEmpty && v.openCalls.isEmpty && v.lateCalls.isEmpty

def checkPersistent (t : List Ev) (recovered : List Item) : Bool :=
  let v := verdict t
  v.returned && (lostPersistent t recovered).isEmpty && v.openCalls.isEmpty && v.lateCalls.isEmpty

end OtelVerif.C03
