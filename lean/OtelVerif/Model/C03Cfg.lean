import OtelVerif.Model.C03Shape
/-!
# C03: from the exporter's OPTIONS to the runtime object the LTS starts from (`NewBaseExporter` → `NewQueueSender` →
`newQueueBatchConfig` → `newQueueBatch` → `newAsyncQueue` / `newDefaultBatcher`)

`derive` mirrors, branch by branch, what the constructors make of the user's configuration:

* `base_exporter.go NewBaseExporter`: a queue sender exists iff `queueCfg.Enabled || batcherCfg.Enabled`; a retry sender iff
  `retryCfg.Enabled`;
* `queue_sender.go newQueueBatchConfig`: legacy batcher off → the queue config as it is; legacy batcher on and queue on → the queue
  config with `Batch` set; legacy batcher on and queue off → a memory queue with `wait_for_result`, `NumCPU` consumers, requests sizer;
* `queue_batch.go newQueueBatch`: `Batch != nil` → `NumConsumers = 1`, default batcher with `maxWorkers = NumConsumers`; otherwise the
  disabled batcher; `StorageID == nil` → memory queue (receives `WaitForResult`) else persistent queue (does not); the async queue
  starts `NumConsumers` consumers;
* `default_batcher.go Start`: the timer goroutine exists iff `FlushTimeout > 0`.

Every branch that the regenerated skeletons of `Gen/C03Shape.lean` describe is taken THROUGH the corresponding `Shape.*` fact, so a
source change flips the fact, changes `derive`, and the theorems of `Props/C03Cfg.lean` (which discharge the hypotheses
`cons ≠ []` and `PoolOK` of the drain / termination theorems for every constructor output) are re-checked against it.
The harness reads the same fields off the REAL exporter object by reflection (`tr rt …`) and the driver diffs them with `derive`.
-/
namespace OtelVerif.C03

/-- the options handed to `exporterhelper.New<Signal>[Request]` -/
structure UCfg where
  queueEnabled : Bool       -- `WithQueue` / `WithQueueBatch` with `Enabled`
  storage : Bool            -- `StorageID != nil`
  wfr : Bool                -- `wait_for_result`
  itemsSized : Bool         -- `sizer: items` (queue)
  numConsumers : Nat
  queueBatch : Bool         -- `sending_queue::batch` set
  legacyBatcher : Bool      -- `WithBatcher(cfg)` with `Enabled`
  flushTimeout : Bool       -- flush timeout of whichever batcher > 0
  retry : Bool              -- `retry_on_failure.enabled`
  numCPU : Nat              -- `runtime.NumCPU()`
deriving DecidableEq, Repr

/-- `queuebatch.Config` after `newQueueBatchConfig` -/
structure QCfg where
  storage : Bool
  wfr : Bool
  itemsSized : Bool
  numConsumers : Nat
  batch : Bool
deriving DecidableEq, Repr

/-- `newQueueBatchConfig(qCfg, bCfg)` -/
def queueBatchConfig (u : UCfg) : QCfg :=
  if !u.legacyBatcher then
    { storage := u.storage, wfr := u.wfr, itemsSized := u.itemsSized, numConsumers := u.numConsumers, batch := u.queueBatch }
  else if u.queueEnabled then
    { storage := u.storage, wfr := u.wfr, itemsSized := u.itemsSized, numConsumers := u.numConsumers, batch := true }
  else if Shape.legacyForcesWfr then
    -- the literal of `legacyLit`: memory queue, wait_for_result, requests sizer, NumCPU consumers
    { storage := false, wfr := true, itemsSized := false, numConsumers := u.numCPU, batch := true }
  else
    { storage := u.storage, wfr := u.wfr, itemsSized := u.itemsSized, numConsumers := u.numCPU, batch := true }

/-- the runtime object: what `init` of the LTS is called with -/
structure RT where
  cfg : Cfg
  nCons : Nat
  workers : Nat
  timer : Bool
deriving DecidableEq, Repr

/-- `newQueueBatch(set, cfg, next, oldBatcher)` + `newAsyncQueue` + `newDefaultBatcher` + `defaultBatcher.Start` -/
def queueBatch (u : UCfg) (q : QCfg) : RT :=
  let nc := if q.batch && Shape.batchForcesOneConsumer then 1 else q.numConsumers
  { cfg := { persistent := q.storage && Shape.queueKind
             batching := q.batch
             retry := u.retry
             -- `waitForResult` is a field of the memory queue's settings only
             wfr := q.wfr && !q.storage && Shape.queueKind
             itemsSized := q.itemsSized }
    nCons := nc
    workers := if q.batch then (if Shape.poolIsConsumers then nc else 0) else 0
    timer := q.batch && u.flushTimeout && Shape.timerLoop }

/-- `NewBaseExporter`: `none` = no queue sender (queue-less exporter, outside the LTS) -/
def derive (u : UCfg) : Option RT :=
  if u.queueEnabled || u.legacyBatcher then some (queueBatch u (queueBatchConfig u)) else none

/-- `Config.Validate`: `num_consumers >= 1`; the machine has a CPU -/
def UCfg.valid (u : UCfg) : Prop := 1 ≤ u.numConsumers ∧ 1 ≤ u.numCPU

/-- states reachable from ONE given initial state -/
inductive ReachableFrom (s0 : State) : State → Prop
  | refl : ReachableFrom s0 s0
  | step {s s'} (l : Label) : ReachableFrom s0 s → fire s l = some s' → ReachableFrom s0 s'

def RT.init (rt : RT) : State := OtelVerif.C03.init rt.cfg rt.nCons rt.workers rt.timer

end OtelVerif.C03
