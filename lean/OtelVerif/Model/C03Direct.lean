import OtelVerif.Model.C03Mon
/-!
# C03 model: QUEUE-LESS ("direct") exporters — no sending queue, no batcher

`exporterhelper/internal/base_exporter.go`: without `QueueSender` the chain is obsreport → retry → timeout → export function and
`BaseExporter.Send` runs it on the CALLER's goroutine; `BaseExporter.Shutdown` = `RetrySender.Shutdown` (`close(stopCh)`; the
retry sender is absent when `retry_on_failure.enabled = false`) and then the wrapped exporter's own shutdown.  It does NOT wait for
the callers.  So "all export calls have returned" is false for such exporters and is not claimed.  What the code guarantees — and
what this LTS states — is: once `Shutdown` has returned NO RETRY is scheduled any more.

`retry_sender.go` `Send` loop, branch by branch:
* call `next.Send` (`expStart` … `expEnd`); `nil` → return (`.ok,.drop`); permanent → return (`.perm,.drop`); back-off `Stop`, elapsed
  budget, context deadline before the next retry → return (`.trans,.drop`);
* the non-blocking `select { case <-rs.stopCh: return shutdownErr }` BEFORE the back-off: a failed call after the stop ends its `Send`
  with a shutdown error (`.trans,.keep` needs `retry ∧ stopped`), a retry is scheduled only while not stopped (`.trans,.again` needs
  `retry ∧ ¬stopped`);
* the blocking `select` of the back-off: `ctx.Done` (`giveUp f false`), `stopCh` (`giveUp f true`, needs `stopped`), timer (`expStart f`
  from `backoff`, needs `¬stopped`: once `stopCh` is closed the `select` has the `stopCh` case ready.  The SAME-INSTANT tie — the timer
  fires in the very instant of the close, both cases ready, `select` picks at random — is excluded, as in C05; the harness keeps the
  shutdown instant off the timer grid).
With retry disabled there is no retry sender: every failure is `.drop`, `shutdown` only marks "returned".

`shutdown` is ONE step (`close(stopCh)` and the return of `Shutdown`; nothing else happens in between, the wrapped exporter's shutdown
function is outside the helper).  A real trace may interleave caller events between the close and the return; everything a caller can
do there it can also do after `stopped` here, and the monitor `checkDirect` only looks at what follows `shutRet`.

Abstractions: items are naturals, a request is a list of items; a flight keeps its item list over its attempts (a partial-failure
retry of the code carries a SUB-list — the trace monitor `lateRetries` handles that through `rootOfCall`); time does not appear;
the backend outcome of every call is arbitrary; any number of callers, entering `Send` at any time (also after the stop).
-/
namespace OtelVerif.C03.Direct

open OtelVerif.C03

/-- one `Send` of a caller: obsreport → retry loop → timeout → export function, on the caller's goroutine -/
structure DFlight where
  st : FSt                -- pending: inside `Send`, export function not yet called · calling · backoff · done: `Send` returned
  attempts : Nat          -- calls of the export function
  failures : Nat          -- of which returned an error
  items : Batch
  kept : Bool             -- `Send` returned a shutdown error (`experr.NewShutdownErr`)
deriving DecidableEq, Repr

def DFlight.new (b : Batch) : DFlight := { st := .pending, attempts := 0, failures := 0, items := b, kept := false }

structure DState where
  retry : Bool            -- `retry_on_failure.enabled`
  stopped : Bool          -- `Shutdown` has returned (`close(stopCh)` done; retry disabled: just "returned")
  flights : List DFlight  -- never shrinks; index = flight id
deriving DecidableEq, Repr

def dinit (retry : Bool) : DState := { retry := retry, stopped := false, flights := [] }

inductive DLabel
  | send (b : Batch)                         -- a caller enters `Send`: allowed at ANY time, also after the stop
  | expStart (f : Nat)
  | expEnd (f : Nat) (o : Outcome) (a : After)
  | giveUp (f : Nat) (kept : Bool)           -- back-off interrupted (`stopCh` → kept, `ctx.Done` → not)
  | shutdown
deriving DecidableEq, Repr

/-- the flight's `Send` returns -/
def dend (s : DState) (f : Nat) (fl : DFlight) (kept : Bool) (fail : Nat) : DState :=
  { s with flights := s.flights.set f { fl with st := .done, failures := fl.failures + fail, kept := kept } }

def dfire (s : DState) : DLabel → Option DState
  | .send b => some { s with flights := s.flights ++ [DFlight.new b] }
  | .expStart f =>
    match s.flights[f]? with
    | some fl =>
      -- first attempt at any time; the back-off timer wins only while `stopCh` is open
      if fl.st = .pending ∨ (fl.st = .backoff ∧ s.stopped = false)
      then some { s with flights := s.flights.set f { fl with st := .calling, attempts := fl.attempts + 1 } } else none
    | none => none
  | .expEnd f o a =>
    match s.flights[f]? with
    | some fl =>
      if fl.st = .calling then
        match o, a with
        | .ok, .drop => some (dend s f fl false 0)
        | .perm, .drop => some (dend s f fl false 1)
        | .trans, .drop => some (dend s f fl false 1)
        | .trans, .again =>
          if s.retry = true ∧ s.stopped = false
          then some { s with flights := s.flights.set f { fl with st := .backoff, failures := fl.failures + 1 } } else none
        | .trans, .keep => if s.retry = true ∧ s.stopped = true then some (dend s f fl true 1) else none
        | _, _ => none
      else none
    | none => none
  | .giveUp f kept =>
    match s.flights[f]? with
    | some fl => if fl.st = .backoff ∧ (kept = true → s.stopped = true) then some (dend s f fl kept 0) else none
    | none => none
  | .shutdown => if s.stopped = false then some { s with stopped := true } else none

/-- run a schedule; `none` if some label is not enabled -/
def drunFrom (s : DState) : List DLabel → Option DState
  | [] => some s
  | l :: ls => match dfire s l with
    | some s' => drunFrom s' ls
    | none => none

inductive DReachable : DState → Prop
  | init (retry : Bool) : DReachable (dinit retry)
  | step {s s'} (l : DLabel) : DReachable s → dfire s l = some s' → DReachable s'

theorem dreachable_of_drunFrom {s s' : DState} (ls : List DLabel) (h : DReachable s) (hr : drunFrom s ls = some s') :
    DReachable s' := by
  induction ls generalizing s with
  | nil => simp [drunFrom] at hr; exact hr ▸ h
  | cons l ls ih =>
    simp only [drunFrom] at hr
    cases hf : dfire s l with
    | none => simp [hf] at hr
    | some s1 => simp [hf] at hr; exact ih (DReachable.step l h hf) hr

/-! ## the observable trace of a run (what the harness logs around the real exporter) -/

/-- `es`/`ee` around every call of the export function (call ids in order of the calls), `shutReq` then `shutRet` at `shutdown`.
No `acc`: in direct mode a `Send` returns only when its flight ends. -/
structure DRec where
  s : DState
  tr : List Ev := []                 -- oldest first
  calls : Nat := 0                   -- export calls started so far = id of the next call
  pending : List (Nat × Nat) := []   -- (flight, call id) of the calls that have not returned yet
deriving Repr

def DRec.step (r : DRec) (l : DLabel) : Option DRec :=
  match dfire r.s l with
  | none => none
  | some s' =>
    match l with
    | .shutdown => some { r with s := s', tr := r.tr ++ [.shutReq, .shutRet] }
    | .expStart f =>
      some { s := s', tr := r.tr ++ [.es r.calls ((r.s.flights[f]?.map (·.items)).getD [])], calls := r.calls + 1,
             pending := (f, r.calls) :: r.pending }
    | .expEnd f o _ =>
      match r.pending.lookup f with
      | some c => some { r with s := s', tr := r.tr ++ [.ee c (o != .ok)], pending := r.pending.filter (fun p => p.1 != f) }
      | none => some { r with s := s' }
    | _ => some { r with s := s' }

def DRec.run (r : DRec) : List DLabel → Option DRec
  | [] => some r
  | l :: ls => match r.step l with
    | some r' => r'.run ls
    | none => none

def DRec.start (retry : Bool) : DRec := { s := dinit retry }

/-! ## trace monitor (executable; the driver runs it on the traces of the REAL exporter) -/

/-- the export calls entered AFTER `Shutdown` returned that are not the first call of their chain (a retry carries the same
items or a sub-list, item ids are unique — what `rootOfCall` assumes): retries scheduled by a stopped retry sender -/
def lateRetries (t : List Ev) : List Nat :=
  ((startsOf (evsAfter isShutRet t)).filter (fun p => rootOfCall (startsOf t) p != p.1)).map (·.1)

def checkDirect (t : List Ev) : Bool := (lateRetries t).isEmpty

end OtelVerif.C03.Direct
