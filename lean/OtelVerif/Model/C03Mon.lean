import OtelVerif.Model.C03
/-!
# C03 monitor, persistent-queue clauses about shutdown-interrupted flights

"finished export (successfully or with a final failure) OR still durably stored": a flight (chain of attempts: a retry carries
the same items or, after a partial failure, a sub-list) whose LAST call failed with a retryable error while retries were enabled
and not exhausted can only have been ended by the shutdown — it has NOT finished export.  Whatever the other parts of its
requests did (the persistent queue deletes per request, by the combination of the part errors), its items accepted before the
shutdown request must still be in storage when `Shutdown` has returned, and the next start must deliver them.
`EndInfo` is what the harness records about the end of a call beyond `Ev.ee` (permanent?, retries left? — the latter computed with
the real back-off implementation from virtual timestamps).
-/
namespace OtelVerif.C03

structure EndInfo where
  call : Nat
  failed : Bool
  perm : Bool
  left : Bool      -- retries were left after this failed call (elapsed-time budget not exhausted)
deriving DecidableEq, Repr

/-- the first call of the chain a call belongs to (item ids are unique) -/
def rootOfCall (starts : List (Nat × List Item)) (c : Nat × List Item) : Nat :=
  match c.2 with
  | [] => c.1
  | x :: _ => ((starts.find? (fun p => p.2.contains x)).map (·.1)).getD c.1

/-- the last call of every chain -/
def lastOfChains (starts : List (Nat × List Item)) : List (Nat × List Item) :=
  starts.filter (fun p => !(starts.any (fun q => rootOfCall starts q == rootOfCall starts p && decide (p.1 < q.1))))

/-- the calls that ended their flight by a shutdown interruption -/
def interruptedCalls (t : List Ev) (ends : List EndInfo) : List (Nat × List Item) :=
  (lastOfChains (startsOf (evsBefore isShutRet t))).filter
    (fun p => ends.any (fun e => e.call == p.1 && e.failed && !e.perm && e.left))

def interruptedNotStored (t : List Ev) (ends : List EndInfo) (stored : List Item) : List Item :=
  (interruptedCalls t ends).flatMap (fun p => p.2.filter (fun x => (earlyItems t).contains x && !stored.contains x))

def interruptedNotRedelivered (t : List Ev) (ends : List EndInfo) (stored recovered : List Item) : List Item :=
  (interruptedCalls t ends).flatMap
    (fun p => p.2.filter (fun x => (earlyItems t).contains x && stored.contains x && !recovered.contains x))

def checkInterrupted (t : List Ev) (ends : List EndInfo) (stored recovered : List Item) : Bool :=
  (interruptedNotStored t ends stored).isEmpty && (interruptedNotRedelivered t ends stored recovered).isEmpty

end OtelVerif.C03
