import OtelVerif.Model.C03Shape
/-!
# C03: `refCountDone` (default_batcher.go) — the `Done` of a request that was split over several flushes

```go
func (rcd *refCountDone) OnDone(err error) {
	rcd.mu.Lock(); defer rcd.mu.Unlock()
	rcd.err = multierr.Append(rcd.err, err)
	rcd.refCount--
	if rcd.refCount == 0 { rcd.done.OnDone(rcd.err) }
}
```
Every part's flush calls `OnDone` once, under the mutex (so the calls are a sequence, in whatever order the parts finish).
`multierr.Append` drops nil and keeps every non-nil error; `experr.IsShutdownErr` is `errors.As` over the joined errors, so the
aggregate is shutdown-classified iff SOME part's error is.  The skeleton of `OnDone` is regenerated (`Gen/C03Shape.refCountOnDone`);
the model appends exactly when `Shape.doneJoinsAll` says the source does.
-/
namespace OtelVerif.C03.RefCount

/-- what one part's flush hands to `OnDone` -/
inductive PErr
  | ok          -- nil
  | final       -- a non-shutdown error: permanent, retries exhausted, context done
  | shutdown    -- `experr.NewShutdownErr(…)`: the retry sender was stopped with retries left
deriving DecidableEq, Repr

/-- a `multierr` value: the non-nil errors appended so far, in order -/
abbrev MErr := List PErr

/-- `multierr.Append(e, x)` -/
def mappend (e : MErr) (x : PErr) : MErr := if x = .ok then e else e ++ [x]

/-- `err != nil` -/
def nonNil (e : MErr) : Bool := !e.isEmpty
/-- `experr.IsShutdownErr(err)` (`errors.As` looks through the joined errors) -/
def isShutdown (e : MErr) : Bool := e.contains .shutdown

structure RCD where
  refCount : Int
  err : MErr := []
  fired : List MErr := []      -- every call of the wrapped `Done`, with what it received
deriving Repr

def RCD.new (n : Nat) : RCD := { refCount := n }

/-- `refCountDone.OnDone(x)` -/
def RCD.onDone (r : RCD) (x : PErr) : RCD :=
  let e := if Shape.doneJoinsAll then mappend r.err x else r.err
  let n := r.refCount - 1
  { refCount := n, err := e, fired := if n = 0 then r.fired ++ [e] else r.fired }

def RCD.run (n : Nat) (parts : List PErr) : RCD := parts.foldl RCD.onDone (RCD.new n)

/-- the join of a list of part errors -/
def joined (parts : List PErr) : MErr := parts.filter (· ≠ .ok)

end OtelVerif.C03.RefCount
