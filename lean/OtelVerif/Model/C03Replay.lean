import OtelVerif.Model.C03
/-!
# C03: replaying a recorded trace of the real exporter through `fire`

The strengthened tie: a trace recorded from the real exporter must be (the observable part of) a RUN OF THE LTS.
`replay` walks the recorded events and fires LTS labels, inferring the hidden steps (enqueue completion, `read`, `consume`
with the re-partition the real `MergeSplit` returned, `spawn`, timer / shutdown flushes, retry decisions, consumer exits and
the shutdown goroutine's phases) as late as possible; every label it fires must be ENABLED (`fire … = some …`), otherwise the
replay fails and names the label — the implementation did something the model cannot do (or the other way round at the
joins: the model cannot return from `Shutdown` where the implementation did).

What this checks on every recorded trace, beyond the trace monitor: every exported batch is produced by the model's batching /
flight mechanics from what was enqueued (conservation at each `consume`: the recorded partition must be a permutation of current
batch ++ request); the current batch the real batcher merged into is the model's current batch; no more concurrent flush
goroutines than worker slots, no more concurrent synchronous exports than consumers; retries only while the retry sender is not
stopped; a shutdown-interrupted flight of a persistent queue ends "kept"; when `Shutdown` returned the model can return too (all
consumers can exit — memory queue empty —, join, final flush done, timer idle, every flush goroutine done); nothing starts
afterwards.  The final model state is handed to the C19 driver (counters as functions of the state).

Hidden steps that leave no trace are placed where they are first needed, so FIFO order and the exact instant of consumer exits
are not checked here (they are not observable without touching the code).
-/
namespace OtelVerif.C03.Replay
open OtelVerif.C03

inductive TEv
  | ss (rid : Nat) (ids : List Nat)           -- `Send` called
  | acc (rid : Nat) (ids : List Nat)          -- … returned nil
  | rej (rid : Nat) (ids : List Nat)          -- … returned an error
  | ms (first : Bool) (cur req : List Nat) (res : List (List Nat)) (keep : Bool)   -- `MergeSplit` = Consume critical section
  | es (call : Nat) (ids : List Nat)
  | ee (call : Nat) (failed perm left : Bool)
  | shutreq | wshut | shutret
deriving Repr

structure RCfg where
  cfg : Cfg
  nCons : Nat
  workers : Nat
  timer : Bool
  stored : List Nat                    -- items physically in storage when Shutdown had returned (persistent queue)
  sends : List (Nat × List Nat)        -- every `ss` of the trace

structure RS where
  s : State
  offered : List Nat := []             -- request ids already enqueued in the model
  callFlight : List (Nat × Nat) := []  -- export call ↦ flight
  toKill : List Nat := []              -- flights in back-off that the shutdown will interrupt (kept)
  deferred : List (List Nat) := []     -- persistent queue: accepted requests never dispatched, enqueued at the end
  reqSeen : Bool := false
  retSeen : Bool := false
  err : Option (String × String) := none
  steps : Nat := 0

def labelName : Label → String
  | .offer _ => "offer" | .read _ => "read" | .exit _ => "exit" | .sendSync _ => "sendSync" | .consume .. => "consume"
  | .spawn _ => "spawn" | .timerTake => "timerTake" | .timerSpawn => "timerSpawn" | .timerExit => "timerExit"
  | .expStart _ => "expStart" | .expEnd .. => "expEnd" | .giveUp .. => "giveUp" | .shutRetry => "shutRetry"
  | .shutQueue => "shutQueue" | .join => "join" | .shutBatcher => "shutBatcher" | .shutSpawn => "shutSpawn" | .shutWait => "shutWait"

def fail (rs : RS) (kind detail : String) : RS :=
  if rs.err.isSome then rs else { rs with err := some (kind, detail) }

/-- fire one label; it must be enabled -/
def fireL (rs : RS) (l : Label) (ctx : String) : RS :=
  if rs.err.isSome then rs else
  match fire rs.s l with
  | some s' => { rs with s := s', steps := rs.steps + 1 }
  | none => fail rs (labelName l ++ "-not-enabled") s!"{ctx}: {reprStr l} phase={rs.s.phase}"

def same (a b : List Nat) : Bool := a.isPerm b

def repeatN (n : Nat) (f : RS → RS) (rs : RS) : RS := (List.range n).foldl (fun (rs : RS) _ => f rs) rs

/-- the consumers' outstanding `flush()` calls: every started `Consume` has finished them before the consumer does anything else -/
def spawnAll (rs : RS) : RS :=
  (List.range rs.s.cons.length).foldl (fun (rs : RS) (i : Nat) =>
    match rs.s.cons[i]? with
    | some (CSt.flushing pend) => repeatN pend.length (fun rs => fireL rs (.spawn i) "outstanding flush") rs
    | _ => rs) rs

def exitAll (rs : RS) : RS :=
  (List.range rs.s.cons.length).foldl (fun (rs : RS) (i : Nat) =>
    match rs.s.cons[i]? with
    | some CSt.idle => fireL rs (.exit i) "consumers leave before the join"
    | some CSt.exited => rs
    | some c => fail rs "consumer-busy-at-join" s!"consumer {i} is {reprStr c}"
    | none => rs) rs

/-- one step of the goroutine running `Shutdown` -/
def advance1 (rs : RS) : RS :=
  match rs.s.phase with
  | 0 =>
    let rs := fireL rs .shutRetry "shutdown"
    rs.toKill.foldl (fun (rs : RS) (f : Nat) => fireL rs (.giveUp f true) "back-off interrupted by the shutdown") { rs with toKill := [] }
  | 1 => fireL rs .shutQueue "shutdown"
  | 2 => fireL (exitAll (spawnAll rs)) .join "shutdown"
  | 3 => fireL rs .shutBatcher "shutdown"
  | _ => rs

def needPhase (k : Nat) (rs : RS) : RS :=
  repeatN 5 (fun rs => if rs.err.isNone && rs.s.phase < k then advance1 rs else rs) rs

def findRid (rc : RCfg) (ids : List Nat) : Option Nat := (rc.sends.find? (fun p => p.2 == ids)).map (·.1)

def ensureOffered (rc : RCfg) (rs : RS) (ids : List Nat) : RS :=
  match findRid rc ids with
  | none => fail rs "unknown-request" s!"no send of {ids}"
  | some rid => if rs.offered.contains rid then rs else { fireL rs (.offer ids) "enqueue" with offered := rid :: rs.offered }

/-- will the request be dispatched later (its items appear in a later `MergeSplit` as the request, or in a later call)? -/
def neededLater (ids : List Nat) (rest : List TEv) : Bool :=
  rest.any (fun e => match e with
    | .ms _ _ req _ _ => req == ids
    | .es _ b => ids.any (fun x => b.contains x)
    | _ => false)

/-- the requests dispatched later in the trace, in the order they are needed -/
def laterNeeded (rc : RCfg) (rest : List TEv) : List (List Nat) :=
  (rest.filterMap (fun e => match e with
    | .ms _ _ req _ _ => some req
    | .es _ b =>
      if rc.cfg.batching then none
      else (rc.sends.find? (fun p => !b.isEmpty && b.all (fun x => p.2.contains x))).map (·.2)
    | _ => none)).eraseDups

def startFlightLast (rs : RS) (call : Nat) : RS :=
  let f := rs.s.flights.length - 1
  { fireL rs (.expStart f) "export call" with callFlight := (call, f) :: rs.callFlight }

def handle (rc : RCfg) (rs : RS) (e : TEv) (rest : List TEv) : RS :=
  if rs.err.isSome then rs else
  match e with
  | .ss _ _ => rs
  | .rej _ _ => rs
  | .wshut => rs
  | .acc rid ids =>
    if rs.offered.contains rid || neededLater ids rest then rs
    else if rc.cfg.persistent then
      -- persistent queue, never dispatched (stays stored).  FIFO: every request that IS dispatched later was pushed before
      -- this one, so those are enqueued first (in the order they will be needed), then this one, at its real position
      let rs := (laterNeeded rc rest).foldl (fun (rs : RS) (r : List Nat) => ensureOffered rc rs r) rs
      { fireL rs (.offer ids) "enqueue (never dispatched: stays stored)" with offered := rid :: rs.offered }
    else if rs.reqSeen then
      -- memory queue, accepted after the shutdown request and never dispatched: every consumer had left before the push
      let rs := exitAll (spawnAll (needPhase 2 rs))
      { fireL rs (.offer ids) "late enqueue" with offered := rid :: rs.offered }
    else { fireL rs (.offer ids) "enqueue" with offered := rid :: rs.offered }
  | .ms first cur req res keep =>
    let rs := spawnAll rs
    let rs := ensureOffered rc rs req
    let rs :=
      if first then
        match rs.s.cur with
        | some _ => fireL rs .timerTake "the current batch was taken by the flush timer"
        | none => rs
      else
        match rs.s.cur with
        | some c => if same c cur then rs else fail rs "current-batch-mismatch" s!"model {c} implementation {cur}"
        | none => fail rs "current-batch-mismatch" s!"model has none, implementation {cur}"
    let rs := fireL rs (.read 0) "consumer reads the request"
    let flush := if keep then res.dropLast else res
    let kp := if keep then res.getLast? else none
    fireL rs (.consume 0 flush kp) "Consume"
  | .es call ids =>
    -- a retry carries the flight's batch or, after a partial failure (`Request.OnError`), a non-empty sub-list of it
    match rs.s.flights.findIdx? (fun fl =>
        (fl.st == .pending && same fl.batch ids) ||
        (fl.st == .backoff && !ids.isEmpty && ids.all (fun x => fl.batch.contains x))) with
    | some f => { fireL rs (.expStart f) "export call" with callFlight := (call, f) :: rs.callFlight }
    | none =>
      if rc.cfg.batching then
        -- who holds this batch: the consumer (outstanding flush), the timer goroutine, the shutdown goroutine, or nobody yet
        -- (it is the current batch: flushed by the timer if that goroutine is free, else by the final flush of Shutdown)
        let inFlush : Option Nat := match rs.s.cons[0]? with
          | some (CSt.flushing pend) => pend.findIdx? (fun b => same b ids)
          | _ => none
        match inFlush with
        | some k => startFlightLast (repeatN (k + 1) (fun rs => fireL rs (.spawn 0) "flush") rs) call
        | none =>
          if (match rs.s.timer with | .holding b => same b ids | _ => false) then
            startFlightLast (fireL rs .timerSpawn "timer flush") call
          else if (match rs.s.shutHand with | some b => same b ids | none => false) then
            startFlightLast (fireL rs .shutSpawn "final flush") call
          else if (match rs.s.cur with | some c => same c ids | none => false) then
            match rs.s.timer with
            | .idle => startFlightLast (fireL (fireL rs .timerTake "timer flush") .timerSpawn "timer flush") call
            | _ => startFlightLast (fireL (needPhase 4 rs) .shutSpawn "final flush") call
          else fail rs "unknown-batch" s!"{ids}"
      else
        let rs := ensureOffered rc rs ids
        match (List.range rs.s.cons.length).find? (fun i => rs.s.cons[i]? == some .idle) with
        | none => fail rs "no-idle-consumer" s!"export of {ids} while every consumer is busy"
        | some i =>
          match rs.s.queue with
          | (b, _) :: _ =>
            if same b ids then startFlightLast (fireL (fireL rs (.read i) "consumer reads") (.sendSync i) "consumer exports") call
            else fail rs "queue-head-mismatch" s!"head {b}, exported {ids}"
          | [] => fail rs "queue-head-mismatch" s!"queue empty, exported {ids}"
  | .ee call failed perm left =>
    match rs.callFlight.lookup call with
    | none => fail rs "end-of-unknown-call" s!"{call}"
    | some f =>
      if !failed then fireL rs (.expEnd f .ok .drop) "call returned"
      else if perm then fireL rs (.expEnd f .perm .drop) "call failed permanently"
      else
        let batch := (rs.s.flights[f]?.map (·.batch)).getD []
        let retried := rest.any (fun e => match e with | .es _ b => !b.isEmpty && b.all (fun x => batch.contains x) | _ => false)
        if rc.cfg.retry && retried then fireL rs (.expEnd f .trans .again) "retry scheduled"
        else if rc.cfg.persistent && rc.cfg.retry && left && batch.all (fun x => rc.stored.contains x) then
          if rs.reqSeen then fireL (needPhase 1 rs) (.expEnd f .trans .keep) "interrupted by the shutdown"
          else { fireL rs (.expEnd f .trans .again) "back-off until the shutdown" with toKill := f :: rs.toKill }
        else fireL rs (.expEnd f .trans .drop) "call failed, given up"
  | .shutreq =>
    let rs := { rs with reqSeen := true }
    if rs.toKill.isEmpty then rs else needPhase 1 rs
  | .shutret =>
    let rs := needPhase 4 rs
    let rs := match rs.s.timer with
      | .idle => fireL rs .timerExit "timer goroutine ends"
      | _ => rs
    let rs := fireL rs .shutWait "Shutdown returns"
    let rs := rs.deferred.foldl (fun (rs : RS) (ids : List Nat) => fireL rs (.offer ids) "never dispatched (stored)") { rs with deferred := [] }
    { rs with retSeen := true }

def go (rc : RCfg) : RS → List TEv → RS
  | rs, [] => rs
  | rs, e :: rest => go rc (handle rc rs e rest) rest

/-- replay only up to (excluding) the shutdown request; the look-ahead still sees the whole trace -/
def goUntilShutreq (rc : RCfg) : RS → List TEv → RS
  | rs, [] => rs
  | rs, .shutreq :: _ => rs
  | rs, e :: rest => goUntilShutreq rc (handle rc rs e rest) rest

/-- replay only the first `n` events; the look-ahead still sees the whole trace -/
def goN (rc : RCfg) : Nat → RS → List TEv → RS
  | 0, rs, _ => rs
  | _, rs, [] => rs
  | n + 1, rs, e :: rest => goN rc n (handle rc rs e rest) rest

def replay (rc : RCfg) (t : List TEv) : RS :=
  let rs := go rc { s := init rc.cfg rc.nCons rc.workers rc.timer } t
  if rs.err.isNone && rs.retSeen && rs.s.phase != 5 then fail rs "model-cannot-return" s!"phase {rs.s.phase}" else rs

end OtelVerif.C03.Replay
