import OtelVerif.Model.C03
import OtelVerif.Gen.C03Shape
/-!
# C03: the shutdown path of the exporter helper as REGENERATED control skeletons, interpreted into the labels of the LTS

`Gen/C03Shape.lean` (translator `c03shape`, rewritten from /repo on every run) holds, per function of the shutdown path, the tokens
of its control skeleton in source order.  This file turns them into

* `phaseSteps persistent` — the sequence of phase-advancing labels of the goroutine that runs `BaseExporter.Shutdown`, obtained by
  INLINING the callee skeletons (`RetrySender.Shutdown` → `close(stopCh)`; `QueueSender.Shutdown` → `QueueBatch.Shutdown` →
  `queue.Shutdown` → `asyncQueue.Shutdown` → the queue's own `Shutdown`, then `stopWG.Wait`; `batcher.Shutdown` →
  `close(shutdownCh)`, final flush, `stopWG.Wait`) and mapping every leaf token to a label (or to "neutral");
  an unknown token, or a `return` that is not the last token of its function, makes the result `none`;
* boolean facts about the order of checks inside `Read` of the two queues, the worker-pool protocol of `flush`, the timer goroutine,
  the retry loop's selects and the constructor `newQueueBatch` (forced single consumer and worker pool size when batching).

`Props/C03Shape.lean` proves that the LTS `fire` advances its `phase` by exactly these labels in exactly this order and has the
read/exit/pool rules the facts describe: a reordering in the source changes the generated data and those theorems no longer build.
-/
namespace OtelVerif.C03.Shape
open OtelVerif.Gen.C03Shape

/-- no `return` before the end of the function: no early exit can skip a later step -/
def noEarlyReturn (sk : List String) : Bool := sk.dropLast.all (· != "return")

/-- replace every occurrence of the call token `callee` by the callee's skeleton, each token prefixed by `tag/` -/
def inline (sk : List String) (callee tag : String) (body : List String) : List String :=
  sk.flatMap (fun t => if t == callee then body.map (fun b => tag ++ "/" ++ b) else [t])

/-- the queue's own `Shutdown` under `asyncQueue.Shutdown` -/
def queueOwnShutdown (persistent : Bool) : List String := if persistent then persistentShutdown else memoryShutdown

/-- everything the goroutine running `BaseExporter.Shutdown` executes, callees inlined (default batcher; the disabled batcher's
`Shutdown` is the embedded no-op `component.ShutdownFunc`) -/
def flat (persistent : Bool) : List String :=
  let async := inline asyncShutdown "readableQueue.Shutdown" "q" (queueOwnShutdown persistent)
  let qb := inline (inline queueBatchShutdown "queue.Shutdown" "async" async) "batcher.Shutdown" "batcher" batcherShutdown
  inline (inline baseShutdown "RetrySender.Shutdown" "retry" retryShutdown) "QueueSender.Shutdown" "qb" qb

inductive Tok
  | step (l : Label)   -- advances the phase of the LTS
  | neutral            -- bookkeeping that is not a step of the LTS
  | unknown
deriving DecidableEq

/-- leaf tokens of the inlined path -/
def classify (t : String) : Tok :=
  if t == "retry/close:stopCh" then .step .shutRetry
  else if t == "qb/async/q/set:stopped=true" then .step .shutQueue
  else if t == "qb/async/stopWG.Wait" then .step .join
  else if t == "qb/batcher/close:shutdownCh" then .step .shutBatcher
  else if t == "qb/batcher/stopWG.Wait" then .step .shutWait
  else if ["if:RetrySender!=nil", "if:QueueSender!=nil", "multierr.Append", "ShutdownFunc.Shutdown", "return", "retry/return",
           "qb/errors.Join", "qb/return", "qb/async/return", "qb/batcher/return",
           -- the final flush happens inside phase 4 of the LTS (labels shutBatcher takes the batch, shutSpawn hands it over)
           "qb/batcher/flushCurrentBatchIfNecessary",
           "qb/async/q/mu.Lock", "qb/async/q/defer", "qb/async/q/mu.Unlock", "qb/async/q/hasMoreElements.Broadcast",
           "qb/async/q/hasMoreSpace.Broadcast", "qb/async/q/return",
           -- persistent queue: `if client == nil { return nil }` (never started), size snapshot, client release; errors are joined
           "qb/async/q/if:client==nil", "qb/async/q/backupQueueSize", "qb/async/q/errors.Join", "qb/async/q/unrefClient"].contains t
  then .neutral else .unknown

def stepsOf : List String → Option (List Label)
  | [] => some []
  | t :: ts =>
    match classify t, stepsOf ts with
    | .unknown, _ => none
    | _, none => none
    | .step l, some ls => some (l :: ls)
    | .neutral, some ls => some ls

/-- every function on the path runs to its last statement -/
def pathComplete (persistent : Bool) : Bool :=
  noEarlyReturn baseShutdown && noEarlyReturn retryShutdown && noEarlyReturn queueBatchShutdown && noEarlyReturn asyncShutdown &&
  noEarlyReturn batcherShutdown &&
  (if persistent then
     -- the only early return allowed: the queue was never started
     persistentShutdown.take 2 == ["if:client==nil", "return"] && noEarlyReturn (persistentShutdown.drop 2)
   else noEarlyReturn memoryShutdown)

/-- the phase-advancing labels of `Shutdown`, in the order the SOURCE executes them -/
def phaseSteps (persistent : Bool) : Option (List Label) :=
  if pathComplete persistent then stepsOf (flat persistent) else none

/-! ## order facts inside single functions -/

def before (sk : List String) (a b : String) : Bool := sk.contains a && sk.contains b && decide (sk.idxOf a < sk.idxOf b)

/-- `memoryQueue.Read` looks at the items BEFORE it looks at `stopped`: a stopped memory queue keeps serving until empty -/
def memoryServesAfterStop : Bool := before memoryRead "if:items.hasElements()" "if:stopped" && before memoryRead "items.pop" "if:stopped"

/-- `persistentQueue.Read` looks at `stopped` FIRST: a stopped persistent queue dispatches nothing more -/
def persistentStopsFirst : Bool := before persistentRead "if:stopped" "getNextItem" && before persistentRead "if:stopped" "for:readIndex!=writeIndex"

/-- `persistentQueue.Read` resets the size when everything was dispatched -/
def persistentResetsSize : Bool := before persistentRead "if:readIndex==writeIndex" "set:queueSize=0" && before persistentRead "getNextItem" "set:queueSize=0"

/-- the consumer loop: `Read`, leave when `!ok`, otherwise `consumeFunc`; `stopWG.Done` deferred -/
def consumerLoop : Bool :=
  before asyncStart "stopWG.Add" "go" && before asyncStart "go" "Read" && before asyncStart "Read" "if:!ok" && before asyncStart "if:!ok" "consumeFunc" &&
  before asyncStart "defer" "stopWG.Done" && before asyncStart "stopWG.Done" "Read"

/-- `flush`: `stopWG.Add`, THEN wait for a worker slot, THEN `go`; the goroutine calls `done.OnDone(consumeFunc(...))` and only
then gives the slot back; `stopWG.Done` is deferred -/
def flushProtocol : Bool :=
  before batcherFlush "stopWG.Add" "recv:workerPool" && before batcherFlush "recv:workerPool" "go" && before batcherFlush "go" "done.OnDone" &&
  before batcherFlush "done.OnDone" "send:workerPool" && before batcherFlush "defer" "stopWG.Done" && before batcherFlush "go" "stopWG.Done"

/-- `flushCurrentBatchIfNecessary`: takes the batch (sets `currentBatch = nil`) under the lock, flushes outside it -/
def takeThenFlush : Bool :=
  before batcherFlushCurrent "currentBatchMu.Lock" "set:currentBatch=nil" && before batcherFlushCurrent "set:currentBatch=nil" "flush" &&
  before batcherFlushCurrent "if:currentBatch==nil" "set:currentBatch=nil"

/-- timer goroutine: registered in `stopWG`, leaves on `shutdownCh`, otherwise flushes the current batch -/
def timerLoop : Bool :=
  before batcherTimer "stopWG.Add" "go" && before batcherTimer "case:recv:shutdownCh" "return" && before batcherTimer "case:recv:timer.C" "flushCurrentBatchIfNecessary" &&
  before batcherStart "if:cfg.FlushTimeout>0" "startTimeBasedFlushingGoroutine"

/-- `persistentQueue.onDone`: the size is released first (clamped at 0), a SHUTDOWN error returns BEFORE the item is deleted from storage
(it stays for the next start), the client reference is dropped in every case (deferred) -/
def persistentKeepsOnShutdownErr : Bool :=
  before persistentOnDone "set:queueSize-=elSize" "if:queueSize<0" && before persistentOnDone "if:queueSize<0" "set:queueSize=0" &&
  before persistentOnDone "set:queueSize=0" "if:experr.IsShutdownErr()" && before persistentOnDone "if:experr.IsShutdownErr()" "return" &&
  before persistentOnDone "return" "itemDispatchingFinish" && before persistentOnDone "defer" "unrefClient" &&
  before persistentOnDone "unrefClient" "set:queueSize-=elSize"

/-- `refCountDone.OnDone`: EVERY part's error is appended, the wrapped `Done` fires once, with the joined error, when the last part ends;
`multiDone.OnDone`: every request of a merged batch receives the outcome -/
def doneJoinsAll : Bool :=
  refCountOnDone == ["rcd.mu.Lock()", "defer", "rcd.mu.Unlock()", "set:rcd.err=multierr.Append(rcd.err,err)", "multierr.Append(rcd.err,err)",
                     "set:rcd.refCount--", "if:rcd.refCount==0", "rcd.done.OnDone(rcd.err)"] &&
  multiOnDone == ["range:mdc", "d.OnDone(err)"]

/-- disabled batcher: the consumer itself runs the export chain and then calls `OnDone` -/
def disabledSync : Bool := disabledConsume == ["done.OnDone", "consumeFunc"]

/-- retry loop: the non-blocking stop check (`select { case <-stopCh: … default: }`) comes BEFORE the back-off select, which also
listens on `stopCh` -/
def stopCheckedBeforeBackoff : Bool :=
  retrySelects == ["for", "select", "case:recv:stopCh", "default", "select", "case:recv:ctx.Done()", "case:recv:stopCh", "case:recv:time.After()"]

/-- `NewBaseExporter`: the retry sender is INSIDE the queue sender (queue → obsreport → retry → timeout → pusher): what a consumer
calls is the retry loop, and `Shutdown` stops the retry sender first -/
def chainOrder : Bool :=
  before baseChain "set:RetrySender=newRetrySender()" "set:firstSender=?" && before baseChain "set:firstSender=?" "set:QueueSender=?" &&
  before baseChain "if:retryCfg.Enabled" "set:RetrySender=newRetrySender()" && before baseChain "if:queueCfg.Enabled||batcherCfg.Enabled" "set:QueueSender=?"

/-! ## `newQueueBatch` / `newQueueBatchConfig`: configuration → runtime object (used by `Model/C03Cfg.lean`) -/

/-- with a batcher the number of consumers is forced to 1, before the batcher settings and the queue are built -/
def batchForcesOneConsumer : Bool :=
  before newQueueBatch "if:cfg.Batch!=nil" "set:cfg.NumConsumers=1" && before newQueueBatch "set:cfg.NumConsumers=1" "newDefaultBatcher" &&
  before newQueueBatch "set:cfg.NumConsumers=1" "newAsyncQueue"

/-- worker pool of either default batcher = `cfg.NumConsumers` (after the forcing); consumers of either queue = `cfg.NumConsumers`;
the consume function of the queue is the batcher's `Consume` -/
def poolIsConsumers : Bool :=
  batcherSettingsOld.contains "maxWorkers=cfg.NumConsumers" && batcherSettingsNew.contains "maxWorkers=cfg.NumConsumers" &&
  asyncQueueArgs == ["newMemoryQueue[request.Request]();cfg.NumConsumers;b.Consume", "newPersistentQueue[request.Request]();cfg.NumConsumers;b.Consume"] &&
  batcherNewPool == ["if:bSet.maxWorkers!=0", "make", "for:i<bSet.maxWorkers", "send:workerPool", "make"]

/-- storage id decides the queue kind; `wait_for_result` reaches the memory queue only -/
def queueKind : Bool :=
  before newQueueBatch "if:cfg.StorageID==nil" "newMemoryQueue[request.Request]" && before newQueueBatch "newMemoryQueue[request.Request]" "newPersistentQueue[request.Request]" &&
  memorySettings.contains "waitForResult=cfg.WaitForResult" && !(persistentSettings.any (fun s => "waitForResult".toList.isPrefixOf s.toList))

/-- a legacy batcher WITHOUT sending queue gets a memory queue with `wait_for_result`, blocking, `NumCPU` consumers (then forced to 1) -/
def legacyForcesWfr : Bool :=
  legacyLit.contains "Enabled=true" && legacyLit.contains "WaitForResult=true" && legacyLit.contains "StorageID=nil" &&
  legacyLit.contains "BlockOnOverflow=true" && legacyLit.contains "Batch=lit" && legacyLit.contains "Sizer=request.SizerTypeRequests"

/-- the legacy batcher is sized by items whatever the queue's sizer; `sending_queue::batch` uses the queue's sizer -/
def batcherSizers : Bool :=
  batcherSettingsOld.contains "sizerType=request.SizerTypeItems" && batcherSettingsNew.contains "sizerType=cfg.Sizer"

/-- `QueueBatch.Start`: batcher first, then the queue (consumers), and the batcher is shut down again if the queue fails to start -/
def startOrder : Bool := before queueBatchStart "batcher.Start" "queue.Start" && before queueBatchStart "queue.Start" "batcher.Shutdown"

end OtelVerif.C03.Shape
