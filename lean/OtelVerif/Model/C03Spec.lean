import OtelVerif.Model.C03
/-!
# C03 — abstract specification of graceful shutdown, and the abstraction function from the LTS `Model/C03.lean`

`AState`/`AStep` is the whole specification: what is *owed* (items whose enqueue completed before the request and whose export pass
has not ended), what is durably *stored*, how much helper work is still *active*, and the rule that `Shutdown` may return (`ret`)
only when nothing is active and nothing is owed (memory queue) / everything owed is still stored (persistent queue).
After `ret` only late accepts into a persistent queue's storage are possible.  `abs` maps a state of the LTS to an `AState`;
`Lemmas/C03Refine.lean` proves that every step of the LTS is a spec step or a stutter.

Items are identified by VALUE (as in the LTS, where they are natural numbers): `ended` is the set of item values whose export pass
has ended, and an accepted item whose value is already in `ended` is not owed again.
-/
namespace OtelVerif.C03.Spec

structure AState where
  persistent : Bool
  requested : Bool        -- Shutdown has been requested
  returned : Bool         -- Shutdown has returned
  owed : List Item        -- items accepted before the request whose export pass has not ended (memory) /
                          --   has not ended without a shutdown error (persistent)
  ended : List Item       -- item values whose export pass has ended (memory) / ended without a shutdown error (persistent)
  stored : List Item      -- persistent queue: items still durably stored
  active : Nat            -- helper goroutines / export passes / batches in hand that have not ended
deriving DecidableEq, Repr

/-- the value `x` has not ended an export pass -/
def fresh (ended : List Item) (x : Item) : Bool := !ended.contains x

inductive AStep : AState → AState → Prop
  /-- an enqueue completes before the request: its items are owed (and stored, persistent queue) -/
  | accept (a : AState) (xs : List Item) : a.requested = false →
      AStep a { a with owed := a.owed ++ xs.filter (fresh a.ended), stored := if a.persistent then a.stored ++ xs else a.stored }
  /-- an enqueue completes after the request (persistent queue): stored, not owed -/
  | lateAccept (a : AState) (xs : List Item) : a.requested = true → a.persistent = true →
      AStep a { a with stored := a.stored ++ xs }
  | request (a : AState) : a.requested = false → AStep a { a with requested := true }
  /-- any helper work before the return: export passes end (`ended` grows, those items are no longer owed), storage loses only
  items that ended, `active` changes arbitrarily -/
  | work (a : AState) (ended' stored' : List Item) (active' : Nat) : a.returned = false →
      (∀ x ∈ a.ended, x ∈ ended') → (∀ x ∈ stored', x ∈ a.stored) → (∀ x ∈ a.stored, x ∈ stored' ∨ x ∈ ended') →
      AStep a { a with ended := ended', owed := a.owed.filter (fresh ended'), stored := stored', active := active' }
  /-- Shutdown returns: nothing active; nothing owed (memory) / everything owed still stored (persistent) -/
  | ret (a : AState) : a.requested = true → a.returned = false → a.active = 0 →
      (a.persistent = false → a.owed = []) → (a.persistent = true → ∀ x ∈ a.owed, x ∈ a.stored) →
      AStep a { a with returned := true }

/-- initial abstract states: nothing requested, nothing owed (anything stored, any number of helpers) -/
def AInit (a : AState) : Prop := a.requested = false ∧ a.returned = false ∧ a.owed = []

/-- reflexive-transitive closure of `AStep` -/
inductive AStar : AState → AState → Prop
  | refl (a : AState) : AStar a a
  | tail {a b c : AState} : AStar a b → AStep b c → AStar a c

def AReach (a : AState) : Prop := ∃ a0, AInit a0 ∧ AStar a0 a

/-! ## abstraction function -/

/-- the flight has ended (memory queue) / ended without a shutdown error (persistent queue, `p = true`) -/
def settled (p : Bool) (fl : Flight) : Bool := fl.st == .done && !(p && fl.kept)

def settledItems (p : Bool) (fs : List Flight) : List Item := fs.flatMap (fun fl => if settled p fl then fl.batch else [])

/-- consumers that have not exited + timer goroutine alive + flights not done + final hand-over in progress + a partial batch waiting -/
def activeCount (s : State) : Nat :=
  (s.cons.filter (fun c => c != .exited)).length + (if s.timer = .dead then 0 else 1) +
  (s.flights.filter (fun fl => fl.st != .done)).length + (if s.shutHand.isSome then 1 else 0) + (if s.cur.isSome then 1 else 0)

def abs (s : State) : AState :=
  { persistent := s.cfg.persistent
    requested := decide (1 ≤ s.phase)
    returned := decide (s.phase = 5)
    ended := settledItems s.cfg.persistent s.flights
    owed := s.early.filter (fresh (settledItems s.cfg.persistent s.flights))
    stored := s.stored
    active := activeCount s }

end OtelVerif.C03.Spec
