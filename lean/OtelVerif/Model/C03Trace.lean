import OtelVerif.Model.C03
/-!
# C03: the observable trace of a run of the LTS

`Rec` runs a schedule through `fire` and records what the harness would log: `acc` when an enqueue completes, `shutReq` when the
shutdown goroutine starts (`shutRetry`), `es`/`ee` around every call of the export function (call ids in order of the calls),
`shutRet` when `Shutdown` returns (`shutWait`).  The bridging theorems (`Props/C03.lean`) state that the trace of every run that
reaches "returned" is accepted by the monitors `checkMemory` / `checkPersistent` that judge the traces of the real exporter.
-/
namespace OtelVerif.C03

structure Rec where
  s : State
  tr : List Ev := []                 -- oldest first
  calls : Nat := 0                   -- export calls started so far = id of the next call
  pending : List (Nat × Nat) := []   -- (flight, call id) of the calls that have not returned yet
deriving Repr

def Rec.step (r : Rec) (l : Label) : Option Rec :=
  match fire r.s l with
  | none => none
  | some s' =>
    match l with
    | .offer b => some { r with s := s', tr := r.tr ++ [.acc b] }
    | .shutRetry => some { r with s := s', tr := r.tr ++ [.shutReq] }
    | .shutWait => some { r with s := s', tr := r.tr ++ [.shutRet] }
    | .expStart f =>
      some { s := s', tr := r.tr ++ [.es r.calls ((r.s.flights[f]?.map (·.batch)).getD [])], calls := r.calls + 1,
             pending := (f, r.calls) :: r.pending }
    | .expEnd f o _ =>
      match r.pending.lookup f with
      | some c => some { r with s := s', tr := r.tr ++ [.ee c (o != .ok)], pending := r.pending.filter (fun p => p.1 != f) }
      | none => some { r with s := s' }
    | _ => some { r with s := s' }

def Rec.run (r : Rec) : List Label → Option Rec
  | [] => some r
  | l :: ls => match r.step l with
    | some r' => r'.run ls
    | none => none

def Rec.start (cfg : Cfg) (nCons workers : Nat) (timer : Bool) : Rec := { s := init cfg nCons workers timer }

end OtelVerif.C03
