/-! C04 model (stub) -/
namespace OtelVerif.C04
end OtelVerif.C04
