import OtelVerif.Model.Payload
import OtelVerif.Gen.C04Shape
/-!
# C04 — exporter-side batching (exporter/exporterhelper)

* sizers (`internal/sizer`): items (`delta = id`, a log record / span / data point is 1, a profile is its number
  of samples) and bytes (`DeltaSize n = 1 + n + sov n`, leaf sizes and own-field sizes measured on the real
  objects are inputs carried by the payload tree).
* `extractLogs/ResourceLogs/ScopeLogs` (= traces, profiles: same code modulo renaming) and
  `extractMetrics/…/extractMetricDataPoints`, closure by closure, with `capacityLeft` / `removedSize` as the
  closure state, in `Int` because `capacityLeft` does go negative in the bytes case.
* `moveFirst*` (repair of the non-terminating split), `split`, `mergeTo`, `MergeSplit` with `cachedSize`.
* the batcher bookkeeping of `queuebatch/default_batcher.go` (`Consume`, timer / shutdown flush, `multiDone`,
  `refCountDone`) as a labelled transition system.

The model is of the repaired code in /tmp/wt-C04 (three `fix:` commits); `Gen.C04Shape.metricFragmentKeepsIdentity`
(regenerated from metrics_batch.go on every run) selects whether split-off metrics carry the source metric's identity.
-/
namespace OtelVerif.C04
open OtelVerif.Payload

/-! ## sizers -/

/-- number of 7-bit groups of the varint encoding of `n` (`Model/Wire`): 1 for `n < 128`, one more per further 7 bits, at
most 10 for a `uint64` (fuel 9).  This is `sov(x) = (bits.Len64(x|1)+6)/7` of proto_delta_sizer.go for every `uint64`; the
equality with the real `DeltaSize` is tied by the differential on boundary values (0, 1, 126..129, 16383..16385,
2097151/2, 2^40, negatives) on every run. -/
def sovFuel : Nat → Nat → Nat
  | 0, _ => 1
  | f + 1, n => if n < 128 then 1 else 1 + sovFuel f (n / 128)

/-- `sov(uint64(n))`; a negative `int` converts to a 64-bit pattern with the top bit set: 10 groups -/
def sov (n : Int) : Int :=
  if n < 0 then 10 else ((sovFuel 9 n.toNat : Nat) : Int)

structure Sizer where
  bytes : Bool
deriving DecidableEq, Repr

/-- `DeltaSize` -/
def Sizer.delta (sz : Sizer) (n : Int) : Int := if sz.bytes then 1 + n + sov n else n

def Sizer.own (sz : Sizer) (base : Nat) : Int := if sz.bytes then (base : Int) else 0

def isum (l : List Int) : Int := l.foldr (· + ·) 0

/-- size contributed by a repeated field: `Σ DeltaSize(size child)` -/
def sumD {α : Type} (sz : Sizer) (f : α → Int) (l : List α) : Int := isum (l.map (fun c => sz.delta (f c)))

def itemSize (sz : Sizer) (i : Item) : Int := if sz.bytes then (i.bsz : Int) else (i.w : Int)
def scopeSize (sz : Sizer) (s : Scope) : Int := sz.own s.smeta.base + sumD sz (itemSize sz) s.items
def resSize (sz : Sizer) (r : Res) : Int := sz.own r.rmeta.base + sumD sz (scopeSize sz) r.scopes
def payloadSize (sz : Sizer) (p : List Res) : Int := sumD sz (resSize sz) p

/-- `NumberDataPointSize` etc.: the encoded size, or 1 under the items sizer -/
def pointSize (sz : Sizer) (i : Item) : Int := if sz.bytes then (i.bsz : Int) else 1

/-- `MetricSize`: bytes = own fields + the `oneof data` member (absent for the empty type) wrapping the data
message (its own fields + the points); items = number of data points -/
def metricSize (sz : Sizer) (m : Metric) : Int :=
  if sz.bytes then
    (m.mmeta.base : Int) + (if m.mmeta.ty == 0 then 0 else sz.delta ((m.mmeta.ibase : Int) + sumD sz (pointSize sz) m.points))
  else sumD sz (pointSize sz) m.points
def mscopeSize (sz : Sizer) (s : MScope) : Int := sz.own s.smeta.base + sumD sz (metricSize sz) s.metrics
def mresSize (sz : Sizer) (r : MRes) : Int := sz.own r.rmeta.base + sumD sz (mscopeSize sz) r.scopes
def mpayloadSize (sz : Sizer) (p : List MRes) : Int := sumD sz (mresSize sz) p

/-! ## extract -/

/-- closure state of the `extract*` functions -/
structure St where
  cap : Int
  rm : Int
deriving DecidableEq, Repr

def stop (st : St) : Bool := st.cap == 0

/-- `sz := DeltaSize(size c); if sz > capacityLeft {…cut…}; capacityLeft -= sz; removedSize += sz; move; return true` -/
def fitsBy {α : Type} (sz : Sizer) (size : α → Int) (st : St) (c : α) : Option St :=
  let d := sz.delta (size c)
  if d > st.cap then none else some ⟨st.cap - d, st.rm + d⟩

/-- innermost level: `capacityLeft = 0; return false` -/
def cutLeaf {α : Type} (st : St) (c : α) : Option α × Option α × St := (none, some c, ⟨0, st.rm⟩)

/-- outer levels: `ext, extSize := extractChild(c, capacityLeft); capacityLeft = 0; removedSize += extSize;
removedSize += d - raw - (DeltaSize(raw-extSize) - (raw-extSize)); if nonEmpty(ext) {move ext to dest};
return nonEmpty(ext)` — the last test runs after `MoveTo` has reset `ext`, so it is always false: the child stays. -/
def cutBy {α : Type} (sz : Sizer) (size : α → Int) (ext : Int → α → α × α × Int) (nonEmpty : α → Bool)
    (st : St) (c : α) : Option α × Option α × St :=
  let raw := size c
  let d := sz.delta raw
  let e := ext st.cap c
  let rm := st.rm + e.2.2 + (d - raw - (sz.delta (raw - e.2.2) - (raw - e.2.2)))
  (if nonEmpty e.1 then some e.1 else none, some e.2.1, ⟨0, rm⟩)

/-- capacity left for the children of a fragment that may grow to `cap`: `cap - (DeltaSize(cap) - cap) - size(dest)` -/
def innerCap (sz : Sizer) (cap : Int) (destSize : Int) : Int := cap - (sz.delta cap - cap) - destSize

def extractScope (sz : Sizer) (cap : Int) (s : Scope) : Scope × Scope × Int :=
  let dest0 : Scope := { smeta := s.smeta, items := [] }
  let w := walk stop (fitsBy sz (itemSize sz)) cutLeaf ⟨innerCap sz cap (scopeSize sz dest0), 0⟩ s.items
  ({ dest0 with items := w.dest }, { s with items := w.rem }, w.st.rm)

def extractRes (sz : Sizer) (cap : Int) (r : Res) : Res × Res × Int :=
  let dest0 : Res := { rmeta := r.rmeta, scopes := [] }
  let w := walk stop (fitsBy sz (scopeSize sz)) (cutBy sz (scopeSize sz) (extractScope sz) (fun s => s.items.length > 0))
    ⟨innerCap sz cap (resSize sz dest0), 0⟩ r.scopes
  ({ dest0 with scopes := w.dest }, { r with scopes := w.rem }, w.st.rm)

/-- `extractLogs(src, capacity, sz)` → (dest, src afterwards, removedSize) -/
def extract (sz : Sizer) (cap : Int) (p : List Res) : List Res × List Res × Int :=
  let w := walk stop (fitsBy sz (resSize sz)) (cutBy sz (resSize sz) (extractRes sz) (fun r => r.scopes.length > 0))
    ⟨cap - payloadSize sz [], 0⟩ p
  (w.dest, w.rem, w.st.rm)

/-! ### metrics -/

def zeroMMeta : MMeta := { name := 0, unit := 0, desc := 0, ty := 0, temp := 0, mono := 0, md := 0, base := 0, ibase := 0 }

/-- identity of the metric built by `extract*DataPoints`: repaired = name, description, unit, metadata, type,
temporality, monotonicity of the source; pinned = only the type.  (The repaired code also adds the fragment to the
destination only if it received a data point; the pinned code tests `MetricSize(fragment) > 0`.) -/
def fragMeta (keep : Bool) (m : MMeta) : MMeta :=
  if keep then m else { zeroMMeta with ty := m.ty }

def extractPoints (keep : Bool) (sz : Sizer) (cap : Int) (m : Metric) : Metric × Metric × Int :=
  if m.mmeta.ty == 0 then
    -- no case of the type switch: the zero `pmetric.Metric` is returned, nothing removed
    ({ mmeta := zeroMMeta, points := [] }, m, 0)
  else
    let dest0 : Metric := { mmeta := fragMeta keep m.mmeta, points := [] }
    -- the repaired code reserves the length-prefix delta twice (metric and its data message)
    let w := walk stop (fitsBy sz (pointSize sz)) cutLeaf ⟨innerCap sz cap (metricSize sz dest0) - (sz.delta cap - cap), 0⟩ m.points
    ({ dest0 with points := w.dest }, { m with points := w.rem }, w.st.rm)

def extractMScope (keep : Bool) (sz : Sizer) (cap : Int) (s : MScope) : MScope × MScope × Int :=
  let dest0 : MScope := { smeta := s.smeta, metrics := [] }
  let w := walk stop (fitsBy sz (metricSize sz)) (cutBy sz (metricSize sz) (extractPoints keep sz) (fun m => if keep then m.points.length > 0 else metricSize sz m > 0))
    ⟨innerCap sz cap (mscopeSize sz dest0), 0⟩ s.metrics
  ({ dest0 with metrics := w.dest }, { s with metrics := w.rem }, w.st.rm)

def extractMRes (keep : Bool) (sz : Sizer) (cap : Int) (r : MRes) : MRes × MRes × Int :=
  let dest0 : MRes := { rmeta := r.rmeta, scopes := [] }
  let w := walk stop (fitsBy sz (mscopeSize sz)) (cutBy sz (mscopeSize sz) (extractMScope keep sz) (fun s => s.metrics.length > 0))
    ⟨innerCap sz cap (mresSize sz dest0), 0⟩ r.scopes
  ({ dest0 with scopes := w.dest }, { r with scopes := w.rem }, w.st.rm)

def mextract (keep : Bool) (sz : Sizer) (cap : Int) (p : List MRes) : List MRes × List MRes × Int :=
  let w := walk stop (fitsBy sz (mresSize sz)) (cutBy sz (mresSize sz) (extractMRes keep sz) (fun r => r.scopes.length > 0))
    ⟨cap - mpayloadSize sz [], 0⟩ p
  (w.dest, w.rem, w.st.rm)

/-! ## moveFirst* (the repair: an item that cannot be extracted within max_size leaves alone) -/

/-- `moved := false; RemoveIf(if moved {return false}; moved = true; move; return true)` -/
def moveFirstOf (items : List Item) : Walk Item Bool :=
  walk (fun moved => moved) (fun _ _ => some true) (fun m c => (none, some c, m)) false items

/-- scope closure of `moveFirstLogRecord`: `if moved || len == 0 {return false}; dest := copy of resource and scope;
inner RemoveIf; return len == 0` -/
def mfScope (moved : Bool) (s : Scope) : Option Scope × Option Scope × Bool :=
  if s.items.length == 0 then (none, some s, moved)
  else
    let w := moveFirstOf s.items
    (some { smeta := s.smeta, items := w.dest }, if w.rem.length == 0 then none else some { s with items := w.rem }, w.st)

/-- resource closure: `if moved {return false}; inner RemoveIf; return moved && scopes.Len() == 0` -/
def mfRes (_moved : Bool) (r : Res) : Option Res × Option Res × Bool :=
  let w := walk (fun moved => moved) (fun _ _ => none) mfScope false r.scopes
  (if w.dest.length == 0 then none else some { rmeta := r.rmeta, scopes := w.dest },
   if w.st && w.rem.length == 0 then none else some { r with scopes := w.rem }, w.st)

/-- `moveFirstLogRecord(src, dest)` → (src afterwards, dest afterwards, moved) -/
def moveFirst (src dest : List Res) : List Res × List Res × Bool :=
  let w := walk (fun moved => moved) (fun _ _ => none) mfRes false src
  (w.rem, dest ++ w.dest, w.st)

/-- metric closure of `moveFirstDataPoint`: `if moved || count == 0 {return false}; …; moved = true; return count == 0` -/
def mfMetric (moved : Bool) (m : Metric) : Option Metric × Option Metric × Bool :=
  if m.points.length == 0 then (none, some m, moved)
  else
    let w := moveFirstOf m.points
    (some { mmeta := m.mmeta, points := w.dest }, if w.rem.length == 0 then none else some { m with points := w.rem }, true)

def mfMScope (_moved : Bool) (s : MScope) : Option MScope × Option MScope × Bool :=
  let w := walk (fun moved => moved) (fun _ _ => none) mfMetric false s.metrics
  (if w.dest.length == 0 then none else some { smeta := s.smeta, metrics := w.dest },
   if w.st && w.rem.length == 0 then none else some { s with metrics := w.rem }, w.st)

def mfMRes (_moved : Bool) (r : MRes) : Option MRes × Option MRes × Bool :=
  let w := walk (fun moved => moved) (fun _ _ => none) mfMScope false r.scopes
  (if w.dest.length == 0 then none else some { rmeta := r.rmeta, scopes := w.dest },
   if w.st && w.rem.length == 0 then none else some { r with scopes := w.rem }, w.st)

def mmoveFirst (src dest : List MRes) : List MRes × List MRes × Bool :=
  let w := walk (fun moved => moved) (fun _ _ => none) mfMRes false src
  (w.rem, dest ++ w.dest, w.st)

/-! ## requests, split, MergeSplit (generic in the payload type) -/

/-- what `split` needs from a signal -/
structure Ops (P : Type) where
  size : P → Int
  extract : Int → P → P × P × Int
  moveFirst : P → P → P × P × Bool
  append : P → P → P
  nodes : P → Nat
  /-- `len(res) > 0 && req.ld.ResourceLogs().Len() == 0` at the end of `split()`: the receiver is not returned when nothing
  is left in it (regenerated flag `splitDropsEmptyRemainder`: on a tree without that check this is constantly `false`) -/
  empty : P → Bool

def logsOps (sz : Sizer) : Ops (List Res) :=
  { size := payloadSize sz, extract := extract sz, moveFirst := moveFirst, append := (· ++ ·), nodes := nodes,
    empty := fun p => OtelVerif.Gen.C04Shape.splitDropsEmptyRemainder && p.isEmpty }

def metricsOps (keep : Bool) (sz : Sizer) : Ops (List MRes) :=
  { size := mpayloadSize sz, extract := mextract keep sz, moveFirst := mmoveFirst, append := (· ++ ·), nodes := mnodes,
    empty := fun p => OtelVerif.Gen.C04Shape.splitDropsEmptyRemainder && p.isEmpty }

/-- `logsRequest{ld, cachedSize}`; `cachedSize == -1` means "not computed" -/
structure Req (P : Type) where
  p : P
  cached : Int := -1

/-- `req.size(sz)`: computes and memoises -/
def Req.size {P : Type} (o : Ops P) (r : Req P) : Int := if r.cached == -1 then o.size r.p else r.cached
def Req.norm {P : Type} (o : Ops P) (r : Req P) : Req P := { r with cached := r.size o }

/-- the loop of `split`, with fuel; `none` = fuel exhausted (the loop did not end within `fuel` iterations) -/
def splitLoop {P : Type} (o : Ops P) (max : Int) : Nat → Req P → List (Req P) → Option (List (Req P))
  | 0, _, _ => none
  | fuel + 1, req, res =>
    let req := req.norm o
    if req.cached > max then
      let e := o.extract max req.p
      if e.2.2 == 0 then
        let m := o.moveFirst e.2.1 e.1
        if m.2.2 then
          splitLoop o max fuel { p := m.1, cached := o.size m.1 } (res ++ [{ p := m.2.1, cached := -1 }])
        else
          let p := o.append m.1 m.2.1
          some (res ++ [{ p := p, cached := o.size p }])
      else
        splitLoop o max fuel { p := e.2.1, cached := req.cached - e.2.2 } (res ++ [{ p := e.1, cached := -1 }])
    else some (res ++ [req])

/-- `req.split(maxSize, sz)`: every iteration removes at least one node from `req`, so `nodes + 1` iterations suffice
(`C04_terminates`) -/
def splitRaw {P : Type} (o : Ops P) (max : Int) (req : Req P) : Option (List (Req P)) :=
  splitLoop o max (o.nodes req.p + 1) req []

/-- the end of `split()`: `if len(res) > 0 && req.ld.ResourceLogs().Len() == 0 { return res }` - when every remaining item
had to be sent alone the receiver ends up without any resource entry; it is then not returned (an empty request would be
exported as a batch without data and its outcome reported to the incoming request) -/
def dropEmptyLast {P : Type} (o : Ops P) (rs : List (Req P)) : List (Req P) :=
  match rs.getLast? with
  | some l => if rs.length > 1 && o.empty l.p then rs.dropLast else rs
  | none => rs

def split {P : Type} (o : Ops P) (max : Int) (req : Req P) : Option (List (Req P)) :=
  (splitRaw o max req).map (dropEmptyLast o)

/-- `req2.mergeTo(req, sz)` -/
def mergeTo {P : Type} (o : Ops P) (dst src : Req P) : Req P :=
  { p := o.append dst.p src.p, cached := dst.size o + src.size o }

/-- `req.MergeSplit(ctx, maxSize, szt, r2)` -/
def mergeSplit {P : Type} (o : Ops P) (max : Int) (r1 : Req P) (r2 : Option (Req P)) : Option (List (Req P)) :=
  let r := match r2 with
    | some r2 => mergeTo o r1 r2
    | none => r1
  if max == 0 then some [r] else split o max r

/-- whether the receiver is among the results (as the last one): always, except when `split()` found it emptied -/
def mergeSplitKeepsReceiver {P : Type} (o : Ops P) (max : Int) (r1 : Req P) (r2 : Option (Req P)) : Bool :=
  let r := match r2 with
    | some r2 => mergeTo o r1 r2
    | none => r1
  if max == 0 then true else
  match splitRaw o max r with
  | some rs => (dropEmptyLast o rs).length == rs.length
  | none => true

/-! ## batcher bookkeeping (`queuebatch/default_batcher.go`) -/

/-- a request as the batcher sees it: which incoming request each run of items came from -/
abbrev Parts := List (Nat × Nat)

def Parts.items (p : Parts) : Nat := sumBy (·.2) p

/-- `ItemsCount()`: units that hold anything (a request without items is carried as one unit of size 0, so that it
can be followed through the batcher) -/
def Parts.count (p : Parts) : Nat := (p.filter (fun u => u.2 > 0)).length

/-- outcome of an export as the batcher's callbacks can see it: which error classes the (possibly combined,
`multierr.Append`) error carries — a plain export error, an `experr.shutdownErr`; both false = success -/
structure Err where
  plain : Bool := false
  shut : Bool := false
deriving DecidableEq, Repr

def Err.any (e : Err) : Bool := e.plain || e.shut
/-- `multierr.Append(a, b)`: every part survives, with its classification -/
def Err.or (a b : Err) : Err := ⟨a.plain || b.plain, a.shut || b.shut⟩

/-- FIFO packing of indivisible units into chunks of at most `max` (the `MergeSplit` contract the batcher relies on:
a chunk is closed when the next unit does not fit, an oversized unit travels alone; `max > 0`) -/
def pack (max : Nat) : Parts → Parts → Nat → List Parts
  | [], cur, _ => [cur.reverse]
  | (id, n) :: rest, cur, room =>
    if n > room && !cur.isEmpty then cur.reverse :: pack max rest [(id, n)] (max - n)
    else pack max rest ((id, n) :: cur) (room - n)

def partsMergeSplit (max : Nat) (a : Parts) (b : Parts) : List Parts :=
  let all := a ++ b
  if max == 0 then [all] else pack max all [] max

/-- a `Done`: the incoming request's own callback, or a `refCountDone` around it -/
inductive DoneObj where
  | base (id : Nat)
  | ref (idx : Nat)
deriving DecidableEq, Repr

structure RefCount where
  target : Nat
  count : Int
  err : Err
deriving Repr

structure Flight where
  fid : Nat
  parts : Parts
  dones : List DoneObj

structure BCfg where
  min : Nat
  max : Nat

structure BState where
  cur : Option (Parts × List DoneObj) := none
  refs : List RefCount := []
  flights : List Flight := []
  nextF : Nat := 0

/-- `newRefCountDone(done, n)` when more than one flush is needed -/
def BState.mkDone (s : BState) (id n : Nat) : BState × DoneObj :=
  if n > 1 then ({ s with refs := s.refs ++ [⟨id, n, {}⟩] }, .ref s.refs.length) else (s, .base id)

/-- the `Done`s of the pending batch -/
def BState.curDones (s : BState) : List DoneObj :=
  match s.cur with
  | some (_, ds) => ds
  | none => []

/-- the tail of `Consume` when a batch is pending, with its three decisions made explicit: `fhn` = the first result holds
part of the new request, `ff` = the first result is flushed now, `small` = the last of the other results stays pending -/
def consumeMerge (m1 : BState) (d : DoneObj) (dones : List DoneObj) (fhn ff small : Bool) (first last : Parts)
    (rest : List Parts) : BState × List (Parts × List DoneObj) :=
  let dones := if fhn then dones ++ [d] else dones
  let s2 : BState := if ff then { m1 with cur := none } else { m1 with cur := some (first, dones) }
  let s3 : BState := if small then { s2 with cur := some (last, [d]) } else s2
  let rest' := if small then rest.dropLast else rest
  (s3, (if ff then [(first, dones)] else []) ++ rest'.map (fun r => (r, [d])))

/-- `Consume`: returns the new state and the flushes started (request, multiDone), in the order of the code -/
def BState.consume (c : BCfg) (s : BState) (id : Nat) (units : Parts) : BState × List (Parts × List DoneObj) :=
  match s.cur with
  | none =>
    let reqList := partsMergeSplit c.max units []
    let m := s.mkDone id reqList.length
    let d := m.2
    let last := reqList.getLast?.getD []
    if last.items < c.min then
      ({ m.1 with cur := some (last, [d]) }, reqList.dropLast.map (fun r => (r, [d])))
    else (m.1, reqList.map (fun r => (r, [d])))
  | some (cur, dones) =>
    let reqList := partsMergeSplit c.max cur units
    let first := reqList.head?.getD []
    -- repaired: the new request's Done is linked to the first result only if part of the request is in it
    -- (`ItemsCount` of the first result grew beyond the pending batch's)
    let firstHasNew := reqList.length == 1 || first.count > cur.count
    let m := s.mkDone id (if firstHasNew then reqList.length else reqList.length - 1)
    let flushFirst := reqList.length > 1 || first.items ≥ c.min
    let rest := reqList.drop 1
    let last := rest.getLast?.getD []
    let small := rest.length > 0 && last.items < c.min
    consumeMerge m.1 m.2 dones firstHasNew flushFirst small first last rest

/-- `flushCurrentBatchIfNecessary` (timer, shutdown) -/
def BState.flushCur (s : BState) : BState × List (Parts × List DoneObj) :=
  match s.cur with
  | none => (s, [])
  | some (p, ds) => ({ s with cur := none }, [(p, ds)])

/-- `OnDone(err)` on one `Done`: the base callback fires; a ref-count appends the error (`multierr.Append`: every
part's classification survives), decrements, and fires with the combined error at 0 -/
def onDone (refs : List RefCount) (err : Err) : DoneObj → List RefCount × List (Nat × Err)
  | .base id => (refs, [(id, err)])
  | .ref i =>
    match refs[i]? with
    | none => (refs, [])
    | some r =>
      let r' : RefCount := { r with err := r.err.or err, count := r.count - 1 }
      (refs.set i r', if r'.count == 0 then [(r'.target, r'.err)] else [])

/-- `multiDone.OnDone(err)`: every `Done` of the batch in order -/
def onDoneAll (refs : List RefCount) (err : Err) (ds : List DoneObj) : List RefCount × List (Nat × Err) :=
  ds.foldl (fun (acc : List RefCount × List (Nat × Err)) d =>
    let x := onDone acc.1 err d
    (x.1, acc.2 ++ x.2)) (refs, [])

/-- the flush goroutine ends: `done.OnDone(consumeFunc(ctx, req))` on the flight's `multiDone` -/
def BState.finish (s : BState) (fid : Nat) (err : Err) : BState × List (Nat × Err) :=
  match s.flights.find? (fun f => f.fid = fid) with
  | none => (s, [])
  | some f =>
    let r := onDoneAll s.refs err f.dones
    ({ s with refs := r.1, flights := s.flights.filter (fun g => g.fid ≠ fid) }, r.2)

/-! ### the batcher as a labelled transition system (all histories) -/

/-- what can happen to the batcher: a request arrives (`Consume`), the timer or `Shutdown` flushes the pending batch,
a flush goroutine ends with an outcome.  `Consume` / flush are serialised by `currentBatchMu`; flushes end in any order. -/
inductive BLabel where
  | consume (id : Nat) (units : Parts)
  | flush
  | finish (fid : Nat) (err : Err)

/-- `qb.flush(ctx, req, done)` for every started flush: a new in-flight entry with a fresh id -/
def BState.start (s : BState) (fl : List (Parts × List DoneObj)) : BState :=
  fl.foldl (fun st x => { st with flights := st.flights ++ [⟨st.nextF, x.1, x.2⟩], nextF := st.nextF + 1 }) s

/-- one label: new state and the completion callbacks fired (incoming request id, reported outcome) -/
def bstep (c : BCfg) (s : BState) : BLabel → BState × List (Nat × Err)
  | .consume id units => let r := s.consume c id units; (r.1.start r.2, [])
  | .flush => let r := s.flushCur; (r.1.start r.2, [])
  | .finish fid err => s.finish fid err

def brun (c : BCfg) : BState → List BLabel → BState × List (Nat × Err)
  | s, [] => (s, [])
  | s, l :: ls =>
    let r := bstep c s l
    let r' := brun c r.1 ls
    (r'.1, r.2 ++ r'.2)

/-- ids of the requests consumed by a history -/
def consumedIds : List BLabel → List Nat
  | [] => []
  | .consume id _ :: ls => id :: consumedIds ls
  | _ :: ls => consumedIds ls

/-- every `Done` some pending or in-flight batch still holds -/
def BState.dones (s : BState) : List DoneObj := s.curDones ++ s.flights.flatMap (·.dones)

/-- the incoming request a `Done` belongs to -/
def tgt (refs : List RefCount) : DoneObj → Option Nat
  | .base id => some id
  | .ref i => refs[i]?.map (·.target)

/-- `disabledBatcher.Consume`: `done.OnDone(consumeFunc(ctx, req))`, synchronously, no batching -/
def consumeDisabled (id : Nat) (err : Err) : List (Nat × Err) := [(id, err)]

end OtelVerif.C04
