/-!
# C04 — configuration glue around the batcher: validation rules, legacy merge, batcher construction

`exporter/exporterhelper/internal/queuebatch/config.go` (`Config.Validate`, `BatchConfig.Validate`),
`exporter/exporterhelper/internal/queue_sender.go` (`BatcherConfig.Validate`, `newQueueBatchConfig`,
`NewDefaultQueueConfig`, `NewDefaultBatcherConfig`) and `queuebatch/queue_batch.go` (`newQueueBatch`: which batcher is
built from an accepted configuration).

The three `Validate` functions are straight-line chains `if <cond> { return nil | error }`.  They are not transcribed by
hand: `translators/cmd/c04config` regenerates them on every run as DATA (`Gen/C04Config.lean`: a list of `VRule`s per
function, the field list of every struct, the default configurations) and this file only holds the generic interpreter
(`runRules`).  The theorems in `Props/C04.lean` are proved about the generated rule lists, so a change of a comparison,
of an operand or a dropped check re-checks the proofs.

Core Lean only (the driver links it).
-/
namespace OtelVerif.C04.Config

/-- an operand of a validation condition.  Every field value is an `Int`: integers and durations (ns) as they are,
`bool` as 0/1, pointers as 0 (nil) / 1, `request.SizerType` as its code (`sizerCode`) -/
inductive VExpr where
  | fld (name : String)   -- `cfg.<name>`; `self` is the receiver pointer itself (`cfg == nil`)
  | lit (n : Int)
  | nil
  | sizer (code : Int)    -- `request.SizerTypeRequests` 0, `…Items` 1, `…Bytes` 2
deriving Repr, DecidableEq

inductive VOp where
  | lt | le | gt | ge | eq | ne
deriving Repr, DecidableEq

inductive VCond where
  | cmp (op : VOp) (a b : VExpr)
  | and (a b : VCond)
  | or (a b : VCond)
  | not (a : VCond)
  | isTrue (e : VExpr)    -- a `bool` field used as a condition
deriving Repr

/-- `if cond { return nil }` (accept = true) or `if cond { return errors.New(…) }` (accept = false) -/
structure VRule where
  cond : VCond
  accept : Bool
deriving Repr

abbrev Env := String → Int

def VExpr.eval (env : Env) : VExpr → Int
  | .fld n => env n
  | .lit n => n
  | .nil => 0
  | .sizer c => c

def VOp.eval : VOp → Int → Int → Bool
  | .lt, a, b => decide (a < b)
  | .le, a, b => decide (a ≤ b)
  | .gt, a, b => decide (a > b)
  | .ge, a, b => decide (a ≥ b)
  | .eq, a, b => decide (a = b)
  | .ne, a, b => decide (a ≠ b)

def VCond.eval (env : Env) : VCond → Bool
  | .cmp op a b => op.eval (a.eval env) (b.eval env)
  | .and a b => a.eval env && b.eval env
  | .or a b => a.eval env || b.eval env
  | .not a => !a.eval env
  | .isTrue e => decide (e.eval env ≠ 0)

/-- the `Validate` function: the first condition that holds decides; falling through = the final `return nil` -/
def runRules (env : Env) : List VRule → Bool
  | [] => true
  | r :: rs => if r.cond.eval env then r.accept else runRules env rs

def VExpr.fields : VExpr → List String
  | .fld n => [n]
  | _ => []

def VCond.fields : VCond → List String
  | .cmp _ a b => a.fields ++ b.fields
  | .and a b => a.fields ++ b.fields
  | .or a b => a.fields ++ b.fields
  | .not a => a.fields
  | .isTrue e => e.fields

/-- every field a rule list reads is a field of the struct (or the receiver itself): the environment below never
answers for a name it does not know -/
def rulesKnown (known : List String) (rules : List VRule) : Bool :=
  rules.all (fun r => r.cond.fields.all (fun f => f == "self" || known.contains f))

/-! ### the raw configurations (everything a user / an exporter author can write) -/

def sizerRequests : Int := 0
def sizerItems : Int := 1
def sizerBytes : Int := 2
/-- the zero `request.SizerType{}` and anything else -/
def sizerOther : Int := 3

def b2i (b : Bool) : Int := if b then 1 else 0

/-- `queuebatch.BatchConfig` (durations in ns) -/
structure BatchRaw where
  flushTimeout : Int
  min : Int
  max : Int
deriving Repr, DecidableEq

/-- `queuebatch.Config` -/
structure QRaw where
  enabled : Bool
  waitForResult : Bool
  sizer : Int
  queueSize : Int
  blockOnOverflow : Bool
  storage : Bool            -- `StorageID != nil`
  numConsumers : Int
  batch : Option BatchRaw
deriving Repr, DecidableEq

/-- `internal.BatcherConfig` (the deprecated `WithBatcher` configuration; `SizeConfig` is embedded) -/
structure LegacyRaw where
  enabled : Bool
  flushTimeout : Int
  sizer : Int
  min : Int
  max : Int
deriving Repr, DecidableEq

def BatchRaw.env : Option BatchRaw → Env
  | none => fun _ => 0
  | some b => fun n =>
    if n = "self" then 1 else if n = "FlushTimeout" then b.flushTimeout else if n = "MinSize" then b.min
    else if n = "MaxSize" then b.max else 0

def QRaw.env (q : QRaw) : Env := fun n =>
  if n = "self" then 1 else if n = "Enabled" then b2i q.enabled else if n = "WaitForResult" then b2i q.waitForResult
  else if n = "Sizer" then q.sizer else if n = "QueueSize" then q.queueSize
  else if n = "BlockOnOverflow" then b2i q.blockOnOverflow else if n = "StorageID" then b2i q.storage
  else if n = "NumConsumers" then q.numConsumers else if n = "Batch" then b2i q.batch.isSome else 0

def LegacyRaw.env (l : LegacyRaw) : Env := fun n =>
  if n = "self" then 1 else if n = "Enabled" then b2i l.enabled else if n = "FlushTimeout" then l.flushTimeout
  else if n = "Sizer" then l.sizer else if n = "MinSize" then l.min else if n = "MaxSize" then l.max else 0

/-- the names `BatchRaw.env` / `QRaw.env` / `LegacyRaw.env` answer for -/
def batchEnvFields : List String := ["FlushTimeout", "MinSize", "MaxSize"]
def queueEnvFields : List String :=
  ["Enabled", "WaitForResult", "Sizer", "QueueSize", "BlockOnOverflow", "StorageID", "NumConsumers", "Batch"]
def legacyEnvFields : List String := ["Enabled", "FlushTimeout", "Sizer", "MinSize", "MaxSize"]

/-! ### `newQueueBatchConfig` (queue_sender.go) and `newQueueBatch` (queue_batch.go) -/

/-- `newQueueBatchConfig(qCfg, bCfg)`: the deprecated batcher configuration overwrites `sending_queue::batch`;
with a disabled queue a blocking, wait-for-result queue of `math.MaxInt` requests is synthesised -/
def newQueueBatchConfig (q : QRaw) (l : LegacyRaw) (maxInt numCPU : Int) : QRaw :=
  if !l.enabled then q
  else if q.enabled then { q with batch := some ⟨l.flushTimeout, l.min, l.max⟩ }
  else { enabled := true, waitForResult := true, sizer := sizerRequests, queueSize := maxInt, numConsumers := numCPU,
         blockOnOverflow := true, storage := false, batch := some ⟨l.flushTimeout, l.min, l.max⟩ }

/-- what `newQueueBatch` puts behind the queue -/
inductive Built where
  | unsupportedSizer                                     -- `queue_batch: unsupported sizer`
  | disabled (consumers : Int)                           -- `newDisabledBatcher`
  | dflt (sizer : Int) (cfg : BatchRaw) (workers : Int)  -- `newDefaultBatcher(*cfg.Batch, {sizerType, maxWorkers})`
deriving Repr, DecidableEq

/-- `newQueueBatch(set, cfg, next, oldBatcher)`; `sizers` = the keys of `set.Sizers` -/
def newQueueBatch (sizers : List Int) (q : QRaw) (old : Bool) : Built :=
  if !sizers.contains q.sizer then .unsupportedSizer else
  match q.batch with
  | some b => .dflt (if old then sizerItems else q.sizer) b 1   -- `cfg.NumConsumers = 1`
  | none => .disabled q.numConsumers

/-- the sizers every exporter helper registers (`NewLogsQueueBatchSettings` …: requests, items, bytes) -/
def allSizers : List Int := [sizerRequests, sizerItems, sizerBytes]

/-- `NewQueueSender`: legacy configuration enabled ⇒ `NewQueueBatchLegacyBatcher` -/
def newQueueSender (sizers : List Int) (q : QRaw) (l : LegacyRaw) (maxInt numCPU : Int) : Built :=
  newQueueBatch sizers (newQueueBatchConfig q l maxInt numCPU) l.enabled

/-- the search oracle of the configuration glue: a batcher built from an ACCEPTED configuration must satisfy what the batcher and
size-bound theorems assume (sound: `C04_config_check_sound`) -/
def builtOk : Built → Bool
  | .dflt sz b w =>
    (sz == sizerItems || sz == sizerBytes) && w == 1 && decide (0 < b.flushTimeout) && decide (0 ≤ b.min) &&
      decide (0 ≤ b.max) && (b.max == 0 || decide (b.min ≤ b.max))
  | .disabled n => decide (0 < n)
  | .unsupportedSizer => true

/-- a struct literal / default configuration as regenerated data: field name ↦ value, every field of the struct -/
def lookupField (d : List (String × Int)) (n : String) : Int :=
  match d.find? (fun x => x.1 == n) with
  | some x => x.2
  | none => 0

def QRaw.ofFields (d : List (String × Int)) : QRaw :=
  { enabled := lookupField d "Enabled" != 0, waitForResult := lookupField d "WaitForResult" != 0,
    sizer := lookupField d "Sizer", queueSize := lookupField d "QueueSize",
    blockOnOverflow := lookupField d "BlockOnOverflow" != 0, storage := lookupField d "StorageID" != 0,
    numConsumers := lookupField d "NumConsumers", batch := none }

def LegacyRaw.ofFields (d : List (String × Int)) : LegacyRaw :=
  { enabled := lookupField d "Enabled" != 0, flushTimeout := lookupField d "FlushTimeout",
    sizer := lookupField d "Sizer", min := lookupField d "MinSize", max := lookupField d "MaxSize" }

end OtelVerif.C04.Config
