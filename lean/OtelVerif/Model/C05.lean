/-!
# C05 model: exporter retry loop

Mirrors, branch by branch,
* `exporter/exporterhelper/internal/retry_sender.go` `retrySender.Send` (with the repair of
  `fix: retry sender: shutdown/cancellation win over a ready back-off timer`: before the blocking
  `select` the loop polls `stopCh`, then `ctx.Err()`),
* `exporter/exporterhelper/internal/timeout_sender.go` (per-attempt `context.WithTimeout`),
* `github.com/cenkalti/backoff/v5` `ExponentialBackOff.NextBackOff`/`incrementCurrentInterval`
  (no `Reset`: `currentInterval` starts at 0 and is set to `InitialInterval` whenever it is 0),
* `config/configretry/backoff.go` `Validate`, `TimeoutConfig.Validate`,
* `logsRequest/tracesRequest/metricsRequest.OnError` (payload := the data named by the error),
* `consumererror.IsPermanent`, `experr.IsShutdownErr`, `errors.As(err, &throttleRetry{})` as a search
  over wrap/join error trees.

Time is `Nat` nanoseconds since `Send` was entered.  The multiplier is the fraction `mulNum/mulDen`,
the randomisation factor `rfNum/rfDen`; the value drawn by the library for `rf ≠ 0` is an input
(`Attempt.drawn`) with the law `LibLaw`.
-/
namespace OtelVerif.C05

/-! ## configuration -/

/-- `configretry.BackOffConfig` + `TimeoutConfig` as written in a config file (may be negative) -/
structure RawCfg where
  enabled : Bool
  initial : Int
  maxInt : Int
  maxElapsed : Int
  mulNum : Int
  mulDen : Nat
  rfNum : Int
  rfDen : Nat
  timeout : Int
deriving Repr, DecidableEq

/-- `BackOffConfig.Validate` (returns the index of the failing check, 0 = accepted).
`mulDen`, `rfDen` are positive denominators of the harness' encoding of the two floats. -/
def validateBackoff (r : RawCfg) : Nat :=
  if !r.enabled then 0
  else if r.initial < 0 then 1
  else if r.rfNum < 0 ∨ r.rfNum > r.rfDen then 2
  else if r.mulNum < 0 then 3
  else if r.maxInt < 0 then 4
  else if r.maxElapsed < 0 then 5
  else if r.maxElapsed > 0 then
    if r.maxElapsed < r.initial then 6
    else if r.maxElapsed < r.maxInt then 7
    else 0
  else 0

/-- `TimeoutConfig.Validate` -/
def validateTimeout (r : RawCfg) : Bool := !(r.timeout < 0)

structure Cfg where
  enabled : Bool
  initial : Nat
  maxInt : Nat
  /-- 0 = unlimited -/
  maxElapsed : Nat
  mulNum : Nat
  mulDen : Nat
  rfNum : Nat
  rfDen : Nat
  /-- per-attempt timeout, 0 = no timeout sender -/
  timeout : Nat
deriving Repr, DecidableEq

def RawCfg.toCfg (r : RawCfg) : Cfg :=
  { enabled := r.enabled, initial := r.initial.toNat, maxInt := r.maxInt.toNat, maxElapsed := r.maxElapsed.toNat,
    mulNum := r.mulNum.toNat, mulDen := r.mulDen, rfNum := r.rfNum.toNat, rfDen := r.rfDen, timeout := r.timeout.toNat }

/-- what `Validate` guarantees, on the `Nat` view -/
def Cfg.valid (c : Cfg) : Prop :=
  c.enabled = true → c.rfNum ≤ c.rfDen ∧ (c.maxElapsed > 0 → c.initial ≤ c.maxElapsed ∧ c.maxInt ≤ c.maxElapsed)

/-! ## environment and script -/

/-- absolute instants (ns since `Send` was entered) of the request deadline, of a plain cancellation of the
request context and of `retrySender.Shutdown` (`close(stopCh)`) -/
structure Env where
  deadline : Option Nat := none
  cancel : Option Nat := none
  shutdown : Option Nat := none
deriving Repr, DecidableEq

/-- one backend outcome.  The pusher waits (`dur` ns, or until its context is done when `untilCtx`),
then returns `nil` when `ok`, else an error that is permanent when `perm`, carries a throttle delay
when `throttle = some d`, names the undelivered remainder when `rest = some ids`.  `drawn` is what
`NextBackOff` returned after this attempt (only read when `rf ≠ 0`). -/
structure Attempt where
  untilCtx : Bool := false
  dur : Nat := 0
  ok : Bool := false
  perm : Bool := false
  throttle : Option Nat := none
  rest : Option (List Nat) := none
  drawn : Nat := 0
  /-- the backend's error already contains a shutdown-classified error (an exporter in front of another
  exporterhelper / a connector): every return of the loop wraps the backend error with `%w`, so
  `experr.IsShutdownErr` is then true of the result whatever the reason -/
  sd : Bool := false
deriving Repr, DecidableEq

def omin : Option Nat → Option Nat → Option Nat
  | none, b => b
  | a, none => a
  | some a, some b => some (min a b)

/-- instant at which the request context is done (`Done()` closed) -/
def Env.ctxDone (e : Env) : Option Nat := omin e.deadline e.cancel

/-- instant at which the context handed to the pusher is done: request context, or the timeout
sender's `context.WithTimeout(ctx, Timeout)` started with the attempt -/
def attemptCtxDone (c : Cfg) (e : Env) (start : Nat) : Option Nat :=
  omin e.ctxDone (if c.timeout > 0 then some (start + c.timeout) else none)

/-- when the attempt that started at `start` returns; `none` = it never returns -/
def finish (c : Cfg) (e : Env) (start : Nat) (a : Attempt) : Option Nat :=
  if a.untilCtx then (attemptCtxDone c e start).map (fun d => max start d) else some (start + a.dur)

/-! ## back-off library -/

/-- interval used by this `NextBackOff` call: `if currentInterval == 0 { currentInterval = InitialInterval }` -/
def curInterval (c : Cfg) (cur : Nat) : Nat := if cur = 0 then c.initial else cur

/-- `incrementCurrentInterval`: `if float64(cur) >= float64(Max)/Multiplier { cur = Max } else { cur = Duration(float64(cur)*Multiplier) }`
over exact fractions (`Multiplier = 0`: the quotient is `+Inf`/`NaN`, the comparison false, the product 0 — the formula below gives 0 too). -/
def nextCur (c : Cfg) (iv : Nat) : Nat :=
  if iv * c.mulNum ≥ c.maxInt * c.mulDen then c.maxInt else iv * c.mulNum / c.mulDen

/-- value of the library's `currentInterval` field before the `n`-th `NextBackOff` call -/
def curSeq (c : Cfg) : Nat → Nat
  | 0 => 0
  | n + 1 => nextCur c (curInterval c (curSeq c n))

/-- the un-randomised back-off interval of the `n`-th retry -/
def interval (c : Cfg) (n : Nat) : Nat := curInterval c (curSeq c n)

/-- `getRandomValueFromInterval`: `rf = 0` returns the interval itself, otherwise the drawn value -/
def backoffDelay (c : Cfg) (iv : Nat) (a : Attempt) : Nat := if c.rfNum = 0 then iv else a.drawn

/-- law of the drawn value: `trunc(min + random*(max-min+1))` with `random ∈ [0,1)`,
`min = iv - rf*iv`, `max = iv + rf*iv` (one unit of slack below for the float truncation) -/
def LibLaw (c : Cfg) (iv : Nat) (drawn : Nat) : Prop :=
  iv * (c.rfDen - c.rfNum) ≤ (drawn + 1) * c.rfDen ∧ drawn * c.rfDen ≤ iv * (c.rfDen + c.rfNum) + c.rfDen

instance (c iv d) : Decidable (LibLaw c iv d) := by unfold LibLaw; infer_instance

/-- `backoffDelay = max(backoffDelay, throttleErr.delay)` when the error chain holds a `throttleRetry` -/
def waitOf (c : Cfg) (iv : Nat) (a : Attempt) : Nat :=
  match a.throttle with
  | some th => max (backoffDelay c iv a) th
  | none => backoffDelay c iv a

/-! ## the loop -/

inductive Reason
  | ok          -- nil
  | perm        -- "not retryable error: %w"
  | exhausted   -- "no more retries left: %w"
  | deadline    -- "request will be cancelled before next retry: %w"
  | cancelled   -- "request is cancelled or timed out: %w"
  | shutdown    -- experr.NewShutdownErr(err)
  | raw         -- retry disabled: the pusher's error as it is
  | hang        -- the pusher never returns (waits on a context that is never done)
deriving Repr, DecidableEq

def Reason.toString : Reason → String
  | .ok => "ok" | .perm => "perm" | .exhausted => "exhausted" | .deadline => "deadline"
  | .cancelled => "cancelled" | .shutdown => "shutdown" | .raw => "raw" | .hang => "hang"

/-- one call of the next sender: start, return instant, payload (item ids) -/
structure Call where
  t : Nat
  fin : Nat
  payload : List Nat
deriving Repr, DecidableEq

structure Trace where
  calls : List Call
  reason : Reason
  tEnd : Nat
  /-- `consumererror.IsPermanent` of the returned error -/
  permFlag : Bool := false
  /-- `experr.IsShutdownErr` of the returned error -/
  sdFlag : Bool := false
deriving Repr, DecidableEq

def olt (o : Option Nat) (n : Nat) : Bool := match o with | some x => x < n | none => false
def ole (o : Option Nat) (n : Nat) : Bool := match o with | some x => x ≤ n | none => false

/-- what happens after a failed, non-permanent attempt that returned at `fin` with planned wait `w`:
`none` = the timer fires and the loop goes round; `some (reason, instant)` = `Send` returns. -/
def afterFailure (c : Cfg) (e : Env) (fin w : Nat) : Option (Reason × Nat) :=
  let next := fin + w
  if c.maxElapsed > 0 ∧ c.maxElapsed < next then some (.exhausted, fin)      -- maxElapsedTime.Before(nextRetryTime)
  else if olt e.deadline next then some (.deadline, fin)                      -- deadline.Before(nextRetryTime)
  else if ole e.shutdown fin then some (.shutdown, fin)                       -- poll stopCh (repair)
  else if ole e.ctxDone fin then some (.cancelled, fin)                       -- poll ctx.Err() (repair)
  else
    -- blocking select: the earliest of shutdown / context done / timer; at equal instants with the
    -- timer the timer wins, shutdown wins over the context (ties are outside the theorem, DESIGN §C05)
    match e.shutdown, e.ctxDone with
    | some s, some d => if s < next ∧ s ≤ d then some (.shutdown, s) else if d < next then some (.cancelled, d) else none
    | some s, none => if s < next then some (.shutdown, s) else none
    | none, some d => if d < next then some (.cancelled, d) else none
    | none, none => none

/-- `retrySender.Send` (or the bare chain when retry is disabled) on a script of backend outcomes.
An attempt beyond the end of the script succeeds at once. -/
def run (c : Cfg) (e : Env) : (now cur : Nat) → (payload : List Nat) → List Attempt → Trace
  | now, _, p, [] => { calls := [⟨now, now, p⟩], reason := .ok, tEnd := now }
  | now, cur, p, a :: as =>
    match finish c e now a with
    | none => { calls := [⟨now, now, p⟩], reason := .hang, tEnd := now }
    | some fin =>
      let call : Call := ⟨now, fin, p⟩
      if a.ok then { calls := [call], reason := .ok, tEnd := fin }
      else if !c.enabled then { calls := [call], reason := .raw, tEnd := fin, permFlag := a.perm, sdFlag := a.sd }
      else if a.perm then { calls := [call], reason := .perm, tEnd := fin, permFlag := true, sdFlag := a.sd }
      else
        let iv := curInterval c cur
        let w := waitOf c iv a
        match afterFailure c e fin w with
        | some (r, t) => { calls := [call], reason := r, tEnd := t, sdFlag := (r == .shutdown) || a.sd }
        | none =>
          let tr := run c e (fin + w) (nextCur c iv) (a.rest.getD p) as
          { tr with calls := call :: tr.calls }

/-- `Send` entered at instant 0 with a fresh `ExponentialBackOff` -/
def send (c : Cfg) (e : Env) (payload : List Nat) (script : List Attempt) : Trace := run c e 0 0 payload script

/-! ## the timeout sender and the request deadline, as seen by the pusher -/

/-- `ctx.Deadline()` of the context handed to the pusher for the attempt started at `start`:
`context.WithTimeout(ctx, Timeout)` takes the earlier of the request deadline and `start + Timeout`;
the timeout is counted from the start of *this* attempt (a fresh context per attempt), the request
deadline is not touched by it ("Intentionally don't overwrite the context inside the request"). -/
def pusherDeadline (c : Cfg) (e : Env) (start : Nat) : Option Nat :=
  omin e.deadline (if c.timeout > 0 then some (start + c.timeout) else none)

/-- `ctx.Err()` the pusher sees when its context ends: `true` = `context.Canceled`
(the request was cancelled strictly before any deadline), `false` = `context.DeadlineExceeded` -/
def pusherErrCanceled (c : Cfg) (e : Env) (start : Nat) : Bool :=
  match e.cancel, pusherDeadline c e start with
  | some x, some d => x < d
  | some _, none => true
  | none, _ => false

/-! ## equal instants: what Go allows

When shutdown, cancellation or the deadline fall on exactly the instant at which an independent
timer of the run fires (the pusher's own sleep ending = `fin`, the back-off timer = `fin + w`), the
order in which the goroutines run is up to the scheduler.  `afterFailureND` lists every outcome of
the round that some order produces; `runAll` lists every trace.  `afterFailure`/`run` pick one of
them (`C05_run_mem_runAll`), and the property theorems are proved for all of them. -/

/-- is outcome `o` of the round (`none` = the timer fires and the loop goes round) produced by some
scheduling order?  An event strictly before the poll (`< fin`) is certainly seen by it; at `= fin` it
may or may not be; in the blocking `select` the earliest instant wins, equal instants either way; an
event at exactly `fin + w` competes with the timer. -/
def ndAllowed (c : Cfg) (e : Env) (fin w : Nat) (o : Option (Reason × Nat)) : Bool :=
  let next := fin + w
  if c.maxElapsed > 0 ∧ c.maxElapsed < next then o == some (.exhausted, fin)      -- arithmetic, no race
  else if olt e.deadline next then o == some (.deadline, fin)                      -- arithmetic, no race
  else
    match o with
    | none => !olt e.shutdown next && !olt e.ctxDone next
    | some (.shutdown, t) =>
      match e.shutdown with
      | some s => (decide (s ≤ fin) && t == fin) || (decide (fin < s) && decide (s ≤ next) && t == s && !olt e.ctxDone s)
      | none => false
    | some (.cancelled, t) =>
      match e.ctxDone with
      | some x => (decide (x ≤ fin) && t == fin && !olt e.shutdown fin) || (decide (fin < x) && decide (x ≤ next) && t == x && !olt e.shutdown x)
      | none => false
    | some _ => false

/-- `Allowed c e now cur p script tr`: `tr` is a trace of `Send` under some scheduling order -/
def Allowed (c : Cfg) (e : Env) : (now cur : Nat) → (payload : List Nat) → List Attempt → Trace → Prop
  | now, _, p, [], tr => tr = { calls := [⟨now, now, p⟩], reason := .ok, tEnd := now }
  | now, cur, p, a :: as, tr =>
    match finish c e now a with
    | none => tr = { calls := [⟨now, now, p⟩], reason := .hang, tEnd := now }
    | some fin =>
      if a.ok then tr = { calls := [⟨now, fin, p⟩], reason := .ok, tEnd := fin }
      else if !c.enabled then tr = { calls := [⟨now, fin, p⟩], reason := .raw, tEnd := fin, permFlag := a.perm, sdFlag := a.sd }
      else if a.perm then tr = { calls := [⟨now, fin, p⟩], reason := .perm, tEnd := fin, permFlag := true, sdFlag := a.sd }
      else
        (∃ r t, ndAllowed c e fin (waitOf c (curInterval c cur) a) (some (r, t)) = true ∧
          tr = { calls := [⟨now, fin, p⟩], reason := r, tEnd := t, sdFlag := (r == .shutdown) || a.sd }) ∨
        (ndAllowed c e fin (waitOf c (curInterval c cur) a) none = true ∧
          ∃ tr', Allowed c e (fin + waitOf c (curInterval c cur) a) (nextCur c (curInterval c cur)) (a.rest.getD p) as tr' ∧
            tr = { tr' with calls := ⟨now, fin, p⟩ :: tr'.calls })

/-- executable monitor for `Allowed`: follows an observed call sequence `(start, payload)` and return
`(reason, instant, IsPermanent, IsShutdownErr)` through the script and accepts iff every round took an
outcome that some scheduling order produces (`C05_accepts_sound`) -/
def accepts (c : Cfg) (e : Env) (reason : Reason) (tEnd : Nat) (perm sd : Bool) :
    (now cur : Nat) → (payload : List Nat) → List Attempt → List (Nat × List Nat) → Bool
  | now, _, p, [], calls => calls == [(now, p)] && reason == .ok && tEnd == now && !perm && !sd
  | now, cur, p, a :: as, calls =>
    match calls with
    | [] => false
    | (t, pl) :: rest =>
      t == now && pl == p &&
      (match finish c e now a with
       | none => false
       | some fin =>
         if a.ok then rest.isEmpty && reason == .ok && tEnd == fin && !perm && !sd
         else if !c.enabled then rest.isEmpty && reason == .raw && tEnd == fin && perm == a.perm && sd == a.sd
         else if a.perm then rest.isEmpty && reason == .perm && tEnd == fin && perm && sd == a.sd
         else if rest.isEmpty then
           ndAllowed c e fin (waitOf c (curInterval c cur) a) (some (reason, tEnd)) && !perm && sd == (reason == .shutdown || a.sd)
         else
           ndAllowed c e fin (waitOf c (curInterval c cur) a) none &&
             accepts c e reason tEnd perm sd (fin + waitOf c (curInterval c cur) a) (nextCur c (curInterval c cur)) (a.rest.getD p) as rest)

/-! ## error trees (`errors.As` over `Unwrap() error` / `Unwrap() []error`) -/

inductive Err
  | leaf                                  -- errors.New / ctx.Err()
  | wrap (e : Err)                        -- fmt.Errorf("…: %w", e)
  | perm (e : Err)                        -- consumererror.NewPermanent
  | throttle (d : Nat) (e : Err)          -- NewThrottleRetry
  | partialData (rest : List Nat) (e : Err)   -- consumererror.NewLogs/NewTraces/NewMetrics (matching signal)
  | otherSignal (e : Err)                 -- a signal error of a different signal: not seen by OnError
  | shutdown (e : Err)                    -- experr.NewShutdownErr
  | join (es : List Err)                  -- errors.Join / multierr.Append
deriving Repr

mutual
/-- `errors.As` pre-order search: first node for which `f` answers -/
def Err.find {α : Type} (f : Err → Option α) : Err → Option α
  | .leaf => f .leaf
  | .wrap e => (f (.wrap e)).orElse (fun _ => e.find f)
  | .perm e => (f (.perm e)).orElse (fun _ => e.find f)
  | .throttle d e => (f (.throttle d e)).orElse (fun _ => e.find f)
  | .partialData r e => (f (.partialData r e)).orElse (fun _ => e.find f)
  | .otherSignal e => (f (.otherSignal e)).orElse (fun _ => e.find f)
  | .shutdown e => (f (.shutdown e)).orElse (fun _ => e.find f)
  | .join es => (f (.join es)).orElse (fun _ => Err.findList f es)
def Err.findList {α : Type} (f : Err → Option α) : List Err → Option α
  | [] => none
  | e :: es => (e.find f).orElse (fun _ => Err.findList f es)
end

def Err.isPermanent (e : Err) : Bool := (e.find (fun n => match n with | .perm _ => some () | _ => none)).isSome
def Err.isShutdown (e : Err) : Bool := (e.find (fun n => match n with | .shutdown _ => some () | _ => none)).isSome
def Err.throttleDelay (e : Err) : Option Nat := e.find (fun n => match n with | .throttle d _ => some d | _ => none)
def Err.remainder (e : Err) : Option (List Nat) := e.find (fun n => match n with | .partialData r _ => some r | _ => none)

/-- the `Attempt` fields the retry loop reads off a returned error -/
def Attempt.ofErr (e : Err) (dur : Nat) (drawn : Nat := 0) : Attempt :=
  { dur := dur, ok := false, perm := e.isPermanent, throttle := e.throttleDelay, rest := e.remainder, drawn := drawn, sd := e.isShutdown }

/-- a wrapper applied around a returned error further up the exporter chain -/
inductive Wrapper
  | wrap
  | joinLeft (others : List Err)    -- errors.Join(others…, e)
  | joinRight (others : List Err)   -- errors.Join(e, others…)
deriving Repr

def Wrapper.apply : Wrapper → Err → Err
  | .wrap, e => .wrap e
  | .joinLeft os, e => .join (os ++ [e])
  | .joinRight os, e => .join (e :: os)

/-! ## glue: what the OTLP/gRPC exporter hands to the retry loop (`otlpexporter.processError`) -/

/-- `shouldRetry`: Canceled, DeadlineExceeded, Aborted, OutOfRange, Unavailable, DataLoss; ResourceExhausted only with RetryInfo -/
def grpcRetryable (code : Nat) (hasRetryInfo : Bool) : Bool :=
  code == 1 || code == 4 || code == 10 || code == 11 || code == 14 || code == 15 || (code == 8 && hasRetryInfo)

/-- `processError` on a gRPC status `code` with an optional `RetryInfo.retry_delay` (ns): `none` = success,
else the error the retry loop will see -/
def grpcProcess (code : Nat) (retryInfo : Option Nat) : Option Err :=
  if code = 0 then none
  else if !grpcRetryable code retryInfo.isSome then some (.perm .leaf)
  else match retryInfo with
    | some d => if d ≠ 0 then some (.throttle d .leaf) else some .leaf
    | none => some .leaf

/-! ## checks the driver makes on the inputs it is given -/

/-- the library law evaluated on every draw the script supplies (the harness learns them from a mirror
instance of the real `ExponentialBackOff`): ties `LibLaw` to what the library really returns -/
def lawAlongB (c : Cfg) : Nat → List Attempt → Bool
  | _, [] => true
  | cur, a :: as => (c.rfNum == 0 || decide (LibLaw c (curInterval c cur) a.drawn)) && lawAlongB c (nextCur c (curInterval c cur)) as

/-- is this case an *equal-instant* case?  Recomputed from the deterministic model trace: shutdown,
cancellation or the deadline falls on exactly the start of a retry (= a back-off timer firing) or on
the return of an attempt (see below), or shutdown coincides with cancellation / the deadline.  Only such cases may be sent to the monitor instead of the exact diff. -/
def isTie (c : Cfg) (e : Env) (script : List Attempt) (tr : Trace) : Bool :=
  -- the return of an attempt that *waited for its context* is caused by whatever ended that context; it races with
  -- the event `x` only if something independent of `x` ended it on the same instant: always for shutdown (which never
  -- ends that context); for cancellation / the deadline only when the timeout sender's timer (`start + timeout`) or
  -- the other of the two falls on `x` as well
  let hit (ev : Option Nat) (isShutdown : Bool) (other : Option Nat) : Bool :=
    match ev with
    | none => false
    | some x =>
      tr.calls.zipIdx.any (fun (cl, k) =>
        (decide (0 < k) && cl.t == x) ||
        ((isShutdown || !(script.getD k { ok := true }).untilCtx || (decide (0 < c.timeout) && cl.t + c.timeout == x) || other == some x)
          && cl.fin == x && decide (0 < x)))
  hit e.shutdown true none || hit e.cancel false e.deadline || hit e.deadline false e.cancel ||
  (match e.shutdown with
   | some s => decide (0 < s) && (e.cancel == some s || e.deadline == some s)
   | none => false)

/-! ## the search oracle: the property's clauses evaluated on an observed call sequence -/

/-- an observed run: calls `(start, payload)` and the returned error's classification -/
structure Observed where
  calls : List (Nat × List Nat)
  tEnd : Nat
  isNil : Bool
  permFlag : Bool
  sdFlag : Bool
deriving Repr

/-- shutdown arrived by instant `t`, and not merely at the very instant at which the request context
ended (equal instants: either may win) -/
def sdBefore (e : Env) (t : Nat) : Bool := olt e.shutdown t || (e.shutdown == some t && e.ctxDone != some t)

/-- what the harness observes of a trace -/
def Trace.observed (tr : Trace) : Observed :=
  { calls := tr.calls.map (fun cl => (cl.t, cl.payload)), tEnd := tr.tEnd, isNil := tr.reason == .ok,
    permFlag := tr.permFlag, sdFlag := tr.sdFlag }

/-- upper end of the back-off envelope: `(1+rf)·max(initial, max_interval) + 1` (as a multiple of `rfDen`) -/
def envelopeHiTimesDen (c : Cfg) : Nat := max c.initial c.maxInt * (c.rfDen + c.rfNum) + c.rfDen

/-- clause by clause; each failing clause yields its signature.  `script[k]` is the backend outcome of call `k`. -/
def checkObserved (c : Cfg) (e : Env) (payload : List Nat) (script : List Attempt) (o : Observed) : List String :=
  let n := o.calls.length
  let idx := List.range n
  let callAt (k : Nat) : Nat × List Nat := o.calls.getD k (0, [])
  let att (k : Nat) : Attempt := script.getD k { ok := true }
  let finOf (k : Nat) : Nat := (finish c e (callAt k).1 (att k)).getD (callAt k).1
  (if n = 0 then ["C05/retry/no-attempt"] else []) ++
  (if (callAt 0).2 ≠ payload ∧ n > 0 then ["C05/retry/first-payload-changed"] else []) ++
  (if !c.enabled ∧ n > 1 then ["C05/retry/retried-while-disabled"] else []) ++
  (if idx.any (fun k => k + 1 < n ∧ (att k).ok) then ["C05/retry/attempt-after-success"] else []) ++
  (if idx.any (fun k => k + 1 < n ∧ !(att k).ok ∧ (att k).perm) then ["C05/retry/attempt-after-permanent"] else []) ++
  (if idx.any (fun k => 0 < k ∧ olt e.shutdown (callAt k).1) then ["C05/retry/attempt-after-shutdown"] else []) ++
  (if idx.any (fun k => 0 < k ∧ olt e.ctxDone (callAt k).1) then ["C05/retry/attempt-after-context-done"] else []) ++
  (if idx.any (fun k => 0 < k ∧ c.maxElapsed > 0 ∧ c.maxElapsed < (callAt k).1) then ["C05/retry/attempt-after-elapsed-budget"] else []) ++
  (if idx.any (fun k => k + 1 < n ∧ (callAt (k + 1)).1 < finOf k + ((att k).throttle.getD 0)) then ["C05/retry/wait-shorter-than-throttle"] else []) ++
  (if idx.any (fun k => k + 1 < n ∧ (att k).throttle.isNone ∧ ((callAt (k + 1)).1 - finOf k) * c.rfDen > envelopeHiTimesDen c) then ["C05/retry/wait-above-envelope"] else []) ++
  (if idx.any (fun k => k + 1 < n ∧ (callAt (k + 1)).2 ≠ (att k).rest.getD (callAt k).2) then ["C05/retry/resent-payload-not-remainder"] else []) ++
  (if n > 0 ∧ !o.isNil ∧ !o.permFlag ∧ !o.sdFlag ∧ c.enabled ∧ sdBefore e o.tEnd ∧ o.tEnd > finOf (n - 1) then ["C05/retry/wait-interrupted-by-shutdown-not-classified"] else []) ++
  (if o.isNil ∧ n > 0 ∧ !(att (n - 1)).ok then ["C05/retry/nil-after-failure"] else []) ++
  (if !o.isNil ∧ n > 0 ∧ (att (n - 1)).ok then ["C05/retry/error-after-success"] else [])

end OtelVerif.C05
