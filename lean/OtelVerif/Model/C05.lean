/-! C05 model (stub) -/
namespace OtelVerif.C05
end OtelVerif.C05
