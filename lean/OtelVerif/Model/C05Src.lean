import OtelVerif.Model.C05
import OtelVerif.Gen.RetryCfg
/-!
# C05: the bridge between the hand-written model and the definitions REGENERATED from /repo

`Gen/RetryCfg.lean` is written by `translators/cmd/gofunlean c05` on every run: `BackOffConfig`,
`NewDefaultBackOffConfig` (the two library constants read from the cenkalti/backoff version `config/configretry/go.mod`
requires), `BackOffConfig.Validate`, `TimeoutConfig`, `NewDefaultTimeoutConfig`, `TimeoutConfig.Validate`,
`otlpexporter.shouldRetry` (compiled statement by statement), and shape-checked tables: `OnError` of the four request
types, the four partial-failure constructors, the accessors of `internal.Retryable`, the order and conditions under
which `NewBaseExporter` installs the timeout and the retry sender.  This file maps the model's types onto the generated
ones and models the per-signal partial-failure constructors on top of the error trees of `Model/C05.lean`.
-/
namespace OtelVerif.C05
open OtelVerif.Gen

def RawCfg.toGo (r : RawCfg) : RetryCfg.BackOffConfig :=
  { Enabled := r.enabled, InitialInterval := r.initial, RandomizationFactor := ⟨r.rfNum, r.rfDen⟩,
    Multiplier := ⟨r.mulNum, r.mulDen⟩, MaxInterval := r.maxInt, MaxElapsedTime := r.maxElapsed }

def RawCfg.toGoTimeout (r : RawCfg) : RetryCfg.TimeoutConfig := { Timeout := r.timeout }

/-- the model's view of a generated configuration pair -/
def RawCfg.ofGo (b : RetryCfg.BackOffConfig) (t : RetryCfg.TimeoutConfig) : RawCfg :=
  { enabled := b.Enabled, initial := b.InitialInterval, maxInt := b.MaxInterval, maxElapsed := b.MaxElapsedTime,
    mulNum := b.Multiplier.num, mulDen := b.Multiplier.den, rfNum := b.RandomizationFactor.num, rfDen := b.RandomizationFactor.den,
    timeout := t.Timeout }

/-- `configretry.NewDefaultBackOffConfig()` + `NewDefaultTimeoutConfig()` as regenerated from the source -/
def defaultRaw : RawCfg := RawCfg.ofGo RetryCfg.NewDefaultBackOffConfig RetryCfg.NewDefaultTimeoutConfig
def defaultCfg : Cfg := defaultRaw.toCfg

/-! ## the per-signal partial-failure errors

`consumererror.NewLogs / NewTraces / NewMetrics` and `xconsumererror.NewProfiles` build `T{Retryable{Err, Value}}`;
`Retryable.Unwrap` returns `Err` (so `IsPermanent`, `IsShutdownErr`, the throttle search look through it) and
`Retryable.Data` returns `Value`; `<signal>Request.OnError` searches the chain with `errors.As` for ITS OWN error type
only.  On the error trees of `Model/C05.lean` a partial-failure error of the request's own signal is `.partialData`, one
of another signal `.otherSignal`. -/

inductive Signal | logs | traces | metrics | profiles
deriving Repr, DecidableEq

/-- `New<sig>(err, data)` as a request of signal `req` sees it -/
def newSignalErr (req sig : Signal) (e : Err) (data : List Nat) : Err :=
  if req = sig then .partialData data e else .otherSignal e

/-- `<signal>Request.OnError(err)`: the payload of the next attempt -/
def onError (payload : List Nat) (e : Err) : List Nat := e.remainder.getD payload

def Signal.request : Signal → String
  | .logs => "logsRequest" | .traces => "tracesRequest" | .metrics => "metricsRequest" | .profiles => "profilesRequest"
def Signal.errType : Signal → String
  | .logs => "consumererror.Logs" | .traces => "consumererror.Traces" | .metrics => "consumererror.Metrics" | .profiles => "xconsumererror.Profiles"
def Signal.ctor : Signal → String
  | .logs => "consumererror.NewLogs" | .traces => "consumererror.NewTraces" | .metrics => "consumererror.NewMetrics" | .profiles => "xconsumererror.NewProfiles"
def Signal.all : List Signal := [.logs, .traces, .metrics, .profiles]

/-- what the regenerated tables must say for the model of the constructors / `OnError` to be the code's: every request
type searches exactly the error type its own signal's constructor builds; the constructor stores its first parameter in
`Err` and its second in `Value`; `Unwrap` returns `Err`, `Data` returns `Value` -/
def signalTablesOK : Bool :=
  Signal.all.all (fun s =>
    (RetryCfg.onErrorTable.filter (·.1 = s.request)).map (·.2.1) == [s.errType] &&
    (RetryCfg.signalErrTable.filter (·.2.1 = s.errType)) == [(s.ctor, s.errType, 0, 1)]) &&
  RetryCfg.onErrorTable.length == 4 && RetryCfg.signalErrTable.length == 4 &&
  RetryCfg.retryableAccessors == [("Error", "Err.Error()"), ("Unwrap", "Err"), ("Data", "Value")]

/-! ## one iteration of `retrySender.Send` against the regenerated decision chain (`RetryCfg.retryStep`) -/

def optI (o : Option Nat) : Option Int := o.map (fun n => (n : Int))

/-- the inputs of the iteration as the model supplies them: the attempt `a` returned at `fin` (ns since `Send` was entered, so
`maxElapsedTime` = `MaxElapsedTime` itself), the library's `currentInterval` is `cur`.  `backoff.Stop = -1` -/
def stepInOf (c : Cfg) (e : Env) (cur fin : Nat) (a : Attempt) : RetryCfg.StepIn :=
  { errNil := a.ok, permanent := a.perm, hasErrorHandler := true, throttle := optI a.throttle,
    backoff := (backoffDelay c (curInterval c cur) a : Nat), backoffStop := -1, now := (fin : Nat),
    maxElapsed := if c.maxElapsed > 0 then some (c.maxElapsed : Int) else none, deadline := optI e.deadline,
    stopClosed := ole e.shutdown fin, ctxErr := ole e.ctxDone fin }

/-- the four checks of `afterFailure` that come BEFORE the blocking select (budget, deadline, poll of `stopCh`, poll of `ctx.Err()`) -/
def preSelect (c : Cfg) (e : Env) (fin w : Nat) : Option (Reason × Nat) :=
  if c.maxElapsed > 0 ∧ c.maxElapsed < fin + w then some (.exhausted, fin)
  else if olt e.deadline (fin + w) then some (.deadline, fin)
  else if ole e.shutdown fin then some (.shutdown, fin)
  else if ole e.ctxDone fin then some (.cancelled, fin)
  else none

/-- the blocking select of `afterFailure` -/
def blockingSelect (e : Env) (fin w : Nat) : Option (Reason × Nat) :=
  match e.shutdown, e.ctxDone with
  | some s, some d => if s < fin + w ∧ s ≤ d then some (.shutdown, s) else if d < fin + w then some (.cancelled, d) else none
  | some s, none => if s < fin + w then some (.shutdown, s) else none
  | none, some d => if d < fin + w then some (.cancelled, d) else none
  | none, none => none

/-- a pre-select verdict of the model as the Go return it stands for -/
def stepOutOf (w : Nat) : Option (Reason × Nat) → RetryCfg.StepOut
  | some (.exhausted, _) => .retWrap "no more retries left"
  | some (.deadline, _) => .retWrap "request will be cancelled before next retry"
  | some (.shutdown, _) => .retShutdown
  | some (.cancelled, _) => .retWrap "request is cancelled or timed out"
  | _ => .wait (w : Int) true

/-- the model's iteration in the vocabulary of the regenerated step function -/
def modelStep (c : Cfg) (e : Env) (cur fin : Nat) (a : Attempt) : RetryCfg.StepOut :=
  if a.ok then .retNil
  else if a.perm then .retWrap "not retryable error"
  else stepOutOf (waitOf c (curInterval c cur) a) (preSelect c e fin (waitOf c (curInterval c cur) a))

/-! ## the library's random draw -/

/-- `getRandomValueFromInterval(rf, random, iv)` of cenkalti/backoff/v5 over exact fractions (`random = rn/rd ∈ [0,1)`):
`trunc(min + random·(max − min + 1))` with `min = iv − rf·iv`, `max = iv + rf·iv`, i.e.
`⌊(iv·(rfDen − rfNum)·rd + rn·(2·iv·rfNum + rfDen)) / (rfDen·rd)⌋`; `rf = 0` returns the interval itself -/
def libDraw (c : Cfg) (iv rn rd : Nat) : Nat :=
  if c.rfNum = 0 then iv
  else (iv * (c.rfDen - c.rfNum) * rd + rn * (2 * iv * c.rfNum + c.rfDen)) / (c.rfDen * rd)

/-! ## source pins: the statements (tracing / logging removed) of the functions the hand-written model was written from and
that are outside the compiled subset (loops, select, channels, goroutines; for C05 also the three functions of the back-off
library the model idealises). `Props` proves the regenerated skeletons equal to these, so any edit of those functions stops the
build until the model has been re-examined. -/

def pin_retrySend : List String := [
  "expBackoff := backoff.ExponentialBackOff{InitialInterval: rs.cfg.InitialInterval, RandomizationFactor: rs.cfg.RandomizationFactor, Multiplier: rs.cfg.Multiplier, MaxInterval: rs.cfg.MaxInterval}",
  "var maxElapsedTime time.Time",
  "if rs.cfg.MaxElapsedTime > 0 { maxElapsedTime = time.Now().Add(rs.cfg.MaxElapsedTime) }",
  "for {",
  "err := rs.next.Send(ctx, req)",
  "if err == nil { return nil }",
  "if consumererror.IsPermanent(err) { return fmt.Errorf(\"not retryable error: %w\", err) }",
  "if errReq, ok := req.(request.ErrorHandler); ok { req = errReq.OnError(err) }",
  "backoffDelay := expBackoff.NextBackOff()",
  "if backoffDelay == backoff.Stop { return fmt.Errorf(\"no more retries left: %w\", err) }",
  "throttleErr := throttleRetry{}",
  "if errors.As(err, &throttleErr) { backoffDelay = max(backoffDelay, throttleErr.delay) }",
  "nextRetryTime := time.Now().Add(backoffDelay)",
  "if !maxElapsedTime.IsZero() && maxElapsedTime.Before(nextRetryTime) { return fmt.Errorf(\"no more retries left: %w\", err) }",
  "if deadline, has := ctx.Deadline(); has && deadline.Before(nextRetryTime) { return fmt.Errorf(\"request will be cancelled before next retry: %w\", err) }",
  "select { case <-rs.stopCh: return experr.NewShutdownErr(err) | default:  }",
  "if ctx.Err() != nil { return fmt.Errorf(\"request is cancelled or timed out: %w\", err) }",
  "select { case <-ctx.Done(): return fmt.Errorf(\"request is cancelled or timed out: %w\", err) | case <-rs.stopCh: return experr.NewShutdownErr(err) | case <-time.After(backoffDelay):  }",
  "}"
]

def pin_retryShutdown : List String := [
  "close(rs.stopCh)",
  "return nil"
]

def pin_newThrottleRetry : List String := [
  "return throttleRetry{err: err, delay: delay}"
]

def pin_throttleUnwrap : List String := [
  "return t.err"
]

def pin_timeoutSend : List String := [
  "tCtx, cancelFunc := context.WithTimeout(ctx, ts.cfg.Timeout)",
  "defer cancelFunc()",
  "return ts.next.Send(tCtx, req)"
]

def pin_newShutdownErr : List String := [
  "return shutdownErr{err: err}"
]

def pin_shutdownUnwrap : List String := [
  "return s.err"
]

def pin_isShutdownErr : List String := [
  "var sdErr shutdownErr",
  "return errors.As(err, &sdErr)"
]

def pin_newPermanent : List String := [
  "return permanent{err: err}"
]

def pin_permanentUnwrap : List String := [
  "return p.err"
]

def pin_isPermanent : List String := [
  "if err == nil { return false }",
  "return errors.As(err, &permanent{})"
]

def pin_processError : List String := [
  "if err == nil { return nil }",
  "st := status.Convert(err)",
  "if st.Code() == codes.OK { return nil }",
  "retryInfo := statusutil.GetRetryInfo(st)",
  "if !shouldRetry(st.Code(), retryInfo) { return consumererror.NewPermanent(err) }",
  "throttleDuration := retryInfo.GetRetryDelay().AsDuration()",
  "if throttleDuration != 0 { return exporterhelper.NewThrottleRetry(err, throttleDuration) }",
  "return err"
]

def pin_libNextBackOff : List String := [
  "if b.currentInterval == 0 { b.currentInterval = b.InitialInterval }",
  "next := getRandomValueFromInterval(b.RandomizationFactor, rand.Float64(), b.currentInterval)",
  "b.incrementCurrentInterval()",
  "return next"
]

def pin_libIncrement : List String := [
  "if float64(b.currentInterval) >= float64(b.MaxInterval) / b.Multiplier { b.currentInterval = b.MaxInterval } else { b.currentInterval = time.Duration(float64(b.currentInterval) * b.Multiplier) }"
]

def pin_libRandomValue : List String := [
  "if randomizationFactor == 0 { return currentInterval }",
  "var delta = randomizationFactor * float64(currentInterval)",
  "var minInterval = float64(currentInterval) - delta",
  "var maxInterval = float64(currentInterval) + delta",
  "return time.Duration(minInterval + (random * (maxInterval - minInterval + 1)))"
]

/-- all pins at once -/
def SrcPinned : Prop :=
    RetryCfg.skel_retrySend = pin_retrySend ∧
    RetryCfg.skel_retryShutdown = pin_retryShutdown ∧
    RetryCfg.skel_newThrottleRetry = pin_newThrottleRetry ∧
    RetryCfg.skel_throttleUnwrap = pin_throttleUnwrap ∧
    RetryCfg.skel_timeoutSend = pin_timeoutSend ∧
    RetryCfg.skel_newShutdownErr = pin_newShutdownErr ∧
    RetryCfg.skel_shutdownUnwrap = pin_shutdownUnwrap ∧
    RetryCfg.skel_isShutdownErr = pin_isShutdownErr ∧
    RetryCfg.skel_newPermanent = pin_newPermanent ∧
    RetryCfg.skel_permanentUnwrap = pin_permanentUnwrap ∧
    RetryCfg.skel_isPermanent = pin_isPermanent ∧
    RetryCfg.skel_processError = pin_processError ∧
    RetryCfg.skel_libNextBackOff = pin_libNextBackOff ∧
    RetryCfg.skel_libIncrement = pin_libIncrement ∧
    RetryCfg.skel_libRandomValue = pin_libRandomValue

end OtelVerif.C05
