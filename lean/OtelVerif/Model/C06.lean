/-!
# C06 model: fan-out consumer, pipeline capability, connector aggregate capability

Mirrors `internal/fanoutconsumer/{logs,metrics,traces,profiles}.go` (`NewLogs`, `logsConsumer.ConsumeLogs`,
`Capabilities`), `service/internal/graph/graph.go` (capabilities node in `buildComponents`) and
`service/internal/graph/connector.go` (`aggregateCap`).

Consumers are numbered by their position in the slice given to `NewLogs`; `caps[i]` is consumer
`i`'s declared `MutatesData`.
-/
namespace OtelVerif.C06

/-- which object a consumer is handed: the caller's payload, or the k-th `cloneLogs` of it -/
inductive Obj | orig | clone (k : Nat)
deriving DecidableEq, Repr

structure Delivery where
  consumer : Nat
  obj : Obj
deriving DecidableEq, Repr

/-- positions (counted from `i`) whose capability equals `b`, in order: the `mutable` / `readonly`
slices built by `NewLogs` -/
def idxWhere (b : Bool) : List Bool → Nat → List Nat
  | [], _ => []
  | c :: cs, i => if c = b then i :: idxWhere b cs (i + 1) else idxWhere b cs (i + 1)

def mutableIdx (caps : List Bool) : List Nat := idxWhere true caps 0
def readonlyIdx (caps : List Bool) : List Nat := idxWhere false caps 0

/-- `Capabilities()` of the fan-out consumer.  (`NewLogs` returns the consumer itself when there is
exactly one, non-mutating, consumer; that unwrapping is unobservable: the formulas below give the
same capability, deliveries and marking for `caps = [false]`.) -/
def fanCap (caps : List Bool) : Bool := !(mutableIdx caps).isEmpty && (readonlyIdx caps).isEmpty

/-- the loop over `lsc.mutable`: every mutating consumer but the last gets clone `k, k+1, …`;
the last gets the original iff `lastGetsOrig` -/
def mutDeliveries (lastGetsOrig : Bool) : List Nat → Nat → List Delivery
  | [], _ => []
  | [c], k => [⟨c, if lastGetsOrig then .orig else .clone k⟩]
  | c :: c' :: rest, k => ⟨c, .clone k⟩ :: mutDeliveries lastGetsOrig (c' :: rest) (k + 1)

def roDeliveries (r : List Nat) : List Delivery := r.map (fun c => ⟨c, .orig⟩)

/-- `len(lsc.readonly) == 0 && !ld.IsReadOnly()` -/
def lastGetsOrig (caps : List Bool) (inputRO : Bool) : Bool := (readonlyIdx caps).isEmpty && !inputRO

/-- calls made by `ConsumeLogs`, in call order -/
def deliveries (caps : List Bool) (inputRO : Bool) : List Delivery :=
  mutDeliveries (lastGetsOrig caps inputRO) (mutableIdx caps) 0 ++ roDeliveries (readonlyIdx caps)

/-- `len(lsc.readonly) > 1 && !ld.IsReadOnly()` → `ld.MarkReadOnly()` -/
def marksRO (caps : List Bool) (inputRO : Bool) : Bool := decide ((readonlyIdx caps).length > 1) && !inputRO

/-! ## contents: a small heap of payload objects -/

structure Heap where
  orig : Nat                      -- content of the caller's payload
  origRO : Bool                   -- its shared read-only state
  clones : List (Nat × Nat) := [] -- clone id ↦ content (clones are always mutable)
deriving DecidableEq, Repr

def Heap.read (h : Heap) : Obj → Option Nat
  | .orig => some h.orig
  | .clone k => h.clones.lookup k

def setClone (k v : Nat) : List (Nat × Nat) → List (Nat × Nat)
  | [] => []
  | (k', v') :: rest => if k' = k then (k', v) :: setClone k v rest else (k', v') :: setClone k v rest

/-- a mutation through the public API: panics (second component) and changes nothing when the
object is read-only (pdata `AssertMutable`, property C07) -/
def Heap.write (h : Heap) (o : Obj) (v : Nat) : Heap × Bool :=
  match o with
  | .orig => if h.origRO then (h, true) else ({ h with orig := v }, false)
  | .clone k => ({ h with clones := setClone k v h.clones }, false)

structure Seen where
  consumer : Nat
  obj : Obj
  atCall : Option Nat   -- content the consumer was given, at call time
  ro : Bool             -- `IsReadOnly()` of what it was given
  panicked : Bool       -- its synchronous write panicked
deriving DecidableEq, Repr

/-- one call: the clone (if any) is made from the current original right before the call
(`cloneLogs(ld)` is the argument expression), the consumer reads, then possibly writes during the
call (`syncW c = some v`) -/
def call (syncW : Nat → Option Nat) (h : Heap) (d : Delivery) : Heap × Seen :=
  let h1 : Heap := match d.obj with
    | .orig => h
    | .clone k => { h with clones := (k, h.orig) :: h.clones }
  let ro := match d.obj with | .orig => h1.origRO | .clone _ => false
  match syncW d.consumer with
  | none => (h1, ⟨d.consumer, d.obj, h1.read d.obj, ro, false⟩)
  | some v => ((h1.write d.obj v).1, ⟨d.consumer, d.obj, h1.read d.obj, ro, (h1.write d.obj v).2⟩)

def callAll (syncW : Nat → Option Nat) : Heap → List Delivery → Heap × List Seen
  | h, [] => (h, [])
  | h, d :: ds =>
    let (h1, s) := call syncW h d
    let (h2, ss) := callAll syncW h1 ds
    (h2, s :: ss)

/-- `ld.MarkReadOnly()` when `b` -/
def markRO (b : Bool) (h : Heap) : Heap := if b then { h with origRO := true } else h

/-- heap after the calls to the mutating consumers -/
def heapA (caps : List Bool) (inputRO : Bool) (c0 : Nat) (syncW : Nat → Option Nat) : Heap × List Seen :=
  callAll syncW { orig := c0, origRO := inputRO } (mutDeliveries (lastGetsOrig caps inputRO) (mutableIdx caps) 0)

/-- `ConsumeLogs`: mutable phase, marking, read-only phase -/
def runFan (caps : List Bool) (inputRO : Bool) (c0 : Nat) (syncW : Nat → Option Nat) : Heap × List Seen :=
  let a := heapA caps inputRO c0 syncW
  let b := callAll syncW (markRO (marksRO caps inputRO) a.1) (roDeliveries (readonlyIdx caps))
  (b.1, a.2 ++ b.2)

/-- object handed to consumer `c` -/
def objOf (ds : List Delivery) (c : Nat) : Option Obj := (ds.find? (fun d => d.consumer = c)).map (·.obj)

/-- later (asynchronous) writes: consumer `c` writes `v` to whatever it was handed -/
def asyncWrites (ds : List Delivery) (h : Heap) : List (Nat × Nat) → Heap
  | [] => h
  | (c, v) :: ws =>
    match objOf ds c with
    | some o => asyncWrites ds (h.write o v).1 ws
    | none => asyncWrites ds h ws

/-- returned error: the failures of all consumers, in call order (`multierr.Append`) -/
def errorsOf (ds : List Delivery) (fails : Nat → Bool) : List Nat := (ds.map (·.consumer)).filter fails


/-! ## order-independent summary of one fan-out call

The graph hands the consumers of a fan-out over in graph-iteration order, which a test cannot fix; what is observable at the
consumers and does not depend on that order: the read-only flag of the object each consumer is handed (closed form `seenRO`,
proved equal to the operational model in `C06_seen_ro`) and the number of mutating consumers that are handed the original
(`origMut`, closed form in `C06_origMut`). -/

/-- read-only flag of the object consumer `c` is handed, at its call -/
def seenRO (caps : List Bool) (inputRO : Bool) (c : Nat) : Bool :=
  caps[c]? == some false && (inputRO || decide ((readonlyIdx caps).length > 1))

/-- number of mutating consumers that are handed the caller's original -/
def origMut (caps : List Bool) (inputRO : Bool) : Nat :=
  ((mutDeliveries (lastGetsOrig caps inputRO) (mutableIdx caps) 0).filter (fun d => decide (d.obj = .orig))).length

/-! ## pipeline level -/

/-- capabilities node: `fanOutNode.Capabilities().MutatesData || any processor mutates` -/
def pipelineCap (procs exporters : List Bool) : Bool := fanCap exporters || procs.any id

/-- `aggregateCap(base, nexts)` for a same-signal connector -/
def aggregateCap (base : Bool) (nexts : List Bool) : Bool := base || nexts.any id

/-- capability advertised by an exporter built with the exporter helper
(`exporter/exporterhelper/internal/base_exporter.go`): the helper appends `MutatesData: true` AFTER the
exporter's own options whenever batching is enabled (`batcherCfg.Enabled || queueCfg.Batch != nil`); among
explicit declarations the last one wins; no declaration = non-mutating -/
def exporterCap (declared : Option Bool) (batching : Bool) : Bool := batching || declared.getD false

/-! ## declared capability → advertised capability (consumer options, processor helper, exporter helper)

`consumer.New*(f, opts…)` (`consumer/internal.NewBaseImpl`) starts from a default and applies the options in order; every
`consumer.WithCapabilities(c)` overwrites.  The helpers only build that option list: the processor helper puts its default
declaration(s) in front of the processor's own `WithCapabilities` options, the exporter helper appends one declaration behind the
exporter's own when it batches.  The defaults are regenerated from the source (`Gen.FanoutShape`). -/

/-- `Router.Consumer(ids…)` (`connector/{logs,metrics,traces}_router.go`, `connector/internal/router.go`): with `n` known pipelines
`0 … n-1`, the selection is accepted iff it is non-empty and every id is known; the consumer returned is then the fan-out over the
selected pipelines' consumers IN THE ORDER GIVEN, repeats included -/
def routerSelect (n : Nat) (sel : List Nat) : Option (List Nat) :=
  if sel.isEmpty then none else if sel.all (· < n) then some sel else none

def applyCaps (dflt : Bool) : List Bool → Bool
  | [] => dflt
  | c :: cs => applyCaps c cs

def processorCapH (consumerDefault : Bool) (helperDefaults decls : List Bool) : Bool :=
  applyCaps consumerDefault (helperDefaults ++ decls)

def exporterCapH (consumerDefault batchDeclares : Bool) (decls : List Bool) (batching : Bool) : Bool :=
  applyCaps consumerDefault (decls ++ if batching then [batchDeclares] else [])

end OtelVerif.C06
