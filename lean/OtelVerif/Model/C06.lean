/-! C06 model (stub) -/
namespace OtelVerif.C06
end OtelVerif.C06
