import OtelVerif.Model.C06
/-!
# C06 model, whole graphs: a payload travelling through a DAG of pipelines

A built graph (`service/internal/graph`) unfolds, for one payload injected at a receiver, into a **tree of calls**:
receiver fan-out → pipelines (capabilities node, processors, fan-out node) → exporters and same-signal connectors →
(connector's router fan-out) → pipelines → …  (an exporter or connector shared by several pipelines is called once per
path, with whatever object that path hands it; cycles are rejected by `graph.Build`).

`Forest` is the list of consumers of ONE fan-out (first-child / next-sibling encoding, so that every function below is
structurally recursive and every theorem is by plain induction — no depth or width bound anywhere).

`run`/`fan` is the operational semantics on a heap of payload objects: every fan-out does what
`internal/fanoutconsumer.Consume*` does (`C06.deliveries`: clone for every mutating consumer but the last, original to
the last one iff no non-mutating consumer and the payload is not read-only, `MarkReadOnly` when more than one
non-mutating consumer shares), the capability every inner node advertises is what the graph computes
(`C06.pipelineCap` for a pipeline's capabilities node, `C06.aggregateCap` for a connector), and declared mutators
(processors, connectors, exporters) append their tag to the object they were handed.

`spec`/`specAll` is the abstract semantics the property promises: every consumer works on a PRIVATE COPY — no heap at all,
every node simply receives the value its parent sends.  `C06_dag_refines` (Props) proves the operational semantics refines it.
-/
namespace OtelVerif.C06.Dag
open OtelVerif.C06

abbrev Trail := List Nat

inductive Kind | pipe | conn
deriving DecidableEq, Repr

/-- consumers of one fan-out.  `exp id mut`: an exporter (declared `MutatesData`).  `inner k ws kids`:
`k = pipe`: a pipeline — `ws` its processors `(id, MutatesData)` in order, `kids` the consumers of its fan-out node;
`k = conn`: a same-signal connector `ws = [(id, MutatesData)]` that passes what it receives on to its router, `kids` the
pipelines it feeds. -/
inductive Forest where
  | nil
  | exp (id : Nat) (m : Bool) (rest : Forest)
  | inner (k : Kind) (ws : List (Nat × Bool)) (kids rest : Forest)
deriving Repr

def anyW (ws : List (Nat × Bool)) : Bool := ws.any (·.2)

/-- capability an inner node advertises to the fan-out in front of it: `graph.go` capabilities node /
`connector.go` `capabilityconsumer.New*(conn, aggregateCap(conn, nexts))` -/
def innerCap (k : Kind) (ws : List (Nat × Bool)) (kidCaps : List Bool) : Bool :=
  match k with
  | .pipe => pipelineCap (ws.map (·.2)) kidCaps
  | .conn => aggregateCap (anyW ws) kidCaps

/-- the capability vector the fan-out over these siblings is constructed from -/
def caps : Forest → List Bool
  | .nil => []
  | .exp _ m rest => m :: caps rest
  | .inner k ws kids rest => innerCap k ws (caps kids) :: caps rest

def hasMut (f : Forest) : Bool := (caps f).any id
def hasRO (f : Forest) : Bool := (caps f).any (!·)
def roCount (f : Forest) : Nat := (caps f).count false

/-! ## heap of payload objects (object = number; `next` = first unused) -/

structure Heap where
  content : Nat → Trail
  ro : Nat → Bool
  next : Nat
  panics : List Nat   -- tags of writers that hit a read-only object (pdata `AssertMutable` panics, nothing changes)

def Heap.write (h : Heap) (o tag : Nat) : Heap :=
  if h.ro o then { h with panics := tag :: h.panics }
  else { h with content := fun x => if x = o then h.content o ++ [tag] else h.content x }

/-- `cloneX(ld)`: a fresh mutable object with equal content -/
def Heap.clone (h : Heap) (o : Nat) : Heap × Nat :=
  ({ h with content := fun x => if x = h.next then h.content o else h.content x,
            ro := fun x => if x = h.next then false else h.ro x,
            next := h.next + 1 }, h.next)

def Heap.mark (h : Heap) (o : Nat) : Heap := { h with ro := fun x => if x = o then true else h.ro x }

/-- what an exporter is shown: object, content and read-only flag at its call -/
structure Obs where
  id : Nat
  obj : Nat
  content : Trail
  ro : Bool
  own : Trail   -- what the exporter itself appends to its object during the call (`[id]` iff it declares mutation)
deriving DecidableEq, Repr

/-- the object the next consumer is handed.  Pass `mode = true` is the loop over `lsc.mutable` (`restHasMut = false` means
this is `lsc.mutable[len-1]`; `noRO` is `len(lsc.readonly) == 0`; `!h.ro o` is `!ld.IsReadOnly()` evaluated at that very
moment); pass `mode = false` is the loop over `lsc.readonly`. -/
def deliver (mode noRO restHasMut : Bool) (o : Nat) (h : Heap) : Heap × Nat :=
  if mode then (if !restHasMut && noRO && !h.ro o then (h, o) else h.clone o) else (h, o)

/-- the declared mutators among `ws` write, in order -/
def writeAll : List (Nat × Bool) → Nat → Heap → Heap
  | [], _, h => h
  | w :: ws, o, h => writeAll ws o (if w.2 then h.write o w.1 else h)

/-- one pass of a fan-out over the siblings `f` for the payload object `o`: `mode = true` serves the consumers that
advertise mutation, `mode = false` the others.  An inner node that is served writes (its declared mutators), then runs
its own fan-out over `kids`: mutable pass, `MarkReadOnly` if more than one non-mutating kid and not yet read-only,
read-only pass. -/
def run (mode noRO : Bool) : Forest → Nat → Heap → Heap × List Obs
  | .nil, _, h => (h, [])
  | .exp id m rest, o, h =>
    if m = mode then
      let d := deliver mode noRO (hasMut rest) o h
      let h2 := if m then d.1.write d.2 id else d.1
      let r := run mode noRO rest o h2
      (r.1, ⟨id, d.2, d.1.content d.2, d.1.ro d.2, if m then [id] else []⟩ :: r.2)
    else run mode noRO rest o h
  | .inner k ws kids rest, o, h =>
    if innerCap k ws (caps kids) = mode then
      let d := deliver mode noRO (hasMut rest) o h
      let h2 := writeAll ws d.2 d.1
      let a := run true (!hasRO kids) kids d.2 h2
      let h3 := if decide (roCount kids > 1) && !a.1.ro d.2 then a.1.mark d.2 else a.1
      let b := run false false kids d.2 h3
      let r := run mode noRO rest o b.1
      (r.1, a.2 ++ b.2 ++ r.2)
    else run mode noRO rest o h

/-- a whole fan-out call (`Consume*` of the fan-out over the siblings `f`) -/
def fan (f : Forest) (o : Nat) (h : Heap) : Heap × List Obs :=
  let a := run true (!hasRO f) f o h
  let h3 := if decide (roCount f > 1) && !a.1.ro o then a.1.mark o else a.1
  let b := run false false f o h3
  (b.1, a.2 ++ b.2)

/-! ## the abstract semantics: private copies -/

def tags (ws : List (Nat × Bool)) : Trail := (ws.filter (·.2)).map (·.1)

/-- every exporter below the siblings `f` with the value it must be shown, when the fan-out was given the value `t`:
each node receives exactly what its parent sends — `t` extended by the tags of the declared mutators on the path. -/
def specAll : Forest → Trail → List (Nat × Trail)
  | .nil, _ => []
  | .exp id _ rest, t => (id, t) :: specAll rest t
  | .inner _ ws kids rest, t => specAll kids (t ++ tags ws) ++ specAll rest t

/-- the same, listed in the order in which a fan-out serves its consumers (pass `mode`) -/
def spec (mode : Bool) : Forest → Trail → List (Nat × Trail)
  | .nil, _ => []
  | .exp id m rest, t => if m = mode then (id, t) :: spec mode rest t else spec mode rest t
  | .inner k ws kids rest, t =>
    if innerCap k ws (caps kids) = mode then
      spec true kids (t ++ tags ws) ++ spec false kids (t ++ tags ws) ++ spec mode rest t
    else spec mode rest t

def specFan (f : Forest) (t : Trail) : List (Nat × Trail) := spec true f t ++ spec false f t

def Obs.proj (ob : Obs) : Nat × Trail := (ob.id, ob.content)

/-- the fan-out over plain exporters with the given capabilities (ids = positions counted from `i`) -/
def ofCaps : List Bool → Nat → Forest
  | [], _ => .nil
  | c :: cs, i => .exp i c (ofCaps cs (i + 1))

/-- later, asynchronous writes (after the whole graph has returned): the exporter call at position `i` of the observation list
writes `tag` to the object it still holds — if it declared mutation -/
def later (obs : List Obs) : Heap → List (Nat × Nat) → Heap
  | H, [] => H
  | H, (i, tag) :: ws =>
    match obs[i]? with
    | some ob => later obs (if ob.own.isEmpty then H else H.write ob.obj tag) ws
    | none => later obs H ws

/-- executable check used by the driver's property oracle: the observed `(exporter, content at call)` pairs are exactly
the private-copy semantics of the graph, in any order (`C06_dag_check_sound`) -/
def checkLeaves (f : Forest) (t : Trail) (seen : List (Nat × Trail)) : Bool := seen.isPerm (specAll f t)

def Heap.init (t : Trail) (ro : Bool) : Heap := { content := fun _ => t, ro := fun _ => ro, next := 1, panics := [] }

end OtelVerif.C06.Dag
