import OtelVerif.Model.C06
/-!
# C06: the fan-out SOURCE as a program

`translators/cmd/fanoutshape` walks the go/ast of `internal/fanoutconsumer/{logs,metrics,traces,profiles}.go` and emits, for each
of the four files, the functions `New*`, `Capabilities`, `Consume*`, `clone*` as a value of the small language below
(`Gen/FanoutShape.lean`).  `exec`/`evalB`/`part` interpret it; `Props/C06.lean` proves that the interpretation of EACH generated
program is the hand-written model (`deliveries`, `marksRO`, `fanCap`, `runFan`) for every capability vector — so any edit of any of
the four files either changes nothing in behaviour, or makes a theorem fail to build, or (unknown shape) makes the translator exit 2.
-/
namespace OtelVerif.C06.Src
open OtelVerif.C06

/-- the two slices of the fan-out consumer struct -/
inductive Lst | mutable | readonly
deriving DecidableEq, Repr

/-- conditions: `len(x.l) > n`, `len(x.l) == n`, `ld.IsReadOnly()`, `!e`, `a && b` -/
inductive BExp
  | lenGt (l : Lst) (n : Nat)
  | lenEq (l : Lst) (n : Nat)
  | inputRO
  | not (e : BExp)
  | and (a b : BExp)
deriving DecidableEq, Repr

/-- the payload argument of a `Consume*` call: `ld` or `cloneLogs(ld)` -/
inductive Arg | orig | clone
deriving DecidableEq, Repr

/-- statements of `Consume*`; every call statement is `errs = multierr.Append(errs, <consumer>.Consume*(ctx, <arg>))`
(no early exit, the error is appended) -/
inductive Stmt
  | skip
  | seq (a b : Stmt)
  | ite (c : BExp) (t e : Stmt)
  | loopCall (l : Lst) (minus : Nat) (a : Arg)  -- `for i := 0; i < len(x.l)-minus; i++ { …x.l[i].Consume*(ctx, a)… }`
  | lastCall (l : Lst) (a : Arg)                -- `last := x.l[len(x.l)-1]` … `…last.Consume*(ctx, a)…`
  | rangeCall (l : Lst) (a : Arg)               -- `for _, c := range x.l { …c.Consume*(ctx, a)… }`
  | markRO                                      -- `ld.MarkReadOnly()`
deriving DecidableEq, Repr

/-- `New*`'s loop: `for i := 0; i < len(cs); i++ { if cs[i].Capabilities().MutatesData { x.thenL = append(x.thenL, cs[i]) } else
{ x.elseL = append(x.elseL, cs[i]) } }` -/
structure Part where
  thenL : Lst
  elseL : Lst
deriving DecidableEq, Repr

structure Fan where
  unwrapSingleRO : Bool     -- `New*` starts with `if len(cs) == 1 && !cs[0].Capabilities().MutatesData { return cs[0] }`
  part : Part
  capExp : BExp             -- `Capabilities()`: `consumer.Capabilities{MutatesData: <capExp>}`
  consume : Stmt            -- `Consume*` between `var errs error` and `return errs`
  cloneIsFreshCopy : Bool   -- `clone*(ld)`: `n := p*.New*(); ld.CopyTo(n); return n`
deriving DecidableEq, Repr

/-- what `Consume*` does, in order -/
inductive Ev | call (c : Nat) (o : Obj) | mark
deriving DecidableEq, Repr

structure St where
  evs : List Ev
  nextClone : Nat
  ro : Bool           -- current `ld.IsReadOnly()`
deriving DecidableEq, Repr

def lstOf (l : Lst) (mu ro : List Nat) : List Nat := match l with | .mutable => mu | .readonly => ro

def evalB : BExp → List Nat → List Nat → Bool → Bool
  | .lenGt l n, mu, ro, _ => decide ((lstOf l mu ro).length > n)
  | .lenEq l n, mu, ro, _ => decide ((lstOf l mu ro).length = n)
  | .inputRO, _, _, r => r
  | .not e, mu, ro, r => !evalB e mu ro r
  | .and a b, mu, ro, r => evalB a mu ro r && evalB b mu ro r

/-- calls to the consumers `cs` in order; a `clone` argument is a fresh clone per call -/
def callEvs : List Nat → Arg → Nat → List Ev
  | [], _, _ => []
  | c :: cs, .orig, k => .call c .orig :: callEvs cs .orig k
  | c :: cs, .clone, k => .call c (.clone k) :: callEvs cs .clone (k + 1)

def nextAfter (cs : List Nat) (a : Arg) (k : Nat) : Nat := match a with | .orig => k | .clone => k + cs.length

def callList (cs : List Nat) (a : Arg) (s : St) : St :=
  { s with evs := s.evs ++ callEvs cs a s.nextClone, nextClone := nextAfter cs a s.nextClone }

def exec : Stmt → List Nat → List Nat → St → St
  | .skip, _, _, s => s
  | .seq a b, mu, ro, s => exec b mu ro (exec a mu ro s)
  | .ite c t e, mu, ro, s => if evalB c mu ro s.ro then exec t mu ro s else exec e mu ro s
  | .loopCall l minus a, mu, ro, s => callList ((lstOf l mu ro).take ((lstOf l mu ro).length - minus)) a s
  | .lastCall l a, mu, ro, s =>
    match (lstOf l mu ro).getLast? with
    | none => s
    | some c => callList [c] a s
  | .rangeCall l a, mu, ro, s => callList (lstOf l mu ro) a s
  | .markRO, _, _, s => { s with evs := s.evs ++ [.mark], ro := true }

/-- `New*`'s partition loop over the consumers `i, i+1, …` with capabilities `caps`: (mutable, readonly) -/
def part (p : Part) : List Bool → Nat → List Nat × List Nat
  | [], _ => ([], [])
  | c :: cs, i =>
    let r := part p cs (i + 1)
    let l := if c then p.thenL else p.elseL
    match l with
    | .mutable => (i :: r.1, r.2)
    | .readonly => (r.1, i :: r.2)

/-- `logs.go`, transcribed by hand; the four generated programs are proved equal to it -/
def canon : Fan where
  unwrapSingleRO := true
  part := ⟨.mutable, .readonly⟩
  capExp := .and (.lenGt .mutable 0) (.lenEq .readonly 0)
  consume :=
    .seq (.ite (.lenGt .mutable 0)
            (.seq (.loopCall .mutable 1 .clone)
              (.ite (.and (.lenEq .readonly 0) (.not .inputRO)) (.lastCall .mutable .orig) (.lastCall .mutable .clone)))
            .skip)
      (.seq (.ite (.and (.lenGt .readonly 1) (.not .inputRO)) .markRO .skip)
        (.rangeCall .readonly .orig))
  cloneIsFreshCopy := true

def toEv (d : Delivery) : Ev := .call d.consumer d.obj

/-- the hand-written model's plan as an event list -/
def planEvs (caps : List Bool) (inputRO : Bool) : List Ev :=
  (mutDeliveries (lastGetsOrig caps inputRO) (mutableIdx caps) 0).map toEv ++
    (if marksRO caps inputRO then [.mark] else []) ++ (roDeliveries (readonlyIdx caps)).map toEv

/-- events on the heap of `Model/C06.lean` -/
def runEvs (syncW : Nat → Option Nat) : Heap → List Ev → Heap × List Seen
  | h, [] => (h, [])
  | h, .mark :: es => runEvs syncW (markRO true h) es
  | h, .call c o :: es =>
    let r := call syncW h ⟨c, o⟩
    let r2 := runEvs syncW r.1 es
    (r2.1, r.2 :: r2.2)

/-! ## the graph's capability glue -/

/-- where an accumulated capability starts: the connector itself (`base.Capabilities()`) / the pipeline's fan-out node -/
inductive CapSrc | base | fanOut
deriving DecidableEq, Repr

/-- what is or-ed in: the pipelines a connector feeds / the pipeline's processors -/
inductive Over | nexts | processors
deriving DecidableEq, Repr

/-- `acc := <init>; for _, x := range <over> { acc.MutatesData = acc.MutatesData || x.Capabilities().MutatesData }` -/
inductive CapExp | foldOr (init : CapSrc) (over : Over)
deriving DecidableEq, Repr

def orLoop (acc : Bool) : List Bool → Bool
  | [] => acc
  | x :: xs => orLoop (acc || x) xs

def evalCap : CapExp → (base fanOut : Bool) → (nexts procs : List Bool) → Bool
  | .foldOr i o, base, fanOut, nexts, procs =>
    orLoop (match i with | .base => base | .fanOut => fanOut) (match o with | .nexts => nexts | .processors => procs)

/-! ## connector routers -/

/-- `Consumer(ids …)` of a connector router, statement by statement -/
structure Route where
  emptyIsError : Bool      -- `if len(ids) == 0 { return <zero>, error }`
  lookupInOrder : Bool     -- `for _, id := range ids { c, ok := r.Consumers[id]; if ok { consumers = append(consumers, c) } else { errs = multierr.Append(errs, …) } }`
  missingIsError : Bool    -- `if errs != nil { return <zero>, errs }`
  fanoutOverFound : Bool   -- `return <the signal's fan-out constructor>(consumers), nil`
  defaultOverAll : Bool    -- `New*Router`: the router itself consumes through the fan-out over ALL consumers of the map
deriving DecidableEq, Repr

/-- the consumers the returned fan-out is built over (pipelines `0 … n-1` are known) -/
def Route.select (r : Route) (n : Nat) (sel : List Nat) : Option (List Nat) :=
  if r.emptyIsError && sel.isEmpty then none
  else
    let found := sel.filter (· < n)
    if r.missingIsError && decide (found.length ≠ sel.length) then none else some found

end OtelVerif.C06.Src
