/-! C07 model (stub) -/
namespace OtelVerif.C07
end OtelVerif.C07
