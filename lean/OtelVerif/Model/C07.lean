/-!
# C07 model, part A: generated pointer slices (`[]*T`) over a heap

Transliteration of `pdata/internal/cmd/pdatagen/internal/templates/slice.go.tmpl` (type `sliceOfPtrs`,
e.g. `plog.LogRecordSlice`) for elements with one mutable scalar field.

* heap: `objs : Nat → Nat` (the scalar field of the element a pointer refers to), bump allocator `next`;
* a slice header owns its backing array, split at `len`: `live` = slots `[0,len)`, `tail` = slots
  `[len,cap)`.  The tail holds `none` (nil pointers left by `make(len, cap)` in `EnsureCapacity`/growth)
  or **stale pointers** (left by `RemoveIf`, by re-slicing in `CopyTo`, by `append` into a moved array).
  No invariant is ever assumed about the tail: it is arbitrary garbage.
* handles: every `Nat` names a slice (initially the nil slice), `ro` is the `internal.State` flag of
  the payload the slice belongs to.
* Go's growth policy is not modelled: `append` takes the capacity observed after growth as an input.

`copyTo` is the **repaired** `CopyTo` (commit `fix: pdata CopyTo must not reuse slots beyond len`):
slots `[len(dest), len(src))` are freshly allocated, never read from the tail.  `copyToPinned` is the
code as pinned (re-uses whatever is in the tail), kept to show what the repair is needed for.
-/
namespace OtelVerif.C07

-- object ids are plain `Nat` (an `abbrev` hides the type from `omega`)

def upd {β : Type} (f : Nat → β) (i : Nat) (v : β) : Nat → β := fun j => if j = i then v else f j

/-- slice header + the backing array it points into -/
structure Hdr where
  live : List Nat := []
  tail : List (Option Nat) := []
deriving Repr, DecidableEq

def Hdr.cap (h : Hdr) : Nat := h.live.length + h.tail.length
/-- `*orig == nil`; every reachable non-nil slice has `cap > 0` -/
def Hdr.isNil (h : Hdr) : Bool := h.live.isEmpty && h.tail.isEmpty

structure St where
  objs : Nat → Nat
  next : Nat
  hd : Nat → Hdr
  ro : Nat → Bool

def St.init : St := { objs := fun _ => 0, next := 0, hd := fun _ => {}, ro := fun _ => false }

inductive Op
  /-- `es.AppendEmpty()`; `newCap` = capacity observed afterwards (used only if the append had to grow) -/
  | append (a newCap : Nat)
  /-- `es.At(i).SetX(v)` -/
  | set (a i v : Nat)
  /-- `es.RemoveIf(f)`, `mask` = the answers of `f` in call order (missing answers = false) -/
  | removeIf (a : Nat) (mask : List Bool)
  | ensureCap (a n : Nat)
  /-- `es.Sort(less)` with `less(x, y) = x.X() < y.X()` (`sort.SliceStable`) -/
  | sort (a : Nat)
  /-- `a.CopyTo(b)` -/
  | copyTo (a b : Nat)
  /-- `a.MoveAndAppendTo(b)`; `newCap` as for `append` -/
  | moveAndAppendTo (a b newCap : Nat)
  /-- `MarkReadOnly()` on the payload owning slice `a` -/
  | markRO (a : Nat)
deriving Repr, DecidableEq

/-- the elements for which `f` answered false, in order -/
def keep {α : Type} : List α → List Bool → List α
  | [], _ => []
  | x :: xs, [] => x :: xs
  | x :: xs, m :: ms => if m then keep xs ms else x :: keep xs ms

/-- `*orig = append(*orig, &T{})` -/
def appendEmpty (s : St) (a newCap : Nat) : St :=
  let h := s.hd a
  let o := s.next
  let h' : Hdr :=
    { live := h.live ++ [o]
      tail := match h.tail with
        | _ :: t => t                                                       -- len < cap: written in place
        | [] => List.replicate (newCap - (h.live.length + 1)) none }        -- grown: new array, nil beyond len
  { s with objs := upd s.objs o 0, next := o + 1, hd := upd s.hd a h' }

/-- `RemoveIf`: kept pointers are compacted to the front (all writes go to indices below the final
length), the array beyond the new length keeps what was there: stale pointers -/
def removeIf (s : St) (a : Nat) (mask : List Bool) : St :=
  let h := s.hd a
  let kept := keep h.live mask
  { s with hd := upd s.hd a { live := kept, tail := (h.live.drop kept.length).map some ++ h.tail } }

/-- `EnsureCapacity`: `make([]*T, len, newCap)` + `copy` -/
def ensureCap (s : St) (a n : Nat) : St :=
  let h := s.hd a
  if n ≤ h.cap then s
  else { s with hd := upd s.hd a { live := h.live, tail := List.replicate (n - h.live.length) none } }

def sortH (s : St) (a : Nat) : St :=
  let h := s.hd a
  { s with hd := upd s.hd a { h with live := h.live.mergeSort (fun x y => decide (s.objs x ≤ s.objs y)) } }

/-- element-wise `src[i].CopyTo(dest[i])`, sequentially -/
def assign (objs : Nat → Nat) : List Nat → List Nat → (Nat → Nat)
  | d :: ds, x :: xs => assign (upd objs d (objs x)) ds xs
  | _, _ => objs

/-- repaired `CopyTo` -/
def copyTo (s : St) (a b : Nat) : St :=
  let src := (s.hd a).live
  let d := s.hd b
  let n := src.length
  if n ≤ d.cap then
    -- (*dest.orig) = (*dest.orig)[:srcLen:destCap]; for i := destLen; i < srcLen; i++ { (*dest.orig)[i] = &T{} }
    let k := n - d.live.length
    let fresh := List.range' s.next k
    let newLive := d.live.take n ++ fresh
    { s with objs := assign s.objs newLive src, next := s.next + k,
             hd := upd s.hd b { live := newLive, tail := (d.live.drop n).map some ++ d.tail.drop k } }
  else
    -- origs := make([]T, srcLen); wrappers[i] = &origs[i]
    let fresh := List.range' s.next n
    { s with objs := assign s.objs fresh src, next := s.next + n, hd := upd s.hd b { live := fresh, tail := [] } }

/-- `CopyTo` as pinned: re-slices up to `srcLen` and copies into whatever the tail holds.
`none` = the nil dereference (the slice is left re-sliced, elements before the nil slot copied). -/
def assignPinned (objs : Nat → Nat) : List (Option Nat) → List Nat → Option (Nat → Nat)
  | some d :: ds, x :: xs => assignPinned (upd objs d (objs x)) ds xs
  | none :: _, _ :: _ => none
  | _, _ => some objs

def copyToPinned (s : St) (a b : Nat) : Option St :=
  let src := (s.hd a).live
  let d := s.hd b
  let n := src.length
  if n ≤ d.cap then
    let arr := d.live.map some ++ d.tail
    match assignPinned s.objs (arr.take n) src with
    | some objs' => some { s with objs := objs', hd := upd s.hd b { live := (arr.take n).filterMap id, tail := arr.drop n } }
    | none => none
  else
    let fresh := List.range' s.next n
    some { s with objs := assign s.objs fresh src, next := s.next + n, hd := upd s.hd b { live := fresh, tail := [] } }

/-- `MoveAndAppendTo` -/
def moveAndAppendTo (s : St) (a b newCap : Nat) : St :=
  let src := s.hd a
  let d := s.hd b
  let d' : Hdr :=
    if d.isNil then src
    else if src.live.length ≤ d.tail.length then
      { live := d.live ++ src.live, tail := d.tail.drop src.live.length }
    else { live := d.live ++ src.live, tail := List.replicate (newCap - (d.live.length + src.live.length)) none }
  { s with hd := upd (upd s.hd b d') a {} }

/-- one public call; the `Bool` says whether it panicked (state then unchanged: every mutator starts
with `AssertMutable`, `At(i)` bounds-checks before anything is written) -/
def step (s : St) : Op → St × Bool
  | .append a c => if s.ro a then (s, true) else (appendEmpty s a c, false)
  | .set a i v =>
    if s.ro a then (s, true) else
    match (s.hd a).live[i]? with
    | some o => ({ s with objs := upd s.objs o v }, false)
    | none => (s, true)
  | .removeIf a m => if s.ro a then (s, true) else (removeIf s a m, false)
  | .ensureCap a n => if s.ro a then (s, true) else (ensureCap s a n, false)
  | .sort a => if s.ro a then (s, true) else (sortH s a, false)
  | .copyTo a b => if s.ro b then (s, true) else (copyTo s a b, false)
  | .moveAndAppendTo a b c => if s.ro a || s.ro b then (s, true) else (moveAndAppendTo s a b c, false)
  | .markRO a => ({ s with ro := upd s.ro a true }, false)

/-- the handles whose content an op may change (everything else must stay as it was) -/
def targets : Op → List Nat
  | .append a _ | .set a _ _ | .removeIf a _ | .ensureCap a _ | .sort a => [a]
  | .copyTo _ b => [b]
  | .moveAndAppendTo a b _ => [a, b]
  | .markRO _ => []

def run (s : St) : List Op → St
  | [] => s
  | op :: ops => run (step s op).1 ops

/-! ## pure specification: named lists with assignment semantics -/

structure PSt where
  val : Nat → List Nat
  ro : Nat → Bool

def PSt.init : PSt := { val := fun _ => [], ro := fun _ => false }

def pstep (p : PSt) : Op → PSt × Bool
  | .append a _ => if p.ro a then (p, true) else ({ p with val := upd p.val a (p.val a ++ [0]) }, false)
  | .set a i v =>
    if p.ro a then (p, true) else
    if i < (p.val a).length then ({ p with val := upd p.val a ((p.val a).set i v) }, false) else (p, true)
  | .removeIf a m => if p.ro a then (p, true) else ({ p with val := upd p.val a (keep (p.val a) m) }, false)
  | .ensureCap a _ => if p.ro a then (p, true) else (p, false)
  | .sort a =>
    if p.ro a then (p, true) else ({ p with val := upd p.val a ((p.val a).mergeSort (fun x y => decide (x ≤ y))) }, false)
  | .copyTo a b => if p.ro b then (p, true) else ({ p with val := upd p.val b (p.val a) }, false)
  | .moveAndAppendTo a b _ =>
    if p.ro a || p.ro b then (p, true) else ({ p with val := upd (upd p.val b (p.val b ++ p.val a)) a [] }, false)
  | .markRO a => ({ p with ro := upd p.ro a true }, false)

def prun (p : PSt) : List Op → PSt
  | [] => p
  | op :: ops => prun (pstep p op).1 ops

/-- what the public readers (`Len`, `At(i).X()`) show -/
def abs (s : St) : PSt := { val := fun a => (s.hd a).live.map s.objs, ro := s.ro }

/-! ## executable property oracle on observations (search oracle of the driver)

`obsStep before op after panicked` holds when what the implementation showed after `op` (contents
of handles `0..H-1`) is what the pure specification says, given what it showed before. -/

def eqUpTo (H : Nat) (f g : Nat → List Nat) : Bool := (List.range H).all (fun a => f a == g a)

def obsStep (H : Nat) (before : PSt) (op : Op) (after : Nat → List Nat) (panicked : Bool) : Bool :=
  let r := pstep before op
  (r.2 == panicked) && eqUpTo H r.1.val after

end OtelVerif.C07
