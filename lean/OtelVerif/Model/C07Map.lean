import OtelVerif.Model.C07
/-!
# C07 model, part B: `pcommon.Map` (a value slice `[]KeyValue`) with one-of wrappers on a heap

Transliteration of `pdata/pcommon/map.go` and the part of `pdata/pcommon/value.go` it uses, for
values that are empty, scalar (`kind` distinguishes string/int/…) or bytes.

* A `KeyValue` slot is a struct `{Key, Value: AnyValue{Value: <interface>}}`; the interface holds nil
  or a pointer to a one-of wrapper.  **Scalar wrappers are modelled by value** (the code never edits
  one in place: every `Set*` allocates a new wrapper — mechanism 2 of the property; the differential
  and witness case 4 watch that), **bytes wrappers live on the heap** (`w : id → bytes`): they are
  edited in place by `ByteSlice.Append/FromRaw` and re-used by `Value.CopyTo` when the destination
  already holds one.
* A struct copy of a slot (`Remove`: `*akv = last`; `RemoveIf`: `orig[newLen] = orig[i]`) copies the
  pointer: the slots left beyond `len` (`tail`) alias live bytes wrappers.  Nothing is assumed of `tail`.
* `copyTo` is the repaired `Map.CopyTo` (slots `[len(dest), len(src))` are zeroed before the
  element-wise `Value.CopyTo`).
* Nested maps/arrays (kvlist/array wrappers) are NOT modelled here.
-/
namespace OtelVerif.C07.M
open OtelVerif.C07 (upd keep)

/-- the `Value` interface field of an `AnyValue` -/
inductive V
  | nil
  | scalar (kind v : Nat)
  | bytes (id : Nat)
deriving DecidableEq, Repr

structure KV where
  key : Nat
  val : V
deriving DecidableEq, Repr

/-- `otlpcommon.KeyValue{}`; key 0 is the empty string -/
def KV.zero : KV := ⟨0, .nil⟩

structure Hdr where
  live : List KV := []
  tail : List KV := []
deriving Repr

def Hdr.cap (h : Hdr) : Nat := h.live.length + h.tail.length

structure St where
  w : Nat → List Nat
  next : Nat
  hd : Nat → Hdr
  ro : Nat → Bool

def St.init : St := { w := fun _ => [], next := 0, hd := fun _ => {}, ro := fun _ => false }

inductive Op
  /-- `m.PutInt/PutStr/…(k, v)`; `newCap` = capacity observed afterwards (used only when the append grew) -/
  | putScalar (a k kind v newCap : Nat)
  /-- `m.PutEmpty(k)` -/
  | putEmpty (a k newCap : Nat)
  /-- `m.PutEmptyBytes(k).FromRaw(bs)` -/
  | putBytes (a k : Nat) (bs : List Nat) (newCap : Nat)
  /-- `v, _ := m.Get(k); v.Bytes().Append(x)` -/
  | bytesAppend (a k x : Nat)
  | remove (a k : Nat)
  | removeIf (a : Nat) (mask : List Bool)
  | ensureCap (a n : Nat)
  | clear (a : Nat)
  | copyTo (a b : Nat)
  | moveTo (a b : Nat)
  | markRO (a : Nat)
deriving Repr, DecidableEq

/-- index of the first slot with key `k` (`Map.Get`) -/
def find (l : List KV) (k : Nat) : Option Nat := l.findIdx? (fun kv => kv.key == k)

/-- existing key: the slot's value is replaced; otherwise `append(orig, KeyValue{k, x})` -/
def putVal (h : Hdr) (k : Nat) (x : V) (newCap : Nat) : Hdr :=
  match find h.live k with
  | some i => { h with live := h.live.set i ⟨k, x⟩ }
  | none =>
    { live := h.live ++ [⟨k, x⟩]
      tail := match h.tail with
        | _ :: t => t
        | [] => List.replicate (newCap - (h.live.length + 1)) KV.zero }

/-- `Map.Remove`: `*akv = last; orig = orig[:len-1]` — the old last slot stays beyond `len` -/
def removeKey (h : Hdr) (k : Nat) : Hdr :=
  match find h.live k, h.live.getLast? with
  | some i, some last => { live := (h.live.set i last).dropLast, tail := last :: h.tail }
  | _, _ => h

/-- `Map.RemoveIf` -/
def removeIfH (h : Hdr) (mask : List Bool) : Hdr :=
  let kept := keep h.live mask
  { live := kept, tail := h.live.drop kept.length ++ h.tail }

/-- element-wise `destAkv.Key = akv.Key; Value.CopyTo`, sequentially.  Bytes source: re-use the
destination's bytes wrapper if it has one, else a new wrapper; anything else: `destOrig.Value = ov`. -/
def copyElems (w : Nat → List Nat) (next : Nat) : List KV → List KV → (Nat → List Nat) × Nat × List KV
  | s :: ss, d :: ds =>
    match s.val with
    | .bytes sid =>
      match d.val with
      | .bytes did =>
        let r := copyElems (upd w did (w sid)) next ss ds
        (r.1, r.2.1, ⟨s.key, .bytes did⟩ :: r.2.2)
      | _ =>
        let r := copyElems (upd w next (w sid)) (next + 1) ss ds
        (r.1, r.2.1, ⟨s.key, .bytes next⟩ :: r.2.2)
    | v =>
      let r := copyElems w next ss ds
      (r.1, r.2.1, ⟨s.key, v⟩ :: r.2.2)
  | _, _ => (w, next, [])

/-- repaired `Map.CopyTo` -/
def copyTo (s : St) (a b : Nat) : St :=
  let src := (s.hd a).live
  let d := s.hd b
  let n := src.length
  if n ≤ d.cap then
    let k := n - d.live.length
    let r := copyElems s.w s.next src (d.live.take n ++ List.replicate k KV.zero)
    { s with w := r.1, next := r.2.1, hd := upd s.hd b { live := r.2.2, tail := d.live.drop n ++ d.tail.drop k } }
  else
    let r := copyElems s.w s.next src (List.replicate n KV.zero)
    { s with w := r.1, next := r.2.1, hd := upd s.hd b { live := r.2.2, tail := [] } }

def step (s : St) : Op → St × Bool
  | .putScalar a k kind v c =>
    if s.ro a then (s, true) else ({ s with hd := upd s.hd a (putVal (s.hd a) k (.scalar kind v) c) }, false)
  | .putEmpty a k c =>
    if s.ro a then (s, true) else ({ s with hd := upd s.hd a (putVal (s.hd a) k .nil c) }, false)
  | .putBytes a k bs c =>
    if s.ro a then (s, true) else
    ({ s with w := upd s.w s.next bs, next := s.next + 1, hd := upd s.hd a (putVal (s.hd a) k (.bytes s.next) c) }, false)
  | .bytesAppend a k x =>
    if s.ro a then (s, true) else
    match find (s.hd a).live k with
    | some i =>
      match (s.hd a).live[i]? with
      | some ⟨_, .bytes id⟩ => ({ s with w := upd s.w id (s.w id ++ [x]) }, false)
      | _ => (s, true)     -- `Bytes()` of a non-bytes value is the invalid ByteSlice: nil dereference
    | none => (s, true)
  | .remove a k => if s.ro a then (s, true) else ({ s with hd := upd s.hd a (removeKey (s.hd a) k) }, false)
  | .removeIf a m => if s.ro a then (s, true) else ({ s with hd := upd s.hd a (removeIfH (s.hd a) m) }, false)
  | .ensureCap a n =>
    if s.ro a then (s, true) else
    if n ≤ (s.hd a).cap then (s, false)
    else ({ s with hd := upd s.hd a { live := (s.hd a).live, tail := List.replicate (n - (s.hd a).live.length) KV.zero } }, false)
  | .clear a => if s.ro a then (s, true) else ({ s with hd := upd s.hd a {} }, false)
  | .copyTo a b => if s.ro b then (s, true) else (copyTo s a b, false)
  | .moveTo a b => if s.ro a || s.ro b then (s, true) else ({ s with hd := upd (upd s.hd b (s.hd a)) a {} }, false)
  | .markRO a => ({ s with ro := upd s.ro a true }, false)

def targets : Op → List Nat
  | .putScalar a .. | .putEmpty a .. | .putBytes a .. | .bytesAppend a .. | .remove a _ | .removeIf a _
  | .ensureCap a _ | .clear a => [a]
  | .copyTo _ b => [b]
  | .moveTo a b => [a, b]
  | .markRO _ => []

def run (s : St) : List Op → St
  | [] => s
  | op :: ops => run (step s op).1 ops

/-! ## pure specification: association lists of values -/

inductive AV
  | nil
  | scalar (kind v : Nat)
  | bytes (bs : List Nat)
deriving DecidableEq, Repr

abbrev Entry := Nat × AV

structure PSt where
  val : Nat → List Entry
  ro : Nat → Bool

def PSt.init : PSt := { val := fun _ => [], ro := fun _ => false }

def pfind (l : List Entry) (k : Nat) : Option Nat := l.findIdx? (fun e => e.1 == k)

def pput (l : List Entry) (k : Nat) (x : AV) : List Entry :=
  match pfind l k with
  | some i => l.set i (k, x)
  | none => l ++ [(k, x)]

def premove (l : List Entry) (k : Nat) : List Entry :=
  match pfind l k, l.getLast? with
  | some i, some last => (l.set i last).dropLast
  | _, _ => l

def pstep (p : PSt) : Op → PSt × Bool
  | .putScalar a k kind v _ => if p.ro a then (p, true) else ({ p with val := upd p.val a (pput (p.val a) k (.scalar kind v)) }, false)
  | .putEmpty a k _ => if p.ro a then (p, true) else ({ p with val := upd p.val a (pput (p.val a) k .nil) }, false)
  | .putBytes a k bs _ => if p.ro a then (p, true) else ({ p with val := upd p.val a (pput (p.val a) k (.bytes bs)) }, false)
  | .bytesAppend a k x =>
    if p.ro a then (p, true) else
    match pfind (p.val a) k with
    | some i =>
      match (p.val a)[i]? with
      | some (k', .bytes bs) => ({ p with val := upd p.val a ((p.val a).set i (k', .bytes (bs ++ [x]))) }, false)
      | _ => (p, true)
    | none => (p, true)
  | .remove a k => if p.ro a then (p, true) else ({ p with val := upd p.val a (premove (p.val a) k) }, false)
  | .removeIf a m => if p.ro a then (p, true) else ({ p with val := upd p.val a (keep (p.val a) m) }, false)
  | .ensureCap a _ => if p.ro a then (p, true) else (p, false)
  | .clear a => if p.ro a then (p, true) else ({ p with val := upd p.val a [] }, false)
  | .copyTo a b => if p.ro b then (p, true) else ({ p with val := upd p.val b (p.val a) }, false)
  | .moveTo a b => if p.ro a || p.ro b then (p, true) else ({ p with val := upd (upd p.val b (p.val a)) a [] }, false)
  | .markRO a => ({ p with ro := upd p.ro a true }, false)

def prun (p : PSt) : List Op → PSt
  | [] => p
  | op :: ops => prun (pstep p op).1 ops

def absV (w : Nat → List Nat) : V → AV
  | .nil => .nil
  | .scalar k v => .scalar k v
  | .bytes id => .bytes (w id)

def absKV (w : Nat → List Nat) (kv : KV) : Entry := (kv.key, absV w kv.val)

/-- what `Range` / `Get` show -/
def abs (s : St) : PSt := { val := fun a => (s.hd a).live.map (absKV s.w), ro := s.ro }

/-- executable property oracle on the implementation's observations -/
def eqUpTo (H : Nat) (f g : Nat → List Entry) : Bool := (List.range H).all (fun a => f a == g a)

def obsStep (H : Nat) (before : PSt) (op : Op) (after : Nat → List Entry) (panicked : Bool) : Bool :=
  let r := pstep before op
  (r.2 == panicked) && eqUpTo H r.1.val after

end OtelVerif.C07.M
