import OtelVerif.Gen.PdataMsg
/-!
# C07 model, part E: generated message structs with optional and one-of fields (`message.go.tmpl`)

A message is a list of field values aligned with its schema (`Gen.PdataMsg.Kind`, regenerated from the
generated `CopyTo` bodies).  `copyField` is what the generated statement of that kind does:

* `prim`:      `dest.SetX(ms.X())`
* `nested`:    `ms.X().CopyTo(dest.X())` — delegated to the container / message models (parts A–D); here the
               nested content is an opaque value that the delegate makes equal to the source
* `optional c`: `if ms.HasX() { dest.SetX(ms.X()) } else { dest.RemoveX() }` — the else branch exists iff `c`
* `oneof n c`: `switch ms.Type() { case … } default: dest.orig.F = nil` — the default exists iff `c`

`MoveTo` is `*dest.orig = *ms.orig; *ms.orig = T{}`.
-/
namespace OtelVerif.C07.Msg
open OtelVerif.Gen.PdataMsg

inductive FV
  | prim (v : Nat)
  | nested (v : Nat)
  | opt (o : Option Nat)
  | one (o : Option (Nat × Nat))     -- (alternative, payload)
deriving DecidableEq, Repr

def typed : Kind → FV → Bool
  | .prim, .prim _ => true
  | .nested, .nested _ => true
  | .optional _, .opt _ => true
  | .oneof n _, .one (some (a, _)) => a < n
  | .oneof _ _, .one none => true
  | _, _ => false

def copyField : Kind → FV → FV → FV
  | .prim, s, _ => s
  | .nested, s, _ => s
  | .optional _, .opt (some v), _ => .opt (some v)
  | .optional c, .opt none, d => if c then .opt none else d
  | .oneof _ _, .one (some av), _ => .one (some av)
  | .oneof _ c, .one none, d => if c then .one none else d
  | _, _, d => d

def copyMsg : List Kind → List FV → List FV → List FV
  | k :: ks, s :: ss, d :: ds => copyField k s d :: copyMsg ks ss ds
  | _, _, _ => []

def zeroOf : Kind → FV
  | .prim => .prim 0
  | .nested => .nested 0
  | .optional _ => .opt none
  | .oneof _ _ => .one none

/-- `MoveTo`: (source afterwards, destination afterwards) -/
def moveMsg (ks : List Kind) (src _dst : List FV) : List FV × List FV := (ks.map zeroOf, src)

def clears : Kind → Bool
  | .optional c => c
  | .oneof _ c => c
  | _ => true

def wellTyped : List Kind → List FV → Bool
  | [], [] => true
  | k :: ks, v :: vs => typed k v && wellTyped ks vs
  | _, _ => false

end OtelVerif.C07.Msg
