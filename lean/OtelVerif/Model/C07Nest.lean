import OtelVerif.Model.C07
/-!
# C07 model, part C: nested `pcommon.Value` / `Map` / `Slice` over a heap of one-of wrappers

Generalises part B (`Model/C07Map.lean`) to nested containers.  A `Value` interface field is

* `nil`, a scalar (by value: every `Set*` allocates a new wrapper, the code never edits one),
* `bytes id` — pointer to a bytes wrapper (`wb id` = its content, edited in place),
* `list isMap id` — pointer to a kvlist (`isMap = true`) or array wrapper together with the
  `KeyValueList` / `ArrayValue` it owns; `wl id` is the slice header + backing array of that container,
  split at `len` (`live`, `tail`).  Array slots are `KV`s with key 0.

`pcommon.Slice` is a **value slice** (`[]AnyValue`): `RemoveIf`'s `orig[newLen] = orig[i]` and
`Map.Remove`'s `*akv = last` are struct copies that leave slots in `tail` whose pointers alias live
wrappers.  Nothing is ever assumed of `tail`.

`copyVal d` is `Value.CopyTo` for sources nested at most `d` deep: the destination's wrapper is
re-used when it has the same kind (and then, recursively, the repaired `Map.CopyTo`/`Slice.CopyTo`
re-uses the destination's slots up to its length), otherwise a new wrapper is allocated; scalars
share the (immutable) wrapper.  Containers are addressed by object id; the driver resolves the
paths of the harness (`root/key/index/…`) to ids at the time of the call.
-/
namespace OtelVerif.C07.N
open OtelVerif.C07 (upd keep)

inductive V
  | nil
  | scalar (kind v : Nat)
  | bytes (id : Nat)
  | list (isMap : Bool) (id : Nat)
deriving DecidableEq, Repr

structure KV where
  key : Nat
  val : V
deriving DecidableEq, Repr

def KV.zero : KV := ⟨0, .nil⟩

structure Hdr where
  live : List KV := []
  tail : List KV := []
deriving Repr

def Hdr.cap (h : Hdr) : Nat := h.live.length + h.tail.length

structure Heap where
  wb : Nat → List Nat
  wl : Nat → Hdr
  next : Nat

/-! ## deep copy -/

/-- the element loop of `Map.CopyTo` / `Slice.CopyTo`: `dest[i].Key = src[i].Key; src[i].CopyTo(dest[i])` -/
def copyElemsWith (cv : Heap → V → V → Heap × V) : Heap → List KV → List KV → Heap × List KV
  | h, s :: ss, d :: ds =>
    let r := cv h s.val d.val
    let r2 := copyElemsWith cv r.1 ss ds
    (r2.1, ⟨s.key, r.2⟩ :: r2.2)
  | h, _, _ => (h, [])

/-- repaired `Map.CopyTo` / `Slice.CopyTo` on headers: re-slice and zero the slots `[len(dest), len(src))`
when the capacity suffices, else a new zero array; then the element loop -/
def copyHdrWith (cv : Heap → V → V → Heap × V) (h : Heap) (src dst : Hdr) : Heap × Hdr :=
  let n := src.live.length
  if n ≤ dst.cap then
    let k := n - dst.live.length
    let r := copyElemsWith cv h src.live (dst.live.take n ++ List.replicate k KV.zero)
    (r.1, { live := r.2, tail := dst.live.drop n ++ dst.tail.drop k })
  else
    let r := copyElemsWith cv h src.live (List.replicate n KV.zero)
    (r.1, { live := r.2, tail := [] })

/-- the destination wrapper `Value.CopyTo` re-uses for a container source of kind `km` -/
def reuse (km : Bool) : V → Option Nat
  | .list km' did => if km' = km then some did else none
  | _ => none

/-- `Value.CopyTo(dest)` for a source nested at most `d` deep; returns the destination's new interface field -/
def copyVal : Nat → Heap → V → V → Heap × V
  | _, h, .bytes sid, .bytes did => ({ h with wb := upd h.wb did (h.wb sid) }, .bytes did)
  | _, h, .bytes sid, _ => ({ h with wb := upd h.wb h.next (h.wb sid), next := h.next + 1 }, .bytes h.next)
  | d + 1, h, .list km sid, dv =>
    match reuse km dv with
    | some did =>
      let r := copyHdrWith (copyVal d) h (h.wl sid) (h.wl did)
      ({ r.1 with wl := upd r.1.wl did r.2 }, .list km did)
    | none =>
      let f := h.next
      let r := copyHdrWith (copyVal d) { h with wl := upd h.wl f {}, next := f + 1 } (h.wl sid) {}
      ({ r.1 with wl := upd r.1.wl f r.2 }, .list km f)
  | 0, h, .list _ _, dv => (h, dv)     -- deeper than `d`: excluded by `fits`
  | _, h, .nil, _ => (h, .nil)
  | _, h, .scalar k v, _ => (h, .scalar k v)

/-! ## reading: footprint, depth, abstraction -/

/-- the wrappers reachable from a value through live slots, down to depth `d` -/
def reachV : Nat → Heap → V → List Nat
  | _, _, .bytes i => [i]
  | d + 1, h, .list _ i => i :: (h.wl i).live.flatMap (fun kv => reachV d h kv.val)
  | 0, _, .list _ i => [i]
  | _, _, .nil => []
  | _, _, .scalar _ _ => []

/-- nested at most `d` deep -/
def fits : Nat → Heap → V → Prop
  | 0, _, .list _ _ => False
  | d + 1, h, .list _ i => ∀ kv ∈ (h.wl i).live, fits d h kv.val
  | _, _, .bytes _ => True
  | _, _, .nil => True
  | _, _, .scalar _ _ => True

/-- canonical serialisation of what the public readers show (a prefix code: equal token lists =
equal trees) -/
inductive Tok
  | nil
  | scalar (kind v : Nat)
  | bytes (bs : List Nat)
  | opn (isMap : Bool) (n : Nat)
  | key (k : Nat)
  | cut
deriving DecidableEq, Repr

def absV : Nat → Heap → V → List Tok
  | _, _, .nil => [.nil]
  | _, _, .scalar k v => [.scalar k v]
  | _, h, .bytes i => [.bytes (h.wb i)]
  | d + 1, h, .list km i =>
    .opn km (h.wl i).live.length :: (h.wl i).live.flatMap (fun kv => .key kv.key :: absV d h kv.val)
  | 0, _, .list km _ => [.opn km 0, .cut]

/-! ## programs over named root values -/

structure St where
  h : Heap
  root : Nat → V
  ro : Nat → Bool
  /-- bound on the nesting depth (ghost; grows with every step so that it stays a bound) -/
  dep : Nat

def St.init : St :=
  { h := { wb := fun _ => [], wl := fun _ => {}, next := 0 }, root := fun _ => .nil, ro := fun _ => false, dep := 1 }

/-- a new interface field for a slot: what `Set*` / `Put*` / `AppendEmpty` store -/
inductive NewV
  | nil
  | scalar (kind v : Nat)
  | bytes (bs : List Nat)      -- `SetEmptyBytes().FromRaw(bs)`
  | list (isMap : Bool)        -- `SetEmptyMap()` / `SetEmptySlice()` / `PutEmptyMap` / `PutEmptySlice`
deriving DecidableEq, Repr

/-- allocate what `x` needs; the new interface field -/
def mkNew (h : Heap) : NewV → Heap × V
  | .nil => (h, .nil)
  | .scalar k v => (h, .scalar k v)
  | .bytes bs => ({ h with wb := upd h.wb h.next bs, next := h.next + 1 }, .bytes h.next)
  | .list km => ({ h with wl := upd h.wl h.next {}, next := h.next + 1 }, .list km h.next)

/-- which slot of a container -/
inductive Sel
  | key (k : Nat)     -- map: the entry with that key, appended if absent (`Put*`)
  | idx (i : Nat)     -- array: `At(i)` (out of range panics)
  | push              -- array: `AppendEmpty()`
deriving DecidableEq, Repr

def find (l : List KV) (k : Nat) : Option Nat := l.findIdx? (fun kv => kv.key == k)

def grow (h : Hdr) (kv : KV) (newCap : Nat) : Hdr :=
  { live := h.live ++ [kv]
    tail := match h.tail with
      | _ :: t => t
      | [] => List.replicate (newCap - (h.live.length + 1)) KV.zero }

/-- place `x` in the selected slot; `none` = index out of range -/
def place (h : Hdr) (sel : Sel) (x : V) (newCap : Nat) : Option Hdr :=
  match sel with
  | .key k =>
    match find h.live k with
    | some i => some { h with live := h.live.set i ⟨k, x⟩ }
    | none => some (grow h ⟨k, x⟩ newCap)
  | .idx i => if i < h.live.length then some { h with live := h.live.set i ⟨0, x⟩ } else none
  | .push => some (grow h ⟨0, x⟩ newCap)

def removeKey (h : Hdr) (k : Nat) : Hdr :=
  match find h.live k, h.live.getLast? with
  | some i, some last => { live := (h.live.set i last).dropLast, tail := last :: h.tail }
  | _, _ => h

def removeIfH (h : Hdr) (mask : List Bool) : Hdr :=
  let kept := keep h.live mask
  { live := kept, tail := h.live.drop kept.length ++ h.tail }

/-- a `Value` position: a named root or slot `i` of container `o` -/
inductive Loc
  | root (r : Nat)
  | slot (o i : Nat)
deriving DecidableEq, Repr

def readLoc (s : St) : Loc → Option V
  | .root r => some (s.root r)
  | .slot o i => ((s.h.wl o).live[i]?).map (·.val)

def writeLoc (s : St) (hp : Heap) (l : Loc) (v : V) : St :=
  match l with
  | .root r => { s with h := hp, root := upd s.root r v }
  | .slot o i =>
    { s with h := { hp with wl := upd hp.wl o { hp.wl o with live := (hp.wl o).live.set i ⟨((hp.wl o).live[i]?.map (·.key)).getD 0, v⟩ } } }

/-- `r` = the root (payload) the handle was derived from: its read-only flag is the one checked -/
inductive Op
  | setRoot (r : Nat) (x : NewV)
  | setSlot (r o : Nat) (sel : Sel) (x : NewV) (newCap : Nat)
  | bytesAppend (r b x : Nat)
  | remove (r o k : Nat)
  | removeIf (r o : Nat) (mask : List Bool)
  | ensureCap (r o n : Nat)
  | clear (r o : Nat)
  /-- `Value.CopyTo` from position `src` (under root `rs`) to position `dst` (under root `rd`) -/
  | copyVal (rs : Nat) (src : Loc) (rd : Nat) (dst : Loc)
  /-- `Map.CopyTo` / `Slice.CopyTo` between containers `o1` (under `rs`) and `o2` (under `rd`) -/
  | copyList (rs o1 rd o2 : Nat)
  /-- `Slice.MoveAndAppendTo` from array container `o1` (under `rs`) to array container `o2` (under `rd`);
  `newCap` = capacity of the destination observed afterwards (used only if the append had to grow) -/
  | moveAppend (rs o1 rd o2 newCap : Nat)
  /-- `Value.MoveTo` between roots -/
  | moveRoot (a b : Nat)
  | markRO (r : Nat)
deriving Repr

def bump (d : Nat) : Nat := 2 * d + 2

def step (s : St) : Op → St × Bool
  | .setRoot r x =>
    if s.ro r then (s, true) else
    let n := mkNew s.h x
    ({ s with h := n.1, root := upd s.root r n.2, dep := bump s.dep }, false)
  | .setSlot r o sel x c =>
    if s.ro r then (s, true) else
    let n := mkNew s.h x
    match place (n.1.wl o) sel n.2 c with
    | some hd => ({ s with h := { n.1 with wl := upd n.1.wl o hd }, dep := bump s.dep }, false)
    | none => (s, true)
  | .bytesAppend r b x =>
    if s.ro r then (s, true) else ({ s with h := { s.h with wb := upd s.h.wb b (s.h.wb b ++ [x]) }, dep := bump s.dep }, false)
  | .remove r o k =>
    if s.ro r then (s, true) else ({ s with h := { s.h with wl := upd s.h.wl o (removeKey (s.h.wl o) k) }, dep := bump s.dep }, false)
  | .removeIf r o m =>
    if s.ro r then (s, true) else ({ s with h := { s.h with wl := upd s.h.wl o (removeIfH (s.h.wl o) m) }, dep := bump s.dep }, false)
  | .ensureCap r o n =>
    if s.ro r then (s, true) else
    if n ≤ (s.h.wl o).cap then ({ s with dep := bump s.dep }, false)
    else ({ s with h := { s.h with wl := upd s.h.wl o { live := (s.h.wl o).live, tail := List.replicate (n - (s.h.wl o).live.length) KV.zero } },
                   dep := bump s.dep }, false)
  | .clear r o =>
    if s.ro r then (s, true) else ({ s with h := { s.h with wl := upd s.h.wl o {} }, dep := bump s.dep }, false)
  | .copyVal _ src rd dst =>
    if s.ro rd then (s, true) else
    match readLoc s src, readLoc s dst with
    | some sv, some dv =>
      let r := copyVal s.dep s.h sv dv
      ({ writeLoc s r.1 dst r.2 with dep := bump s.dep }, false)
    | _, _ => (s, true)
  | .copyList _ o1 rd o2 =>
    if s.ro rd then (s, true) else
    let r := copyHdrWith (copyVal s.dep) s.h (s.h.wl o1) (s.h.wl o2)
    ({ s with h := { r.1 with wl := upd r.1.wl o2 r.2 }, dep := bump s.dep }, false)
  | .moveAppend rs o1 rd o2 c =>
    if s.ro rs || s.ro rd then (s, true) else
    let src := s.h.wl o1
    let d := s.h.wl o2
    let d' : Hdr :=
      if d.cap = 0 then src        -- `*dest == nil`: the whole vector is handed over (every reachable non-nil slice has cap > 0)
      else if src.live.length ≤ d.tail.length then { live := d.live ++ src.live, tail := d.tail.drop src.live.length }
      else { live := d.live ++ src.live, tail := List.replicate (c - (d.live.length + src.live.length)) KV.zero }
    -- `*es = nil`: the source keeps neither elements nor the array
    ({ s with h := { s.h with wl := upd (upd s.h.wl o2 d') o1 {} }, dep := bump s.dep }, false)
  | .moveRoot a b =>
    if s.ro a || s.ro b then (s, true) else
    ({ s with root := upd (upd s.root b (s.root a)) a .nil, dep := bump s.dep }, false)
  | .markRO r => ({ s with ro := upd s.ro r true }, false)

def run (s : St) : List Op → St
  | [] => s
  | op :: ops => run (step s op).1 ops

/-- what every reader shows of root `r` -/
def absRoot (s : St) (r : Nat) : List Tok := absV s.dep s.h (s.root r)

end OtelVerif.C07.N
