import OtelVerif.Model.C07Nest
/-!
# C07 model, part C': `Value.FromRaw` / `Map.FromRaw` / `Slice.FromRaw` with NESTED raw input (`pcommon/value.go`, `map.go`, `slice.go`)

`Value.FromRaw(iv)`: `nil` clears, scalars `Set*` (a new scalar wrapper), `[]byte` → `SetEmptyBytes().FromRaw(tv)` (a NEW bytes
wrapper holding a COPY of the caller's bytes), `map[string]any` → `SetEmptyMap().FromRaw(tv)`, `[]any` → `SetEmptySlice().FromRaw(tv)`:
a NEW kvlist / array wrapper, then `Map.FromRaw` / `Slice.FromRaw`: an empty input leaves the header nil, otherwise
`origs := make([]…, n)`, every element filled by `Value.FromRaw` in turn, `*orig = origs` (capacity exactly `n`).
The order of a Go map's entries is an input (the harness observes it at every level).
-/
namespace OtelVerif.C07.N
open OtelVerif.C07 (upd keep)

mutual
inductive Raw
  | nil
  | scalar (kind v : Nat)
  | bytes (bs : List Nat)
  | list (isMap : Bool) (kids : RawL)
inductive RawL
  | nil
  | cons (key : Nat) (r : Raw) (rest : RawL)
end

mutual
/-- `Value.FromRaw`: the new interface field of the value (always freshly allocated, never the old wrapper) -/
def fromRaw (h : Heap) : Raw → Heap × V
  | .nil => (h, .nil)
  | .scalar k v => (h, .scalar k v)
  | .bytes bs => ({ h with wb := upd h.wb h.next bs, next := h.next + 1 }, .bytes h.next)
  | .list km kids =>
    let f := h.next
    let r := fromRawL { h with wl := upd h.wl f {}, next := f + 1 } kids
    ({ r.1 with wl := upd r.1.wl f { live := r.2, tail := [] } }, .list km f)
/-- the element loop of `Map.FromRaw` / `Slice.FromRaw`: the filled slots of the new array -/
def fromRawL (h : Heap) : RawL → Heap × List KV
  | .nil => (h, [])
  | .cons k r rest =>
    let a := fromRaw h r
    let b := fromRawL a.1 rest
    (b.1, ⟨k, a.2⟩ :: b.2)
end

mutual
/-- what the readers must show of a value filled from `r` -/
def absRaw : Raw → List Tok
  | .nil => [.nil]
  | .scalar k v => [.scalar k v]
  | .bytes bs => [.bytes bs]
  | .list km kids => .opn km (lenL kids) :: absRawL kids
def absRawL : RawL → List Tok
  | .nil => []
  | .cons k r rest => .key k :: (absRaw r ++ absRawL rest)
def lenL : RawL → Nat
  | .nil => 0
  | .cons _ _ rest => lenL rest + 1
end

mutual
def depth : Raw → Nat
  | .list _ kids => depthL kids + 1
  | _ => 0
def depthL : RawL → Nat
  | .nil => 0
  | .cons _ r rest => max (depth r) (depthL rest)
end

/-- `Map.FromRaw` / `Slice.FromRaw` on an existing container `o`: the header is REPLACED by a new array (nil for an empty input) -/
def fromRawHdr (h : Heap) (o : Nat) (kids : RawL) : Heap :=
  let r := fromRawL h kids
  { r.1 with wl := upd r.1.wl o { live := r.2, tail := [] } }

/-- programs of the nested model extended by `Map.FromRaw` / `Slice.FromRaw`.  `Value.FromRaw(iv)` at a position is, as in the code,
`Set*` / `SetEmptyBytes().FromRaw` / `SetEmptyMap()` / `SetEmptySlice()` (= `setRoot` / `setSlot`) followed, for a map or slice input, by
`Map.FromRaw` / `Slice.FromRaw` on the NEW container. -/
inductive OpR
  | base (op : Op)
  /-- `Map.FromRaw` / `Slice.FromRaw` on container `o` below root `r` -/
  | fromRawList (r o : Nat) (kids : RawL)

def stepR (s : St) : OpR → St × Bool
  | .base op => step s op
  | .fromRawList r o kids =>
    if s.ro r then (s, true) else
    ({ s with h := fromRawHdr s.h o kids, dep := bump (max s.dep (depthL kids)) }, false)

def runR (s : St) : List OpR → St
  | [] => s
  | op :: ops => runR (stepR s op).1 ops


end OtelVerif.C07.N
