import OtelVerif.Model.C07
/-!
# C07 model, part D: primitive slices (`primitive_slice.go.tmpl`, e.g. `pcommon.UInt64Slice`)

Elements are scalars held by value; a header owns its backing array, split at `len`.
`copyX(dst, src) = append(dst[:0], src...)` (used by `FromRaw` and `CopyTo`) re-uses the destination's
array when the capacity suffices, else grows (capacity observed).  `MoveTo` hands the header over.
-/
namespace OtelVerif.C07.P
open OtelVerif.C07 (upd)

structure Hdr where
  live : List Nat := []
  tail : List Nat := []
deriving Repr, DecidableEq

def Hdr.cap (h : Hdr) : Nat := h.live.length + h.tail.length

structure St where
  hd : Nat → Hdr
  ro : Nat → Bool

def St.init : St := { hd := fun _ => {}, ro := fun _ => false }

inductive Op
  | append (a : Nat) (xs : List Nat) (newCap : Nat)
  | setAt (a i v : Nat)
  | ensureCap (a n : Nat)
  | fromRaw (a : Nat) (xs : List Nat) (newCap : Nat)
  | copyTo (a b newCap : Nat)
  | moveTo (a b : Nat)
  | markRO (a : Nat)
deriving Repr, DecidableEq

/-- `append(h, xs...)` -/
def appendH (h : Hdr) (xs : List Nat) (newCap : Nat) : Hdr :=
  if xs.length ≤ h.tail.length then { live := h.live ++ xs, tail := h.tail.drop xs.length }
  else { live := h.live ++ xs, tail := List.replicate (newCap - (h.live.length + xs.length)) 0 }

/-- `append(h[:0], xs...)` -/
def overwrite (h : Hdr) (xs : List Nat) (newCap : Nat) : Hdr :=
  appendH { live := [], tail := h.live ++ h.tail } xs newCap

def step (s : St) : Op → St × Bool
  | .append a xs c => if s.ro a then (s, true) else ({ s with hd := upd s.hd a (appendH (s.hd a) xs c) }, false)
  | .setAt a i v =>
    if s.ro a then (s, true) else
    if i < (s.hd a).live.length then ({ s with hd := upd s.hd a { s.hd a with live := (s.hd a).live.set i v } }, false) else (s, true)
  | .ensureCap a n =>
    if s.ro a then (s, true) else
    if n ≤ (s.hd a).cap then (s, false)
    else ({ s with hd := upd s.hd a { live := (s.hd a).live, tail := List.replicate (n - (s.hd a).live.length) 0 } }, false)
  | .fromRaw a xs c => if s.ro a then (s, true) else ({ s with hd := upd s.hd a (overwrite (s.hd a) xs c) }, false)
  | .copyTo a b c => if s.ro b then (s, true) else ({ s with hd := upd s.hd b (overwrite (s.hd b) (s.hd a).live c) }, false)
  | .moveTo a b => if s.ro a || s.ro b then (s, true) else ({ s with hd := upd (upd s.hd b (s.hd a)) a {} }, false)
  | .markRO a => ({ s with ro := upd s.ro a true }, false)

def targets : Op → List Nat
  | .append a .. | .setAt a .. | .ensureCap a _ | .fromRaw a .. => [a]
  | .copyTo _ b _ => [b]
  | .moveTo a b => [a, b]
  | .markRO _ => []

def run (s : St) : List Op → St
  | [] => s
  | op :: ops => run (step s op).1 ops

structure PSt where
  val : Nat → List Nat
  ro : Nat → Bool

def PSt.init : PSt := { val := fun _ => [], ro := fun _ => false }

def pstep (p : PSt) : Op → PSt × Bool
  | .append a xs _ => if p.ro a then (p, true) else ({ p with val := upd p.val a (p.val a ++ xs) }, false)
  | .setAt a i v =>
    if p.ro a then (p, true) else
    if i < (p.val a).length then ({ p with val := upd p.val a ((p.val a).set i v) }, false) else (p, true)
  | .ensureCap a _ => if p.ro a then (p, true) else (p, false)
  | .fromRaw a xs _ => if p.ro a then (p, true) else ({ p with val := upd p.val a xs }, false)
  | .copyTo a b _ => if p.ro b then (p, true) else ({ p with val := upd p.val b (p.val a) }, false)
  | .moveTo a b => if p.ro a || p.ro b then (p, true) else ({ p with val := upd (upd p.val b (p.val a)) a [] }, false)
  | .markRO a => ({ p with ro := upd p.ro a true }, false)

def prun (p : PSt) : List Op → PSt
  | [] => p
  | op :: ops => prun (pstep p op).1 ops

def abs (s : St) : PSt := { val := fun a => (s.hd a).live, ro := s.ro }

def eqUpTo (H : Nat) (f g : Nat → List Nat) : Bool := (List.range H).all (fun a => f a == g a)

def obsStep (H : Nat) (before : PSt) (op : Op) (after : Nat → List Nat) (panicked : Bool) : Bool :=
  let r := pstep before op
  (r.2 == panicked) && eqUpTo H r.1.val after

end OtelVerif.C07.P
