import OtelVerif.Gen.PdataState
/-!
# C07 model, part F: the read-only discipline — `internal.State` cells and their propagation through wrappers

`pdata/internal/state.go`: every wrapper (`Logs`, `ResourceLogsSlice`, `LogRecord`, `pcommon.Map`, `pcommon.Value`, …) carries a
`*internal.State`; `New<Payload>()` allocates a fresh mutable cell, `MarkReadOnly` stores `StateReadOnly` into the cell of the
payload, every accessor builds the child wrapper with SOME state pointer, every mutator starts with
`<x>.state.AssertMutable()` which panics iff the cell holds `StateReadOnly`.

Here a wrapper is `(type, cell)`; what a method does with states is NOT hard-wired but read from the regenerated table
`Gen/PdataState.lean` (translator `pdatastate`): whose state each leading `AssertMutable` statement checks, and whose state each
child wrapper constructed in the body is given.  The interpretation below is what those statements do.
-/
namespace OtelVerif.C07.S
open OtelVerif.Gen.PdataState

/-- the `internal.State` cells: `ro c` = cell `c` holds `StateReadOnly`; `next` = first unallocated cell -/
structure Cells where
  ro : Nat → Bool
  next : Nat

/-- a wrapper, as far as the read-only discipline goes: its type (number in `Gen.PdataState.types`) and its `*State` -/
structure W where
  ty : Nat
  cell : Nat
deriving DecidableEq, Repr

/-- `New<Payload>()`: a fresh mutable cell -/
def newRoot (cs : Cells) (ty : Nat) : Cells × W :=
  ({ ro := fun c => if c = cs.next then false else cs.ro c, next := cs.next + 1 }, ⟨ty, cs.next⟩)

/-- `MarkReadOnly()` on a payload wrapper: `*ms.state = StateReadOnly` -/
def markRO (cs : Cells) (w : W) : Cells := { cs with ro := fun c => if c = w.cell then true else cs.ro c }

/-- the state pointer a statement refers to: the receiver's, the destination parameter's, or something else
(`other` = a state the translator could not attribute: modelled as a cell nobody marked, `cs.next`) -/
def cellOf (cs : Cells) (recv param : Nat) : Who → Nat
  | .recv => recv
  | .param => param
  | .other => cs.next

/-- run the leading `AssertMutable` statements of a body, statement numbers from `i`: `some k` = statement `k` panics -/
def runAsserts (cs : Cells) (recv param : Nat) : List Who → Nat → Option Nat
  | [], _ => none
  | w :: ws, i => if cs.ro (cellOf cs recv param w) then some i else runAsserts cs recv param ws (i + 1)

inductive Outcome
  /-- statement `stmt` (an `AssertMutable`, preceded only by other `AssertMutable` statements) panicked: nothing was written -/
  | panicked (stmt : Nat)
  /-- all leading assertions passed: the rest of the body ran (and wrote, if the method writes) -/
  | ran
deriving DecidableEq, Repr

/-- calling method `m` on a receiver with state cell `recv` and (for CopyTo / MoveTo / MoveAndAppendTo) a destination with cell `param` -/
def call (cs : Cells) (m : Meth) (recv param : Nat) : Outcome :=
  match runAsserts cs recv param m.asserts 0 with
  | some k => .panicked k
  | none => .ran

/-- a delegating mutator (`Logs.CopyTo`: body `ms.A().CopyTo(dest.A())`): both accessor calls hand on the state of their own receiver,
then the child's `CopyTo` runs; every other method: `call` -/
def callD (tbl : List Meth) (cs : Cells) (m : Meth) (recv param : Nat) : Outcome :=
  match m.cls with
  | .delegating =>
    match m.children.find? (fun c => c.who == .recv &&
        tbl.any (fun m' => m'.typ == c.typ && m'.role == .copy && m'.cls == .guarded && m'.asserts == [.param])) with
    | some c =>
      match tbl.find? (fun m' => m'.typ == c.typ && m'.role == .copy && m'.cls == .guarded && m'.asserts == [.param]) with
      | some m' => call cs m' (cellOf cs recv param c.who) (cellOf cs param recv c.who)
      | none => .ran
    | none => .ran
  | _ => call cs m recv param

/-- one step of an access path: call `m` on the current wrapper (destination cell `param`, only meaningful for CopyTo) and take
the child wrapper built by constructor call `c` of its body -/
structure Step where
  m : Meth
  c : Child
  param : Nat

/-- the wrapper reached by following an access path from `w` -/
def follow (cs : Cells) (w : W) : List Step → W
  | [] => w
  | s :: ss => follow cs ⟨s.c.typ, cellOf cs w.cell s.param s.c.who⟩ ss

/-- the path uses methods of table `tbl` on the right types and children those methods really construct -/
def Valid (tbl : List Meth) : Nat → List Step → Prop
  | _, [] => True
  | t, s :: ss => s.m ∈ tbl ∧ s.m.typ = t ∧ s.c ∈ s.m.children ∧ Valid tbl s.c.typ ss

/-- accessor paths: no step goes through a `CopyTo` (whose destination-side children belong to the destination) -/
def NoCopy : List Step → Prop
  | [] => True
  | s :: ss => s.m.role ≠ .copy ∧ NoCopy ss

/-! ## what the table must satisfy (decided on the regenerated table in `Props/C07.lean`) -/

/-- every child wrapper gets the receiver's state; only inside `CopyTo` may one get the destination's -/
def childOk (m : Meth) : Bool :=
  m.children.all (fun c => c.who == .recv || (c.who == .param && m.role == .copy))

/-- a guarded mutator's leading assertions are exactly the ones its role needs, nothing is asserted later -/
def assertsOk (m : Meth) : Bool :=
  match m.cls with
  | .guarded => (match m.role with
      | .copy => m.asserts == [.param]
      | .move => m.asserts == [.recv, .param]
      | .other => m.asserts == [.recv]) && !m.later
  | .reader => m.asserts == [] && !m.later && !m.writes
  | .delegating => m.role == .copy && m.asserts == [] && !m.later && !m.writes
  | .unguarded => false

def methOk (m : Meth) : Bool := childOk m && assertsOk m

/-- a delegating mutator (`Logs.CopyTo` …: body `ms.A().CopyTo(dest.A())`, shape checked by the translator) is a payload method whose
child `A()` has a guarded `CopyTo` asserting the destination -/
def delegOk (tbl : List Meth) (payloads : List Nat) (m : Meth) : Bool :=
  m.cls != .delegating ||
  (payloads.contains m.typ &&
   m.children.any (fun c => c.who == .recv &&
     tbl.any (fun m' => m'.typ == c.typ && m'.role == .copy && m'.cls == .guarded && m'.asserts == [.param])))

/-- no method builds a payload wrapper: payloads are roots only -/
def noPayloadChild (payloads : List Nat) (m : Meth) : Bool := m.children.all (fun c => !payloads.contains c.typ)

end OtelVerif.C07.S
