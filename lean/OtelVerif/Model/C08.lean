import OtelVerif.Model.Wire
import OtelVerif.Model.Proto
/-!
# C08 model — generic gogo-protobuf codec and OTLP/JSON mapping over a schema

`enc` / `sz` mirror the generated `MarshalToSizedBuffer` / `Size` (fields in marshal order, proto3
zero-omission, `nullable=false` messages and customtype ids always written, one-of alternative always
written, packed scalars).  `decMsg` mirrors the generated `Unmarshal` loop: key varint, `int32` field
number truncation, wire type 4 / field number ≤ 0 rejected, `switch fieldNum` with wire-type checks,
merge into embedded messages, fresh element for repeated / one-of messages, packed **and** unpacked
forms for packed fields (including the quirk that a packed element may run past the declared length),
`skipX` for unknown fields (groups with depth).  `toJ` mirrors `jsonpb.Marshaler{EnumsAsInts, OrigName:false}`
as configured in `pdata/internal/json`, `fromJ` the hand-written jsoniter readers (`case` labels are
schema data: `Msg.jsonKeys`).  Text-level codecs (decimal, float text, base64, hex) are a parameter
`Txt`; the driver instantiates it, the theorems quantify over every lawful instance.
Core Lean only.
-/
namespace OtelVerif.C08
open OtelVerif.Wire OtelVerif.Proto

/-! ## scalars -/

def wireType : Ty → Nat
  | .u64 | .i64 | .u32 | .i32 | .bool | .enum _ | .s32 => 0
  | .fixed64 | .sfixed64 | .double => 1
  | .fixed32 => 5
  | _ => 2

def isScalar : Ty → Bool
  | .string | .bytes | .id _ | .msg _ => false
  | _ => true

/-- `uint64(int32)`: sign extension of a 32-bit pattern -/
def sext32 (n : Nat) : Nat := let m := n % 2 ^ 32; if m < 2 ^ 31 then m else m + (2 ^ 64 - 2 ^ 32)
/-- `(uint32(x) << 1) ^ uint32(x >> 31)` on the 32-bit pattern -/
def zigzag32 (n : Nat) : Nat := let m := n % 2 ^ 32; if m < 2 ^ 31 then 2 * m else 2 ^ 33 - 1 - 2 * m
/-- `int32((uint32(v) >> 1) ^ uint32(((v&1)<<31)>>31))` -/
def unzigzag32 (r : Nat) : Nat := let r := r % 2 ^ 32; if r % 2 = 0 then r / 2 else 2 ^ 32 - 1 - r / 2
/-- `(x << 1) ^ uint64(int64(x) >> 63)` — what `sozX` applies to the sign-extended value -/
def zigzag64 (y : Nat) : Nat := let y := y % 2 ^ 64; if y < 2 ^ 63 then 2 * y else 2 ^ 65 - 1 - 2 * y

/-- payload bytes of a scalar whose stored bit pattern is `n` -/
def encScalar : Ty → Nat → Bytes
  | .u64, n | .i64, n | .u32, n => varint n
  | .i32, n | .enum _, n => varint (sext32 n)
  | .bool, n => [if n = 0 then 0 else 1]
  | .s32, n => varint (zigzag32 n)
  | .fixed64, n | .sfixed64, n | .double, n => le 8 n
  | .fixed32, n => le 4 n
  | _, _ => []

/-- the summand of the generated `Size()` for the payload of a scalar -/
def scalarSize : Ty → Nat → Nat
  | .u64, n | .i64, n | .u32, n => sov n
  | .i32, n | .enum _, n => sov (sext32 n)
  | .bool, _ => 1
  | .s32, n => sov (zigzag64 (sext32 n))
  | .fixed64, _ | .sfixed64, _ | .double, _ => 8
  | .fixed32, _ => 4
  | _, _ => 0

/-- what the decoder stores for a raw varint `w < 2^64` -/
def fromVarint : Ty → Nat → Nat
  | .u64, w | .i64, w => w
  | .u32, w | .i32, w | .enum _, w => w % 2 ^ 32
  | .bool, w => if w = 0 then 0 else 1
  | .s32, w => unzigzag32 w
  | _, w => w

/-- read one scalar of type `ty` from the front of `r` -/
def decScalar (ty : Ty) (r : Bytes) : Option (Nat × Bytes) :=
  match wireType ty with
  | 0 => match decVarint r with
         | some (w, r') => some (fromVarint ty w, r')
         | none => none
  | 1 => unle 8 r
  | 5 => unle 4 r
  | _ => none

/-- the zero test of the generated marshaler / sizer for a proto3 singular field
(`!= 0` on a float64 is false for both zeros) -/
def isZero : Ty → Val → Bool
  | .double, .num n => n % 2 ^ 63 == 0
  | _, .num n => n == 0
  | _, .bytes b => b.isEmpty
  | _, _ => true

/-! ## protobuf encode / size -/

inductive Mode where
  | slots (ss : List Slot)
  | elem (f : Field)
  | reps (f : Field)
  | slot (s : Slot)

def Mode.rank : Mode → Nat
  | .slots _ => 0
  | .elem _ => 1
  | .reps _ => 2
  | .slot _ => 3

def findAlt (alts : List Field) (k : Nat) : Option Field := alts.find? (fun a => a.num == k)

def packedBody (ty : Ty) : Val → Bytes
  | .cons (.num n) rest => encScalar ty n ++ packedBody ty rest
  | _ => []

def packedSize (ty : Ty) : Val → Nat
  | .cons (.num n) rest => scalarSize ty n + packedSize ty rest
  | _ => 0

/-- tag-less payload of a non-message element (length prefix included for length-delimited types) -/
def leaf (ty : Ty) : Val → Bytes
  | .num n => if isScalar ty then encScalar ty n else []
  | .bytes b => if isScalar ty then [] else lenPrefixed b
  | _ => if isScalar ty then [] else lenPrefixed []

def leafSize (ty : Ty) : Val → Nat
  | .num n => if isScalar ty then scalarSize ty n else 0
  | .bytes b => if isScalar ty then 0 else sov b.length + b.length
  | _ => if isScalar ty then 0 else 1

def enc (S : Schema) : Mode → Val → Bytes
  | .slots (s :: ss), .cons x xs => enc S (.slot s) x ++ enc S (.slots ss) xs
  | .slots _, _ => []
  | .elem f, v =>
    match f.ty with
    | .msg sub => tag f.num 2 ++ lenPrefixed (enc S (.slots (S.slots sub)) v)
    | ty => tag f.num (wireType ty) ++ leaf ty v
  | .reps f, .cons e rest => enc S (.elem f) e ++ enc S (.reps f) rest
  | .reps _, _ => []
  | .slot (.one f), v =>
    match f.card with
    | .opt => if isZero f.ty v then [] else enc S (.elem f) v
    | .req => enc S (.elem f) v
    | .rep => enc S (.reps f) v
    | .packed => if v.isCons then tag f.num 2 ++ lenPrefixed (packedBody f.ty v) else []
  | .slot (.oneof _ alts), .cons (.num k) (.cons p .nil) =>
    match findAlt alts k with
    | some a => enc S (.elem a) p
    | none => []
  | .slot (.oneof _ _), _ => []
termination_by m v => (sizeOf v, m.rank)
decreasing_by all_goals (simp_wf; simp [Mode.rank, Prod.lex_def]; try omega)

def sz (S : Schema) : Mode → Val → Nat
  | .slots (s :: ss), .cons x xs => sz S (.slot s) x + sz S (.slots ss) xs
  | .slots _, _ => 0
  | .elem f, v =>
    match f.ty with
    | .msg sub => let l := sz S (.slots (S.slots sub)) v; sov (f.num * 8 + 2) + (sov l + l)
    | ty => sov (f.num * 8 + wireType ty) + leafSize ty v
  | .reps f, .cons e rest => sz S (.elem f) e + sz S (.reps f) rest
  | .reps _, _ => 0
  | .slot (.one f), v =>
    match f.card with
    | .opt => if isZero f.ty v then 0 else sz S (.elem f) v
    | .req => sz S (.elem f) v
    | .rep => sz S (.reps f) v
    | .packed => if v.isCons then let l := packedSize f.ty v; sov (f.num * 8 + 2) + (sov l + l) else 0
  | .slot (.oneof _ alts), .cons (.num k) (.cons p .nil) =>
    match findAlt alts k with
    | some a => sz S (.elem a) p
    | none => 0
  | .slot (.oneof _ _), _ => 0
termination_by m v => (sizeOf v, m.rank)
decreasing_by all_goals (simp_wf; simp [Mode.rank, Prod.lex_def]; try omega)

def encode (S : Schema) (m : Nat) (v : Val) : Bytes := enc S (.slots (S.slots m)) v
def size (S : Schema) (m : Nat) (v : Val) : Nat := sz S (.slots (S.slots m)) v

/-! ## defaults (`&T{}`) -/

def slotDefault (D : List Val) : Slot → Val
  | .one f =>
    match f.card, f.ty with
    | .opt, ty => if isScalar ty then .num 0 else .bytes []
    | .req, .msg sub => D.getD sub .nil
    | .req, _ => .bytes []
    | _, _ => .nil
  | .oneof _ _ => .nil

def msgDefault (D : List Val) (ss : List Slot) : Val := Val.ofList (ss.map (slotDefault D))

def defaultsStep (S : Schema) (D : List Val) : List Val := S.msgs.map (fun m => msgDefault D m.slots)

def iter {α : Type} (f : α → α) : Nat → α → α
  | 0, a => a
  | n + 1, a => iter f n (f a)

/-- default value of every message (`nullable=false` nesting is acyclic, so `msgs.length` rounds reach the fixed point;
that it IS a fixed point is the decidable `DefaultsOk`) -/
def defaults (S : Schema) : List Val := iter (defaultsStep S) (S.msgs.length + 1) (S.msgs.map (fun _ => .nil))

def DefaultsOk (S : Schema) (D : List Val) : Bool := defaultsStep S D == D

/-! ## protobuf decode -/

structure Hit where
  idx : Nat
  f : Field
  alt : Bool
  deriving Repr

def findSlot : List Slot → Nat → Nat → Option Hit
  | [], _, _ => none
  | .one f :: ss, i, n => if f.num == n then some ⟨i, f, false⟩ else findSlot ss (i + 1) n
  | .oneof _ alts :: ss, i, n =>
    match findAlt alts n with
    | some a => some ⟨i, a, true⟩
    | none => findSlot ss (i + 1) n

/-- `skipX`: `bs` starts at a key; returns what follows the field (groups tracked by `depth`) -/
def skipLoop : Nat → Nat → Bytes → Option Bytes
  | 0, _, _ => none
  | fuel + 1, depth, bs =>
    match decVarint bs with
    | none => none
    | some (key, r) =>
      let fin := fun (r' : Bytes) => if depth = 0 then some r' else skipLoop fuel depth r'
      match key % 8 with
      | 0 => match decVarint r with
             | none => none
             | some (_, r') => fin r'
      | 1 => if r.length < 8 then none else fin (r.drop 8)
      | 2 => match decVarint r with
             | none => none
             | some (len, r') => if len ≥ 2 ^ 63 then none else if len > r'.length then none else fin (r'.drop len)
      | 3 => skipLoop fuel (depth + 1) r
      | 4 => if depth = 0 then none else if depth = 1 then some r else skipLoop fuel (depth - 1) r
      | 5 => if r.length < 4 then none else fin (r.drop 4)
      | _ => none

def skipField (bs : Bytes) : Option Bytes := skipLoop (bs.length + 1) 0 bs

/-- `for iNdEx < postIndex { read one element }` — `budget = postIndex - iNdEx`; elements are read from all
the remaining bytes of the message (the generated bounds check is against `l`, not `postIndex`) -/
def decPackedLoop (ty : Ty) : Nat → Nat → Val → Bytes → Option (Val × Bytes)
  | 0, _, _, _ => none
  | fuel + 1, budget, acc, r =>
    if budget = 0 then some (acc, r)
    else match decScalar ty r with
      | none => none
      | some (v, r') => decPackedLoop ty fuel (budget - (r.length - r'.length)) (Val.snoc acc (.num v)) r'

def allZero (p : Bytes) : Bool := p.all (· == 0)

/-- one non-message field: `r` follows the key, `cur` is the current value of the slot -/
def decLeaf (f : Field) (alt : Bool) (wt : Nat) (cur : Val) (r : Bytes) : Option (Val × Bytes) :=
  let wrap := fun (x : Val) =>
    if alt then Val.cons (.num f.num) (.cons x .nil) else if f.card = .rep then Val.snoc cur x else x
  match f.ty with
  | .msg _ => none
  | .string | .bytes =>
    if wt ≠ 2 then none else
    match lenDelim r with
    | none => none
    | some (p, r') => some (wrap (.bytes p), r')
  | .id n =>
    if wt ≠ 2 then none else
    match lenDelim r with
    | none => none
    | some (p, r') =>
      if p.length = 0 then some (wrap (.bytes []), r')
      else if p.length ≠ n then none
      else some (wrap (.bytes (if allZero p then [] else p)), r')
  | ty =>
    if f.card = .packed ∧ !alt then
      if wt = wireType ty then
        match decScalar ty r with
        | none => none
        | some (v, r') => some (Val.snoc cur (.num v), r')
      else if wt = 2 then
        match decVarint r with
        | none => none
        | some (len, r') =>
          if len ≥ 2 ^ 63 then none else if len > r'.length then none
          else decPackedLoop ty (len + 1) len cur r'
      else none
    else if wt ≠ wireType ty then none
    else match decScalar ty r with
      | none => none
      | some (v, r') => some (wrap (.num v), r')

def decMsg (S : Schema) (D : List Val) (m : Nat) (acc : Val) (bs : Bytes) : Option Val :=
  if bs.isEmpty then some acc else
    match decVarint bs with
    | none => none
    | some (key, r) =>
      let wt := key % 8
      let fn := key / 8 % 2 ^ 32
      if wt = 4 then none
      else if fn = 0 ∨ fn ≥ 2 ^ 31 then none
      else
        match findSlot (S.slots m) 0 fn with
        | none =>
          match skipField bs with
          | none => none
          | some r' => if _h : r'.length < bs.length then decMsg S D m acc r' else none
        | some hit =>
          match hit.f.ty with
          | .msg sub =>
            if wt ≠ 2 then none else
            match lenDelim r with
            | none => none
            | some (p, r') =>
              if _h : p.length < bs.length ∧ r'.length < bs.length then
                let cur := Val.get acc hit.idx
                let start := if hit.alt then D.getD sub .nil
                             else if hit.f.card = .req then cur else D.getD sub .nil
                match decMsg S D sub start p with
                | none => none
                | some x =>
                  let nv := if hit.alt then Val.cons (.num hit.f.num) (.cons x .nil)
                            else if hit.f.card = .req then x else Val.snoc cur x
                  decMsg S D m (Val.set acc hit.idx nv) r'
              else none
          | _ =>
            match decLeaf hit.f hit.alt wt (Val.get acc hit.idx) r with
            | none => none
            | some (nv, r') =>
              if _h : r'.length < bs.length then decMsg S D m (Val.set acc hit.idx nv) r' else none
termination_by bs.length
decreasing_by all_goals simp_wf <;> omega

def decode (S : Schema) (D : List Val) (m : Nat) (bs : Bytes) : Option Val :=
  decMsg S D m (D.getD m .nil) bs

/-! ## canonical observation -/

/-- What the public API / the harness's `toVal` can distinguish: a `-0.0` stored in a PLAIN proto3 double field
(not one-of, not packed) is observed as `+0.0` (both codecs drop it: the generated zero test is `!= 0`). -/
def canon (S : Schema) : Mode → Val → Val
  | .slots (s :: ss), .cons x xs => .cons (canon S (.slot s) x) (canon S (.slots ss) xs)
  | .slots _, v => v
  | .elem f, v =>
    match f.ty with
    | .msg sub => canon S (.slots (S.slots sub)) v
    | _ => v
  | .reps f, .cons e rest => .cons (canon S (.elem f) e) (canon S (.reps f) rest)
  | .reps _, v => v
  | .slot (.one f), v =>
    match f.card with
    | .opt => if f.ty == .double && v == .num (2 ^ 63) then .num 0 else v
    | .req => canon S (.elem f) v
    | .rep => canon S (.reps f) v
    | .packed => v
  | .slot (.oneof g alts), .cons (.num k) (.cons p .nil) =>
    match findAlt alts k with
    | some a => .cons (.num k) (.cons (canon S (.elem a) p) .nil)
    | none => .cons (.num k) (.cons p .nil)
  | .slot (.oneof _ _), v => v
termination_by m v => (sizeOf v, m.rank)
decreasing_by all_goals (simp_wf; simp [Mode.rank, Prod.lex_def]; try omega)

/-! ## migration of the deprecated scope fields (`pdata/internal/otlp`) -/

def slotIdx (ss : List Slot) (n : Nat) : Option Nat := (findSlot ss 0 n).map (·.idx)

/-- one `Resource{Logs,Metrics,Spans}`: `if len(X) == 0 { X = DeprecatedX }; DeprecatedX = nil` -/
def migrateRes (ss : List Slot) (rv : Val) : Val :=
  match slotIdx ss 2, slotIdx ss 1000 with
  | some i, some d =>
    let rv := if (Val.get rv i).isCons then rv else Val.set rv i (Val.get rv d)
    Val.set rv d .nil
  | _, _ => rv

def mapChain (f : Val → Val) : Val → Val
  | .cons h t => .cons (f h) (mapChain f t)
  | v => v

/-- root value = `[ [resource…] ]`; the element message of slot 0 is the Resource* message -/
def migrate (S : Schema) (m : Nat) (v : Val) : Val :=
  match S.slots m with
  | .one f :: _ =>
    match f.ty with
    | .msg r => Val.set v 0 (mapChain (migrateRes (S.slots r)) (Val.get v 0))
    | _ => v
  | _ => v

/-- which roots run `otlp.Migrate*` after a *protobuf* decode: all of them — `p*/pb.go` `ProtoUnmarshaler` and
`p*otlp/request.go` (responses carry no resources) -/
def migratesPb (root : String) : Bool :=
  root == "logs" || root == "metrics" || root == "traces" || root == "profiles" ||
  root == "logsreq" || root == "metricsreq" || root == "tracesreq" || root == "profilesreq"
/-- which roots run it after a JSON decode (`p*/json.go`, and the requests through them) -/
def migratesJson (root : String) : Bool :=
  root == "logs" || root == "metrics" || root == "traces" || root == "profiles" ||
  root == "logsreq" || root == "metricsreq" || root == "tracesreq" || root == "profilesreq"

/-! ## JSON -/

/-- JSON tree as a plain inductive: arrays are `acons` chains ending in `anil`, objects `ocons` chains ending in `onil` -/
inductive Json where
  | null | tt | ff
  | num (raw : List Nat)
  | str (b : List Nat)
  | anil
  | acons (hd tl : Json)
  | onil
  | ocons (key : List Nat) (v : Json) (tl : Json)
  deriving Repr, DecidableEq, Inhabited

/-- text-level codecs (parameter; see `Drivers/C08.lean` for the executable instance) -/
structure Txt where
  dec    : Nat → List Nat                 -- decimal digits of a natural number
  undec  : List Nat → Option Nat          -- plain decimal literal (no sign)
  ffmt   : Nat → List Nat                 -- finite float64 bits → number text (`encoding/json`)
  fparse : List Nat → Option Nat          -- number text / string content → float64 bits (`strconv.ParseFloat`)
  b64    : List Nat → List Nat
  unb64  : List Nat → Option (List Nat)
  hex    : List Nat → List Nat
  unhex  : List Nat → Option (List Nat)

/-- bytes of an ASCII string (schema names and the constants "NaN"/"Infinity" are ASCII); kernel-reducible -/
def str (s : String) : List Nat := s.toList.map (·.toNat)

def isNaN (n : Nat) : Bool := n / 2 ^ 52 % 2 ^ 11 == 2 ^ 11 - 1 && n % 2 ^ 52 != 0
def posInf : Nat := 0x7FF0000000000000
def negInf : Nat := 0xFFF0000000000000
/-- `math.NaN()` -/
def canonNaN : Nat := 0x7FF8000000000001
def normNaN (n : Nat) : Nat := if isNaN n then canonNaN else n

/-- signed decimal of a two's-complement pattern of width `w` bits -/
def sdec (T : Txt) (w n : Nat) : List Nat :=
  if n < 2 ^ (w - 1) then T.dec n else 45 :: T.dec (2 ^ w - n)

def leafJson (T : Txt) (ty : Ty) : Val → Json
  | .num n =>
    match ty with
    | .u64 | .fixed64 => .str (T.dec n)
    | .i64 | .sfixed64 => .str (sdec T 64 n)
    | .u32 | .fixed32 => .num (T.dec n)
    | .i32 | .enum _ | .s32 => .num (sdec T 32 n)
    | .bool => if n = 0 then .ff else .tt
    | .double =>
      if isNaN n then .str (str "NaN")
      else if n = posInf then .str (str "Infinity")
      else if n = negInf then .str (str "-Infinity")
      else .num (T.ffmt n)
    | _ => .null
  | .bytes b =>
    match ty with
    | .string => .str b
    | .bytes => .str (T.b64 b)
    | .id _ => .str (T.hex b)
    | _ => .null
  | _ => .null

/-- jsonpb without `EmitDefaults`: which fields are left out -/
def jsonOmit (f : Field) (v : Val) : Bool :=
  match f.card with
  | .opt => isZero f.ty v
  | .req => false
  | .rep | .packed => !v.isCons

/-- JSON key of the selected alternative of a one-of slot value -/
def oneofKey (alts : List Field) : Val → Option (List Nat)
  | .cons (.num k) _ => (findAlt alts k).map (fun a => str a.json)
  | _ => none

def toJ (S : Schema) (T : Txt) : Mode → Val → Json
  | .slots (s :: ss), .cons x xs =>
    match s with
    | .one f =>
      if jsonOmit f x then toJ S T (.slots ss) xs
      else .ocons (str f.json) (toJ S T (.slot s) x) (toJ S T (.slots ss) xs)
    | .oneof _ alts =>
      match oneofKey alts x with
      | some key => .ocons key (toJ S T (.slot s) x) (toJ S T (.slots ss) xs)
      | none => toJ S T (.slots ss) xs
  | .slots _, _ => .onil
  | .elem f, v =>
    match f.ty with
    | .msg sub => toJ S T (.slots (S.slots sub)) v
    | ty => leafJson T ty v
  | .reps f, .cons e rest => .acons (toJ S T (.elem f) e) (toJ S T (.reps f) rest)
  | .reps _, _ => .anil
  | .slot (.one f), v =>
    match f.card with
    | .rep | .packed => toJ S T (.reps f) v
    | _ => toJ S T (.elem f) v
  | .slot (.oneof _ alts), .cons (.num k) (.cons p .nil) =>
    match findAlt alts k with
    | some a => toJ S T (.elem a) p
    | none => .null
  | .slot (.oneof _ _), _ => .null       -- alternative selected, Go-nil payload: jsonpb prints `null`
termination_by m v => (sizeOf v, m.rank)
decreasing_by all_goals (simp_wf; simp [Mode.rank, Prod.lex_def]; try omega)

def toJson (S : Schema) (T : Txt) (m : Nat) (v : Val) : Json := toJ S T (.slots (S.slots m)) v

/-! ### JSON readers (`pdata/internal/json`, `pdata/*/json.go`) -/

/-- find a slot by either spelling of the key -/
def findKey : List Slot → Nat → List Nat → Option Hit
  | [], _, _ => none
  | .one f :: ss, i, k => if str f.json == k || str f.orig == k then some ⟨i, f, false⟩ else findKey ss (i + 1) k
  | .oneof _ alts :: ss, i, k =>
    match alts.find? (fun a => str a.json == k || str a.orig == k) with
    | some a => some ⟨i, a, true⟩
    | none => findKey ss (i + 1) k

/-- decimal text of a JSON STRING → two's complement pattern of width `w`: `strconv.ParseInt(s, 10, w)` (signed: one optional
`+` or `-`, then `ParseUint`) / `strconv.ParseUint(s, 10, w)` (no sign at all), digits only (base 10: no underscores, no prefix;
leading zeros are fine), exact range check — the `StringValue` branch of `json.ReadInt32/ReadUint32/ReadInt64/ReadUint64`
(`pdata/internal/json/number.go`) -/
def parseInt (T : Txt) (signed : Bool) (w : Nat) (t : List Nat) : Option Nat :=
  match t with
  | 45 :: ds =>
    if !signed then none else
    match T.undec ds with
    | some n => if n ≤ 2 ^ (w - 1) then some ((2 ^ w - n) % 2 ^ w) else none
    | none => none
  | 43 :: ds =>
    if !signed then none else
    match T.undec ds with
    | some n => if n < 2 ^ (w - 1) then some n else none
    | none => none
  | ds =>
    match T.undec ds with
    | some n => if n < (if signed then 2 ^ (w - 1) else 2 ^ w) then some n else none
    | none => none

/-- the digit loop of jsoniter's `readUint64` / `readUint32` (v1.1.12, `iter_int.go`) after the first digit: every character of
the token must be a digit (`.` → "can not decode float as int"; any other character is left over for the enclosing
`ReadObjectCB`, which then fails — either way the document is rejected), and the overflow test is the LIBRARY's:
only when `value > MaxUint/10 - 1`, and then only `value*10 + d (mod 2^w) < value` — a product that wraps around to
a value that is not smaller goes unnoticed (`27670116110564327420` reads as `9223372036854775804`). The unrolled
nine-digit fast path computes the same value (nine digits never overflow 32 bits). -/
def jiterDigits (w : Nat) : Nat → List Nat → Option Nat
  | v, [] => some v
  | v, c :: cs =>
    if 48 ≤ c ∧ c ≤ 57 then
      if v > (2 ^ w - 1) / 10 - 1 then
        let v2 := (v * 10 + (c - 48)) % 2 ^ w
        if v2 < v then none else jiterDigits w v2 cs
      else jiterDigits w (v * 10 + (c - 48)) cs
    else none

/-- `readUint64` / `readUint32` on the text of a number token: a leading `0` ends the number at once (whatever follows is
left over: rejected), the first character must be a digit (`-` is "unexpected character") -/
def jiterUint (w : Nat) : List Nat → Option Nat
  | [] => none
  | [48] => some 0
  | 48 :: _ => none
  | c :: cs => if 49 ≤ c ∧ c ≤ 57 then jiterDigits w (c - 48) cs else none

/-- text of a JSON NUMBER token → two's complement pattern of width `w`: `iter.ReadInt64/ReadInt32` (`-` then `readUint`,
`val > MaxInt+1` / `val > MaxInt` is "overflow") and `iter.ReadUint64/ReadUint32` — the `NumberValue` branch of
`json.ReadInt32/…/ReadUint64`, and what `ReadEnumValue` and the `sint32` fields call directly -/
def parseNum (signed : Bool) (w : Nat) (t : List Nat) : Option Nat :=
  match t with
  | 45 :: ds =>
    if !signed then none else
    match jiterUint w ds with
    | some v => if v > 2 ^ (w - 1) then none else some ((2 ^ w - v) % 2 ^ w)
    | none => none
  | ds =>
    match jiterUint w ds with
    | some v => if signed && decide (v ≥ 2 ^ (w - 1)) then none else some v
    | none => none

def enumByName (S : Schema) (e : Nat) (name : List Nat) : Option Nat :=
  match S.enums[e]? with
  | some en => (en.values.find? (fun p => str p.1 == name)).map (·.2)
  | none => none

def stripQuotes (b : List Nat) : List Nat :=
  if b.length ≥ 2 ∧ b.head? = some 34 ∧ b.getLast? = some 34 then (b.drop 1).dropLast else b

/-- one non-message JSON value → stored pattern -/
def readLeaf (S : Schema) (T : Txt) (ty : Ty) (j : Json) : Option Val :=
  match ty with
  | .u64 | .fixed64 => match j with
    | .num t => (parseNum false 64 t).map .num
    | .str t => (parseInt T false 64 t).map .num
    | _ => none
  | .i64 | .sfixed64 => match j with
    | .num t => (parseNum true 64 t).map .num
    | .str t => (parseInt T true 64 t).map .num
    | _ => none
  | .u32 | .fixed32 => match j with
    | .num t => (parseNum false 32 t).map .num
    | .str t => (parseInt T false 32 t).map .num
    | _ => none
  | .i32 => match j with
    | .num t => (parseNum true 32 t).map .num
    | .str t => (parseInt T true 32 t).map .num
    | _ => none
  | .s32 => match j with      -- `scale`, `offset`: read with `iter.ReadInt32()` directly (numbers only)
    | .num t => (parseNum true 32 t).map .num
    | _ => none
  | .enum e => match j with
    | .num t => (parseNum true 32 t).map .num
    | .str t => (enumByName S e t).map .num
    | _ => none
  | .bool => match j with
    | .tt => some (.num 1)
    | .ff => some (.num 0)
    | _ => none
  | .double => match j with
    | .num t | .str t => (T.fparse t).map .num
    | _ => none
  | .string => match j with
    | .str b => some (.bytes b)
    | .null => some (.bytes [])
    | _ => none
  | .bytes => match j with
    | .str b => (T.unb64 b).map .bytes
    | .null => some (.bytes [])
    | _ => none
  | .id n => match j with
    | .str b =>
      let b := stripQuotes b
      if b.isEmpty then some (.bytes [])
      else if b.length ≠ 2 * n then none
      else (T.unhex b).map (fun p => .bytes (if allZero p then [] else p))
    | .null => some (.bytes [])
    | _ => none
  | .msg _ => none

def Json.size : Json → Nat
  | .acons h t => 1 + h.size + t.size
  | .ocons _ v t => 1 + v.size + t.size
  | _ => 1

/-- read an array of scalars / strings, appending to `cur` -/
def readLeafArr (S : Schema) (T : Txt) (ty : Ty) (cur : Val) : Json → Option Val
  | .acons h t => match readLeaf S T ty h with
    | some x => readLeafArr S T ty (Val.snoc cur x) t
    | none => none
  | .anil | .null => some cur
  | _ => none

/-- the number scanner of jsoniter's strict `Iterator.Skip` (`iter_skip_strict.go`, `skipNumber`): `trySkipNumber` walks the
characters after the first one and accepts digits and a dot followed by a digit; at any other character before the terminator
(for a number literal of a well-formed document: an exponent mark) it gives up and the literal is READ with `ReadFloat64` — whose
slow path is `strconv.ParseFloat`, so an exponent literal beyond the float64 range (`1e400`) makes the skip, and with it the
whole document, fail even though the member is unknown to the reader.  (The second attempt `ReadBigFloat` starts after the
already consumed literal and always reports "invalid number".)  A literal of one character also takes the `ReadFloat64` path,
which accepts a single digit. -/
def skipNeedsFloat (t : List Nat) : Bool :=
  (t.drop 1).any (fun c => !((48 ≤ c && c ≤ 57) || c == 46))

/-- `iter.Skip()` on a value of a well-formed document succeeds: strings, literals, and the brackets cannot fail (the lexer
has accepted them); numbers as `skipNeedsFloat` says, in every nesting (`skipObject` / `skipArray` call `Skip` per value) -/
def skipOk (T : Txt) : Json → Bool
  | .num t => if skipNeedsFloat t then (T.fparse t).isSome else true
  | .acons h t => skipOk T h && skipOk T t
  | .ocons _ v t => skipOk T v && skipOk T t
  | _ => true

/-- `ReadObjectCB` of message `m` into `acc` (members in document order; unknown members skipped with `iter.Skip()`, which still
validates what it skips: `skipOk`) -/
def fromJ (S : Schema) (T : Txt) (D : List Val) (m : Nat) (acc : Val) (j : Json) : Option Val :=
  match j with
  | .onil | .null => some acc
  | .ocons k v tl =>
    let keys := ((S.msgs[m]?).map (·.jsonKeys)).getD []
    if !(keys.any (fun s => str s == k)) then (if skipOk T v then fromJ S T D m acc tl else none)
    else match findKey (S.slots m) 0 k with
      | none => if skipOk T v then fromJ S T D m acc tl else none
      | some hit =>
        let cur := Val.get acc hit.idx
        match hit.f.ty with
        | .msg sub =>
          if hit.alt then
            match fromJ S T D sub (D.getD sub .nil) v with
            | some x => fromJ S T D m (Val.set acc hit.idx (.cons (.num hit.f.num) (.cons x .nil))) tl
            | none => none
          else if hit.f.card = .req then
            match fromJ S T D sub cur v with
            | some x => fromJ S T D m (Val.set acc hit.idx x) tl
            | none => none
          else
            match fromJArr S T D sub cur v with
            | some x => fromJ S T D m (Val.set acc hit.idx x) tl
            | none => none
        | ty =>
          if !hit.alt ∧ (hit.f.card = .rep ∨ hit.f.card = .packed) then
            match readLeafArr S T ty cur v with
            | some x => fromJ S T D m (Val.set acc hit.idx x) tl
            | none => none
          else
            match readLeaf S T ty v with
            | some x =>
              fromJ S T D m (Val.set acc hit.idx (if hit.alt then .cons (.num hit.f.num) (.cons x .nil) else x)) tl
            | none => none
  | _ => none
termination_by (j.size, 0)
decreasing_by all_goals simp_wf <;> first | (apply Prod.Lex.left; simp [Json.size]; omega) | (apply Prod.Lex.right; simp)
where
  /-- array of objects, each a fresh message appended to `cur` -/
  fromJArr (S : Schema) (T : Txt) (D : List Val) (sub : Nat) (cur : Val) (j : Json) : Option Val :=
    match j with
    | .anil | .null => some cur
    | .acons h t =>
      match fromJ S T D sub (D.getD sub .nil) h with
      | some x => fromJArr S T D sub (Val.snoc cur x) t
      | none => none
    | _ => none
  termination_by (j.size, 1)
  decreasing_by all_goals simp_wf <;> first | (apply Prod.Lex.left; simp [Json.size]; omega) | (apply Prod.Lex.right; simp)

def fromJson (S : Schema) (T : Txt) (D : List Val) (m : Nat) (j : Json) : Option Val :=
  match j with
  | .onil | .ocons _ _ _ | .null => fromJ S T D m (D.getD m .nil) j
  | _ => none


/-! ## the public entry points per root (`p*.ProtoUnmarshaler`, `p*.JSONUnmarshaler`, `p*otlp.ExportRequest/ExportResponse`) -/

/-- protobuf decode of root `root` (message `m`): the generated `Unmarshal`, then `otlp.Migrate*` where the wrapper calls it -/
def decodeRoot (S : Schema) (D : List Val) (root : String) (m : Nat) (b : Bytes) : Option Val :=
  (decode S D m b).map (fun v => if migratesPb root then migrate S m v else v)

/-- JSON decode of root `root`: the hand-written reader, then `otlp.Migrate*` -/
def fromJsonRoot (S : Schema) (T : Txt) (D : List Val) (root : String) (m : Nat) (j : Json) : Option Val :=
  (fromJson S T D m j).map (fun v => if migratesJson root then migrate S m v else v)

end OtelVerif.C08
