/-! C08 model (stub) -/
namespace OtelVerif.C08
end OtelVerif.C08
