import OtelVerif.Model.C08
/-!
# C08 — well-formed schemas and conforming (canonical) values

`WF` is a decidable predicate on a schema (checked of the regenerated OTLP schema by `decide`), `conf` the
canonical form of a payload: exactly what the public API can distinguish (nil == empty slice, all-zero id == empty id,
scalars within the width of their Go type, `-0.0` not stored in a plain proto3 double field).
-/
namespace OtelVerif.C08
open OtelVerif.Wire OtelVerif.Proto

def scalarOk : Ty → Nat → Bool
  | .u64, n | .i64, n | .fixed64, n | .sfixed64, n | .double, n => n < 2 ^ 64
  | .u32, n | .i32, n | .enum _, n | .s32, n | .fixed32, n => n < 2 ^ 32
  | .bool, n => n < 2
  | _, _ => false

def leafOk : Ty → Val → Bool
  | .string, .bytes _ | .bytes, .bytes _ => true
  | .id k, .bytes b => b.isEmpty || (b.length == k && !allZero b)
  | ty, .num n => scalarOk ty n
  | _, _ => false

def packedOk (ty : Ty) : Val → Bool
  | .cons (.num n) rest => scalarOk ty n && packedOk ty rest
  | .nil => true
  | _ => false

/-- canonical, schema-conforming value.
`api = true` additionally admits a one-of whose selected bytes alternative holds a Go-nil slice
(`pcommon.NewValueBytes()`, `SetEmptyBytes()`): the shape the public API builds but no decoder returns -/
def conf (S : Schema) (api : Bool) : Mode → Val → Bool
  | .slots (s :: ss), .cons x xs => conf S api (.slot s) x && conf S api (.slots ss) xs
  | .slots [], .nil => true
  | .slots _, _ => false
  | .elem f, v =>
    match f.ty with
    | .msg sub => conf S api (.slots (S.slots sub)) v
    | ty => leafOk ty v
  | .reps f, .cons e rest => conf S api (.elem f) e && conf S api (.reps f) rest
  | .reps _, .nil => true
  | .reps _, _ => false
  | .slot (.one f), v =>
    match f.card with
    | .opt => leafOk f.ty v && !(f.ty == .double && v == .num (2 ^ 63))
    | .req => conf S api (.elem f) v
    | .rep => conf S api (.reps f) v
    | .packed => packedOk f.ty v
  | .slot (.oneof _ alts), .cons (.num k) (.cons p .nil) =>
    match findAlt alts k with
    | some a => conf S api (.elem a) p
    | none => false
  | .slot (.oneof _ alts), .cons (.num k) .nil =>
    api && (match findAlt alts k with | some a => a.ty == .bytes | none => false)
  | .slot (.oneof _ _), .nil => true
  | .slot (.oneof _ _), _ => false
termination_by m v => (sizeOf v, m.rank)
decreasing_by all_goals (simp_wf; simp [Mode.rank, Prod.lex_def]; try omega)

def Conforms (S : Schema) (m : Nat) (v : Val) : Prop := conf S false (.slots (S.slots m)) v = true
/-- every shape the public API can build -/
def ApiShape (S : Schema) (m : Nat) (v : Val) : Prop := conf S true (.slots (S.slots m)) v = true

/-! ## schema well-formedness -/

def fieldOk (alt : Bool) (f : Field) : Bool :=
  0 < f.num && f.num < 2 ^ 28 &&
  (if alt then (match f.ty with | .id _ => false | _ => true)
   else match f.card, f.ty with
    | .opt, .msg _ | .opt, .id _ => false
    | .opt, _ => true
    | .req, .msg _ | .req, .id _ => true
    | .req, _ => false
    | .rep, .msg _ | .rep, .string | .rep, .bytes => true
    | .rep, _ => false
    | .packed, ty => isScalar ty)

instance : DecidableEq Hit := fun a b =>
  if h : a.idx = b.idx ∧ a.f = b.f ∧ a.alt = b.alt then
    isTrue (by cases a; cases b; simp_all)
  else isFalse (by intro e; subst e; simp at h)

/-- every field / alternative is found by its own number at its own slot index -/
def slotsOkFrom (all : List Slot) : List Slot → Nat → Bool
  | [], _ => true
  | .one f :: ss, i => fieldOk false f && findSlot all 0 f.num == some ⟨i, f, false⟩ && slotsOkFrom all ss (i + 1)
  | .oneof _ alts :: ss, i =>
    alts.all (fun a => fieldOk true a && findSlot all 0 a.num == some ⟨i, a, true⟩ && findAlt alts a.num == some a) &&
    slotsOkFrom all ss (i + 1)

def WF (S : Schema) (D : List Val) : Bool :=
  S.msgs.all (fun m => slotsOkFrom m.slots m.slots 0) && DefaultsOk S D && D.length == S.msgs.length

end OtelVerif.C08
