import OtelVerif.Model.C08
/-!
# C08 — well-formed schemas and conforming (canonical) values

`WF` is a decidable predicate on a schema (checked of the regenerated OTLP schema by `decide`), `conf` the
canonical form of a payload: exactly what the public API can distinguish (nil == empty slice, all-zero id == empty id,
scalars within the width of their Go type, `-0.0` not stored in a plain proto3 double field).
-/
namespace OtelVerif.C08
open OtelVerif.Wire OtelVerif.Proto

def scalarOk : Ty → Nat → Bool
  | .u64, n | .i64, n | .fixed64, n | .sfixed64, n | .double, n => n < 2 ^ 64
  | .u32, n | .i32, n | .enum _, n | .s32, n | .fixed32, n => n < 2 ^ 32
  | .bool, n => n < 2
  | _, _ => false

def leafOk : Ty → Val → Bool
  | .string, .bytes _ | .bytes, .bytes _ => true
  | .id k, .bytes b => b.isEmpty || (b.length == k && !allZero b)
  | ty, .num n => scalarOk ty n
  | _, _ => false

def packedOk (ty : Ty) : Val → Bool
  | .cons (.num n) rest => scalarOk ty n && packedOk ty rest
  | .nil => true
  | _ => false

/-- canonical, schema-conforming value.
`api = true` additionally admits a one-of whose selected bytes alternative holds a Go-nil slice
(`pcommon.NewValueBytes()`, `SetEmptyBytes()`): the shape the public API builds but no decoder returns -/
def conf (S : Schema) (api : Bool) : Mode → Val → Bool
  | .slots (s :: ss), .cons x xs => conf S api (.slot s) x && conf S api (.slots ss) xs
  | .slots [], .nil => true
  | .slots _, _ => false
  | .elem f, v =>
    match f.ty with
    | .msg sub => conf S api (.slots (S.slots sub)) v
    | ty => leafOk ty v
  | .reps f, .cons e rest => conf S api (.elem f) e && conf S api (.reps f) rest
  | .reps _, .nil => true
  | .reps _, _ => false
  | .slot (.one f), v =>
    match f.card with
    | .opt => leafOk f.ty v && !(f.ty == .double && v == .num (2 ^ 63))
    | .req => conf S api (.elem f) v
    | .rep => conf S api (.reps f) v
    | .packed => packedOk f.ty v
  | .slot (.oneof _ alts), .cons (.num k) (.cons p .nil) =>
    match findAlt alts k with
    | some a => conf S api (.elem a) p
    | none => false
  | .slot (.oneof _ alts), .cons (.num k) .nil =>
    api && (match findAlt alts k with | some a => a.ty == .bytes | none => false)
  | .slot (.oneof _ _), .nil => true
  | .slot (.oneof _ _), _ => false
termination_by m v => (sizeOf v, m.rank)
decreasing_by all_goals (simp_wf; simp [Mode.rank, Prod.lex_def]; try omega)

def Conforms (S : Schema) (m : Nat) (v : Val) : Prop := conf S false (.slots (S.slots m)) v = true
/-- every shape the public API can build -/
def ApiShape (S : Schema) (m : Nat) (v : Val) : Prop := conf S true (.slots (S.slots m)) v = true

/-! ## schema well-formedness -/

def fieldOk (alt : Bool) (f : Field) : Bool :=
  0 < f.num && f.num < 2 ^ 28 &&
  (if alt then (match f.ty with | .id _ => false | _ => true)
   else match f.card, f.ty with
    | .opt, .msg _ | .opt, .id _ => false
    | .opt, _ => true
    | .req, .msg _ | .req, .id _ => true
    | .req, _ => false
    | .rep, .msg _ | .rep, .string | .rep, .bytes => true
    | .rep, _ => false
    | .packed, ty => isScalar ty)

instance : DecidableEq Hit := fun a b =>
  if h : a.idx = b.idx ∧ a.f = b.f ∧ a.alt = b.alt then
    isTrue (by cases a; cases b; simp_all)
  else isFalse (by intro e; subst e; simp at h)

/-- every field / alternative is found by its own number at its own slot index -/
def slotsOkFrom (all : List Slot) : List Slot → Nat → Bool
  | [], _ => true
  | .one f :: ss, i => fieldOk false f && findSlot all 0 f.num == some ⟨i, f, false⟩ && slotsOkFrom all ss (i + 1)
  | .oneof _ alts :: ss, i =>
    alts.all (fun a => fieldOk true a && findSlot all 0 a.num == some ⟨i, a, true⟩ && findAlt alts a.num == some a) &&
    slotsOkFrom all ss (i + 1)

def WF (S : Schema) (D : List Val) : Bool :=
  S.msgs.all (fun m => slotsOkFrom m.slots m.slots 0) && DefaultsOk S D && D.length == S.msgs.length



/-! ## what a decoder returns -/

/-- shape of every value the protobuf decoder returns: `conf` except that an explicit `-0.0` on the wire is stored in a
plain double field (it is dropped again by the next `Marshal`; `canon` is what the API observes) -/
def confD (S : Schema) : Mode → Val → Bool
  | .slots (s :: ss), .cons x xs => confD S (.slot s) x && confD S (.slots ss) xs
  | .slots [], .nil => true
  | .slots _, _ => false
  | .elem f, v =>
    match f.ty with
    | .msg sub => confD S (.slots (S.slots sub)) v
    | ty => leafOk ty v
  | .reps f, .cons e rest => confD S (.elem f) e && confD S (.reps f) rest
  | .reps _, .nil => true
  | .reps _, _ => false
  | .slot (.one f), v =>
    match f.card with
    | .opt => leafOk f.ty v
    | .req => confD S (.elem f) v
    | .rep => confD S (.reps f) v
    | .packed => packedOk f.ty v
  | .slot (.oneof _ alts), .cons (.num k) (.cons p .nil) =>
    match findAlt alts k with
    | some a => confD S (.elem a) p
    | none => false
  | .slot (.oneof _ _), .nil => true
  | .slot (.oneof _ _), _ => false
termination_by m v => (sizeOf v, m.rank)
decreasing_by all_goals (simp_wf; simp [Mode.rank, Prod.lex_def]; try omega)

/-- embedded (`nullable=false`) messages of message `m` -/
def reqSubs (ss : List Slot) : List Nat :=
  ss.filterMap (fun s => match s with
    | .one f => (match f.card, f.ty with | .req, .msg sub => some sub | _, _ => none)
    | .oneof _ _ => none)

/-- `r` is a ranking under which every embedded message has a smaller rank than its parent (no `nullable=false` cycle —
a Go struct cannot contain itself by value) -/
def reqRankOk (S : Schema) (r : List Nat) : Bool :=
  (List.range S.msgs.length).all (fun m => (reqSubs (S.slots m)).all (fun sub => sub < S.msgs.length && r.getD sub 0 < r.getD m 0))

/-- embedding depth, computed by iteration -/
def reqRanks (S : Schema) : List Nat :=
  iter (fun r => (List.range S.msgs.length).map (fun m => ((reqSubs (S.slots m)).map (fun sub => r.getD sub 0 + 1)).foldl max 0))
    (S.msgs.length + 1) (S.msgs.map (fun _ => 0))

/-! ## JSON: laws of the text codecs, NaN normalisation, JSON-representable values, reader tables -/

/-- laws of the text-level codecs the JSON theorems rely on (decimal text of naturals) -/
structure DecLaws (T : Txt) : Prop where
  undec_dec : ∀ n, T.undec (T.dec n) = some n
  dec_nosign : ∀ n ds, T.dec n ≠ 45 :: ds
  dec_noplus : ∀ n ds, T.dec n ≠ 43 :: ds
  /-- the decimal text the marshaler writes is read back by jsoniter's digit loop (no leading zero, no undetected wrap) -/
  jnum_dec : ∀ w n, n < 2 ^ w → jiterUint w (T.dec n) = some n

def bytesOk (b : List Nat) : Bool := b.all (· < 256)

/-- all laws: decimal, float text (`encoding/json` ↔ `strconv.ParseFloat`), base64, hex -/
structure TxtLaws (T : Txt) : Prop extends DecLaws T where
  fparse_ffmt : ∀ n, n < 2 ^ 64 → isNaN n = false → n ≠ posInf → n ≠ negInf → T.fparse (T.ffmt n) = some n
  fparse_nan : T.fparse (str "NaN") = some canonNaN
  fparse_pinf : T.fparse (str "Infinity") = some posInf
  fparse_ninf : T.fparse (str "-Infinity") = some negInf
  unb64_b64 : ∀ b, bytesOk b = true → T.unb64 (T.b64 b) = some b
  unhex_hex : ∀ b, bytesOk b = true → T.unhex (T.hex b) = some b
  hex_length : ∀ b, (T.hex b).length = 2 * b.length
  hex_noquote : ∀ b, stripQuotes (T.hex b) = T.hex b

def normLeaf : Ty → Val → Val
  | .double, .num n => .num (normNaN n)
  | _, v => v

/-- what a JSON round trip returns: every NaN of a double field becomes `math.NaN()` (the marshaler prints "NaN") -/
def normV (S : Schema) : Mode → Val → Val
  | .slots (s :: ss), .cons x xs => .cons (normV S (.slot s) x) (normV S (.slots ss) xs)
  | .slots _, v => v
  | .elem f, v =>
    match f.ty with
    | .msg sub => normV S (.slots (S.slots sub)) v
    | ty => normLeaf ty v
  | .reps f, .cons e rest => .cons (normV S (.elem f) e) (normV S (.reps f) rest)
  | .reps _, v => v
  | .slot (.one f), v =>
    match f.card with
    | .rep | .packed => normV S (.reps f) v
    | _ => normV S (.elem f) v
  | .slot (.oneof _ alts), .cons (.num k) (.cons p .nil) =>
    match findAlt alts k with
    | some a => .cons (.num k) (.cons (normV S (.elem a) p) .nil)
    | none => .cons (.num k) (.cons p .nil)
  | .slot (.oneof _ _), v => v
termination_by m v => (sizeOf v, m.rank)
decreasing_by all_goals (simp_wf; simp [Mode.rank, Prod.lex_def]; try omega)

def jsonKeysOf (S : Schema) (m : Nat) : List String := ((S.msgs[m]?).map (·.jsonKeys)).getD []

/-- the hand-written reader of message `m` has a `case` for the JSON name of `f` -/
def covered (S : Schema) (m : Nat) (f : Field) : Bool := (jsonKeysOf S m).any (fun s => str s == str f.json)

/-- JSON-representable: every field the marshaler would WRITE for this value has a `case` in the reader of its message
(for OTLP: the deprecated scope lists are empty, `C08_json_cases_cover`), and bytes/id payloads are bytes. -/
def jcov (S : Schema) (m : Nat) : Mode → Val → Bool
  | .slots (s :: ss), .cons x xs => jcov S m (.slot s) x && jcov S m (.slots ss) xs
  | .slots _, _ => true
  | .elem f, v =>
    match f.ty with
    | .msg sub => jcov S sub (.slots (S.slots sub)) v
    | .bytes | .id _ => (match v with | .bytes b => bytesOk b | _ => true)
    | _ => true
  | .reps f, .cons e rest => jcov S m (.elem f) e && jcov S m (.reps f) rest
  | .reps _, _ => true
  | .slot (.one f), v =>
    jsonOmit f v || (covered S m f &&
      (match f.card with
       | .rep | .packed => jcov S m (.reps f) v
       | _ => jcov S m (.elem f) v))
  | .slot (.oneof _ alts), .cons (.num k) (.cons p .nil) =>
    match findAlt alts k with
    | some a => covered S m a && jcov S m (.elem a) p
    | none => true
  | .slot (.oneof _ _), _ => true
termination_by md v => (sizeOf v, md.rank)
decreasing_by all_goals (simp_wf; simp [Mode.rank, Prod.lex_def]; try omega)

/-- reader tables are consistent with the schema: a covered field is found by its JSON name at its own slot -/
def jslotsOkFrom (S : Schema) (m : Nat) (all : List Slot) : List Slot → Nat → Bool
  | [], _ => true
  | .one f :: ss, i =>
    (!covered S m f || findKey all 0 (str f.json) == some ⟨i, f, false⟩) && jslotsOkFrom S m all ss (i + 1)
  | .oneof _ alts :: ss, i =>
    alts.all (fun a => !covered S m a || findKey all 0 (str a.json) == some ⟨i, a, true⟩) && jslotsOkFrom S m all ss (i + 1)

def JWF (S : Schema) : Bool :=
  (List.range S.msgs.length).all (fun m => jslotsOkFrom S m (S.slots m) (S.slots m) 0)


/-! ## values built through the public pdata API -/

/-- a field the public API has no accessor for: the `Deprecated*` scope lists (kept only for `otlp.Migrate*`) -/
def isDep (f : Field) : Bool := f.go.toList.take 10 == "Deprecated".toList

/-- Model of the pdata builder API surface (`New*`, `AppendEmpty`, `Set*`, `Put*`, `FromRaw`, `CopyTo`, `MoveTo`, and — since every
decode path runs `otlp.Migrate*` — the public unmarshalers): no accessor reaches a `Deprecated*` field, so it is never
populated; and every element of a `[]byte` / id is a Go byte. -/
def apiVal (S : Schema) : Mode → Val → Bool
  | .slots (s :: ss), .cons x xs => apiVal S (.slot s) x && apiVal S (.slots ss) xs
  | .slots _, _ => true
  | .elem f, v =>
    match f.ty with
    | .msg sub => apiVal S (.slots (S.slots sub)) v
    | .bytes | .id _ => (match v with | .bytes b => bytesOk b | _ => true)
    | _ => true
  | .reps f, .cons e rest => apiVal S (.elem f) e && apiVal S (.reps f) rest
  | .reps _, _ => true
  | .slot (.one f), v =>
    (!isDep f || !v.isCons) &&
      (match f.card with
       | .rep | .packed => apiVal S (.reps f) v
       | _ => apiVal S (.elem f) v)
  | .slot (.oneof _ alts), .cons (.num k) (.cons p .nil) =>
    match findAlt alts k with
    | some a => apiVal S (.elem a) p
    | none => true
  | .slot (.oneof _ _), _ => true
termination_by md v => (sizeOf v, md.rank)
decreasing_by all_goals (simp_wf; simp [Mode.rank, Prod.lex_def]; try omega)

/-- a payload built through the public API: canonical, and `apiVal` -/
def ApiBuilt (S : Schema) (m : Nat) (v : Val) : Prop :=
  Conforms S m v ∧ apiVal S (.slots (S.slots m)) v = true

/-- the reader of message `m` knows this slot, unless it is a deprecated (repeated) list -/
def slotCovOk (S : Schema) (m : Nat) : Slot → Bool
  | .one f => (isDep f && f.card == .rep) || covered S m f
  | .oneof _ alts => alts.all (covered S m)

def covOkAt (S : Schema) (m : Nat) : Bool := (S.slots m).all (slotCovOk S m)
def covOk (S : Schema) : Bool := (List.range S.msgs.length).all (covOkAt S)

/-- fields 2 / 1000 of a message, when present, are a repeated list / a deprecated repeated list (what `migrateRes` touches) -/
def migShapeAt (ss : List Slot) : Bool :=
  match slotIdx ss 1000 with
  | none => true
  | some d =>
    (match ss[d]? with | some (.one f) => isDep f && f.card == .rep | _ => false) &&
    (match slotIdx ss 2 with
     | none => true
     | some i => (match ss[i]? with | some (.one f) => f.card == .rep | _ => false))

def migShapeOk (S : Schema) : Bool := S.msgs.all (fun m => migShapeAt m.slots)

/-- what `migrateRes` needs to keep a decoder-shaped resource decoder-shaped: fields 2 and 1000 are different repeated slots of the
SAME element type (`[]*ScopeX` both) -/
def migShape2At (ss : List Slot) : Bool :=
  match slotIdx ss 1000 with
  | none => true
  | some d =>
    match slotIdx ss 2 with
    | none => true
    | some i =>
      i != d &&
      (match ss[d]?, ss[i]? with
       | some (.one fd), some (.one fi) => fd.card == .rep && fi.card == .rep && fd.ty == fi.ty
       | _, _ => false)

def migShape2Ok (S : Schema) : Bool := S.msgs.all (fun m => migShape2At m.slots)

/-- the first field of a root that has resources is a repeated message list -/
def rootShapeOk (S : Schema) : Bool :=
  S.msgs.all (fun m => match m.slots with
    | .one f :: _ => (match f.ty with | .msg _ => f.card == .rep || f.card == .req | _ => true)
    | _ => true)


/-! ## per-`case` reader table: which field a label assigns and which `Read*` helper reads it -/

/-- the hand-written reader function that reads message `sub` -/
def msgReaderOf (S : Schema) (sub : Nat) : String :=
  match (S.msgs[sub]?).map (·.name) with
  | some "common.KeyValue" => "json.ReadAttribute"
  | some "common.AnyValue" => "json.ReadValue"
  | some "resource.Resource" => "json.ReadResource"
  | some "common.InstrumentationScope" => "json.ReadScope"
  | some "common.ArrayValue" => "readArray"
  | some "common.KeyValueList" => "readKvlistValue"
  | _ => "unmarshalJsoniter"

/-- the helpers `readLeaf` / `fromJ` stand for, by type (`pdata/internal/json/number.go`, `enum.go`, jsoniter): this is the model's
"reader by type" assumption made explicit -/
def elemCalls (S : Schema) : Ty → List String
  | .u64 | .fixed64 => ["json.ReadUint64"]
  | .i64 | .sfixed64 => ["json.ReadInt64"]
  | .u32 | .fixed32 => ["json.ReadUint32"]
  | .i32 => ["json.ReadInt32"]
  | .s32 => ["iter.ReadInt32"]
  | .bool => ["iter.ReadBool"]
  | .enum _ => ["json.ReadEnumValue"]
  | .double => ["json.ReadFloat64"]
  | .string => ["iter.ReadString"]
  | .bytes => ["base64.DecodeString", "iter.ReadString"]
  | .id _ => ["UnmarshalJSON", "iter.ReadString"]
  | .msg sub => [msgReaderOf S sub]

def wantCalls (S : Schema) (f : Field) (alt : Bool) : List String :=
  if !alt && (f.card == .rep || f.card == .packed) then "iter.ReadArrayCB" :: elemCalls S f.ty else elemCalls S f.ty

def fieldsAlt (m : Msg) : List (Field × Bool) :=
  m.slots.flatMap (fun s => match s with | .one f => [(f, false)] | .oneof _ alts => alts.map (·, true))

def sameSet (a b : List String) : Bool := a.all (b.contains ·) && b.all (a.contains ·)

/-- one `case` clause agrees with the schema: it assigns the field whose JSON / proto names are exactly its labels, through the
helper(s) the model assumes for the field's type and cardinality -/
def caseOk (S : Schema) (msg : Msg) (c : List String × String × List String) : Bool :=
  match (fieldsAlt msg).find? (fun p => p.1.go == c.2.1) with
  | none => false
  | some (f, alt) => sameSet c.1 [f.json, f.orig] && sameSet c.2.2 (wantCalls S f alt)

/-- the regenerated per-clause table agrees with the schema, and its labels are exactly the `jsonKeys` of the message -/
def readersOk (S : Schema) (R : List (String × List (List String × String × List String))) : Bool :=
  R.length == S.msgs.length &&
  R.all (fun r => match S.msgs.find? (fun m => m.name == r.1) with
    | none => false
    | some msg => r.2.all (caseOk S msg) && (r.2.flatMap (·.1)) == msg.jsonKeys)


/-! ## what the JSON readers need to return decoder-shaped values -/

/-- the decoding halves of the text codecs return well-formed data (true of `strconv`, `encoding/base64`, `encoding/hex`) -/
structure TxtOut (T : Txt) : Prop where
  fparse_lt : ∀ t n, T.fparse t = some n → n < 2 ^ 64
  unb64_bytes : ∀ t b, T.unb64 t = some b → bytesOk b = true
  unhex_bytes : ∀ t b, T.unhex t = some b → bytesOk b = true ∧ 2 * b.length = t.length

/-- enum values fit an `int32` -/
def enumsOk (S : Schema) : Bool := S.enums.all (fun e => e.values.all (fun p => p.2 < 2 ^ 32))

/-- a reader that has a `case` for the proto name of a field also has one for its JSON name -/
def keysSymAt (S : Schema) (m : Nat) : Bool :=
  (S.slots m).all (fun s => match s with
    | .one f => !((jsonKeysOf S m).any (fun k => str k == str f.orig)) || covered S m f
    | .oneof _ alts => alts.all (fun f => !((jsonKeysOf S m).any (fun k => str k == str f.orig)) || covered S m f))

def keysSymOk (S : Schema) : Bool := (List.range S.msgs.length).all (keysSymAt S)


/-- the reader of a resource message has no `case` for its deprecated list (field 1000): a JSON document cannot populate it -/
def depUncovAt (S : Schema) (r : Nat) : Bool :=
  match slotIdx (S.slots r) 1000 with
  | none => true
  | some d => (match (S.slots r)[d]? with | some (.one f) => !covered S r f && f.card == .rep | _ => false)

def depUncovOk (S : Schema) : Bool := (List.range S.msgs.length).all (depUncovAt S)

end OtelVerif.C08
