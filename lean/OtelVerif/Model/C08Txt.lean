import OtelVerif.Model.C08Conf
/-!
# C08 — concrete text codecs (decimal integers, hex, base64 std) and the `Txt` instance built from them

Only the float64 ↔ text pair stays a parameter (`encoding/json` float formatting ↔ `strconv.ParseFloat`).
Core Lean only; the laws are proved in `Lemmas/C08Txt.lean`.
-/
namespace OtelVerif.C08

/-- `strconv.FormatUint(n, 10)` as bytes -/
def decDigits (n : Nat) : List Nat :=
  if h : n < 10 then [48 + n] else decDigits (n / 10) ++ [48 + n % 10]
termination_by n
decreasing_by omega

def isDigit (c : Nat) : Bool := 48 ≤ c && c ≤ 57

/-- plain decimal literal (digits only, non-empty) -/
def undecDigits (t : List Nat) : Option Nat :=
  if t.isEmpty || !(t.all isDigit) then none
  else some (t.foldl (fun a c => a * 10 + (c - 48)) 0)

/-- `0` or a digit string without a leading zero -/
def natLit : List Nat → Bool
  | [48] => true
  | c :: cs => (decide (49 ≤ c) && decide (c ≤ 57)) && cs.all isDigit
  | [] => false

/-- the integer texts that are legal JSON number tokens: `-?(0|[1-9][0-9]*)` -/
def jsonIntLit : List Nat → Bool
  | 45 :: ds => natLit ds
  | ds => natLit ds

def hexChar (n : Nat) : Nat := if n < 10 then 48 + n else 87 + n

/-- `hex.EncodeToString` (lower case) -/
def hexEnc : List Nat → List Nat
  | [] => []
  | x :: rest => hexChar (x / 16 % 16) :: hexChar (x % 16) :: hexEnc rest

def hexVal (c : Nat) : Option Nat :=
  if 48 ≤ c ∧ c ≤ 57 then some (c - 48)
  else if 97 ≤ c ∧ c ≤ 102 then some (c - 87)
  else if 65 ≤ c ∧ c ≤ 70 then some (c - 55)
  else none

/-- `hex.Decode` (either case; odd length or a non-hex character is an error) -/
def hexDec : List Nat → Option (List Nat)
  | [] => some []
  | [_] => none
  | a :: b :: rest =>
    match hexVal a, hexVal b, hexDec rest with
    | some x, some y, some tl => some ((x * 16 + y) :: tl)
    | _, _, _ => none

def b64char (n : Nat) : Nat :=
  if n < 26 then 65 + n else if n < 52 then 71 + n else if n < 62 then n - 4 else if n = 62 then 43 else 47

def b64val (c : Nat) : Option Nat :=
  if 65 ≤ c ∧ c ≤ 90 then some (c - 65)
  else if 97 ≤ c ∧ c ≤ 122 then some (c - 71)
  else if 48 ≤ c ∧ c ≤ 57 then some (c + 4)
  else if c = 43 then some 62 else if c = 47 then some 63 else none

/-- `base64.StdEncoding.EncodeToString` -/
def b64enc : List Nat → List Nat
  | a :: b :: c :: rest =>
    let n := a * 65536 + b * 256 + c
    b64char (n / 262144 % 64) :: b64char (n / 4096 % 64) :: b64char (n / 64 % 64) :: b64char (n % 64) :: b64enc rest
  | [a, b] =>
    let n := a * 65536 + b * 256
    [b64char (n / 262144 % 64), b64char (n / 4096 % 64), b64char (n / 64 % 64), 61]
  | [a] =>
    let n := a * 65536
    [b64char (n / 262144 % 64), b64char (n / 4096 % 64), 61, 61]
  | [] => []

/-- `base64.StdEncoding.DecodeString` (padding required) -/
def b64dec : List Nat → Option (List Nat)
  | [] => some []
  | [a, b, 61, 61] =>
    match b64val a, b64val b with
    | some x, some y => some [(x * 64 + y) / 16 % 256]
    | _, _ => none
  | [a, b, c, 61] =>
    match b64val a, b64val b, b64val c with
    | some x, some y, some z => let n := (x * 64 + y) * 64 + z; some [n / 1024 % 256, n / 4 % 256]
    | _, _, _ => none
  | a :: b :: c :: d :: rest =>
    match b64val a, b64val b, b64val c, b64val d, b64dec rest with
    | some x, some y, some z, some w, some tl =>
      let n := ((x * 64 + y) * 64 + z) * 64 + w
      some (n / 65536 % 256 :: n / 256 % 256 :: n % 256 :: tl)
    | _, _, _, _, _ => none
  | _ => none

/-- what the JSON readers do with a `bytes` string: `base64.StdEncoding.DecodeString` — std alphabet (`-`/`_` are errors), padding
REQUIRED, `\r` and `\n` IGNORED wherever they stand (Go's decoder skips them, also between and after the padding), non-zero trailing
bits tolerated (not `Strict`), anything after the padding is an error -/
def b64Read (t : List Nat) : Option (List Nat) := b64dec (t.filter (fun c => c != 10 && c != 13))

/-- upper-case a hex digit (`hex.Decode` accepts both cases) -/
def hexUp (c : Nat) : Nat := if 97 ≤ c ∧ c ≤ 102 then c - 32 else c

/-- `TraceID/SpanID/ProfileID.MarshalJSON` on the id's byte array `p` — the text between the quotes: `""` for the all-zero id
(`IsEmpty`), else `marshalJSON` = lower-case `hex.Encode` of all bytes (`pdata/internal/data/{traceid,spanid,profileid,bytesid}.go`) -/
def idMarshalJSON (p : List Nat) : List Nat := if allZero p then [] else hexEnc p

/-- `(*ID).UnmarshalJSON(data)` for an id type of `n` bytes: `*id = [n]byte{}` then `unmarshalJSON(id[:], data)` — one pair of
literal quotes stripped, empty ⇒ the zero id stays, `len(dst) != hex.DecodedLen(len(src))` (= `len/2`: an odd length one above `2n`
passes this test and fails in `hex.Decode`) ⇒ "invalid length", then `hex.Decode` (either case; odd length or a non-hex byte is an
error). Returns the full `n`-byte array. -/
def idUnmarshalJSON (n : Nat) (src : List Nat) : Option (List Nat) :=
  let s := stripQuotes src
  if s.isEmpty then some (List.replicate n 0)
  else if n ≠ s.length / 2 then none
  else hexDec s

/-- the text codecs of the model with the float pair as the only parameter -/
def mkTxtF (ffmt : Nat → List Nat) (fparse : List Nat → Option Nat) : Txt where
  dec := decDigits
  undec := undecDigits
  ffmt := ffmt
  fparse := fparse
  b64 := b64enc
  unb64 := b64Read
  hex := hexEnc
  unhex := hexDec

/-- laws of the float text pair (`encoding/json` ↔ `strconv.ParseFloat`; validated per sampled value by the harness) -/
structure FloatLaws (ffmt : Nat → List Nat) (fparse : List Nat → Option Nat) : Prop where
  fparse_ffmt : ∀ n, n < 2 ^ 64 → isNaN n = false → n ≠ posInf → n ≠ negInf → fparse (ffmt n) = some n
  fparse_nan : fparse (str "NaN") = some canonNaN
  fparse_pinf : fparse (str "Infinity") = some posInf
  fparse_ninf : fparse (str "-Infinity") = some negInf

end OtelVerif.C08
