/-!
# C09 / C10 model: service configuration → pipeline component graph → data flow

Mirrors `service/internal/graph/graph.go`:

* `createNodes`  → `usedConns`, `connValid` (connector support validation), `pipeRecvNodes`, `pipeExpNodes`
* `createEdges`  → `pipeEdges`, `edges`
* `buildComponents` → `build` (`topo.Sort` error ⇒ cycle error; gonum is outside the model: its error condition
  is modelled by the executable `sortable`, which `Props/C09.lean` relates to closed walks)
* run-time behaviour of the built consumers (receiver → fan-out → capabilities → processors… → fan-out →
  exporters / connector → router → all next pipelines) → `deliver`

Node identity is *data* (`Node`), exactly the attribute tuples hashed by `service/internal/attribute`:
receiver/exporter = (signal, component id); processor = (pipeline id, component id);
connector = (exporter-side signal, receiver-side signal, component id); capabilities/fan-out = pipeline id.
(Injectivity of the fnv hash on the keys that occur is checked by the harness on every run.)

Core Lean only.  `Model/C10.lean` imports this file.
-/
namespace OtelVerif.C09

inductive Sig | traces | metrics | logs | profiles
deriving DecidableEq, Repr

def Sig.toNat : Sig → Nat
  | .traces => 0 | .metrics => 1 | .logs => 2 | .profiles => 3

def Sig.ofNat? : Nat → Option Sig
  | 0 => some .traces | 1 => some .metrics | 2 => some .logs | 3 => some .profiles | _ => none

def Sig.all : List Sig := [.traces, .metrics, .logs, .profiles]

/-- `component.ID` (type + name), abstracted to a number -/
abbrev CompId := Nat

/-- `pipeline.ID` = signal + name -/
structure PipeId where
  sig : Sig
  name : Nat
deriving DecidableEq, Repr

/-- `pipelines.PipelineConfig` together with its key in `pipelines.Config` -/
structure Pipeline where
  id : PipeId
  recv : List CompId
  procs : List CompId
  exps : List CompId
deriving DecidableEq, Repr

/-- a configured connector and the (exporter-side signal, receiver-side signal) pairs for which its factory
reports a stability level other than `Undefined` (`connectorStability`) -/
structure Conn where
  id : CompId
  supp : List (Sig × Sig)
  /-- run-time behaviour of the (test) connector: `none` = it hands every payload to its whole router (all next
  pipelines); `some S` = it uses the router API (`RouterAndConsumer.PipelineIDs()` / `Consumer(ids…)`) and delivers
  only to the next pipelines whose *name* is in `S` (nothing when none is) -/
  sel : Option (List Nat) := none
deriving DecidableEq, Repr

structure Cfg where
  pipes : List Pipeline
  conns : List Conn
deriving Repr

/-- `set.ConnectorBuilder.IsConfigured(id)` -/
def Cfg.isConn (cfg : Cfg) (c : CompId) : Bool := cfg.conns.any (fun k => k.id == c)

/-- `connectorStability(factory, expType, recType) != StabilityLevelUndefined` -/
def Cfg.supp (cfg : Cfg) (c : CompId) (es rs : Sig) : Bool :=
  cfg.conns.any (fun k => k.id == c && k.supp.contains (es, rs))

/-- what `pipelines.Config` (a Go map) and `PipelineConfig.Validate` guarantee -/
structure Cfg.WF (cfg : Cfg) : Prop where
  ids_nodup : (cfg.pipes.map (·.id)).Nodup
  procs_nodup : ∀ p ∈ cfg.pipes, p.procs.Nodup

inductive Node
  | recv (s : Sig) (id : CompId)
  | proc (p : PipeId) (id : CompId)
  | exp (s : Sig) (id : CompId)
  | conn (es rs : Sig) (id : CompId)
  | cap (p : PipeId)
  | fanout (p : PipeId)
deriving DecidableEq, Repr

def Node.isExp : Node → Bool
  | .exp _ _ => true
  | _ => false

/-- nodes that are `component.Component`s (everything except capabilities / fan-out) -/
def Node.isComp : Node → Bool
  | .cap _ => false
  | .fanout _ => false
  | _ => true

/-- keep one copy of every element (Go map keyed by node id) -/
def dedup {α : Type} [DecidableEq α] : List α → List α
  | [] => []
  | a :: l => if a ∈ l then dedup l else a :: dedup l

/-! ## validation (`service/pipelines/config.go`), run by `otelcol` on the configuration before it is built

`validate` returns error classes only: it has no way to hand back a different configuration — validation is
read-only by construction here; for the implementation that is an obligation of its own, checked by the harness on
every case (dump of the `pipelines.Config` value before and after `xconfmap.Validate`, and `graph.Build` is run on
the very value that was validated). -/

inductive ValErr
  | noReceivers    -- "must have at least one receiver"
  | noExporters    -- "must have at least one exporter"
  | dupProcessor   -- "references processor … multiple times"
  | noPipelines    -- `Config.Validate`: "service must have at least one pipeline" (gate `service.AllowNoPipelines` off, its default)
  | profilesGate   -- `Config.Validate`: a profiles pipeline while the feature gate `service.profilesSupport` is off
deriving DecidableEq, Repr

def hasDup : List CompId → Bool
  | [] => false
  | a :: l => decide (a ∈ l) || hasDup l

/-- `PipelineConfig.Validate`: the first failing check -/
def validatePipe (p : Pipeline) : Option ValErr :=
  if p.recv.isEmpty then some .noReceivers
  else if p.exps.isEmpty then some .noExporters
  else if hasDup p.procs then some .dupProcessor
  else none

/-- `xconfmap.Validate(pipelines.Config)`: every pipeline is validated, the errors are joined (classes, deduplicated) -/
def validate (cfg : Cfg) : List ValErr := dedup (cfg.pipes.filterMap validatePipe)

/-- `pipelines.Config.Validate` (the map as a whole): at least one pipeline; a profiles pipeline needs the feature gate
`service.profilesSupport` (`gate`); the third branch (`unknown signal`) has no counterpart: `Sig` has exactly the four signals -/
def validateMap (gate : Bool) (cfg : Cfg) : List ValErr :=
  (if cfg.pipes.isEmpty then [ValErr.noPipelines] else []) ++
  (if !gate && cfg.pipes.any (fun p => p.id.sig == Sig.profiles) then [ValErr.profilesGate] else [])

/-- `xconfmap.Validate(pipelines.Config)` in full: the map's own `Validate` and every pipeline's, errors joined (classes, deduplicated) -/
def validateAll (gate : Bool) (cfg : Cfg) : List ValErr := dedup (validateMap gate cfg ++ cfg.pipes.filterMap validatePipe)

/-! ## createNodes -/

/-- `connectorsAsExporter[c]` -/
def asExp (cfg : Cfg) (c : CompId) : List Pipeline := cfg.pipes.filter (fun p => c ∈ p.exps)

/-- `connectorsAsReceiver[c]` -/
def asRecv (cfg : Cfg) (c : CompId) : List Pipeline := cfg.pipes.filter (fun p => c ∈ p.recv)

/-- `expTypes[p.sig]` ends up `true`: some receiver-side pipeline has a supported signal pair -/
def expOk (cfg : Cfg) (c : CompId) (p : Pipeline) : Bool := (asRecv cfg c).any (fun q => cfg.supp c p.id.sig q.id.sig)

/-- `recTypes[q.sig]` ends up `true` -/
def recvOk (cfg : Cfg) (c : CompId) (q : Pipeline) : Bool := (asExp cfg c).any (fun p => cfg.supp c p.id.sig q.id.sig)

def connValid (cfg : Cfg) (c : CompId) : Bool :=
  (asExp cfg c).all (expOk cfg c) && (asRecv cfg c).all (recvOk cfg c)

/-- the `connectors` set: every id listed as receiver or exporter of some pipeline that is a configured connector -/
def usedConns (cfg : Cfg) : List CompId :=
  dedup (cfg.pipes.flatMap (fun p => (p.recv ++ p.exps).filter cfg.isConn))

/-- `pipe.receivers` after `createNodes`: plain receivers by (signal, id); connector nodes for every
supported (exporter pipeline, this pipeline) pair -/
def pipeRecvNodes (cfg : Cfg) (q : Pipeline) : List Node :=
  dedup (q.recv.flatMap (fun r =>
    if cfg.isConn r then
      ((asExp cfg r).filter (fun p => cfg.supp r p.id.sig q.id.sig)).map (fun p => Node.conn p.id.sig q.id.sig r)
    else [Node.recv q.id.sig r]))

/-- `pipe.exporters` after `createNodes` -/
def pipeExpNodes (cfg : Cfg) (p : Pipeline) : List Node :=
  dedup (p.exps.flatMap (fun e =>
    if cfg.isConn e then
      ((asRecv cfg e).filter (fun q => cfg.supp e p.id.sig q.id.sig)).map (fun q => Node.conn p.id.sig q.id.sig e)
    else [Node.exp p.id.sig e]))

def procNodes (p : Pipeline) : List Node := p.procs.map (Node.proc p.id)

/-! ## createEdges -/

/-- capabilities → processors… → fan-out -/
def chain : Node → List Node → Node → List (Node × Node)
  | a, [], z => [(a, z)]
  | a, b :: l, z => (a, b) :: chain b l z

def pipeEdges (cfg : Cfg) (p : Pipeline) : List (Node × Node) :=
  (pipeRecvNodes cfg p).map (fun r => (r, Node.cap p.id)) ++
  chain (Node.cap p.id) (procNodes p) (Node.fanout p.id) ++
  (pipeExpNodes cfg p).map (fun e => (Node.fanout p.id, e))

def edges (cfg : Cfg) : List (Node × Node) := cfg.pipes.flatMap (pipeEdges cfg)

def pipeNodes (cfg : Cfg) (p : Pipeline) : List Node :=
  pipeRecvNodes cfg p ++ [Node.cap p.id] ++ procNodes p ++ [Node.fanout p.id] ++ pipeExpNodes cfg p

/-- nodes of `componentGraph` -/
def nodes (cfg : Cfg) : List Node := dedup (cfg.pipes.flatMap (pipeNodes cfg))

/-- `componentGraph.From(n)` for an edge set -/
def succOf (es : List (Node × Node)) (n : Node) : List Node :=
  dedup (es.filterMap (fun e => if e.1 = n then some e.2 else none))

def succ (cfg : Cfg) : Node → List Node := succOf (edges cfg)

/-! ## connectors that choose their destination by pipeline id

The graph gives every connector instance a router over **all** its next pipelines, keyed by pipeline id
(`connector.New<Signal>Router`).  A connector may deliver to a subset chosen by id.  `flowEdges` is the graph as the
data actually flows: the connector → capabilities edges a selective connector does not use are dropped. -/

/-- connector `c` delivers to a next pipeline named `name` -/
def Cfg.selects (cfg : Cfg) (c : CompId) (name : Nat) : Bool :=
  cfg.conns.all (fun k => k.id != c || (match k.sel with | none => true | some S => S.contains name))

def flowAllowed (cfg : Cfg) : Node × Node → Bool
  | (.conn _ _ c, .cap q) => cfg.selects c q.name
  | _ => true

def flowEdges (cfg : Cfg) : List (Node × Node) := (edges cfg).filter (flowAllowed cfg)

/-! ## `topo.Sort` succeeds iff the graph has no directed cycle

gonum is outside the model.  Its success condition is modelled by peeling: round `k+1` marks every node all
of whose successors were marked in rounds `≤ k` (sinks first — the order in which `buildComponents` needs the
consumers); the sort succeeds iff every node is marked after `|nodes|` rounds.  `Props/C09.lean` proves that a
marked node lies on no closed walk and that `deliver` terminates on it. -/

def peelStep (sc : Node → List Node) (ns done : List Node) : List Node :=
  done ++ ns.filter (fun n => !(decide (n ∈ done)) && (sc n).all (fun m => decide (m ∈ done)))

def peel (sc : Node → List Node) (ns : List Node) : Nat → List Node
  | 0 => []
  | k + 1 => peelStep sc ns (peel sc ns k)

def sortable (sc : Node → List Node) (ns : List Node) : Bool :=
  ns.all (fun n => decide (n ∈ peel sc ns ns.length))

/-! ## Build -/

inductive BuildErr
  | connector   -- createNodes: connector used without a supported counterpart
  | cycle       -- buildComponents: topo.Sort failed
deriving DecidableEq, Repr

def createNodesOk (cfg : Cfg) : Bool := (usedConns cfg).all (connValid cfg)

/-- `graph.Build`: the error class, or nothing when the graph is built -/
def build (cfg : Cfg) : Option BuildErr :=
  if !createNodesOk cfg then some .connector
  else
    let es := edges cfg   -- computed once (`succ cfg = succOf (edges cfg)` by definition)
    if !sortable (succOf es) (nodes cfg) then some .cycle
    else none

/-! ## content of the cycle error

`cycleErr` prints one cycle found by gonum (`topo.DirectedCyclesIn`), rotated to start at a connector, listing
the processors and connectors on it (capabilities / fan-out nodes skipped) and repeating the first node at the
end.  Which cycle gonum reports is not modelled; what is checked (monitor `cycleMsgOk`, sound by
`C09_cycle_message_sound`) is that the printed sequence really is a closed walk of the built graph. -/

def expandNC (E : List (Node × Node)) (l : List Node) : List Node :=
  l.flatMap (fun n => if n.isComp then [n] else succOf E n)

/-- the components directly after `b`, looking through capabilities / fan-out nodes -/
def compNext (E : List (Node × Node)) (b : Node) : List Node :=
  (expandNC E (expandNC E (succOf E b))).filter Node.isComp

def linkedChain (E : List (Node × Node)) : Node → List Node → Bool
  | _, [] => true
  | a, b :: l => decide (b ∈ compNext E a) && linkedChain E b l

def isConnNode : Node → Bool
  | .conn _ _ _ => true
  | _ => false

/-- the printed cycle `n₀ → n₁ → … → n₀`: starts at a connector, returns to it, every step is a link of the graph -/
def cycleMsgOk (cfg : Cfg) : List Node → Bool
  | [] => false
  | n :: rest => isConnNode n && !rest.isEmpty && (rest.getLast? == some n) && linkedChain (edges cfg) n rest

/-! ## content of the connector error

`createNodes` reports ONE unsupported use: `connector %q used as exporter in %v pipeline but not used in any supported
receiver pipeline` (or the mirror image for a receiver-side use), where `%v` is `formatPipelineNamesWithSignal`: the
entries of `connectorsAsExporter[c]` (one per occurrence in a pipeline's list) whose signal is the unsupported one.
Which connector / signal is reported depends on Go map iteration and is not modelled; what is checked (monitor
`connMsgOk`, sound by `C09_connector_message_sound`) is that the reported use is a genuine unsupported use and that the
listed pipelines are exactly the pipelines of that signal using the connector on that side. -/

inductive Role | exp | recv
deriving DecidableEq, Repr

def Role.list (r : Role) (p : Pipeline) : List CompId :=
  match r with
  | .exp => p.exps
  | .recv => p.recv

/-- `formatPipelineNamesWithSignal(connectorsAs<Role>[c], s)`: one entry per occurrence of `c` in the list of a pipeline of signal `s` -/
def usesOf (cfg : Cfg) (role : Role) (c : CompId) (s : Sig) : List PipeId :=
  cfg.pipes.flatMap (fun p => if p.id.sig = s then ((role.list p).filter (fun x => x == c)).map (fun _ => p.id) else [])

/-- equal as multisets (the order of the printed list is Go map iteration order) -/
def sameBag {α : Type} [DecidableEq α] (a b : List α) : Bool :=
  a.all (fun x => a.count x == b.count x) && b.all (fun x => a.count x == b.count x)

def connMsgOk (cfg : Cfg) (role : Role) (c : CompId) (s : Sig) (listed : List PipeId) : Bool :=
  cfg.isConn c && !listed.isEmpty && sameBag listed (usesOf cfg role c s) &&
  (match role with
   | .exp => (asRecv cfg c).all (fun q => !(cfg.supp c s q.id.sig))
   | .recv => (asExp cfg c).all (fun p => !(cfg.supp c p.id.sig s)))

/-! ## a factory that fails in `buildComponents`

After `createNodes`, `createEdges` and `topo.Sort` succeeded, `buildComponents` calls the factories; the first factory
error is returned by `Build` (components created before it stay created, none is started). -/

inductive BuildErrW
  | build (e : BuildErr)   -- the configuration is rejected (no factory was called)
  | create                 -- a factory returned an error
deriving DecidableEq, Repr

def buildWith (cfg : Cfg) (failCreate : Node → Bool) : Option BuildErrW :=
  match build cfg with
  | some e => some (.build e)
  | none => if (nodes cfg).any (fun n => n.isComp && failCreate n) then some .create else none

/-! ## data flow through the built consumers

Every consumer hands the payload to each of its next consumers once (receiver: `fanoutconsumer` over its
capabilities nodes; capabilities node / processor: the single next; fan-out node: every exporter/connector
node; connector: its router = every next pipeline's capabilities node); an exporter keeps it.  `deliver`
is that recursion; it needs fuel because it is only well-founded on an acyclic graph (`none` = out of fuel).
The result lists, for each delivery, the nodes visited after `n` (the last one is the exporter). -/

def collect (f : Node → Option (List (List Node))) : List Node → Option (List (List Node))
  | [] => some []
  | m :: ms =>
    match f m, collect f ms with
    | some a, some b => some (a.map (m :: ·) ++ b)
    | _, _ => none

def deliver (sc : Node → List Node) : Nat → Node → Option (List (List Node))
  | 0, _ => none
  | k + 1, n => if n.isExp then some [[]] else collect (deliver sc k) (sc n)

/-- what an instrumented payload shows at the exporter: processors and connectors visited, in order -/
def trailOf (w : List Node) : List Node :=
  w.filter (fun n => match n with | .proc _ _ => true | .conn _ _ _ => true | _ => false)

/-! ## config-level reference (no graph): the routes the configuration describes -/

/-- pipelines `q` that receive from connector `c` used as exporter in `p` (supported signal pair) -/
def nextPipes (cfg : Cfg) (p : Pipeline) (c : CompId) : List Pipeline :=
  (asRecv cfg c).filter (fun q => cfg.supp c p.id.sig q.id.sig)

/-- the pipeline-level "feeds" relation of connector usage -/
def feeds (cfg : Cfg) (p q : Pipeline) : Bool :=
  p.exps.any (fun c => cfg.isConn c && (c ∈ q.recv) && cfg.supp c p.id.sig q.id.sig)

end OtelVerif.C09
