/-! C09 model (stub) -/
namespace OtelVerif.C09
end OtelVerif.C09
