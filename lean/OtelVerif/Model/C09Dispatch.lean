import OtelVerif.Model.C09
import OtelVerif.Gen.GraphDispatch
/-!
# C09: the per-signal(-pair) dispatch of the graph builder, read from the REGENERATED tables

`Gen/GraphDispatch.lean` is rewritten on every run by `translators/cmd/graphdispatch` from `service/internal/graph/*.go`
and `service/internal/builders/*.go`.  The model takes `Cfg.supp c e r` ("`connectorStability(factory, e, r)` is not
`Undefined`") as data; this file says how the real `connectorStability` computes it from the factory — through the table
— so that `Props/C09.lean` can prove that it reads the factory's own (e, r) cell.  Core Lean only.
-/
namespace OtelVerif.C09
open OtelVerif.Gen

/-- the cell of `connectorStability`'s nested switch reached for `(expType, recType)`: the signal pair named by the factory
method whose result is returned, and whether it sits behind the `f.(xconnector.Factory)` assertion -/
def stabCell (e r : Sig) : Option (Nat × Nat × Bool) :=
  (GraphDispatch.stabilityTable.find? (fun row => row.1 == e.toNat && row.2.1 == r.toNat)).map
    (fun row => (row.2.2.1, row.2.2.2.1, row.2.2.2.2.1))

/-- `connectorStability(f, e, r) != StabilityLevelUndefined` for a factory whose `<A>To<B>Stability()` methods are defined exactly
on the pairs `M`; `isX` = the factory implements `xconnector.Factory` (otherwise every guarded cell is `Undefined`);
a pair without a cell falls through to the final `return StabilityLevelUndefined` -/
def stabilityDefined (M : Sig → Sig → Bool) (isX : Bool) (e r : Sig) : Bool :=
  match stabCell e r with
  | some (a, b, guarded) =>
    if guarded && !isX then false else
    match Sig.ofNat? a, Sig.ofNat? b with
    | some a, some b => M a b
    | _, _ => false
  | none => false

/-- the cell of `connectorNode.buildComponent` → `build<Signal>` reached for a connector node (receiver-side signal `r`,
exporter-side signal `e`): the pair named by the `builder.Create<A>To<B>` that is called and the signal of the router it gets -/
def connBuildCell (r e : Sig) : Option (Nat × Nat × Nat) :=
  (GraphDispatch.connBuildTable.find? (fun row => row.1 == r.toNat && row.2.1 == e.toNat)).map
    (fun row => (row.2.2.1, row.2.2.2.1, row.2.2.2.2.1))

/-- a builder row hands the request to the factory methods of its own signal (pair) -/
def builderRowOk (row : Nat × (Nat × Nat) × (Nat × Nat) × (Nat × Nat) × String × String × String) : Bool :=
  row.2.1 == row.2.2.1 && row.2.1 == row.2.2.2.1

def builderHas (kind : Nat) (a b : Nat) : Bool :=
  GraphDispatch.builderTable.any (fun row => row.1 == kind && row.2.1 == (a, b))

def nodeRowOk (row : Nat × Nat × Nat × String) : Bool := row.2.1 == row.2.2.1

def nodeHas (kind : Nat) (s : Nat) : Bool :=
  GraphDispatch.nodeTable.any (fun row => row.1 == kind && row.2.1 == s)

end OtelVerif.C09
