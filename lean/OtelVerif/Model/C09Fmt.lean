import OtelVerif.Model.C09
/-! token formats shared by the C09 and C10 drivers (core Lean only) -/
namespace OtelVerif.C09.Fmt
open OtelVerif.C09

def parseIds (s : String) : Option (List Nat) :=
  if s = "-" then some [] else (s.splitOn ",").mapM String.toNat?

def digitSig (c : Char) : Option Sig := if c.isDigit then Sig.ofNat? (c.toNat - '0'.toNat) else none

def parsePairs (s : String) : Option (List (Sig × Sig)) :=
  if s = "-" then some [] else
  (s.splitOn ",").mapM (fun t =>
    match t.toList with
    | [a, b] =>
      match digitSig a, digitSig b with
      | some x, some y => some (x, y)
      | _, _ => none
    | _ => none)

def pipeTok (p : PipeId) : String := s!"{p.sig.toNat}.{p.name}"

def nodeTok : Node → String
  | .recv s i => s!"r{i}:{s.toNat}"
  | .exp s i => s!"e{i}:{s.toNat}"
  | .proc p i => s!"p{i}@{pipeTok p}"
  | .conn es rs i => s!"c{i}:{es.toNat}{rs.toNat}"
  | .cap p => s!"cap@{pipeTok p}"
  | .fanout p => s!"fan@{pipeTok p}"

def sortStr (l : List String) : List String := l.mergeSort (fun a b => !(decide (b < a)))

/-- inverse of `nodeTok` on component nodes -/
def parseNode (t : String) : Option Node :=
  match t.toList with
  | 'r' :: rest =>
    match (String.ofList rest).splitOn ":" with
    | [i, s] => do let i ← i.toNat?; let s ← s.toNat?.bind Sig.ofNat?; pure (Node.recv s i)
    | _ => none
  | 'e' :: rest =>
    match (String.ofList rest).splitOn ":" with
    | [i, s] => do let i ← i.toNat?; let s ← s.toNat?.bind Sig.ofNat?; pure (Node.exp s i)
    | _ => none
  | 'c' :: rest =>
    match (String.ofList rest).splitOn ":" with
    | [i, ss] =>
      match ss.toList with
      | [a, b] => do let i ← i.toNat?; let a ← digitSig a; let b ← digitSig b; pure (Node.conn a b i)
      | _ => none
    | _ => none
  | 'p' :: rest =>
    match (String.ofList rest).splitOn "@" with
    | [i, pt] =>
      match pt.splitOn "." with
      | [s, n] => do let i ← i.toNat?; let s ← s.toNat?.bind Sig.ofNat?; let n ← n.toNat?; pure (Node.proc ⟨s, n⟩ i)
      | _ => none
    | _ => none
  | _ => none

end OtelVerif.C09.Fmt
