/-! C10 model (stub) -/
namespace OtelVerif.C10
end OtelVerif.C10
