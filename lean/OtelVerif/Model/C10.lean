import OtelVerif.Model.C09
/-!
# C10 model: start / stop order of a built service, with failures

Mirrors
* `service/internal/graph/graph.go` `StartAll` (reverse of `topo.Sort`, capabilities/fan-out nodes skipped,
  returns at the first `Start` error) and `ShutdownAll` (order of `topo.Sort`, every component, errors collected),
* `service/extensions/extensions.go` `Start` (in `computeOrder` order, returns at the first error) and
  `Shutdown` (reverse order, every extension, errors collected), `extensions/graph.go computeOrder`,
* `service/service.go` `Start` (extensions, then pipelines) and `Shutdown` (pipelines, then extensions),
* `otelcol/collector.go` `setupConfigurationComponents` (a failed `Start` is followed by `Shutdown`),
* `internal/sharedcomponent` (`startOnce` / `stopOnce`).

`topo.Sort` is a parameter: the two orders (`gorder` for the component graph, `eorder` for the extensions)
are inputs constrained by `IsTopo`; nothing else about gonum is assumed.  Core Lean only.
-/
namespace OtelVerif.C10
open OtelVerif.C09

/-- an extension and the ids returned by its `Dependencies()` -/
structure Ext where
  id : Nat
  deps : List Nat
deriving DecidableEq, Repr

/-- `extensions.New`: `extMap` is keyed by id — an id listed more than once in `service::extensions` is one
extension (the entries are the same component: same id, same `Dependencies()`) -/
def dedupExts : List Ext → List Ext
  | [] => []
  | e :: l => e :: (dedupExts l).filter (fun x => x.id != e.id)

/-- things that have `Start`/`Shutdown`: pipeline components (graph nodes), extensions, and the single inner
component behind the per-signal instances of a shared receiver -/
inductive Comp
  | node (n : Node)
  | ext (e : Nat)
  | inner (id : CompId)
  /-- the single inner component behind the per-signal instances of an exporter built on `sharedcomponent` -/
  | innerExp (id : CompId)
  /-- … of a connector built on `sharedcomponent` (instances = its (signal, signal) pairs) -/
  | innerConn (id : CompId)
deriving DecidableEq, Repr

/-- `x` occurs before `y` -/
def Before {α : Type} (l : List α) (x y : α) : Prop := ∃ l1 l2 l3, l = l1 ++ x :: l2 ++ y :: l3

/-- a result of `topo.Sort` on (nodes `ns`, edges `E`): every node once, every edge forward -/
structure IsTopo {α : Type} (ns : List α) (E : List (α × α)) (order : List α) : Prop where
  nodup : order.Nodup
  mem : ∀ n, n ∈ order ↔ n ∈ ns
  fwd : ∀ a b, (a, b) ∈ E → Before order a b

/-- `computeOrder`'s graph: an edge from each dependency to its dependent -/
def extEdges (exts : List Ext) : List (Nat × Nat) := exts.flatMap (fun e => e.deps.map (fun d => (d, e.id)))

/-! ## the loops -/

/-- `for … { if err := Start(); err != nil { return err } }` over the planned sequence: outcomes so far -/
def runStarts (failS : Comp → Bool) : List Comp → List (Comp × Bool)
  | [] => []
  | c :: rest => if failS c then [(c, false)] else (c, true) :: runStarts failS rest

def allOk (l : List (Comp × Bool)) : Bool := l.all (·.2)

/-- `for … { if err := Shutdown(); err != nil { errs = append(errs, err); continue } }` -/
def runStops (failT : Comp → Bool) (plan : List Comp) : List (Comp × Bool) := plan.map (fun c => (c, !failT c))

/-- components of the graph in an order, capabilities / fan-out nodes skipped (`node.(component.Component)`) -/
def compsOf (order : List Node) : List Comp := (order.filter Node.isComp).map Comp.node

structure Sys where
  cfg : Cfg
  exts : List Ext
  /-- `topo.Sort(componentGraph)` as returned inside `StartAll` -/
  gorderStart : List Node
  /-- `topo.Sort(componentGraph)` as returned inside `ShutdownAll` -/
  gorderStop : List Node
  /-- `computeOrder` (kept in `extensionIDs`) -/
  eorder : List Nat

structure Outcome where
  starts : List (Comp × Bool)
  startOk : Bool
  stops : List (Comp × Bool)
  stopOk : Bool
deriving Repr

/-- `Extensions.Start` -/
def extStart (sys : Sys) (failS : Comp → Bool) : List (Comp × Bool) := runStarts failS (sys.eorder.map Comp.ext)

def isRecvN : Node → Bool
  | .recv _ _ => true
  | _ => false

/-- `Graph.StartAll` start sequence: reverse topological order, capabilities / fan-out nodes skipped, receivers
moved behind every other component (`startOrder` in the repaired `StartAll`) -/
def startPlan (order : List Node) : List Comp :=
  ((order.reverse.filter Node.isComp).filter (fun n => !(isRecvN n)) ++
   (order.reverse.filter Node.isComp).filter isRecvN).map Comp.node

/-- `Graph.StartAll` -/
def graphStart (sys : Sys) (failS : Comp → Bool) : List (Comp × Bool) := runStarts failS (startPlan sys.gorderStart)

/-- `Graph.ShutdownAll` stop sequence: topological order, capabilities / fan-out nodes skipped, exporters moved
behind every other component (`stopOrder` in the repaired `ShutdownAll`) -/
def stopPlan (order : List Node) : List Comp :=
  ((order.filter Node.isComp).filter (fun n => !(n.isExp)) ++ (order.filter Node.isComp).filter Node.isExp).map Comp.node

/-- `Service.Start`: extensions; only if they all started, the pipelines -/
def serviceStart (sys : Sys) (failS : Comp → Bool) : List (Comp × Bool) :=
  let l1 := extStart sys failS
  if allOk l1 then l1 ++ graphStart sys failS else l1

/-- `Service.Shutdown`: pipelines (topological order), then extensions (reverse start order); never stops early -/
def serviceShutdown (sys : Sys) (failT : Comp → Bool) : List (Comp × Bool) :=
  runStops failT (stopPlan sys.gorderStop) ++ runStops failT (sys.eorder.reverse.map Comp.ext)

/-- the collector: `Start`; `Shutdown` exactly once, whether or not `Start` failed -/
def run (sys : Sys) (failS failT : Comp → Bool) : Outcome :=
  let s := serviceStart sys failS
  let t := serviceShutdown sys failT
  { starts := s, startOk := allOk s, stops := t, stopOk := allOk t }

/-! ## `Service.Start` with its notification hooks

`Service.Start` = `Extensions.Start`; `NotifyConfig` (every `ConfigWatcher` extension is called, the errors are
collected, any error aborts); `Pipelines.StartAll`; `NotifyPipelineReady` (`PipelineWatcher.Ready`, returns at the
first error).  `Start` can therefore fail although no component's `Start` failed.  `failN` / `failR` say which
extension's `NotifyConfig` / `Ready` returns an error (every test extension implements both interfaces). -/

structure StartTrace where
  exts : List (Comp × Bool)
  /-- `NotifyConfig` calls -/
  notifies : List (Nat × Bool)
  graph : List (Comp × Bool)
  /-- `Ready` calls -/
  readies : List (Nat × Bool)
  ok : Bool
deriving Repr

/-- `for … { if err := Ready(); err != nil { return err } }` -/
def runUntil (fail : Nat → Bool) : List Nat → List (Nat × Bool)
  | [] => []
  | e :: rest => if fail e then [(e, false)] else (e, true) :: runUntil fail rest

def serviceStartH (sys : Sys) (failS : Comp → Bool) (failN failR : Nat → Bool) : StartTrace :=
  let l1 := extStart sys failS
  if !(allOk l1) then { exts := l1, notifies := [], graph := [], readies := [], ok := false } else
  let ns := sys.eorder.map (fun e => (e, !(failN e)))
  if !(ns.all (·.2)) then { exts := l1, notifies := ns, graph := [], readies := [], ok := false } else
  let l2 := graphStart sys failS
  if !(allOk l2) then { exts := l1, notifies := ns, graph := l2, readies := [], ok := false } else
  let rs := runUntil failR sys.eorder
  { exts := l1, notifies := ns, graph := l2, readies := rs, ok := rs.all (·.2) }

/-! ## `Service.Shutdown` with its notification hook

`Service.Shutdown` = `NotifyPipelineNotReady` (every `PipelineWatcher` extension's `NotReady` is called in start order,
the errors are collected — the loop never returns early); `Pipelines.ShutdownAll`; `Extensions.Shutdown`; the errors
are joined.  A failing `NotReady` is reported but stops nothing.  `failQ` says which extension's `NotReady` returns an
error. -/

structure StopTrace where
  /-- `NotReady` calls -/
  notreadies : List (Nat × Bool)
  stops : List (Comp × Bool)
  ok : Bool
deriving Repr

def serviceShutdownH (sys : Sys) (failT : Comp → Bool) (failQ : Nat → Bool) : StopTrace :=
  let qs := sys.eorder.map (fun e => (e, !(failQ e)))
  let t := serviceShutdown sys failT
  { notreadies := qs, stops := t, ok := qs.all (·.2) && allOk t }

/-! ## `service.New` and the collector around it -/

inductive NewErr
  | connector    -- graph.Build: connector use without supported counterpart
  | cycle        -- graph.Build: connector cycle
  | extMissing   -- computeOrder: dependency on an extension that is not in the service's list
  | extCycle     -- computeOrder: topo.Sort failed
deriving DecidableEq, Repr

/-- `computeOrder`: `unable to find extension … on which extension … depends` -/
def extMissing (exts : List Ext) : Bool :=
  exts.any (fun e => e.deps.any (fun d => !(exts.any (fun x => x.id == d))))

/-- one peeling round on the extension dependency graph: release every extension all of whose dependencies are released -/
def extPeelStep (exts : List Ext) (done : List Nat) : List Nat :=
  done ++ (exts.filter (fun e => !(decide (e.id ∈ done)) && e.deps.all (fun d => decide (d ∈ done)))).map (·.id)

def extPeel (exts : List Ext) : Nat → List Nat
  | 0 => []
  | k + 1 => extPeelStep exts (extPeel exts k)

/-- `topo.Sort` on the dependency graph succeeds (same modelling of gonum's success condition as `C09.sortable`) -/
def extSortable (exts : List Ext) : Bool := exts.all (fun e => decide (e.id ∈ extPeel exts exts.length))

/-! ### content of `computeOrder`'s two errors

`unable to find extension <d> on which extension <e> depends` and `unable to order extensions by dependencies, cycle found
[a -> b -> … -> a]` (one cycle found by gonum's `topo.DirectedCyclesIn`; which one is not modelled).  The monitors below are
evaluated on the real messages; `Props/C10.lean` proves that whatever they accept is a genuine reason. -/

def extMissingMsgOk (exts : List Ext) (d e : Nat) : Bool :=
  exts.any (fun x => x.id == e && x.deps.contains d) && !(exts.any (fun x => x.id == d))

/-- every hop is an edge of `computeOrder`'s graph (dependency → dependent) -/
def extChainOk (E : List (Nat × Nat)) : Nat → List Nat → Bool
  | _, [] => true
  | a, b :: l => E.contains (a, b) && extChainOk E b l

/-- the printed cycle: at least one hop, returns to its first element, every hop a declared dependency -/
def extCycleMsgOk (exts : List Ext) : List Nat → Bool
  | [] => false
  | a :: rest => !rest.isEmpty && (rest.getLast? == some a) && extChainOk (extEdges exts) a rest

/-- `service.New`: `initGraph` (`graph.Build`) first, then `initExtensions` (`extensions.New` → `computeOrder`:
unknown dependency, then `topo.Sort`).  (An extension depending on *itself* makes gonum's `SetEdge` panic inside
`New`; no extension of this repository implements `Dependencies()`, the case is not modelled.) -/
def newService (cfg : Cfg) (exts : List Ext) : Option NewErr :=
  match build cfg with
  | some .connector => some .connector
  | some .cycle => some .cycle
  | none => if extMissing exts then some .extMissing else if !(extSortable exts) then some .extCycle else none

/-- `service.New` when a component factory may fail: the factories are called inside `graph.Build` (`initGraph`), i.e.
before the extensions are created and ordered -/
inductive NewErrW
  | new (e : NewErr)
  | create
deriving DecidableEq, Repr

def newServiceWith (cfg : Cfg) (exts : List Ext) (failCreate : Node → Bool) : Option NewErrW :=
  match buildWith cfg failCreate with
  | some (.build .connector) => some (.new .connector)
  | some (.build .cycle) => some (.new .cycle)
  | some .create => some .create
  | none => if extMissing exts then some (.new .extMissing) else if !(extSortable exts) then some (.new .extCycle) else none

/-- `service.New` when an EXTENSION factory may fail as well: `initGraph` (all of `graph.Build`, component factories included) comes first,
then `initExtensions` → `extensions.New`: the factory of every listed entry is called in list order and the first error is returned
(`failed to create extension …`) before `computeOrder` looks at the dependencies.  The pipeline components created by `graph.Build`
exist by then; none is ever started. -/
def newServiceWithX (cfg : Cfg) (exts : List Ext) (failCreate : Node → Bool) (failExt : Nat → Bool) : Option NewErrW :=
  match buildWith cfg failCreate with
  | some (.build .connector) => some (.new .connector)
  | some (.build .cycle) => some (.new .cycle)
  | some .create => some .create
  | none =>
    if exts.any (fun e => failExt e.id) then some .create
    else if extMissing exts then some (.new .extMissing) else if !(extSortable exts) then some (.new .extCycle) else none

/-- `otelcol/collector.go setupConfigurationComponents` + shutdown: `service.New`; when it fails the error is
returned and neither `Start` nor `Shutdown` of that service is ever called; otherwise `run` -/
def lifetime (sys : Sys) (failS failT : Comp → Bool) : Outcome :=
  match newService sys.cfg sys.exts with
  | some _ => { starts := [], startOk := false, stops := [], stopOk := true }
  | none => run sys failS failT

/-! ## who sends data to whom -/

def expand (E : List (Node × Node)) (l : List Node) : List Node :=
  l.flatMap (fun n => if n.isComp then [n] else succOf E n)

/-- the components `b` hands data to: its successors, looking through capabilities / fan-out nodes
(at most two in a row: capabilities → fan-out) -/
def compSucc (E : List (Node × Node)) (b : Node) : List Node :=
  (expand E (expand E (succOf E b))).filter Node.isComp

/-- all components of a built service -/
def allComps (sys : Sys) : List Comp :=
  ((nodes sys.cfg).filter Node.isComp).map Comp.node ++ sys.exts.map (fun e => Comp.ext e.id)

/-! ## the monitor: the property's clauses, executable, evaluated on a log (model's or implementation's) -/

def idx {α : Type} [DecidableEq α] (l : List α) (x : α) : Nat := l.idxOf x

/-- `x` and `y` both occur and the first `x` precedes the first `y` -/
def beforeB {α : Type} [DecidableEq α] (l : List α) (x y : α) : Bool :=
  decide (x ∈ l) && decide (y ∈ l) && decide (idx l x < idx l y)

def nodupB {α : Type} [DecidableEq α] : List α → Bool
  | [] => true
  | a :: l => !(decide (a ∈ l)) && nodupB l

/-- executable test for `IsTopo` (used for examples and by the driver on observed orders) -/
def isTopoB {α : Type} [DecidableEq α] (ns : List α) (E : List (α × α)) (order : List α) : Bool :=
  nodupB order && order.all (fun n => decide (n ∈ ns)) && ns.all (fun n => decide (n ∈ order)) &&
    E.all (fun e => beforeB order e.1 e.2)

def isNodeC : Comp → Bool
  | .node _ => true
  | _ => false

def isExtC : Comp → Bool
  | .ext _ => true
  | _ => false

/-! start clauses on the sequence of started components `st` (in order) -/

/-- at most once, and only components of this service -/
def startsOnce (sys : Sys) (st : List Comp) : Bool :=
  nodupB st && st.all (fun c => decide (c ∈ allComps sys))

/-- downstream first: whoever `b` sends data to has started before `b` -/
def startsDownstreamFirst (sys : Sys) (st : List Comp) : Bool :=
  (nodes sys.cfg).all (fun b => !(decide (Comp.node b ∈ st)) ||
    (compSucc (edges sys.cfg) b).all (fun a => beforeB st (Comp.node a) (Comp.node b)))

/-- every extension before every pipeline component -/
def startsExtFirst (sys : Sys) (st : List Comp) : Bool :=
  st.all (fun c => !(isNodeC c) || sys.exts.all (fun e => beforeB st (Comp.ext e.id) c))

/-- dependency before dependent -/
def startsDepFirst (sys : Sys) (st : List Comp) : Bool :=
  sys.exts.all (fun e => !(decide (Comp.ext e.id ∈ st)) || e.deps.all (fun d => beforeB st (Comp.ext d) (Comp.ext e.id)))

def checkStarts (sys : Sys) (st : List Comp) : Bool :=
  startsOnce sys st && startsDownstreamFirst sys st && startsExtFirst sys st && startsDepFirst sys st

/-! stop clauses on the sequence of stopped components `sp` (in order) -/

/-- exactly once: no repetition, every component of the service, nothing else -/
def stopsExactlyOnce (sys : Sys) (sp : List Comp) : Bool :=
  nodupB sp && (allComps sys).all (fun c => decide (c ∈ sp)) && sp.all (fun c => decide (c ∈ allComps sys))

/-- upstream first -/
def stopsUpstreamFirst (sys : Sys) (sp : List Comp) : Bool :=
  (nodes sys.cfg).all (fun b => !(b.isComp) || (compSucc (edges sys.cfg) b).all (fun a => beforeB sp (Comp.node b) (Comp.node a)))

/-- extensions last -/
def stopsExtLast (sys : Sys) (sp : List Comp) : Bool :=
  sp.all (fun c => !(isExtC c) || ((nodes sys.cfg).filter Node.isComp).all (fun n => beforeB sp (Comp.node n) c))

/-- dependent before dependency -/
def stopsDependentFirst (sys : Sys) (sp : List Comp) : Bool :=
  sys.exts.all (fun e => e.deps.all (fun d => beforeB sp (Comp.ext e.id) (Comp.ext d)))

def checkStops (sys : Sys) (sp : List Comp) : Bool :=
  stopsExactlyOnce sys sp && stopsUpstreamFirst sys sp && stopsExtLast sys sp && stopsDependentFirst sys sp

/-- only the last start may have failed (nothing is started after a failed start) -/
def failedStartIsLast (starts : List (Comp × Bool)) : Bool :=
  match starts.reverse with
  | [] => true
  | _ :: earlier => earlier.all (·.2)

/-- failure clauses: nothing is started after a failed start, and the reported results are right -/
def checkFailures (o : Outcome) : Bool :=
  failedStartIsLast o.starts && (o.startOk == allOk o.starts) && (o.stopOk == allOk o.stops)

/-- a successful start started everything -/
def startedAll (sys : Sys) (o : Outcome) : Bool :=
  !o.startOk || (allComps sys).all (fun c => decide (c ∈ o.starts.map (·.1)))

def check (sys : Sys) (o : Outcome) : Bool :=
  checkStarts sys (o.starts.map (·.1)) && checkStops sys (o.stops.map (·.1)) && checkFailures o && startedAll sys o

/-! ## shared component (`internal/sharedcomponent`): what the inner component sees -/

inductive Call | start | stop
deriving DecidableEq, Repr

/-- `Component[V]`: `hostWrapper != nil` / `startOnce` and `stopOnce` -/
structure Shared where
  started : Bool := false
  stopped : Bool := false
deriving DecidableEq, Repr

/-- one `Start`/`Shutdown` call on any of the per-signal instances; the inner call it causes, if any -/
def Shared.step (s : Shared) : Call → Shared × Option Call
  | .start => if s.started then (s, none) else ({ s with started := true }, some .start)
  | .stop => if s.stopped then (s, none) else ({ s with stopped := true }, some .stop)

def Shared.runCalls (s : Shared) : List Call → List Call
  | [] => []
  | c :: rest =>
    match (s.step c).2 with
    | some i => i :: (s.step c).1.runCalls rest
    | none => (s.step c).1.runCalls rest

/-! ## instances of a component built on `sharedcomponent`: where the inner `Start` / `Shutdown` happen -/

/-- one shared component: its inner component and the graph nodes that are its instances -/
structure Group where
  inner : Comp
  insts : List Comp
deriving Repr

/-- walk a start (or stop) log and insert, after the instance call that triggers it, the call on the inner
component: each instance call reaches the `sharedcomponent` wrapper (unless `skip`: the test wrapper's own injected
failure returns before it) and goes through `Shared.step`; `innerOk` is the inner call's own result -/
def withInner (call : Call) (groups : List Group) (skip : Comp → Bool) (innerOk : Comp → Bool) :
    List (Group × Shared) → List (Comp × Bool) → List (Comp × Bool)
  | _, [] => []
  | st, (c, ok) :: rest =>
    match st.find? (fun gs => gs.1.insts.contains c) with
    | some (g, sh) =>
      if skip c then (c, ok) :: withInner call groups skip innerOk st rest else
      let (sh', ev) := sh.step call
      let st' := st.map (fun (gs : Group × Shared) => if gs.1.inner == g.inner then (gs.1, sh') else gs)
      match ev with
      | some _ => (c, ok) :: (g.inner, innerOk g.inner) :: withInner call groups skip innerOk st' rest
      | none => (c, ok) :: withInner call groups skip innerOk st' rest
    | none => (c, ok) :: withInner call groups skip innerOk st rest

/-! ## several service lifetimes in one process over one persistent `sharedcomponent.Map`

A factory may keep its `sharedcomponent.Map` for the life of the process (the otlp receiver does).  `LoadOrStore`
returns the wrapper stored under the key or stores a fresh one; the wrapper's first `Shutdown` (inside `stopOnce`,
whatever the inner `Shutdown` returns) removes it from the map (`removeFunc`). -/

/-- state of a wrapper after a sequence of instance calls -/
def Shared.after (s : Shared) (calls : List Call) : Shared := calls.foldl (fun st c => (st.step c).1) s

/-- one service lifetime seen from one key of the map: the entry before, the instance calls of this lifetime ↦ the entry
after and the calls that reached the inner component -/
def mapLifetime (entry : Option Shared) (calls : List Call) : Option Shared × List Call :=
  let sh := entry.getD {}                       -- LoadOrStore
  let fin := sh.after calls
  (if fin.stopped then none else some fin, sh.runCalls calls)   -- removeFunc runs inside stopOnce

/-- the inner calls of each of several consecutive lifetimes -/
def mapLifetimes : Option Shared → List (List Call) → List (List Call)
  | _, [] => []
  | entry, calls :: rest => (mapLifetime entry calls).2 :: mapLifetimes (mapLifetime entry calls).1 rest

/-- consecutive service lifetimes in one process -/
structure LifetimeIn where
  sys : Sys
  failS : Comp → Bool
  failT : Comp → Bool

def lifetimes (ls : List LifetimeIn) : List Outcome := ls.map (fun l => lifetime l.sys l.failS l.failT)

end OtelVerif.C10
