import OtelVerif.Model.C10
import OtelVerif.Gen.LifecycleShape
/-!
# C10: the start / stop loops INTERPRETED from their regenerated shape

`Gen/LifecycleShape.lean` is rewritten on every run by `translators/cmd/lifecycleshape` from `Graph.StartAll/ShutdownAll`,
`Extensions.Start/Shutdown/Notify*` and `Service.Start/Shutdown`: direction of each loop, the node type moved behind all
others, what the error branch of each call does, the sequence of calls of the two `Service` methods.  This file gives
those shapes a meaning; `Props/C10.lean` (`C10_loops_as_regenerated`) proves that for the shapes of the current tree the
interpretation IS the documented model (`serviceStartH`, `serviceShutdownH`) all theorems are about; the driver executes
the interpreted version.  Core Lean only.
-/
namespace OtelVerif.C10
open OtelVerif.C09 OtelVerif.Gen

/-- membership in the Go node type with the translator's code (0 receiverNode, 1 processorNode, 2 exporterNode, 3 connectorNode) -/
def nodeOfType (t : Nat) (n : Node) : Bool :=
  match t, n with
  | 0, .recv _ _ => true
  | 1, .proc _ _ => true
  | 2, .exp _ _ => true
  | 3, .conn _ _ _ => true
  | _, _ => false

/-- the ordering loop of `StartAll` / `ShutdownAll`: direction, capabilities / fan-out nodes skipped (by the run loop), nodes of the
deferred type moved behind all others -/
def planOfShape (reverse : Bool) (deferred : Nat) (order : List Node) : List Comp :=
  let o := if reverse then order.reverse else order
  (((o.filter Node.isComp).filter (fun n => !(nodeOfType deferred n))) ++ (o.filter Node.isComp).filter (nodeOfType deferred)).map Comp.node

/-- a run loop: stop at the first error, or collect and go on -/
def runLoopShape (stopsAtError : Bool) (fail : Comp → Bool) (plan : List Comp) : List (Comp × Bool) :=
  if stopsAtError then runStarts fail plan else runStops fail plan

def extPlanShape (reverse : Bool) (eorder : List Nat) : List Comp :=
  (if reverse then eorder.reverse else eorder).map Comp.ext

def hookLoopShape (stopsAtError : Bool) (fail : Nat → Bool) (l : List Nat) : List (Nat × Bool) :=
  if stopsAtError then runUntil fail l else l.map (fun e => (e, !(fail e)))

/-- one call of `Service.Start` (call codes of the translator); `none` = a call `Service.Start` is not known to make -/
def startCall (sys : Sys) (failS : Comp → Bool) (failN failR : Nat → Bool) (tr : StartTrace) : Nat → Option (StartTrace × Bool)
  | 0 =>
    let l := runLoopShape LifecycleShape.extStartStopsAtError failS (extPlanShape LifecycleShape.extStartReverse sys.eorder)
    some ({ tr with exts := l }, allOk l)
  | 1 =>
    let l := hookLoopShape LifecycleShape.notifyConfigStopsAtError failN sys.eorder
    some ({ tr with notifies := l }, l.all (·.2))
  | 2 =>
    let l := runLoopShape LifecycleShape.startAllStopsAtError failS
      (planOfShape LifecycleShape.startAllReverse LifecycleShape.startAllDeferred sys.gorderStart)
    some ({ tr with graph := l }, allOk l)
  | 3 =>
    let l := hookLoopShape LifecycleShape.readyStopsAtError failR sys.eorder
    some ({ tr with readies := l }, l.all (·.2))
  | _ => none

/-- `Service.Start`, step by step over the regenerated call sequence -/
def startSteps (sys : Sys) (failS : Comp → Bool) (failN failR : Nat → Bool) : List (Nat × Bool) → StartTrace → StartTrace
  | [], tr => tr
  | (code, returnsAtError) :: rest, tr =>
    match startCall sys failS failN failR tr code with
    | none => { tr with ok := false }
    | some (tr1, ok) =>
      let tr' : StartTrace := { tr1 with ok := tr1.ok && ok }
      if !ok && returnsAtError then tr' else startSteps sys failS failN failR rest tr'

def serviceStartShape (sys : Sys) (failS : Comp → Bool) (failN failR : Nat → Bool) : StartTrace :=
  startSteps sys failS failN failR LifecycleShape.serviceStart { exts := [], notifies := [], graph := [], readies := [], ok := true }

def stopCall (sys : Sys) (failT : Comp → Bool) (failQ : Nat → Bool) (tr : StopTrace) : Nat → Option (StopTrace × Bool)
  | 4 =>
    let l := hookLoopShape LifecycleShape.notReadyStopsAtError failQ sys.eorder
    some ({ tr with notreadies := l }, l.all (·.2))
  | 5 =>
    let l := runLoopShape LifecycleShape.shutdownAllStopsAtError failT
      (planOfShape LifecycleShape.shutdownAllReverse LifecycleShape.shutdownAllDeferred sys.gorderStop)
    some ({ tr with stops := tr.stops ++ l }, allOk l)
  | 6 =>
    let l := runLoopShape LifecycleShape.extShutdownStopsAtError failT (extPlanShape LifecycleShape.extShutdownReverse sys.eorder)
    some ({ tr with stops := tr.stops ++ l }, allOk l)
  | _ => none

/-- `Service.Shutdown`, step by step over the regenerated call sequence -/
def stopSteps (sys : Sys) (failT : Comp → Bool) (failQ : Nat → Bool) : List (Nat × Bool) → StopTrace → StopTrace
  | [], tr => tr
  | (code, returnsAtError) :: rest, tr =>
    match stopCall sys failT failQ tr code with
    | none => { tr with ok := false }
    | some (tr1, ok) =>
      let tr' : StopTrace := { tr1 with ok := tr1.ok && ok }
      if !ok && returnsAtError then tr' else stopSteps sys failT failQ rest tr'

def serviceShutdownShape (sys : Sys) (failT : Comp → Bool) (failQ : Nat → Bool) : StopTrace :=
  stopSteps sys failT failQ LifecycleShape.serviceShutdown { notreadies := [], stops := [], ok := true }

end OtelVerif.C10
