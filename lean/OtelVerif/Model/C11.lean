import OtelVerif.Model.C11Types
import OtelVerif.Gen.StatusTable
/-!
# C11 model: status FSM, reporter, shared-component host wrapper

Mirrors `service/internal/status/status.go` (`fsm.transition`, `reporter.ReportStatus`,
`reporter.ReportOKIfStarting`) and `internal/sharedcomponent/sharedcomponent.go` (`hostWrapper`).
The transition table is **regenerated** (`Gen.StatusTable.table`).
-/
namespace OtelVerif.C11
open OtelVerif.Gen

/-- `_, ok := m.transitions[cur][new]` -/
def allowedIn (tbl : List (St × List St)) (a b : St) : Bool :=
  match tbl.lookup a with
  | some l => l.contains b
  | Option.none => false

def allowed : St → St → Bool := allowedIn StatusTable.table

/-- a report to the per-instance FSM -/
inductive Report
  | status (s : St)      -- ReportStatus(id, NewEvent(s))
  | okIfStarting         -- ReportOKIfStarting(id)
deriving DecidableEq, Repr

/-- `fsm.transition`: new current status and the event delivered to watchers, if any -/
def transition (cur : St) (s : St) : St × Option St :=
  if allowed cur s then (s, some s) else (cur, Option.none)

def step (cur : St) : Report → St × Option St
  | .status s => transition cur s
  | .okIfStarting => if cur = .starting then transition cur .ok else (cur, Option.none)

/-- final state after a list of reports -/
def runState (cur : St) : List Report → St
  | [] => cur
  | r :: rs => runState (step cur r).1 rs

/-- events delivered to watchers -/
def run (cur : St) : List Report → List St
  | [] => []
  | r :: rs =>
    match (step cur r).2 with
    | some e => e :: run (step cur r).1 rs
    | Option.none => run (step cur r).1 rs

/-! ## reporter: one FSM per instance id, created in `StatusNone` on first use -/

abbrev Inst := Nat

structure Reporter where
  fsms : List (Inst × St) := []
deriving Repr

def Reporter.cur (r : Reporter) (i : Inst) : St := (r.fsms.lookup i).getD .none

def Reporter.set (r : Reporter) (i : Inst) (s : St) : Reporter :=
  { fsms := (i, s) :: r.fsms.filter (fun p => p.1 != i) }

def Reporter.report (r : Reporter) (i : Inst) (rep : Report) : Reporter × Option St :=
  let (s, ev) := step (r.cur i) rep
  (r.set i s, ev)

/-- all events, tagged with the instance, in delivery order -/
def Reporter.runAll (r : Reporter) : List (Inst × Report) → List (Inst × St)
  | [] => []
  | (i, rep) :: rest =>
    match (r.report i rep).2 with
    | some e => (i, e) :: (r.report i rep).1.runAll rest
    | Option.none => (r.report i rep).1.runAll rest

/-! ## `IsPath`: the executable path checker used as the monitor on implementation traces -/

def isPathIn (tbl : List (St × List St)) : St → List St → Bool
  | _, [] => true
  | cur, e :: es => allowedIn tbl cur e && isPathIn tbl e es

def isPath : St → List St → Bool := isPathIn StatusTable.table

/-- the property's clauses on an event sequence, table-independent (executable; `DocPath` in
`Props/C11.lean` is the `Prop` form, `C11_docPathB_iff` ties them).  Used as the search oracle on
implementation traces, so that it still judges correctly when the regenerated table has changed. -/
def docPathB : St → List St → Bool
  | _, [] => true
  | cur, e :: es =>
    (e != cur) && (e != .none) && (cur != .none || e == .starting) && (cur != .permanent || e == .stopping) &&
    (cur != .fatal) && (cur != .stopped) && docPathB e es

/-- every `OK` in the sequence is immediately preceded by `Starting` (`prev` = status before the
first event): what must hold of an instance whose only source of `OK` is the automatic
`ReportOKIfStarting` -/
def okPred : St → List St → Bool
  | _, [] => true
  | prev, e :: es => (e != .ok || prev == .starting) && okPred e es

/-! ## the service's automatic reports around a component's life (graph.go `StartAll` / `ShutdownAll`,
extensions.go `Start` / `Shutdown`) interleaved with the component's own reports -/

structure Life where
  started : Bool            -- `Start` was reached (an earlier component's failure aborts start-up)
  duringStart : List St     -- reported by the component from inside `Start`
  failStart : Bool
  allStarted : Bool         -- start-up of the whole graph succeeded (then the component runs)
  running : List St         -- reported by the component while running
  duringStop : List St      -- reported from inside `Shutdown` (only possible if it was started: it needs the host)
  failStop : Bool
deriving Repr

/-- the reports the per-instance FSM receives, in order -/
def Life.reports (l : Life) : List Report :=
  (if l.started then
    [Report.status .starting] ++ l.duringStart.map Report.status ++
      (if l.failStart then [Report.status .permanent] else [Report.okIfStarting]) ++
      (if l.allStarted then l.running.map Report.status else [])
   else []) ++
  [Report.status .stopping] ++ (if l.started then l.duringStop.map Report.status else []) ++
  [if l.failStop then Report.status .permanent else Report.status .stopped]

def Life.events (l : Life) : List St := run .none l.reports

/-! ## a component shared by two instances, as the service drives it

`X` is the instance whose `Start` is called first (it starts the single inner component and creates the
host wrapper), `Y` the second one (attached later: the ring is replayed to it).  On shutdown `P` is the
instance whose `Shutdown` is called first (it performs the real shutdown, whichever instance it is) and
`Q` the other one (its `Shutdown` is a no-op returning nil).  Around every call the graph reports for the
instance it is handling (`graph.go StartAll/ShutdownAll`), the shared component reports through the
wrapper to every attached instance (`sharedcomponent.go`). -/
structure SharedLife where
  startedX : Bool        -- `Start` reached the first instance (an earlier component's failure aborts start-up)
  startedY : Bool        -- … and the second one (implies `startedX`)
  duringStart : List St  -- reported by the component from inside its (single) `Start`
  allStarted : Bool
  running : List St
  pIsX : Bool            -- the instance shut down first is the one that was started first
  duringStop : List St
  failStop : Bool
  failStart : Bool := false  -- the component's (single) `Start` fails: the wrapper reports PermanentError to the attached instance, the
                             -- graph reports it again for that instance and aborts start-up (then `startedY = allStarted = false`)
deriving Repr

def lastN (n : Nat) (l : List St) : List St := l.drop (l.length - n)

/-- what the ring holds when `Y` attaches -/
def SharedLife.ringAtAttach (cap : Nat) (l : SharedLife) : List St := lastN cap (St.starting :: l.duringStart)

def SharedLife.final (l : SharedLife) : St := if l.failStop then .permanent else .stopped

/-- reports made through the wrapper during the real shutdown, as received by an attached instance -/
def SharedLife.wrapperStop (l : SharedLife) (attached : Bool) : List Report :=
  if l.startedX && attached then
    [Report.status .stopping] ++ l.duringStop.map Report.status ++ [Report.status l.final]
  else []

def SharedLife.stopPart (l : SharedLife) (attached isP : Bool) : List Report :=
  if isP then [Report.status .stopping] ++ l.wrapperStop attached ++ [Report.status l.final]
  else l.wrapperStop attached ++ [Report.status .stopping, Report.status .stopped]

def SharedLife.reportsX (l : SharedLife) : List Report :=
  (if l.startedX then
    [Report.status .starting, Report.status .starting] ++ l.duringStart.map Report.status ++
      (if l.failStart then [Report.status .permanent, Report.status .permanent] else [Report.okIfStarting]) ++
      (if l.allStarted then l.running.map Report.status else [])
   else []) ++ l.stopPart l.startedX l.pIsX

def SharedLife.reportsY (cap : Nat) (l : SharedLife) : List Report :=
  (if l.startedY then
    [Report.status .starting] ++ (l.ringAtAttach cap).map Report.status ++ [Report.okIfStarting] ++
      (if l.allStarted then l.running.map Report.status else [])
   else []) ++ l.stopPart l.startedY (!l.pIsX)

def SharedLife.eventsX (l : SharedLife) : List St := run .none l.reportsX
def SharedLife.eventsY (cap : Nat) (l : SharedLife) : List St := run .none (l.reportsY cap)

/-! ## shared component host wrapper -/

/-- `hostWrapper`: `sources` are per-instance FSM states (the status reporters of the hosts the
shared component was started with), `ring` holds the last `ringCap` reported events, oldest first. -/
structure Wrapper where
  sources : List St := []
  ring : List St := []
deriving Repr, DecidableEq

def pushRing (cap : Nat) (ring : List St) (e : St) : List St :=
  let r := ring ++ [e]
  r.drop (r.length - cap)

/-- `hostWrapper.Report` -/
def Wrapper.report (cap : Nat) (w : Wrapper) (e : St) : Wrapper :=
  { sources := w.sources.map (fun s => (transition s e).1)
    ring := if w.sources.isEmpty then w.ring else pushRing cap w.ring e }

/-- `hostWrapper.addSource`: replay the ring (oldest first) into the new source, then append it.
The source is the status reporter of one component instance; the graph has already reported
`StatusStarting` for that instance before it calls `Start` (graph.go `StartAll`), so its FSM is in
`starting` when the replay begins. -/
def Wrapper.addSource (w : Wrapper) : Wrapper :=
  { w with sources := w.sources ++ [runState .starting (w.ring.map Report.status)] }

inductive WOp | report (e : St) | attach
deriving DecidableEq, Repr

def Wrapper.apply (cap : Nat) (w : Wrapper) : WOp → Wrapper
  | .report e => w.report cap e
  | .attach => w.addSource

def Wrapper.runOps (cap : Nat) (w : Wrapper) (ops : List WOp) : Wrapper := ops.foldl (Wrapper.apply cap) w


/-! ## the same wrapper, remembering what every source's watcher has been shown

`WrapperE.sources` pairs each source's FSM state with the events delivered for that instance since the graph's own `Starting`
report (which precedes `Start`, hence the attachment). -/

structure WrapperE where
  sources : List (St × List St) := []
  ring : List St := []
deriving Repr, DecidableEq

def WrapperE.report (cap : Nat) (w : WrapperE) (e : St) : WrapperE :=
  { sources := w.sources.map (fun s => ((transition s.1 e).1, s.2 ++ (transition s.1 e).2.toList))
    ring := if w.sources.isEmpty then w.ring else pushRing cap w.ring e }

def WrapperE.addSource (w : WrapperE) : WrapperE :=
  { w with sources := w.sources ++ [(runState .starting (w.ring.map Report.status), run .starting (w.ring.map Report.status))] }

def WrapperE.apply (cap : Nat) (w : WrapperE) : WOp → WrapperE
  | .report e => w.report cap e
  | .attach => w.addSource

def WrapperE.runOps (cap : Nat) (w : WrapperE) (ops : List WOp) : WrapperE := ops.foldl (WrapperE.apply cap) w

end OtelVerif.C11
