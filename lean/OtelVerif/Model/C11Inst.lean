/-!
# C11 — `componentstatus.InstanceID`: which pipelines an instance id names

`component/componentstatus/instance.go`: `NewInstanceID(componentID, kind, pipelineIDs…)`, `WithPipelines(pipelineIDs…)`,
`addPipelines` (split the encoded string, append, `sort.Strings`, `slices.Compact`, join) and `AllPipelineIDs`.  The per-instance
state machines of `service/internal/status` are keyed by instance id and the watchers tell instances apart by it; `graph.Build`
assembles the id of a receiver / exporter / connector node shared by several pipelines with one `WithPipelines` call per pipeline,
in Go-map iteration order.  Pipeline ids are modelled by their rank in `sort.Strings` order.
-/
namespace OtelVerif.C11

/-- insert into a strictly increasing list, dropping a duplicate (`sort.Strings` + `slices.Compact`) -/
def insertU (x : Nat) : List Nat → List Nat
  | [] => [x]
  | y :: ys => if x < y then x :: y :: ys else if x = y then y :: ys else y :: insertU x ys

def normPipes (l : List Nat) : List Nat := l.foldr insertU []

structure IID where
  comp : Nat
  kind : Nat
  /-- what `AllPipelineIDs` enumerates, in order -/
  pipes : List Nat
deriving DecidableEq, Repr

/-- `NewInstanceID` -/
def IID.new (comp kind : Nat) (ps : List Nat) : IID := ⟨comp, kind, normPipes ps⟩

/-- `WithPipelines`: a NEW id (the receiver is not modified) -/
def IID.withPipelines (i : IID) (ps : List Nat) : IID := { i with pipes := normPipes (i.pipes ++ ps) }

/-- `AllPipelineIDs(f)` where `f` returns false at its `k`-th call: the ids `f` was called with -/
def IID.visit (i : IID) (k : Nat) : List Nat := i.pipes.take k

end OtelVerif.C11
