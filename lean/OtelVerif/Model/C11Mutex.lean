import OtelVerif.Model.C11
/-!
# C11 — sub-step model of `reporter.ReportStatus` / `reporter.ReportOKIfStarting` under `reporter.mu`

`service/internal/status/status.go`:

```
func (r *reporter) ReportStatus(id, ev) {        func (r *reporter) ReportOKIfStarting(id) {
    r.mu.Lock()                                       r.mu.Lock()
    defer r.mu.Unlock()                               defer r.mu.Unlock()
    if err := r.componentFSM(id).transition(ev) …     fsm := r.componentFSM(id)
}                                                     if fsm.current.Status() == StatusStarting { fsm.transition(OK) … }
                                                  }
func (m *fsm) transition(ev) error {
    if _, ok := m.transitions[m.current.Status()][ev.Status()]; !ok { return … }   -- READ
    m.current = ev                                                                  -- WRITE
    m.onTransition(ev)                                                              -- CALLBACK (watchers are notified)
    return nil
}
```

Every call is split into the sub-steps `Lock`, `read` (the FSM's current status is read), `write` (the decision taken on the
value READ EARLIER is applied), `callback` (the watcher is told) and `Unlock`; any number of goroutines, each with its own
program of calls, are interleaved at sub-step granularity by an arbitrary scheduler (`fire s t` = goroutine `t` takes its next
sub-step; `none` = it cannot: finished, or blocked in `Lock`).  `useLock` says whether the two methods take `r.mu` — regenerated
from the source (`Gen.StatusTable.reporterLocked`).  `Lemmas/C11Mutex.lean` proves that with the lock every schedule delivers
exactly what the ATOMIC model (`Reporter.runAll`) delivers for the calls taken in the order in which they passed `Lock`, and
that without it the property is violated by a concrete schedule.
-/
namespace OtelVerif.C11.Mutex
open OtelVerif.C11

inductive Phase
  | idle                      -- between two calls
  | locked                    -- `r.mu.Lock()` has returned
  | read (seen : St)          -- `m.current.Status()` has been read
  | wrote (ev : Option St)    -- `m.current = ev` done (`some`), or the report was rejected / skipped (`none`); callback pending
  | notified                  -- `m.onTransition(ev)` has returned; the deferred `Unlock` is pending
deriving DecidableEq, Repr

structure Thread where
  todo : List (Inst × Report)
  phase : Phase := .idle
deriving DecidableEq, Repr

structure MState where
  useLock : Bool
  threads : List Thread
  holder : Option Nat := none
  rep : Reporter := {}
  /-- callbacks delivered to the watcher, in delivery order -/
  log : List (Inst × St) := []
  /-- ghost: the calls (goroutine, instance, report) in the order in which they passed `Lock` -/
  hist : List (Nat × Inst × Report) := []
deriving Repr

def init (useLock : Bool) (progs : List (List (Inst × Report))) : MState :=
  { useLock := useLock, threads := progs.map (fun p => { todo := p }) }

/-- goroutine `t` takes its next sub-step -/
def fire (s : MState) (t : Nat) : Option MState :=
  match s.threads[t]? with
  | Option.none => Option.none
  | some th =>
    match th.todo with
    | [] => Option.none
    | (i, r) :: rest =>
      match th.phase with
      | .idle =>
        if s.useLock && s.holder.isSome then Option.none   -- blocked in `Lock`
        else some { s with threads := s.threads.set t { th with phase := .locked }
                           holder := if s.useLock then some t else s.holder
                           hist := s.hist ++ [(t, i, r)] }
      | .locked => some { s with threads := s.threads.set t { th with phase := .read (s.rep.cur i) } }
      | .read seen =>
        some { s with threads := s.threads.set t { th with phase := .wrote (step seen r).2 }
                      rep := if (step seen r).2.isSome then s.rep.set i (step seen r).1 else s.rep }
      | .wrote ev =>
        some { s with threads := s.threads.set t { th with phase := .notified }
                      log := s.log ++ ev.toList.map (fun e => (i, e)) }
      | .notified =>
        some { s with threads := s.threads.set t { todo := rest, phase := .idle }
                      holder := if s.useLock then Option.none else s.holder }

def runSched (s : MState) : List Nat → Option MState
  | [] => some s
  | t :: ts => (fire s t).bind (fun s' => runSched s' ts)

/-- the calls in the order in which they passed `Lock` -/
def MState.ops (s : MState) : List (Inst × Report) := s.hist.map (·.2)

/-- goroutine `t`'s calls that have passed `Lock`, in that order -/
def MState.taken (s : MState) (t : Nat) : List (Inst × Report) := (s.hist.filter (fun p => p.1 == t)).map (·.2)

/-- the atomic model's reporter after a list of calls -/
def after (r : Reporter) (ops : List (Inst × Report)) : Reporter := ops.foldl (fun r op => (r.report op.1 op.2).1) r

end OtelVerif.C11.Mutex
