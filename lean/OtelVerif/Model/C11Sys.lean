import OtelVerif.Model.C11
import OtelVerif.Gen.StatusGlue
/-!
# C11 — the service's status glue as code-shaped programs

What reaches the per-instance state machines of `service/internal/status` is produced by five pieces of glue code.  This file
models each of them branch by branch, as a generator of the reports `(instance, report)` handed to the reporter, in order:

* `service/internal/graph/graph.go` `StartAll` (loop: `ReportStatus(Starting)`, `comp.Start`, on error `ReportStatus(PermanentError)`
  and **return**, else `ReportOKIfStarting`) and `ShutdownAll` (loop: `Stopping`, `comp.Shutdown`, on error `PermanentError` and
  **continue**, else `Stopped`), `HostWrapper.Report` (a component's own report goes to the reporter under ITS instance id);
* `service/extensions/extensions.go` `Start` / `Shutdown` (the same two loops; extensions are handed the bare host, which is not a
  `componentstatus.Reporter`, so their own reports vanish in `componentstatus.ReportStatus`);
* `service/service.go` `Start` (extensions, then pipelines — not reached when an extension fails) / `Shutdown` (pipelines, then
  extensions in reverse);
* `internal/sharedcomponent/sharedcomponent.go` `Component.Start` / `Shutdown` (`startOnce` / `stopOnce`, the `hostWrapper == nil`
  branches, the not-a-Reporter host branch) and `hostWrapper.Report` / `addSource` (fan-out to the attached instances' reporters,
  replay ring) — any number of shared components, each represented by any number of instances.

`Sys.ops` is the whole report history of a service run; `Sys.events i` what the watchers are shown for instance `i`
(`Reporter.runAll`, the atomic reporter model of `Model/C11.lean`).  `Life` / `SharedLife` of `Model/C11.lean` are the per-instance
projections (`Props/C11.lean`: `C11_sys_plain_is_life`, `C11_sys_shared_pair_is_sharedlife`).
-/
namespace OtelVerif.C11
open OtelVerif.Gen

/-- what a component does on its own: statuses reported from inside `Start`, while running, from inside `Shutdown`; whether
`Start` / `Shutdown` return an error -/
structure Script where
  duringStart : List St := []
  failStart : Bool := false
  running : List St := []
  duringStop : List St := []
  failStop : Bool := false
deriving Repr, DecidableEq

abbrev Op := Inst × Report

/-! ## `internal/sharedcomponent` -/

/-- `hostWrapper`: the attached sources are `componentstatus.Reporter`s of the hosts the instances were started with; in the service
that is `graph.HostWrapper{InstanceID}`, whose `Report` is `host.Reporter.ReportStatus(InstanceID, ev)` — so a source is an
instance id.  `ring` = `previousEvents`, oldest first. -/
structure HW where
  sources : List Inst := []
  ring : List St := []
deriving Repr, DecidableEq

/-- `hostWrapper.Report` -/
def HW.report (cap : Nat) (h : HW) (e : St) : HW × List Op :=
  ({ h with ring := if h.sources.isEmpty then h.ring else pushRing cap h.ring e }, h.sources.map (fun i => (i, Report.status e)))

/-- `hostWrapper.addSource` -/
def HW.addSource (h : HW) (i : Inst) : HW × List Op :=
  ({ h with sources := h.sources ++ [i] }, h.ring.map (fun e => (i, Report.status e)))

def HW.reportAll (cap : Nat) (h : HW) : List St → HW × List Op
  | [] => (h, [])
  | e :: es => let (h1, o1) := h.report cap e; let (h2, o2) := HW.reportAll cap h1 es; (h2, o1 ++ o2)

/-- `sharedcomponent.Component[V]` around an inner component that behaves like `script` -/
structure SC where
  script : Script
  hw : Option HW := Option.none     -- `c.hostWrapper`
  startOnce : Bool := false         -- `c.startOnce` has fired
  stopOnce : Bool := false          -- `c.stopOnce` has fired
  innerStarts : Nat := 0            -- ghost: calls of the inner component's `Start`
  innerStops : Nat := 0             -- ghost: calls of the inner component's `Shutdown`
deriving Repr, DecidableEq

/-- `Component.Start(ctx, host)`; `hostReports` = `host.(componentstatus.Reporter)` succeeds; `i` = the instance id behind that host.
Returns the new state, the reports made, and whether an error is returned. -/
def SC.start (cap : Nat) (c : SC) (i : Inst) (hostReports : Bool) : SC × List Op × Bool :=
  match c.hw with
  | Option.none =>
    if c.startOnce then (c, [], false)          -- `startOnce.Do` does nothing (unreachable: the once sets `hostWrapper` first)
    else
      let h0 : HW := {}
      let (h1, o1) := if hostReports then h0.addSource i else (h0, [])
      let (h2, o2) := HW.reportAll cap h1 StatusGlue.sharedStartPre     -- `c.hostWrapper.Report(NewEvent(StatusStarting))`
      let (h3, o3) := HW.reportAll cap h2 c.script.duringStart          -- the inner `Start`, given the wrapper as its host
      let (h4, o4) := if c.script.failStart then HW.reportAll cap h3 StatusGlue.sharedStartErr else (h3, [])
      ({ c with hw := some h4, startOnce := true, innerStarts := c.innerStarts + 1 }, o1 ++ o2 ++ o3 ++ o4, c.script.failStart)
  | some h =>
    if hostReports then let (h1, o1) := h.addSource i; ({ c with hw := some h1 }, o1, false)
    else (c, [], false)

/-- `Component.Shutdown(ctx)` -/
def SC.shutdown (cap : Nat) (c : SC) : SC × List Op × Bool :=
  if c.stopOnce then (c, [], false)
  else
    match c.hw with
    | Option.none =>
      -- never started: the inner `Shutdown` runs without a host, nothing can be reported
      ({ c with stopOnce := true, innerStops := c.innerStops + 1 }, [], c.script.failStop)
    | some h =>
      let (h1, o1) := HW.reportAll cap h StatusGlue.sharedStopPre
      let (h2, o2) := HW.reportAll cap h1 c.script.duringStop
      let (h3, o3) := HW.reportAll cap h2 (if c.script.failStop then StatusGlue.sharedStopErr else StatusGlue.sharedStopOk)
      ({ c with hw := some h3, stopOnce := true, innerStops := c.innerStops + 1 }, o1 ++ o2 ++ o3, c.script.failStop)

/-- the inner component reports while running (through the wrapper it was given as host; nothing before `Start`) -/
def SC.run (cap : Nat) (c : SC) : SC × List Op :=
  match c.hw with
  | Option.none => (c, [])
  | some h => let (h1, o) := HW.reportAll cap h c.script.running; ({ c with hw := some h1 }, o)

/-! ### the shared component on its own: a labelled transition system over arbitrary call sequences -/

inductive SCLabel
  | start (i : Inst) (hostReports : Bool)
  | shutdown
  | report (e : St)     -- the inner component reports `e` through its host (no effect before the first `Start`)
deriving Repr, DecidableEq

def SC.fire (cap : Nat) (c : SC) : SCLabel → SC × List Op
  | .start i hr => let r := c.start cap i hr; (r.1, r.2.1)
  | .shutdown => let r := c.shutdown cap; (r.1, r.2.1)
  | .report e =>
    match c.hw with
    | Option.none => (c, [])
    | some h => let r := h.report cap e; ({ c with hw := some r.1 }, r.2)

def SC.fireAll (cap : Nat) (c : SC) : List SCLabel → SC × List Op
  | [] => (c, [])
  | l :: ls => let r := c.fire cap l; let r2 := SC.fireAll cap r.1 ls; (r2.1, r.2 ++ r2.2)

/-! ## graph / extensions / service -/

inductive NodeKind
  | plain (sc : Script)     -- an ordinary component
  | shared (k : Nat)        -- one of the instances of shared component `k`
deriving Repr, DecidableEq

/-- a component instance as `StartAll` / `extensions.Start` see it: `instanceIDs[node.ID()]` + the component -/
structure Node where
  inst : Inst
  kind : NodeKind
deriving Repr, DecidableEq

/-- run-time state of the glue: the shared components, and which plain components hold a host (their `Start` was called) -/
structure GState where
  scs : List SC := []
  hosted : List Inst := []
deriving Repr, DecidableEq

def GState.sc (g : GState) (k : Nat) : SC := g.scs.getD k { script := {} }
def GState.setSc (g : GState) (k : Nat) (c : SC) : GState := { g with scs := g.scs.set k c }

/-- a plain component's own reports: `componentstatus.ReportStatus(host, ev)` — dropped unless the host is a Reporter -/
def ownReports (i : Inst) (hostReports : Bool) (l : List St) : List Op :=
  if hostReports then l.map (fun e => (i, Report.status e)) else []

/-- `comp.Start(ctx, &HostWrapper{host, instanceID})` / `ext.Start(ctx, host)` -/
def GState.startNode (cap : Nat) (g : GState) (n : Node) (hostReports : Bool) : GState × List Op × Bool :=
  match n.kind with
  | .plain sc => ({ g with hosted := n.inst :: g.hosted }, ownReports n.inst hostReports sc.duringStart, sc.failStart)
  | .shared k => let r := (g.sc k).start cap n.inst hostReports; (g.setSc k r.1, r.2.1, r.2.2)

/-- `comp.Shutdown(ctx)`: a plain component can report only through the host it was given in `Start` -/
def GState.stopNode (cap : Nat) (g : GState) (n : Node) (hostReports : Bool) : GState × List Op × Bool :=
  match n.kind with
  | .plain sc => (g, if g.hosted.contains n.inst then ownReports n.inst hostReports sc.duringStop else [], sc.failStop)
  | .shared k => let r := (g.sc k).shutdown cap; (g.setSc k r.1, r.2.1, r.2.2)

/-- `Graph.StartAll` / `Extensions.Start`: returns also whether it succeeded (`false` = returned the error of the first failing
`Start`; the remaining nodes are not visited) -/
def startAll (cap : Nat) (hostReports : Bool) (g : GState) : List Node → GState × List Op × Bool
  | [] => (g, [], true)
  | n :: rest =>
    let r := g.startNode cap n hostReports
    if r.2.2 then
      (r.1, [(n.inst, Report.status .starting)] ++ r.2.1 ++ [(n.inst, Report.status .permanent)], false)
    else
      let r2 := startAll cap hostReports r.1 rest
      (r2.1, [(n.inst, Report.status .starting)] ++ r.2.1 ++ [(n.inst, Report.okIfStarting)] ++ r2.2.1, r2.2.2)

/-- `Graph.ShutdownAll` / `Extensions.Shutdown`: every node is visited, errors are collected -/
def stopAll (cap : Nat) (hostReports : Bool) (g : GState) : List Node → GState × List Op
  | [] => (g, [])
  | n :: rest =>
    let r := g.stopNode cap n hostReports
    let r2 := stopAll cap hostReports r.1 rest
    (r2.1, [(n.inst, Report.status .stopping)] ++ r.2.1 ++
      [(n.inst, Report.status (if r.2.2 then .permanent else .stopped))] ++ r2.2)

/-! ### the same loops, INTERPRETED from the regenerated skeletons (`Gen/StatusGlue.lean`) -/

def GAct.op (i : Inst) : GAct → Op
  | .rep s => (i, Report.status s)
  | .okIf => (i, Report.okIfStarting)

/-- one loop of the glue: `isStart` selects `comp.Start` / `comp.Shutdown`; the result says whether every call succeeded -/
def loopAll (cap : Nat) (sk : LoopSkel) (isStart hostReports : Bool) (g : GState) : List Node → GState × List Op × Bool
  | [] => (g, [], true)
  | n :: rest =>
    let r := if isStart then g.startNode cap n hostReports else g.stopNode cap n hostReports
    let head := sk.pre.map (GAct.op n.inst) ++ r.2.1
    if r.2.2 then
      match sk.exit with
      | .ret => (r.1, head ++ sk.onErr.map (GAct.op n.inst), false)
      | .cont =>
        let r2 := loopAll cap sk isStart hostReports r.1 rest
        (r2.1, head ++ sk.onErr.map (GAct.op n.inst) ++ r2.2.1, false)
    else
      let r2 := loopAll cap sk isStart hostReports r.1 rest
      (r2.1, head ++ sk.post.map (GAct.op n.inst) ++ r2.2.1, r2.2.2)

/-- the running phase (only after a successful start-up): every plain component that holds a host and every shared component
reports its `running` statuses.  The order ACROSS instances is immaterial for what each instance's watcher is shown
(`C11_interleaving`); here: plain components in start order, then the shared components. -/
def runPlain (hostReports : Bool) : List Node → List Op
  | [] => []
  | n :: rest =>
    (match n.kind with
     | .plain sc => ownReports n.inst hostReports sc.running
     | .shared _ => []) ++ runPlain hostReports rest

def runShared (cap : Nat) : List SC → List SC × List Op
  | [] => ([], [])
  | c :: cs => let r := c.run cap; let r2 := runShared cap cs; (r.1 :: r2.1, r.2 ++ r2.2)

/-- a service: extensions (start order), pipeline component instances in the order `StartAll` visits them and in the order
`ShutdownAll` visits them (the two topological orders are inputs), the inner components of the shared components -/
structure Sys where
  exts : List Node := []
  startOrder : List Node
  stopOrder : List Node
  shared : List Script := []
deriving Repr

/-- the state before `service.Start`: every shared component fresh -/
def Sys.g0 (s : Sys) : GState := { scs := s.shared.map (fun sc => { script := sc }) }

/-- `Service.Start`: the layers in the regenerated order, each `if err != nil { return }` -/
def Sys.startLayers (cap : Nat) (s : Sys) : List GLayer → GState → GState × List Op × Bool
  | [], g => (g, [], true)
  | l :: ls, g =>
    let r := match l with
      | .extensions => loopAll cap StatusGlue.extStart true StatusGlue.extStart.hostWrapped g s.exts
      | .pipelines => loopAll cap StatusGlue.graphStart true StatusGlue.graphStart.hostWrapped g s.startOrder
    if r.2.2 then let r2 := Sys.startLayers cap s ls r.1; (r2.1, r.2.1 ++ r2.2.1, r2.2.2)
    else (r.1, r.2.1, false)

/-- `Service.Shutdown`: every layer, in the regenerated order, errors collected -/
def Sys.stopLayers (cap : Nat) (s : Sys) : List GLayer → GState → GState × List Op
  | [], g => (g, [])
  | l :: ls, g =>
    let r := match l with
      | .extensions => loopAll cap StatusGlue.extStop false StatusGlue.extStart.hostWrapped g
                         (if StatusGlue.extStopBackwards then s.exts.reverse else s.exts)
      | .pipelines => loopAll cap StatusGlue.graphStop false StatusGlue.graphStart.hostWrapped g s.stopOrder
    let r2 := Sys.stopLayers cap s ls r.1
    (r2.1, r.2.1 ++ r2.2)

/-- `service.Start`, the running phase, `service.Shutdown` — interpreted from the regenerated skeletons -/
def Sys.ops (cap : Nat) (s : Sys) : List Op :=
  let st := Sys.startLayers cap s StatusGlue.serviceStart s.g0
  let rs := if st.2.2 then runShared cap st.1.scs else (st.1.scs, [])
  let rn := if st.2.2 then runPlain StatusGlue.graphStart.hostWrapped s.startOrder ++ rs.2 else []
  let g2 : GState := { st.1 with scs := rs.1 }
  let sp := Sys.stopLayers cap s StatusGlue.serviceStop g2
  st.2.1 ++ rn ++ sp.2

/-- the same run written out with the DOCUMENTED loops `startAll` / `stopAll` (`C11_glue_as_documented`: equal to `Sys.ops` for the
regenerated skeletons) -/
def Sys.opsDoc (cap : Nat) (s : Sys) : List Op :=
  let e := startAll cap false s.g0 s.exts                              -- `ServiceExtensions.Start(ctx, srv.host)`
  let p := if e.2.2 then startAll cap true e.1 s.startOrder else (e.1, [], false)   -- `Pipelines.StartAll`, if reached
  let ok := e.2.2 && p.2.2
  let rs := if ok then runShared cap p.1.scs else (p.1.scs, [])
  let rn := if ok then runPlain true s.startOrder ++ rs.2 else []
  let g2 : GState := { p.1 with scs := rs.1 }
  let sp := stopAll cap true g2 s.stopOrder                           -- `Pipelines.ShutdownAll`
  let se := stopAll cap false sp.1 s.exts.reverse                     -- `ServiceExtensions.Shutdown`
  e.2.1 ++ p.2.1 ++ rn ++ sp.2 ++ se.2

/-- the events an instance is shown before its first `Stopping` -/
def beforeStopping (l : List St) : List St := l.takeWhile (fun e => e != .stopping)

def projOp (i : Inst) (p : Op) : Option Report := if p.1 = i then some p.2 else Option.none

/-- what the watchers are shown for instance `i` -/
def Sys.events (cap : Nat) (s : Sys) (i : Inst) : List St := run .none ((s.ops cap).filterMap (projOp i))

end OtelVerif.C11
