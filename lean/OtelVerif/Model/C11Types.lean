namespace OtelVerif.C11

/-- `componentstatus.Status` -/
inductive St | none | starting | ok | recoverable | permanent | fatal | stopping | stopped
deriving DecidableEq, Repr, Inhabited

def St.all : List St := [.none, .starting, .ok, .recoverable, .permanent, .fatal, .stopping, .stopped]

theorem St.mem_all (s : St) : s ∈ St.all := by cases s <;> simp [St.all]

def St.toNat : St → Nat
  | .none => 0 | .starting => 1 | .ok => 2 | .recoverable => 3 | .permanent => 4 | .fatal => 5 | .stopping => 6 | .stopped => 7

def St.ofNat? : Nat → Option St
  | 0 => some .none | 1 => some .starting | 2 => some .ok | 3 => some .recoverable | 4 => some .permanent
  | 5 => some .fatal | 6 => some .stopping | 7 => some .stopped | _ => Option.none

/-! ### the status-report skeleton of the service's glue loops (regenerated: `Gen/StatusGlue.lean`) -/

/-- a status statement of a loop body: `ReportStatus(instanceID, <event of status s>)` / `ReportOKIfStarting(instanceID)` -/
inductive GAct | rep (s : St) | okIf
deriving DecidableEq, Repr

/-- how the error branch of the component call leaves the iteration -/
inductive GExit | ret | cont
deriving DecidableEq, Repr

/-- `for … { pre…; if err := comp.Start/Shutdown(…); err != nil { onErr…; return|continue }; post… }` -/
structure LoopSkel where
  pre : List GAct
  onErr : List GAct
  exit : GExit
  post : List GAct
  /-- (start loops) the component is handed `&HostWrapper{…, InstanceID: instanceID}` — a `componentstatus.Reporter` — rather than the bare host -/
  hostWrapped : Bool
deriving DecidableEq, Repr

inductive GLayer | extensions | pipelines
deriving DecidableEq, Repr

end OtelVerif.C11
