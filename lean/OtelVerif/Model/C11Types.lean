namespace OtelVerif.C11

/-- `componentstatus.Status` -/
inductive St | none | starting | ok | recoverable | permanent | fatal | stopping | stopped
deriving DecidableEq, Repr, Inhabited

def St.all : List St := [.none, .starting, .ok, .recoverable, .permanent, .fatal, .stopping, .stopped]

theorem St.mem_all (s : St) : s ∈ St.all := by cases s <;> simp [St.all]

def St.toNat : St → Nat
  | .none => 0 | .starting => 1 | .ok => 2 | .recoverable => 3 | .permanent => 4 | .fatal => 5 | .stopping => 6 | .stopped => 7

def St.ofNat? : Nat → Option St
  | 0 => some .none | 1 => some .starting | 2 => some .ok | 3 => some .recoverable | 4 => some .permanent
  | 5 => some .fatal | 6 => some .stopping | 7 => some .stopped | _ => Option.none

end OtelVerif.C11
