import OtelVerif.Model.C11Sys
/-!
# C11 — sub-step model of `hostWrapper.Report` / `hostWrapper.addSource` under `hostWrapper.lock`

`internal/sharedcomponent/sharedcomponent.go`:

```
func (h *hostWrapper) Report(e) {                       func (h *hostWrapper) addSource(s) {
    h.lock.Lock(); defer h.lock.Unlock()                    h.lock.Lock(); defer h.lock.Unlock()
    if len(h.sources) > 0 { remember e in the ring }        h.previousEvents.Do(func(a) { s.Report(a) })   -- replay, oldest first
    for _, s := range h.sources { s.Report(e) }             h.sources = append(h.sources, s)
}                                                       }
```

Every call is split into `Lock`, the ring update / the start of the loop, ONE sub-step per delivery `s.Report(e)`, the append, and
`Unlock`; any number of goroutines (the component reporting from several goroutines, the graph attaching a late instance) are
interleaved at that granularity by an arbitrary scheduler.  `Lemmas/C11WLock.lean`: with the lock every schedule leaves the wrapper
and the sequence of deliveries exactly as the ATOMIC model (`HW.report` / `HW.addSource` of `Model/C11Sys.lean`) does for the calls in
`Lock` order; without it a late instance can miss a report for good.
-/
namespace OtelVerif.C11.WLock
open OtelVerif.C11

inductive WCall
  | report (e : St)
  | attach (i : Inst)
deriving DecidableEq, Repr

inductive WPhase
  | idle
  | locked                                -- `h.lock.Lock()` has returned
  | fanout (e : St) (rest : List Inst)    -- `Report`: ring updated, the `range h.sources` loop still has `rest` to go
  | replay (i : Inst) (rest : List St)    -- `addSource`: `previousEvents.Do` still has `rest` to go
  | finished                              -- body done, the deferred `Unlock` pending
deriving DecidableEq, Repr

structure WThread where
  todo : List WCall
  phase : WPhase := .idle
deriving DecidableEq, Repr

structure WState where
  useLock : Bool
  cap : Nat
  threads : List WThread
  holder : Option Nat := none
  hw : HW := {}
  /-- the deliveries `s.Report(e)`, in the order in which they are made -/
  out : List Op := []
  /-- ghost: the calls in the order in which they passed `Lock` -/
  hist : List (Nat × WCall) := []
deriving Repr

def init (useLock : Bool) (cap : Nat) (hw : HW) (progs : List (List WCall)) : WState :=
  { useLock := useLock, cap := cap, hw := hw, threads := progs.map (fun p => { todo := p }) }

/-- goroutine `t` takes its next sub-step -/
def fire (s : WState) (t : Nat) : Option WState :=
  match s.threads[t]? with
  | Option.none => Option.none
  | some th =>
    match th.todo with
    | [] => Option.none
    | c :: rest =>
      match th.phase, c with
      | .idle, _ =>
        if s.useLock && s.holder.isSome then Option.none
        else some { s with threads := s.threads.set t { todo := c :: rest, phase := .locked }
                           holder := if s.useLock then some t else s.holder
                           hist := s.hist ++ [(t, c)] }
      | .locked, .report e =>
        some { s with threads := s.threads.set t { todo := c :: rest, phase := .fanout e s.hw.sources }
                      hw := { s.hw with ring := if s.hw.sources.isEmpty then s.hw.ring else pushRing s.cap s.hw.ring e } }
      | .locked, .attach i =>
        some { s with threads := s.threads.set t { todo := c :: rest, phase := .replay i s.hw.ring } }
      | .fanout e (i :: is), _ =>
        some { s with threads := s.threads.set t { todo := c :: rest, phase := .fanout e is }
                      out := s.out ++ [(i, Report.status e)] }
      | .fanout _ [], _ => some { s with threads := s.threads.set t { todo := c :: rest, phase := .finished } }
      | .replay i (e :: es), _ =>
        some { s with threads := s.threads.set t { todo := c :: rest, phase := .replay i es }
                      out := s.out ++ [(i, Report.status e)] }
      | .replay i [], _ =>
        some { s with threads := s.threads.set t { todo := c :: rest, phase := .finished }
                      hw := { s.hw with sources := s.hw.sources ++ [i] } }
      | .finished, _ =>
        some { s with threads := s.threads.set t { todo := rest, phase := .idle }
                      holder := if s.useLock then Option.none else s.holder }

def runSched (s : WState) : List Nat → Option WState
  | [] => some s
  | t :: ts => (fire s t).bind (fun s' => runSched s' ts)

def WState.calls (s : WState) : List WCall := s.hist.map (·.2)

/-- the atomic model: one call = `HW.report` / `HW.addSource` -/
def applyCall (cap : Nat) (p : HW × List Op) : WCall → HW × List Op
  | .report e => ((p.1.report cap e).1, p.2 ++ (p.1.report cap e).2)
  | .attach i => ((p.1.addSource i).1, p.2 ++ (p.1.addSource i).2)

def applyCalls (cap : Nat) (p : HW × List Op) (cs : List WCall) : HW × List Op := cs.foldl (applyCall cap) p

end OtelVerif.C11.WLock
