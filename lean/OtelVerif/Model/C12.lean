/-! C12 model (stub) -/
namespace OtelVerif.C12
end OtelVerif.C12
