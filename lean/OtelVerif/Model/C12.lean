import OtelVerif.Gen.C12Consts
/-!
# C12 model — confmap resolution: merge, expansion, escaping, termination

Mirrors (branch by branch) `confmap/resolver.go Resolve`, `escapeDollarSigns`, `confmap/expand.go`
(`expandValueRecursively`, `expandValue`, `findURI`, `findAndExpandURI`, `expandURI`, `newLocation`),
`confmap/provider.go` (`Retrieved.AsString/AsRaw/AsConf`), `confmap/confmap.go` (`Merge`, `sanitize`,
`useExpandValue`) and the parts of koanf that `Resolve` goes through (`maps.Merge`, `maps.Flatten`,
`Koanf.Keys` (sorted), `maps.Unflatten`).

The code modelled is the *repaired* one (worktree commits `fix: confmap expansion replaces only the
reference it found…` and `fix: confmap keeps looking for references after an escaped one`): `findURI`
returns the offsets of the reference and skips escaped candidates.  The two pinned behaviours are kept
as `Mode.pinned` so the defects are kernel-checked witnesses in `Props/C12.lean`.

Strings are byte strings: `Str = List Char`, one `Char` per byte (the algorithm only compares bytes with
`$ { } :` and ASCII classes).  Core Lean only.
-/
namespace OtelVerif.C12

abbrev Str := List Char

/-! ## values (`any` restricted to what `checkRawConfType` admits, plus `expandedValue`) -/

mutual
inductive Val where
  | null
  | bool (b : Bool)
  | int (i : Int)
  | float (bits : Nat)
  | other (tag : Str)            -- any other atom (time.Time, uint64 …): opaque
  | str (s : Str)
  | list (xs : Vals)
  | map (kvs : KVs)
  | expanded (v : Val) (orig : Str)   -- expandedValue{Value, Original}
inductive Vals where
  | nil
  | cons (v : Val) (vs : Vals)
inductive KVs where
  | nil
  | cons (k : Str) (v : Val) (rest : KVs)
end

instance : Inhabited Val := ⟨.null⟩

def Vals.toList : Vals → List Val
  | .nil => []
  | .cons v vs => v :: vs.toList

def Vals.ofList : List Val → Vals
  | [] => .nil
  | v :: vs => .cons v (Vals.ofList vs)

def KVs.toList : KVs → List (Str × Val)
  | .nil => []
  | .cons k v r => (k, v) :: r.toList

def KVs.ofList : List (Str × Val) → KVs
  | [] => .nil
  | (k, v) :: r => .cons k v (KVs.ofList r)

def KVs.lookup (k : Str) : KVs → Option Val
  | .nil => none
  | .cons k' v r => if k' = k then some v else r.lookup k

/-- `b[k] = v` on an association list: replace in place, else append -/
def KVs.set (k : Str) (v : Val) : KVs → KVs
  | .nil => .cons k v .nil
  | .cons k' v' r => if k' = k then .cons k' v r else .cons k' v' (r.set k v)

def KVs.isEmpty : KVs → Bool
  | .nil => true
  | _ => false

def KVs.keys : KVs → List Str
  | .nil => []
  | .cons k _ r => k :: r.keys

/-! ## merge (`koanf maps.Merge(a, b)`: merge the later source `a` into the accumulated `b`) -/

/-- `for key, val := range a { … }` -/
def mergeKVs : KVs → KVs → KVs
  | .nil, b => b
  | .cons k v rest, b =>
    match b.lookup k with
    | none => mergeKVs rest (b.set k v)                             -- key does not exist in the target: add
    | some bv =>
      match v, bv with
      | .map am, .map bm => mergeKVs rest (b.set k (.map (mergeKVs am bm)))
      | _, _ => mergeKVs rest (b.set k v)

/-- `Retrieved.AsConf` of a source: nil → empty Conf; a map → that map; anything else is an error -/
def asConf : Val → Option KVs
  | .null => some .nil
  | .map m => some m
  | _ => none

/-- `retMap := New(); for each source: retMap.Merge(src)` -/
def mergeSources : List KVs → KVs := fun srcs => srcs.foldl (fun acc s => mergeKVs s acc) .nil

/-! ## string search (`findURI`) -/

def hasDollar (s : Str) : Bool := s.any (· == '$')
def hasColon (s : Str) : Bool := s.any (· == ':')
def hasClose (s : Str) : Bool := s.any (· == '}')

/-- `strings.Contains(s, "${")` -/
def hasOpen : Str → Bool
  | [] => false
  | [_] => false
  | c :: d :: r => (c == '$' && d == '{') || hasOpen (d :: r)

/-- `strings.Split(input, "}")` as (first segment, remaining segments) -/
def splitOnClose : Str → Str × List Str
  | [] => ([], [])
  | c :: cs =>
    let r := splitOnClose cs
    if c = '}' then ([], r.1 :: r.2) else (c :: r.1, r.2)

/-- inverse of `splitOnClose`: the text after the first `}` -/
def joinClose : Str → List Str → Str
  | s, [] => s
  | s, t :: ts => s ++ '}' :: joinClose t ts

/-- `strings.LastIndex(seg + "}", "${")` on a segment without `}`: `(seg[:open], seg[open+2:])` -/
def lastOpen : Str → Option (Str × Str)
  | [] => none
  | c :: cs =>
    match lastOpen cs with
    | some (p, b) => some (c :: p, b)
    | none =>
      match cs with
      | d :: b => if c = '$' ∧ d = '{' then some ([], b) else none
      | [] => none

/-- parity of the run of `$` that ends the string: `true` = odd.  The Go loop counts that run backwards
from `openIndex-1`; its parity is all that is used. -/
def oddRunFrom (p : Bool) (s : Str) : Bool := s.foldl (fun p c => if c = '$' then !p else false) p
def oddDollarRun (s : Str) : Bool := oddRunFrom false s

inductive Mode where
  | fixed    -- repaired code
  | pinned   -- code at the pinned commit (escaped candidate stops the search; ReplaceAll)
  deriving DecidableEq, Repr

inductive Cand where
  | found (pre body : Str)   -- expandable `${body}` after `pre` inside this segment
  | skip                     -- "check the next URI"
  | stop                     -- pinned code only: escaped candidate ends the search

/-- what `findURI` decides about the segment that ends at the first `}` -/
def candidate (mode : Mode) (hasDefault : Bool) (seg : Str) : Cand :=
  match lastOpen seg with
  | none => .skip                                            -- openIndex < 0
  | some (pre, body) =>
    if !hasDefault && !hasColon body then .skip              -- no default scheme and no `:` in `${…}`
    else if oddDollarRun pre then
      (match mode with | .fixed => .skip | .pinned => .stop)  -- escaped
    else .found pre body

/-- `findURI` over the `}`-separated segments; result `(input[:start], body, input[end:])` with
`input = before ++ "${" ++ body ++ "}" ++ after` -/
def findInSegs (mode : Mode) (hasDefault : Bool) : Str → List Str → Option (Str × Str × Str)
  | _, [] => none                                            -- no `}` left
  | seg, t :: ts =>
    match candidate mode hasDefault seg with
    | .found pre body => some (pre, body, joinClose t ts)
    | .stop => none
    | .skip => (findInSegs mode hasDefault t ts).map (fun r => (seg ++ '}' :: r.1, r.2.1, r.2.2))

def findURI (mode : Mode) (hasDefault : Bool) (input : Str) : Option (Str × Str × Str) :=
  let r := splitOnClose input
  findInSegs mode hasDefault r.1 r.2

/-! ## providers, `expandURI` -/

inductive Err where
  | dollarInName        -- "the uri … contains unsupported characters ('$')"
  | provider            -- the provider returned an error
  | invalidURI          -- newLocation: "invalid uri"
  | unsupportedScheme   -- retrieveValue: "scheme … is not supported"
  | noString            -- embedded reference to a value without unambiguous string representation
  | tooMany             -- errTooManyRecursiveExpansions
  | notMap              -- a source "cannot be used as a Conf"
  deriving DecidableEq, Repr

/-- `*Retrieved`: raw value and the optional string representation (`isSetString`) -/
structure Retrieved where
  raw : Val
  strRep : Option Str

/-- `Retrieved.AsString` -/
def Retrieved.asString (r : Retrieved) : Option Str :=
  match r.strRep with
  | some s => some s
  | none => match r.raw with
    | .str s => some s
    | _ => none

structure Env where
  mode : Mode := .fixed
  defaultScheme : Option Str := none
  /-- schemes with a registered provider -/
  schemes : List Str := []
  /-- `Provider.Retrieve(scheme:opaque)`; `none` = the provider returned an error -/
  prov : Str → Str → Option Retrieved
  /-- number of rounds of `expandValueRecursively`: the loop bound regenerated from `confmap/expand.go` (1000) -/
  fuel : Nat := OtelVerif.Gen.C12Consts.loopBound

def isLetter (c : Char) : Bool := ('a' ≤ c ∧ c ≤ 'z') ∨ ('A' ≤ c ∧ c ≤ 'Z')
def isSchemeChar (c : Char) : Bool := isLetter c ∨ ('0' ≤ c ∧ c ≤ '9') ∨ c = '+' ∨ c = '.' ∨ c = '-'

/-- `^[A-Za-z][A-Za-z0-9+.-]+$` -/
def validScheme : Str → Bool
  | c :: d :: r => isLetter c && (d :: r).all isSchemeChar
  | _ => false

/-- split at the first `:` -/
def splitColon : Str → Option (Str × Str)
  | [] => none
  | c :: cs => if c = ':' then some ([], cs) else (splitColon cs).map (fun r => (c :: r.1, r.2))

/-- `expandURI` on the text between `${` and `}` -/
def expandURI (env : Env) (body : Str) : Except Err Retrieved :=
  let uri : Str := if hasColon body then body else (env.defaultScheme.getD []) ++ ':' :: body
  match splitColon uri with
  | none => .error .invalidURI
  | some (scheme, name) =>
    if !validScheme scheme then .error .invalidURI              -- uriRegexp does not match
    else if hasDollar name then .error .dollarInName
    else if !env.schemes.contains scheme then .error .unsupportedScheme
    else match env.prov scheme name with
      | none => .error .provider
      | some r => .ok r

/-- `findAndExpandURI` -/
def findAndExpandURI (env : Env) (input : Str) : Except Err (Val × Bool) :=
  match findURI env.mode env.defaultScheme.isSome input with
  | none => .ok (.str input, false)
  | some (before, body, after) =>
    if before.isEmpty && after.isEmpty then
      -- uri == input: the value can be anything
      match expandURI env body with
      | .error e => .error e
      | .ok ret =>
        match ret.asString with
        | some s => .ok (.expanded ret.raw s, true)
        | none => .ok (ret.raw, true)
    else
      match expandURI env body with
      | .error e => .error e
      | .ok ret =>
        match ret.asString with
        | none => .error .noString
        | some repl =>
          match env.mode with
          | .fixed => .ok (.str (before ++ repl ++ after), true)
          | .pinned => .ok (.str (replaceAll input ('$' :: '{' :: body ++ ['}']) repl), true)
where
  /-- `strings.ReplaceAll` for a non-empty pattern -/
  replaceAll (s pat repl : Str) : Str := go s.length s pat repl
  go : Nat → Str → Str → Str → Str
    | 0, s, _, _ => s
    | _, [], _, _ => []
    | n+1, c :: cs, pat, repl =>
      if pat.isPrefixOf (c :: cs) then repl ++ go n ((c :: cs).drop pat.length) pat repl
      else c :: go n cs pat repl

/-! ## `expandValue` -/

/-- errors of a Go map iteration: any failing child may be the one reported, so all are collected -/
abbrev Errs := List Err

/-- the `case string:` branch of `expandValue` -/
def expandStr (env : Env) (s : Str) : Except Errs (Val × Bool) :=
  if !hasOpen s || !hasClose s then .ok (.str s, false)    -- "No URIs to expand."
  else match findAndExpandURI env s with
    | .error e => .error [e]
    | .ok r => .ok r

mutual
/-- `expandValue`: new value and `changed` -/
def expandValue (env : Env) : Val → Except Errs (Val × Bool)
  | .expanded v orig =>
    match expandValue env v with
    | .error e => .error e
    | .ok (e, changed) =>
      match e with
      | .expanded .. => .ok (e, changed)        -- "Return expanded values or strings verbatim."
      | .str _ => .ok (e, changed)
      | _ =>
        -- the original representation is expanded as well
        match expandStr env orig with
        | .error _ => .ok (e, changed)
        | .ok (.str o, oc) => .ok (.expanded e o, changed || oc)
        | .ok _ => .ok (e, changed)
  | .str s => expandStr env s
  | .list xs =>
    match expandVals env xs with
    | .error e => .error e
    | .ok (ys, c) => .ok (.list ys, c)
  | .map kvs =>
    match expandKVs env kvs with
    | (_, _, e :: es) => .error (e :: es)
    | (m, c, []) => .ok (.map m, c)
  | v => .ok (v, false)
def expandVals (env : Env) : Vals → Except Errs (Vals × Bool)
  | .nil => .ok (.nil, false)
  | .cons v vs =>
    match expandValue env v with
    | .error e => .error e                      -- first failing element, in order
    | .ok (v', c) =>
      match expandVals env vs with
      | .error e => .error e
      | .ok (vs', c') => .ok (.cons v' vs', c || c')
/-- map iteration order is random in Go: children are independent, errors are collected -/
def expandKVs (env : Env) : KVs → KVs × Bool × Errs
  | .nil => (.nil, false, [])
  | .cons k v rest =>
    let r := expandKVs env rest
    match expandValue env v with
    | .error e => (r.1, r.2.1, e ++ r.2.2)
    | .ok (v', c) => (.cons k v' r.1, c || r.2.1, r.2.2)
end

/-- `expandValueRecursively` with the loop bound as a parameter -/
def expandRec (env : Env) : Nat → Val → Except Errs Val
  | 0, _ => .error [.tooMany]
  | n+1, v =>
    match expandValue env v with
    | .error e => .error e
    | .ok (v', false) => .ok v'
    | .ok (v', true) => expandRec env n v'

/-! ## `escapeDollarSigns` -/

/-- `strings.ReplaceAll(s, "$$", "$")` -/
def unescape : Str → Str
  | [] => []
  | [c] => [c]
  | c :: d :: r => if c = '$' ∧ d = '$' then '$' :: unescape r else c :: unescape (d :: r)

mutual
def escapeDollarSigns : Val → Val
  | .str s => .str (unescape s)
  | .expanded v o => .expanded (escapeDollarSigns v) (unescape o)
  | .list xs => .list (escVals xs)
  | .map m => .map (escKVs m)
  | v => v
def escVals : Vals → Vals
  | .nil => .nil
  | .cons v vs => .cons (escapeDollarSigns v) (escVals vs)
def escKVs : KVs → KVs
  | .nil => .nil
  | .cons k v r => .cons k (escapeDollarSigns v) (escKVs r)
end

/-- what `Resolve` does with one value: expand to a fixed point, then un-escape -/
def resolveValue (env : Env) (v : Val) : Except Errs Val :=
  match expandRec env env.fuel v with
  | .error e => .error e
  | .ok v' => .ok (escapeDollarSigns v')

/-! ## `Resolve`: flatten, per-key expansion in sorted key order, unflatten -/

/-- koanf `maps.Flatten`: leaves are non-map values and empty maps -/
def flatten (pfx : List Str) : KVs → List (List Str × Val)
  | .nil => []
  | .cons k v rest =>
    (match v with
     | .map m => if m.isEmpty then [(pfx ++ [k], v)] else flatten (pfx ++ [k]) m
     | _ => [(pfx ++ [k], v)]) ++ flatten pfx rest

def joinKey : List Str → Str
  | [] => []
  | [k] => k
  | k :: ks => k ++ ':' :: ':' :: joinKey ks

/-- byte-wise `<` (Go string comparison used by `sort.Strings`) -/
def strLt : Str → Str → Bool
  | [], [] => false
  | [], _ :: _ => true
  | _ :: _, [] => false
  | a :: as, b :: bs => if a.toNat < b.toNat then true else if b.toNat < a.toNat then false else strLt as bs

/-- insert a value at a key path (`maps.Unflatten`, one key) -/
def insertPath : List Str → Val → KVs → KVs
  | [], _, m => m
  | [k], v, m => m.set k v
  | k :: k2 :: ks, v, m =>
    match m.lookup k with
    | some (.map sub) => m.set k (.map (insertPath (k2 :: ks) v sub))
    | some _ => m                      -- not reachable from leaf paths of a tree
    | none => m.set k (.map (insertPath (k2 :: ks) v .nil))

def unflatten (leaves : List (List Str × Val)) : KVs :=
  leaves.foldl (fun m kv => insertPath kv.1 kv.2 m) .nil

/-- the `for _, k := range retMap.AllKeys()` loop -/
def resolveLeaves (env : Env) : List (List Str × Val) → Except Errs (List (List Str × Val))
  | [] => .ok []
  | (p, v) :: rest =>
    match resolveValue env v with
    | .error e => .error e
    | .ok v' =>
      match resolveLeaves env rest with
      | .error e => .error e
      | .ok r => .ok ((p, v') :: r)

def sortedLeaves (m : KVs) : List (List Str × Val) :=
  (flatten [] m).mergeSort (fun a b => !strLt (joinKey b.1) (joinKey a.1))

/-- `Resolver.Resolve` without converters: sources → resolved config (with `expandedValue` leaves) -/
def resolve (env : Env) (srcs : List Val) : Except Errs KVs :=
  match srcs.mapM asConf with
  | none => .error [.notMap]
  | some ms =>
    match resolveLeaves env (sortedLeaves (mergeSources ms)) with
    | .error e => .error e
    | .ok leaves => .ok (unflatten leaves)

/-! ## reading the result: `sanitize` (ToStringMap) and `useExpandValue` (typed targets) -/

mutual
/-- `sanitizeExpanded(a, useOriginal)` -/
def sanitize (useOriginal : Bool) : Val → Val
  | .expanded v o => if useOriginal then .str o else sanitize useOriginal v   -- repaired: the Value is sanitized too
  | .list xs => .list (sanVals useOriginal xs)
  | .map m => .map (sanKVs useOriginal m)
  | v => v
def sanVals (useOriginal : Bool) : Vals → Vals
  | .nil => .nil
  | .cons v vs => .cons (sanitize useOriginal v) (sanVals useOriginal vs)
def sanKVs (useOriginal : Bool) : KVs → KVs
  | .nil => .nil
  | .cons k v r => .cons k (sanitize useOriginal v) (sanKVs useOriginal r)
end

/-- decoding a resolved value into a Go `string` field (`useExpandValue` then mapstructure, no weak typing):
`some s` = the field's value, `none` = decode error -/
def decodeString : Val → Option Str
  | .expanded _ o => some o          -- castTo(exp, useOriginal = true)
  | .str s => some s
  | .null => some []                 -- nil input leaves the zero value
  | _ => none

/-- decoding into a `*string` (or pointer to a named string type) field: a string target as well; `some none` = nil -/
def decodePtrString : Val → Option (Option Str)
  | .expanded _ o => some (some o)
  | .str s => some (some s)
  | .null => some none                -- nil input: the pointer stays nil
  | _ => none

/-- decoding the value under a key into `struct{ V string \`mapstructure:"v"\` }` -/
def decodeNestedString : Val → Option Str
  | .null => some []
  | .map m => (match m.lookup ['v'] with | none => some [] | some x => decodeString x)
  | .expanded .null _ => some []      -- zero value of the struct
  | .expanded (.map m) _ => (match m.lookup ['v'] with | none => some [] | some x => decodeString x)
  | _ => none                         -- "expected a map"

/-- `strings.Split(s, ",")` -/
def splitComma : Str → List Str
  | [] => [[]]
  | c :: r =>
    match splitComma r with
    | h :: t => if c = ',' then [] :: h :: t else (c :: h) :: t
    | [] => [[c]]

/-- one element of a stringy container after `sanitizeToStr`, decoded into a `string` -/
def decodeStrElem : Val → Option Str
  | .str s => some s
  | .expanded _ o => some o
  | .null => some []
  | _ => none

def decodeStrElems : Vals → Option (List Str)
  | .nil => some []
  | .cons v vs =>
    match decodeStrElem v, decodeStrElems vs with
    | some a, some b => some (a :: b)
    | _, _ => none

def decodeStrKVs : KVs → Option (List (Str × Str))
  | .nil => some []
  | .cons k v r =>
    match decodeStrElem v, decodeStrKVs r with
    | some a, some b => some ((k, a) :: b)
    | _, _ => none

/-- decoding into a `[]string` field: `useExpandValue` (stringy structure → originals), then `StringToSliceHookFunc(",")` -/
def decodeStringSlice : Val → Option (List Str)
  | .null => some []
  | .str s => some (if s.isEmpty then [] else splitComma s)
  | .list xs => decodeStrElems xs
  | .expanded .null _ => some []
  | .expanded (.list xs) _ => decodeStrElems xs
  | .expanded (.str s) _ => some (if s.isEmpty then [] else splitComma s)
  | _ => none

/-- decoding into a `map[string]string` field -/
def decodeStringMap : Val → Option (List (Str × Str))
  | .null => some []
  | .map m => decodeStrKVs m
  | .expanded .null _ => some []
  | .expanded (.map m) _ => decodeStrKVs m
  | _ => none

/-- decoding into a struct type with `UnmarshalText` that stores the text: only a plain string reaches `UnmarshalText`;
an expanded value arrives as its PARSED value (a struct is not a string target) -/
def decodeText : Val → Option Str
  | .str s => some s
  | .null => some []
  | .map _ => some []
  | .expanded .null _ => some []
  | .expanded (.map _) _ => some []
  | _ => none

/-- IEEE-754 double bits of an integer of magnitude < 2^53 -/
def intToFloatBits (i : Int) : Nat :=
  let a := i.natAbs
  if a = 0 then 0 else
  let e := Nat.log2 a
  let mant := (a * 2 ^ (52 - e)) % 2 ^ 52
  (if i < 0 then 2 ^ 63 else 0) + (e + 1023) * 2 ^ 52 + mant

/-- decoding into a `float64` field: bits of the result -/
def decodeFloat : Val → Option Nat
  | .null => some 0
  | .int i => some (intToFloatBits i)
  | .float b => some b
  | .expanded .null _ => some 0
  | .expanded (.int i) _ => some (intToFloatBits i)
  | .expanded (.float b) _ => some b
  | _ => none

/-- decoding into an `any` field (repaired code): the parsed values, never an `expandedValue`, never a panic -/
def decodeAny (v : Val) : Val := sanitize false v

/-- decoding into an `int` field: the parsed value is used -/
def decodeInt : Val → Option Int
  | .expanded (.int i) _ => some i
  | .expanded .null _ => some 0      -- "use the default value of `to`'s kind"
  | .int i => some i
  | .null => some 0
  | _ => none

/-- decoding into a `bool` field -/
def decodeBool : Val → Option Bool
  | .expanded (.bool b) _ => some b
  | .expanded .null _ => some false
  | .bool b => some b
  | .null => some false
  | _ => none

/-! ## reference semantics on token lists (the specification side of `C12_tokens`) -/

inductive Tok where
  | lit (s : Str)                          -- literal text free of `$` and `}`
  | close                                  -- a literal `}`
  | esc                                    -- `$$`
  | dollar                                 -- a lone `$` (not before `{` or `$`)
  | ref (scheme : Option Str) (name : Str) -- `${scheme:name}` / `${name}`
  deriving DecidableEq

def Tok.body : Option Str → Str → Str
  | some sc, name => sc ++ ':' :: name
  | none, name => name

def Tok.render : Tok → Str
  | .lit s => s
  | .close => ['}']
  | .esc => ['$', '$']
  | .dollar => ['$']
  | .ref sc name => '$' :: '{' :: Tok.body sc name ++ ['}']

def render : List Tok → Str
  | [] => []
  | t :: ts => t.render ++ render ts

/-- the string a reference stands for: what the provider returns, as a string -/
def refString (env : Env) (sc : Option Str) (name : Str) : Option Str :=
  match (match sc with | some s => some s | none => env.defaultScheme) with
  | none => none
  | some scheme => (env.prov scheme name).bind Retrieved.asString

/-- meaning of a token list: literals stand for themselves, `$$` for one `$`, a reference for its value -/
def sem (env : Env) : List Tok → Option Str
  | [] => some []
  | .lit s :: ts => (sem env ts).map (s ++ ·)
  | .close :: ts => (sem env ts).map ('}' :: ·)
  | .esc :: ts => (sem env ts).map ('$' :: ·)
  | .dollar :: ts => (sem env ts).map ('$' :: ·)
  | .ref sc name :: ts =>
    match refString env sc name, sem env ts with
    | some v, some r => some (v ++ r)
    | _, _ => none

def startsWithDollarOrBrace : Str → Bool
  | c :: _ => c == '$' || c == '{'
  | [] => false

/-- well-formed token list: the rendering parses back to these tokens unambiguously, and every reference is
one the resolver can look up (registered scheme, plain name) with a `$`-free string value -/
def tokOK (env : Env) : List Tok → Bool
  | [] => true
  | .lit s :: ts => !hasDollar s && !hasClose s && tokOK env ts
  | .close :: ts => tokOK env ts
  | .esc :: ts => tokOK env ts
  | .dollar :: ts => !startsWithDollarOrBrace (render ts) && tokOK env ts
  | .ref sc name :: ts =>
    !hasDollar name && !hasClose name
    && (match sc with
        | some s => validScheme s && env.schemes.contains s
        | none => !hasColon name && (match env.defaultScheme with
                                     | some d => validScheme d && env.schemes.contains d
                                     | none => false))
    && (match refString env sc name with
        | some v => !hasDollar v
        | none => false)
    && tokOK env ts

def numRefs : List Tok → Nat
  | [] => 0
  | .ref .. :: ts => numRefs ts + 1
  | _ :: ts => numRefs ts

/-! ## the "no known reference is left" oracle (evaluated on the implementation's output) -/

/-- every `$` is directly followed by `{` (so no `$$` escape can be involved, also not after concatenation) -/
def dollarsOpen : Str → Bool
  | [] => true
  | [c] => c != '$'
  | c :: d :: r => (c != '$' || d == '{') && dollarsOpen (d :: r)

/-- if the string starts with `${body}` (first `}` after it), that body -/
def refBodyAt : Str → Option Str
  | c :: d :: r =>
    if c = '$' ∧ d = '{' then
      (match (splitOnClose r).2 with
       | [] => none
       | _ :: _ => some (splitOnClose r).1)
    else none
  | _ => none

/-- the provider key a reference body names, if the provider has it -/
def knownRef (env : Env) (body : Str) : Option (Str × Str) :=
  if hasColon body then
    match splitColon body with
    | some (sc, nm) => if env.schemes.contains sc && (env.prov sc nm).isSome then some (sc, nm) else none
    | none => none
  else
    match env.defaultScheme with
    | some d => if env.schemes.contains d && (env.prov d body).isSome then some (d, body) else none
    | none => none

/-- first complete innermost reference to an existing provider key occurring in the string -/
def leftoverRef (env : Env) : Str → Option (Str × Str)
  | [] => none
  | c :: r =>
    match refBodyAt (c :: r) with
    | some body =>
      if hasDollar body then leftoverRef env r
      else match knownRef env body with
        | some k => some k
        | none => leftoverRef env r
    | none => leftoverRef env r

mutual
/-- every string of a resolved value, `Original`s included -/
def valStrings : Val → List Str
  | .str s => [s]
  | .expanded v o => o :: valStrings v
  | .list xs => valsStrings xs
  | .map m => kvsStrings m
  | _ => []
def valsStrings : Vals → List Str
  | .nil => []
  | .cons v vs => valStrings v ++ valsStrings vs
def kvsStrings : KVs → List Str
  | .nil => []
  | .cons _ v r => valStrings v ++ kvsStrings r
end

/-- the value under a key path (koanf `Get` on nested maps) -/
def lookupPath : List Str → KVs → Option Val
  | [], _ => none
  | [k], m => m.lookup k
  | k :: k2 :: ks, m =>
    match m.lookup k with
    | some (.map sub) => lookupPath (k2 :: ks) sub
    | _ => none


end OtelVerif.C12
