import OtelVerif.Model.C12
/-!
# C12 model — the feature-gated list-merge path (`confmap.enableMergeAppendOption`)

`confmap/resolver.go Resolve` calls `retMap.mergeAppend(retCfgMap)` instead of `retMap.Merge(retCfgMap)` when the gate is
on; `Conf.mergeAppend` loads the later source with `koanf.WithMergeFunc(mergeAppend)`, i.e. `mergeAppend(src, dest)` of
`confmap/merge.go` on the two nested maps.  Branch by branch:

* `mergeAppend`: key absent in `dest` → add; kinds differ → override; both slices → `mergeSlice`; both maps → recurse;
  any other kind → override.
* `mergeSlice(src, dest)`: all of `dest`, then every element of `src` that is not yet present (`isPresent` looks at the
  GROWING slice, so duplicates inside `src` are dropped as well).
* `isPresent`: the REPAIRED code (`reflect.DeepEqual` on the element values; the pinned code used `reflect.Value.Equal`,
  which panics on map / list elements).  `DeepEqual` on config values is structural equality, order-insensitive on maps.

Core Lean only.
-/
namespace OtelVerif.C12

def KVs.length : KVs → Nat
  | .nil => 0
  | .cons _ _ r => r.length + 1

mutual
/-- `reflect.DeepEqual` on config values (`nil`, bool, int, float64 bits, string, `[]any`, `map[string]any`).
Maps compare key-wise (same number of keys and every key of the left one holds an equal value on the right). -/
def valEq : Val → Val → Bool
  | .null, .null => true
  | .bool a, .bool b => a == b
  | .int a, .int b => a == b
  | .float a, .float b => a == b
  | .other a, .other b => a == b
  | .str a, .str b => a == b
  | .list a, .list b => valsEq a b
  | .map a, .map b => a.length == b.length && kvsSub a b
  | .expanded v o, .expanded w p => valEq v w && o == p
  | _, _ => false
def valsEq : Vals → Vals → Bool
  | .nil, .nil => true
  | .cons a as, .cons b bs => valEq a b && valsEq as bs
  | _, _ => false
def kvsSub : KVs → KVs → Bool
  | .nil, _ => true
  | .cons k v r, b =>
    (match b.lookup k with
     | some w => valEq v w
     | none => false) && kvsSub r b
end

/-- `isPresent(slice, val)` -/
def isPresent (xs : List Val) (v : Val) : Bool := xs.any (fun x => valEq x v)

/-- one iteration of the second loop of `mergeSlice` -/
def appendNew (acc : List Val) (v : Val) : List Val := if isPresent acc v then acc else acc ++ [v]

/-- `mergeSlice(src, dest)` -/
def mergeSlice (src dest : List Val) : List Val := src.foldl appendNew dest

/-- `mergeAppend(src, dest)`: `a` is the later source, `b` the accumulated map -/
def mergeAppendKVs : KVs → KVs → KVs
  | .nil, b => b
  | .cons k v rest, b =>
    match b.lookup k with
    | none => mergeAppendKVs rest (b.set k v)                         -- key is not present in destination: add
    | some bv =>
      match v, bv with
      | .list s, .list d => mergeAppendKVs rest (b.set k (.list (Vals.ofList (mergeSlice s.toList d.toList))))
      | .map am, .map bm => mergeAppendKVs rest (b.set k (.map (mergeAppendKVs am bm)))
      | _, _ => mergeAppendKVs rest (b.set k v)                       -- different kinds / any other datatype: override

/-- `retMap := New(); for each source: retMap.mergeAppend(src)` -/
def mergeSourcesAppend : List KVs → KVs := fun srcs => srcs.foldl (fun acc s => mergeAppendKVs s acc) .nil

/-- `Resolver.Resolve` with the gate on: same pipeline, `mergeAppend` instead of `Merge` -/
def resolveAppend (env : Env) (srcs : List Val) : Except Errs KVs :=
  match srcs.mapM asConf with
  | none => .error [.notMap]
  | some ms =>
    match resolveLeaves env (sortedLeaves (mergeSourcesAppend ms)) with
    | .error e => .error e
    | .ok leaves => .ok (unflatten leaves)

/-- `Resolve` as a function of the gate -/
def resolveGate (gate : Bool) (env : Env) (srcs : List Val) : Except Errs KVs :=
  if gate then resolveAppend env srcs else resolve env srcs

def mergeSourcesGate (gate : Bool) (ms : List KVs) : KVs :=
  if gate then mergeSourcesAppend ms else mergeSources ms

end OtelVerif.C12
