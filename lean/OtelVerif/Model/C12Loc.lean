import OtelVerif.Model.C12
import OtelVerif.Model.C12Append
import OtelVerif.Gen.C12Consts
/-!
# C12 model — `NewResolver` (locations of the URI list, provider table) and the resolver's `closers` bookkeeping

Branch by branch, `confmap/resolver.go`:

* `NewResolver`: no URIs / no providers; every provider's scheme is checked with
  `regexp.MustCompile(schemePattern).MatchString` (NOT anchored: a scheme that merely CONTAINS a match passes) and must be
  unique; a non-empty `DefaultScheme` must be registered; every URI becomes a `location`:
  `driverLetterRegexp` (`^[A-z]:`) or no `:` at all → `{file, uri}` (no check that a `file` provider exists); otherwise
  `newLocation` (anchored `uriRegexp`: valid scheme up to the FIRST `:`) and the scheme must be registered.
* `Resolve` / `retrieveValue`: each location is retrieved through `providers[scheme]` with `location.asString()`
  (`scheme + ":" + opaqueValue`); an unregistered scheme (only possible for `file`) is "cannot retrieve the configuration".
* `closers`: `Resolve` first calls `closeIfNeeded` (every pending `Close`, in order, all of them even when one fails; then
  `closers = nil`; any error → `Resolve` returns before retrieving anything); every successful `Retrieve` (top-level
  location or `${…}` reference) appends its `Close`; `Shutdown` calls `closeIfNeeded`.

The regexp data (`schemePattern` classes, drive-letter class, `file`) come from `Gen/C12Consts.lean`, regenerated from the
source on every run.  Core Lean only.
-/
namespace OtelVerif.C12

open OtelVerif.Gen

/-! ## the regexp fragment: a sequence of byte classes, the last one repeated -/

def inRanges (rs : List (Nat × Nat)) (c : Char) : Bool := rs.any (fun r => r.1 ≤ c.toNat && c.toNat ≤ r.2)

/-- anchored match `^[c1][c2]…[cn]+$` -/
def matchClasses : List (List (Nat × Nat)) → Str → Bool
  | [], _ => false
  | [rs], c :: r => inRanges rs c && r.all (inRanges rs)
  | [_], [] => false
  | rs :: rest, c :: r => inRanges rs c && matchClasses rest r
  | _ :: _, [] => false

/-- prefix match `^[c1][c2]…[cn]` (one repetition of the last class is enough for an unanchored `MatchString`) -/
def matchPrefix : List (List (Nat × Nat)) → Str → Bool
  | [], _ => true
  | rs :: rest, c :: r => inRanges rs c && matchPrefix rest r
  | _ :: _, [] => false

/-- `regexp.MustCompile(p).MatchString(s)` for such a pattern: a match may start anywhere -/
def matchAnywhere (p : List (List (Nat × Nat))) : Str → Bool
  | [] => matchPrefix p []
  | c :: r => matchPrefix p (c :: r) || matchAnywhere p r

/-! ## `NewResolver` -/

structure Loc where
  scheme : Str
  opq : Str
  deriving DecidableEq, Repr

/-- `location.asString` -/
def Loc.asString (l : Loc) : Str := l.scheme ++ ':' :: l.opq

inductive CtorErr where
  | noURIs
  | noProviders
  | invalidProviderScheme
  | duplicateScheme
  | defaultNotFound
  | invalidURI
  | unsupportedScheme
  deriving DecidableEq, Repr

/-- `driverLetterRegexp.MatchString(uri)` -/
def driverLetter : Str → Bool
  | c :: d :: _ => inRanges C12Consts.driverLetterRanges c && d == ':'
  | _ => false

/-- `newLocation`: `uriRegexp` is anchored, a scheme cannot contain `:`, so the scheme is the text before the first `:` -/
def newLocation (uri : Str) : Option Loc :=
  match splitColon uri with
  | none => none
  | some (sc, op) => if validScheme sc then some ⟨sc, op⟩ else none

/-- one iteration of the `for i, uri := range set.URIs` loop -/
def uriLocation (provs : List Str) (uri : Str) : Except CtorErr Loc :=
  if driverLetter uri || !hasColon uri then .ok ⟨C12Consts.fileScheme, uri⟩
  else match newLocation uri with
    | none => .error .invalidURI
    | some l => if provs.contains l.scheme then .ok l else .error .unsupportedScheme

def uriLocations (provs : List Str) : List Str → Except CtorErr (List Loc)
  | [] => .ok []
  | u :: us =>
    match uriLocation provs u with
    | .error e => .error e
    | .ok l =>
      match uriLocations provs us with
      | .error e => .error e
      | .ok ls => .ok (l :: ls)

/-- the provider loop: scheme pattern (unanchored), then uniqueness, factory by factory -/
def checkProviders : List Str → List Str → Option CtorErr
  | _, [] => none
  | seen, s :: rest =>
    if !matchAnywhere C12Consts.schemeClasses s then some .invalidProviderScheme
    else if seen.contains s then some .duplicateScheme
    else checkProviders (s :: seen) rest

structure Settings where
  uris : List Str
  provSchemes : List Str     -- `factory.Create(…).Scheme()` of every factory, in order
  defaultScheme : Str        -- `""` = none

def newResolver (set : Settings) : Except CtorErr (List Loc) :=
  if set.uris.isEmpty then .error .noURIs
  else if set.provSchemes.isEmpty then .error .noProviders
  else match checkProviders [] set.provSchemes with
    | some e => .error e
    | none =>
      if !set.defaultScheme.isEmpty && !set.provSchemes.contains set.defaultScheme then .error .defaultNotFound
      else uriLocations set.provSchemes set.uris

/-- the retrieval loop of `Resolve` on the locations: the strings handed to `Provider.Retrieve`, in order, up to the
first location whose scheme has no provider (`retrieveValue`: "scheme … is not supported") -/
def retrieveAll (provs : List Str) : List Loc → List Str × Bool
  | [] => ([], true)
  | l :: ls =>
    if provs.contains l.scheme then
      let r := retrieveAll provs ls
      (l.asString :: r.1, r.2)
    else ([], false)

/-! ## `NewResolver` + `Resolve` from the settings: the public entry point, end to end -/

inductive TopErr where
  | ctor (e : CtorErr)        -- `NewResolver` failed
  | cannotRetrieve            -- "cannot retrieve the configuration": no provider for the scheme, or the provider failed
  | resolve (e : Errs)        -- a source is not a map, or expansion failed
  deriving Repr

/-- the first loop of `Resolve`, location by location: retrieve, `AsConf`, merge (`Merge` or `mergeAppend`) -/
def retrieveMerge (gate : Bool) (provs : List Str) (fetch : Str → Option Val) : List Loc → KVs → Except TopErr KVs
  | [], acc => .ok acc
  | l :: ls, acc =>
    if !provs.contains l.scheme then .error .cannotRetrieve
    else match fetch l.asString with
      | none => .error .cannotRetrieve
      | some v =>
        match asConf v with
        | none => .error (.resolve [.notMap])
        | some m => retrieveMerge gate provs fetch ls (if gate then mergeAppendKVs m acc else mergeKVs m acc)

/-- `NewResolver(settings)` followed by `Resolve`; `fetch` is what the top-level providers return for a location string -/
def resolveSettings (gate : Bool) (set : Settings) (fetch : Str → Option Val) (env : Env) : Except TopErr KVs :=
  match newResolver set with
  | .error e => .error (.ctor e)
  | .ok locs =>
    match retrieveMerge gate set.provSchemes fetch locs .nil with
    | .error e => .error e
    | .ok merged =>
      match resolveLeaves env (sortedLeaves merged) with
      | .error e => .error (.resolve e)
      | .ok leaves => .ok (unflatten leaves)

/-! ## `closers`: a labelled transition system over `Resolve` / `Shutdown` calls -/

structure Life where
  next : Nat := 0              -- ids are given to successful `Retrieve` calls in call order
  pending : List Nat := []     -- `mr.closers`
  closed : List Nat := []      -- every `Close` call so far, in call order
  deriving DecidableEq, Repr

inductive LifeLabel where
  /-- `Resolve`: `closeFails` = some pending `Close` returns an error; `n` = successful `Retrieve` calls of this `Resolve`
  (locations and references, whether or not `Resolve` succeeds in the end) -/
  | resolve (closeFails : Bool) (n : Nat)
  | shutdown

/-- `closeIfNeeded` -/
def Life.closeAll (s : Life) : Life := { s with pending := [], closed := s.closed ++ s.pending }

def Life.fire (s : Life) : LifeLabel → Life
  | .resolve closeFails n =>
    let s := s.closeAll
    if closeFails then s      -- "cannot close previous watch": nothing is retrieved
    else { s with next := s.next + n, pending := (List.range n).map (s.next + ·) }
  | .shutdown => s.closeAll

def Life.run (s : Life) (ls : List LifeLabel) : Life := ls.foldl Life.fire s

end OtelVerif.C12
