/-! C13 model (stub) -/
namespace OtelVerif.C13
end OtelVerif.C13
