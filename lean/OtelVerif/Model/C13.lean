import OtelVerif.Gen.Opaque
/-!
# C13 model: validation walk, reference checks, strict decode

* `validate` — `confmap/xconfmap/config.go validate`: the reflective walk that calls every reachable
  `Validate()` and prefixes the errors with the path.
* `rootErrs`, `pipeErr`, `allErrs` — `otelcol/config.go Config.Validate`, `service/pipelines/config.go
  PipelineConfig.Validate`: reference, ambiguity and pipeline-shape checks.  Go map iteration picks
  *which* error of a phase is reported; the model returns the admissible set of that phase.
* `decode` — strict decoding of a configuration map into a schema (mapstructure with `ErrorUnused`,
  squash, pointers, slices, maps, no weak typing) and the default-overlay it produces.
-/
namespace OtelVerif.C13

/-! ## (a) validation walk -/

/-- a configuration value as `validate` sees it.  `err`: what the node's own `Validate()` returns
(`none`: no `Validate` method, or it returns nil).  Struct fields carry the mapstructure name and
whether the Go field is exported. -/
inductive VT
  | leaf (err : Option Nat)
  | nilv                                                  -- invalid / nil pointer / nil interface
  | ptr (v : VT)                                          -- pointer or interface: the walk goes to the element
  | struct (err : Option Nat) (fs : List (String × Bool × VT))
  | seq (err : Option Nat) (vs : List VT)                 -- slice or array
  | map (err : Option Nat) (kvs : List (String × VT × VT)) -- stringified key, key value, value
deriving Repr

abbrev Path := List String   -- outermost segment first

def own (e : Option Nat) : List (Path × Nat) :=
  match e with
  | some n => [([], n)]
  | none => []

def pre (seg : String) (l : List (Path × Nat)) : List (Path × Nat) := l.map (fun p => (seg :: p.1, p.2))

mutual
def validate : VT → List (Path × Nat)
  | .leaf e => own e
  | .nilv => []
  | .ptr v => validate v
  | .struct e fs => own e ++ validateF fs
  | .seq e vs => own e ++ validateL 0 vs
  | .map e kvs => own e ++ validateKV kvs
def validateF : List (String × Bool × VT) → List (Path × Nat)
  | [] => []
  | (name, exported, v) :: fs => (if exported then pre name (validate v) else []) ++ validateF fs
def validateL : Nat → List VT → List (Path × Nat)
  | _, [] => []
  | i, v :: vs => pre (toString i) (validate v) ++ validateL (i + 1) vs
def validateKV : List (String × VT × VT) → List (Path × Nat)
  | [] => []
  | (k, kv, v) :: kvs => pre k (validate kv) ++ pre k (validate v) ++ validateKV kvs
end

/-- the specification: the node at `path` (through exported fields, elements, map keys and values,
pointers and interfaces) has a `Validate()` that fails with `n` -/
inductive Fails : VT → Path → Nat → Prop
  | leaf {n} : Fails (.leaf (some n)) [] n
  | ptr {v p n} : Fails v p n → Fails (.ptr v) p n
  | structOwn {n fs} : Fails (.struct (some n) fs) [] n
  | structField {e fs name v p n} : (name, true, v) ∈ fs → Fails v p n → Fails (.struct e fs) (name :: p) n
  | seqOwn {n vs} : Fails (.seq (some n) vs) [] n
  | seqElem {e vs} {i : Nat} {v p n} : vs[i]? = some v → Fails v p n → Fails (.seq e vs) (toString i :: p) n
  | mapOwn {n kvs} : Fails (.map (some n) kvs) [] n
  | mapKey {e kvs k kv v p n} : (k, kv, v) ∈ kvs → Fails kv p n → Fails (.map e kvs) (k :: p) n
  | mapVal {e kvs k kv v p n} : (k, kv, v) ∈ kvs → Fails v p n → Fails (.map e kvs) (k :: p) n

/-! ## (b) references, ambiguity, pipeline shape -/

abbrev Id := Nat

structure Pipe where
  recv : List Id
  procs : List Id
  exps : List Id
deriving Repr, DecidableEq

structure Top where
  receivers : List Id
  exporters : List Id
  connectors : List Id
  processors : List (Id × Bool)    -- id, config value non-nil (`cfg.Processors[ref] == nil` treats nil as absent)
  extensions : List (Id × Bool)
  svcExtensions : List Id
  pipelines : List (Nat × Pipe)    -- pipeline id, config
deriving Repr

inductive RErr
  | emptyConfig | noReceivers | noExporters
  | ambiguousExporter (conn : Id) | ambiguousReceiver (conn : Id)
  | danglingExtension (ref : Id)
  | danglingReceiver (pipe : Nat) (ref : Id)
  | danglingProcessor (pipe : Nat) (ref : Id)
  | danglingExporter (pipe : Nat) (ref : Id)
  | pipeNoReceivers (pipe : Nat) | pipeNoExporters (pipe : Nat) | dupProcessor (pipe : Nat) (ref : Id)
  | noPipelines
deriving Repr, DecidableEq

def configured (m : List (Id × Bool)) (ref : Id) : Bool := m.any (fun p => p.1 == ref && p.2)

/-- the first error of one pipeline's reference checks (receivers, then processors, then exporters; slices: in order) -/
def pipeRefErr (c : Top) (pid : Nat) (p : Pipe) : Option RErr :=
  match p.recv.find? (fun r => !(c.receivers.contains r || c.connectors.contains r)) with
  | some r => some (.danglingReceiver pid r)
  | none =>
    match p.procs.find? (fun r => !configured c.processors r) with
    | some r => some (.danglingProcessor pid r)
    | none =>
      match p.exps.find? (fun r => !(c.exporters.contains r || c.connectors.contains r)) with
      | some r => some (.danglingExporter pid r)
      | none => none

/-- the connector loop: for each connector the exporter clash is tested before the receiver clash -/
def connErr (c : Top) (conn : Id) : Option RErr :=
  if c.exporters.contains conn then some (.ambiguousExporter conn)
  else if c.receivers.contains conn then some (.ambiguousReceiver conn)
  else none

/-- `Config.Validate`: the set of errors it may return (exactly one of them is returned; which one of a
map-iteration phase is Go's choice).  Empty iff it returns nil. -/
def rootErrs (c : Top) : List RErr :=
  if c.receivers.isEmpty && c.exporters.isEmpty && c.processors.isEmpty && c.connectors.isEmpty && c.extensions.isEmpty then [.emptyConfig]
  else if c.receivers.isEmpty then [.noReceivers]
  else if c.exporters.isEmpty then [.noExporters]
  else
    match c.connectors.filterMap (connErr c) with
    | e :: es => e :: es
    | [] =>
      match c.svcExtensions.find? (fun r => !configured c.extensions r) with
      | some r => [.danglingExtension r]
      | none => c.pipelines.filterMap (fun p => pipeRefErr c p.1 p.2)

/-- first duplicate in order: the first element that already occurred before it -/
def firstDup : List Id → List Id → Option Id
  | _, [] => none
  | seen, x :: xs => if seen.contains x then some x else firstDup (x :: seen) xs

/-- `PipelineConfig.Validate` -/
def pipeErr (pid : Nat) (p : Pipe) : Option RErr :=
  if p.recv.isEmpty then some (.pipeNoReceivers pid)
  else if p.exps.isEmpty then some (.pipeNoExporters pid)
  else (firstDup [] p.procs).map (.dupProcessor pid)

/-- what `xconfmap.Validate(cfg)` joins: one admissible root error (if any), `pipelines.Config.Validate`, and every pipeline's own error -/
def shapeErrs (c : Top) : List RErr :=
  (if c.pipelines.isEmpty then [.noPipelines] else []) ++ c.pipelines.filterMap (fun p => pipeErr p.1 p.2)

/-! ## (c) strict decode -/

/-- what a Go type accepts.  `struct`: (key, squash?, schema) per exported field. -/
inductive Schema
  | scalar                                   -- string / number / bool (kind-checked; no weak typing)
  | struct (fs : List (String × Bool × Schema))
  | ptr (s : Schema)
  | slice (s : Schema)
  | map (s : Schema)                         -- map[string]T
deriving Repr

/-- configuration map values -/
inductive Val
  | scalar (n : Nat)
  | map (kvs : List (String × Val))
  | list (vs : List Val)
deriving Repr

mutual
/-- the keys a struct accepts at this level, squashed structs flattened (mapstructure `squash`) -/
def structKeys : List (String × Bool × Schema) → List String
  | [] => []
  | (k, squash, s) :: fs => (if squash then squashKeys s else [k]) ++ structKeys fs
def squashKeys : Schema → List String
  | .struct fs => structKeys fs
  | _ => []
end

def lookupVal (kvs : List (String × Val)) (k : String) : Option Val := (kvs.find? (fun p => p.1 == k)).map (·.2)

mutual
/-- strict decode succeeds? (`ErrorUnused`, kind mismatches are errors) -/
def decodeOk : Schema → Val → Bool
  | .scalar, .scalar _ => true
  | .scalar, _ => false
  | .ptr s, v => decodeOk s v
  | .slice s, .list vs => decodeAll s vs
  | .slice _, _ => false
  | .map s, .map kvs => decodeVals s kvs
  | .map _, _ => false
  | .struct fs, .map kvs => kvs.all (fun p => (structKeys fs).contains p.1) && decodeFields fs kvs
  | .struct _, _ => false
def decodeAll : Schema → List Val → Bool
  | _, [] => true
  | s, v :: vs => decodeOk s v && decodeAll s vs
def decodeVals : Schema → List (String × Val) → Bool
  | _, [] => true
  | s, (_, v) :: kvs => decodeOk s v && decodeVals s kvs
/-- every field whose key is written decodes; a squashed struct sees the same map restricted to its keys -/
def decodeFields : List (String × Bool × Schema) → List (String × Val) → Bool
  | [], _ => true
  | (k, squash, s) :: fs, kvs =>
    (if squash then
      match s with
      | .struct gs => decodeFields gs kvs
      | _ => true
     else
      match lookupVal kvs k with
      | some v => decodeOk s v
      | none => true) && decodeFields fs kvs
end

/-! ## (d) loading a section with several instances (`otelcol/internal/configunmarshaler/configs.go`)

`Configs.Unmarshal` iterates the raw section (a Go map: any order); for every id it asks the factory of
the id's type for a **fresh** default object and overlays the instance's written keys on it.  Objects
live in a heap so that aliasing between instances is expressible. -/

abbrev Obj := List (String × String)      -- leaf path ↦ rendered value
abbrev CId := String × String             -- component type, instance name

def setKey (o : Obj) (k v : String) : Obj :=
  if o.any (fun p => p.1 == k) then o.map (fun p => if p.1 == k then (k, v) else p) else o ++ [(k, v)]

/-- defaults overlaid by exactly the written keys -/
def overlay (d : Obj) (w : List (String × String)) : Obj := w.foldl (fun o p => setKey o p.1 p.2) d

structure LoadSt where
  heap : List (Nat × Obj) := []
  next : Nat := 0
  out : List (CId × Nat) := []      -- `c.cfgs[id] = cfg`
deriving Repr

/-- one iteration: `cfg := factory.CreateDefaultConfig()` (a new object), `sub.Unmarshal(&cfg)`, `c.cfgs[id] = cfg` -/
def loadStep (defaults : String → Obj) (s : LoadSt) (e : CId × List (String × String)) : LoadSt :=
  { heap := (s.next, overlay (defaults e.1.1) e.2) :: s.heap, next := s.next + 1, out := (e.1, s.next) :: s.out }

def loadAll (defaults : String → Obj) (entries : List (CId × List (String × String))) : LoadSt :=
  entries.foldl (loadStep defaults) {}

def LoadSt.result (s : LoadSt) (id : CId) : Option Obj := (s.out.lookup id).bind (fun a => s.heap.lookup a)

/-- what the effective configuration shows for a written secret -/
def redactionMarker : String := OtelVerif.Gen.Opaque.marker   -- regenerated from config/configopaque/opaque.go

end OtelVerif.C13
