import OtelVerif.Model.C13
import OtelVerif.Model.C13Types
/-!
# C13 model (faithfulness): decoding a configuration map onto defaults, and encoding the result

`decodeV S d v` mirrors what `confmap.Conf.Unmarshal` does for a type of key-space schema `S` whose
current value (the factory default) is `d`, given the written configuration `v`: scalars, text kinds,
opaque strings, slices and maps take the written value; structs are decoded field by field, a field
whose key is not written keeps its default; a nil pointer used as an optional is allocated (zero value)
when something below it is written.  `encodeV` mirrors `confmap.Conf.Marshal` of the typed result:
opaque leaves are shown as the redaction marker — also as elements of a map or slice of opaque strings.  Other slices
and maps are atoms here.
-/
namespace OtelVerif.C13

/-- typed configuration, seen through its keys -/
inductive TV
  | atom (v : Val)
  | nilp
  | struct (fs : List (String × TV))
deriving Repr

/-- effective configuration -/
inductive EV
  | val (v : Val)
  | redacted
  | nil
  | map (kvs : List (String × EV))
  | list (xs : List EV)
deriving Repr

mutual
def zero : KS → TV
  | .struct fs => .struct (zeroF fs)
  | .ptr _ => .nilp
  | _ => .atom (.scalar 0)
def zeroF : List (String × KS) → List (String × TV)
  | [] => []
  | (k, s) :: fs => (k, zero s) :: zeroF fs
end

mutual
def decodeV : KS → TV → Val → Option TV
  | .scalar, _, .scalar n => some (.atom (.scalar n))
  | .scalar, _, _ => none
  | .opaque, _, .scalar n => some (.atom (.scalar n))
  | .opaque, _, _ => none
  | .text _, _, .scalar n => some (.atom (.scalar n))
  | .text _, _, _ => none
  | .custom _, _, v => some (.atom v)
  | .iface, _, v => some (.atom v)
  | .slice _, _, .list vs => some (.atom (.list vs))
  | .slice _, _, _ => none
  | .map _ _, _, .map kvs => some (.atom (.map kvs))
  | .map _ _, _, _ => none
  | .ptr s, .nilp, v => decodeV s (zero s) v
  | .ptr s, d, v => decodeV s d v
  | .struct fs, .struct dfs, .map kvs =>
    if kvs.all (fun p => (fs.map (·.1)).contains p.1) then (decodeFs fs dfs kvs).map .struct else none   -- ErrorUnused
  | .struct _, _, _ => none
def decodeFs : List (String × KS) → List (String × TV) → List (String × Val) → Option (List (String × TV))
  | [], _, _ => some []
  | (k, s) :: fs, (_, dv) :: dfs, kvs =>
    match lookupVal kvs k with
    | some v =>
      match decodeV s dv v, decodeFs fs dfs kvs with
      | some t, some rest => some ((k, t) :: rest)
      | _, _ => none
    | none =>
      match decodeFs fs dfs kvs with
      | some rest => some ((k, dv) :: rest)
      | none => none
  | _ :: _, [], _ => none
end

mutual
/-- the value at a key path; a nil optional shows the zero value of its type -/
def getPath : KS → TV → List String → Option TV
  | _, t, [] => some t
  | .ptr s, .nilp, k :: p => getPath s (zero s) (k :: p)
  | .ptr s, t, k :: p => getPath s t (k :: p)
  | .struct fs, .struct tfs, k :: p => getF fs tfs k p
  | _, _, _ :: _ => none
def getF : List (String × KS) → List (String × TV) → String → List String → Option TV
  | (k', s) :: fs, (_, t) :: tfs, k, p => if k' == k then getPath s t p else getF fs tfs k p
  | _, _, _, _ => none
end

mutual
/-- the value at a key path, not looking through nil optionals (what the encoder can show) -/
def getS : KS → TV → List String → Option TV
  | _, t, [] => some t
  | .ptr _, .nilp, _ :: _ => none
  | .ptr s, t, k :: p => getS s t (k :: p)
  | .struct fs, .struct tfs, k :: p => getSF fs tfs k p
  | _, _, _ :: _ => none
def getSF : List (String × KS) → List (String × TV) → String → List String → Option TV
  | (k', s) :: fs, (_, t) :: tfs, k, p => if k' == k then getS s t p else getSF fs tfs k p
  | _, _, _, _ => none
end

def isLeafKind : KS → Bool
  | .struct _ => false
  | .ptr s => isLeafKind s
  | _ => true

def isOpaqueKind : KS → Bool
  | .opaque => true
  | .ptr s => isOpaqueKind s
  | _ => false

/-- the written value at a key path -/
def valGet : Val → List String → Option Val
  | v, [] => some v
  | .map kvs, k :: p => (lookupVal kvs k).bind (fun v => valGet v p)
  | _, _ :: _ => none

/-- nothing at or above this path is written -/
def untouched : Val → List String → Bool
  | .map kvs, k :: p =>
    match lookupVal kvs k with
    | none => true
    | some v => untouched v p
  | _, _ => false

mutual
/-- the typed value has the shape of the schema -/
def shape : KS → TV → Bool
  | .struct fs, .struct tfs => shapeF fs tfs
  | .struct _, _ => false
  | .ptr _, .nilp => true
  | .ptr s, t => shape s t
  | _, .atom _ => true
  | _, _ => false
def shapeF : List (String × KS) → List (String × TV) → Bool
  | [], [] => true
  | (_, s) :: fs, (_, t) :: tfs => shape s t && shapeF fs tfs
  | _, _ => false
end

mutual
/-- the kind of hook that sits at a key path -/
def kindAt : KS → List String → Option KS
  | s, [] => some s
  | .ptr s, k :: p => kindAt s (k :: p)
  | .struct fs, k :: p => kindAtF fs k p
  | _, _ :: _ => none
def kindAtF : List (String × KS) → String → List String → Option KS
  | (k', s) :: fs, k, p => if k' == k then kindAt s p else kindAtF fs k p
  | [], _, _ => none
end

mutual
/-- `confmap.Conf.Marshal` of the typed configuration -/
def encodeV : KS → TV → EV
  | .opaque, .atom _ => .redacted
  | .map _ .opaque, .atom (.map kvs) => .map (kvs.map (fun p => (p.1, EV.redacted)))   -- headers: every VALUE redacted, keys shown
  | .slice .opaque, .atom (.list vs) => .list (vs.map (fun _ => EV.redacted))
  | .ptr _, .nilp => .nil
  | .ptr s, t => encodeV s t
  | .struct fs, .struct tfs => .map (encodeF fs tfs)
  | _, .atom v => .val v
  | _, _ => .nil
def encodeF : List (String × KS) → List (String × TV) → List (String × EV)
  | (k, s) :: fs, (_, t) :: tfs => (k, encodeV s t) :: encodeF fs tfs
  | _, _ => []
end

def evGet : EV → List String → Option EV
  | e, [] => some e
  | .map kvs, k :: p => ((kvs.find? (fun q => q.1 == k)).map (·.2)).bind (fun e => evGet e p)
  | _, _ :: _ => none

def keysNodup : List String → Bool
  | [] => true
  | k :: ks => !ks.contains k && keysNodup ks

mutual
/-- every struct level has pairwise distinct keys (after squash inlining): no written key feeds two fields -/
def keysUnique : KS → Bool
  | .struct fs => keysNodup (fs.map (·.1)) && keysUniqueF fs
  | .ptr s => keysUnique s
  | .slice s => keysUnique s
  | .map _ s => keysUnique s
  | _ => true
def keysUniqueF : List (String × KS) → Bool
  | [] => true
  | (_, s) :: fs => keysUnique s && keysUniqueF fs
end

mutual
/-- no map anywhere is keyed by an opaque string -/
def noOpaqueKey : KS → Bool
  | .struct fs => noOpaqueKeyF fs
  | .ptr s => noOpaqueKey s
  | .slice s => noOpaqueKey s
  | .map ko s => !ko && noOpaqueKey s
  | _ => true
def noOpaqueKeyF : List (String × KS) → Bool
  | [] => true
  | (_, s) :: fs => noOpaqueKey s && noOpaqueKeyF fs
end

mutual
/-- positions decoded by a type's own `Unmarshal` (outside the generic theorem): their paths -/
def customPaths : KS → List String → List (String × String)
  | .custom n, p => [("::".intercalate p.reverse, n)]
  | .struct fs, p => customPathsF fs p
  | .ptr s, p => customPaths s p
  | .slice s, p => customPaths s ("[]" :: p)
  | .map _ s, p => customPaths s ("*" :: p)
  | _, _ => []
def customPathsF : List (String × KS) → List String → List (String × String)
  | [], _ => []
  | (k, s) :: fs, p => customPaths s (k :: p) ++ customPathsF fs p
end

/-! ## custom `Unmarshal` hooks

The built-in types with their own `Unmarshal(*confmap.Conf)` all have the same form: the generic
decode, preceded or followed by a small fix-up that looks at which keys are written.  Each fix-up is
a function over the typed tree, expressed with `setPath`. -/

mutual
/-- replace the value at a key path (through optionals; a nil optional on the way is left alone) -/
def setPath : KS → TV → List String → TV → TV
  | _, _, [], x => x
  | .ptr _, .nilp, _ :: _, _ => .nilp
  | .ptr s, t, k :: p, x => setPath s t (k :: p) x
  | .struct fs, .struct tfs, k :: p, x => .struct (setF fs tfs k p x)
  | _, t, _ :: _, _ => t
def setF : List (String × KS) → List (String × TV) → String → List String → TV → List (String × TV)
  | (k', s) :: fs, (kt, t) :: tfs, k, p, x =>
    if k' == k then (kt, setPath s t p x) :: tfs else (kt, t) :: setF fs tfs k p x
  | _, tfs, _, _, _ => tfs
end

/-- is the key path written (at least down to it)? — `conf.IsSet` -/
def isSet (v : Val) (p : List String) : Bool := (valGet v p).isSome

inductive Hook
  /-- queuebatch.Config: `if IsSet(src) && !IsSet(dst) { dst = src }` after the decode (deprecated `blocking`) -/
  | aliasIfUnset (at_ : List String) (src dst : String)
  /-- otlpreceiver.Config: `if !IsSet(k) { field k = nil }` after the decode, for each optional protocol -/
  | dropUnset (paths : List (List String))
  /-- otlpexporter.Config: `if IsSet(k) { field k = <fresh default> }` before the decode (deprecated `batcher`);
  the fresh value only matters for unwritten settings below the written key and is not modelled (zero value) -/
  | resetWhenSet (path : List String)
  /-- otlpreceiver.Config: `sanitizeURLPath` rewrites these *written* leaves (adds the leading "/"): the result is not
  modelled; the positions are excluded from the faithfulness claims (named exception) -/
  | normalizes (paths : List (List String))
deriving Repr

def preHook (S : KS) (v : Val) (d : TV) : Hook → TV
  | .resetWhenSet q => if isSet v q then setPath S d q ((kindAt S q).elim d zero) else d
  | _ => d

def postHook (S : KS) (v : Val) (t : TV) : Hook → TV
  | .aliasIfUnset q src dst =>
    if isSet v (q ++ [src]) && !isSet v (q ++ [dst]) then
      match getS S t (q ++ [src]) with
      | some (.atom a) => setPath S t (q ++ [dst]) (.atom a)
      | _ => t
    else t
  | .dropUnset paths => paths.foldl (fun t q => if isSet v q then t else setPath S t q .nilp) t
  | .resetWhenSet _ => t
  | .normalizes _ => t

/-- a component's `Unmarshal`: fix-ups before, the generic decode, fix-ups after -/
def decodeC (hooks : List Hook) (S : KS) (d : TV) (v : Val) : Option TV :=
  (decodeV S (hooks.foldl (preHook S v) d) v).map (fun t => hooks.foldl (postHook S v) t)

def incomparable (q p : List String) : Bool := !(q.isPrefixOf p) && !(p.isPrefixOf q)

/-- the hook sits on positions of the kinds it expects -/
def Hook.wellPlaced (S : KS) : Hook → Bool
  | .aliasIfUnset q src dst =>
    (kindAt S (q ++ [src])).map isLeafKind == some true && (kindAt S (q ++ [dst])).map isLeafKind == some true
  | .dropUnset paths => paths.all (fun q => match kindAt S q with | some (.ptr _) => true | _ => false)
  | .resetWhenSet q => (kindAt S q).isSome
  | .normalizes paths => paths.all (fun q => (kindAt S q).map isLeafKind == some true)

/-- the hook does not touch the key path `p` for this written configuration: it does not fire, or what it
rewrites is neither above nor below `p` -/
def Hook.compatible (v : Val) (p : List String) : Hook → Bool
  | .aliasIfUnset q src dst => !(isSet v (q ++ [src]) && !isSet v (q ++ [dst])) || incomparable (q ++ [dst]) p
  | .dropUnset paths => paths.all (fun q => isSet v q || incomparable q p)
  | .resetWhenSet _ => true
  | .normalizes paths => paths.all (fun q => incomparable q p)

/-- the key paths a hook may rewrite although they are not written (the named exceptions of "unwritten
settings keep their default") -/
def Hook.targets : Hook → List (List String)
  | .aliasIfUnset q _ dst => [q ++ [dst]]
  | .dropUnset paths => paths
  | .resetWhenSet q => [q]
  | .normalizes paths => paths

/-- the hand-modelled fix-ups of the built-in types with their own `Unmarshal`, by Go type name, for a
position at key path `q` of a component (which type sits where is regenerated: `Gen.customPositions`) -/
def hooksOfType (goType : String) (q : List String) : Option (List Hook) :=
  if goType == "queuebatch.Config" then some [.aliasIfUnset q "blocking" "block_on_overflow"]
  else if goType == "otlpreceiver.Config" then
    some [.dropUnset [q ++ ["protocols", "grpc"], q ++ ["protocols", "http"]],
          .normalizes [q ++ ["protocols", "http", "traces_url_path"], q ++ ["protocols", "http", "metrics_url_path"],
                       q ++ ["protocols", "http", "logs_url_path"]]]
  else if goType == "otlpexporter.Config" then some [.resetWhenSet (q ++ ["batcher"])]
  else none

/-- all fix-ups of a component, from the regenerated list of custom positions; `none` if some position has no model -/
def componentHooks (custom : List (String × List String × String)) (comp : String) : Option (List Hook) :=
  ((custom.filter (fun c => c.1 == comp)).mapM (fun c => hooksOfType c.2.2 c.2.1)).map List.flatten

end OtelVerif.C13
