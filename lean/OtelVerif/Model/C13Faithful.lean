import OtelVerif.Model.C13
import OtelVerif.Model.C13Types
/-!
# C13 model (faithfulness): decoding a configuration map onto defaults, and encoding the result

`decodeV S d v` mirrors what `confmap.Conf.Unmarshal` does for a type of key-space schema `S` whose
current value (the factory default) is `d`, given the written configuration `v`: scalars, text kinds,
opaque strings, slices and maps take the written value; structs are decoded field by field, a field
whose key is not written keeps its default; a nil pointer used as an optional is allocated (zero value)
when something below it is written.  `encodeV` mirrors `confmap.Conf.Marshal` of the typed result:
opaque leaves are shown as the redaction marker.  Slices and maps are atoms here.
-/
namespace OtelVerif.C13

/-- typed configuration, seen through its keys -/
inductive TV
  | atom (v : Val)
  | nilp
  | struct (fs : List (String × TV))
deriving Repr

/-- effective configuration -/
inductive EV
  | val (v : Val)
  | redacted
  | nil
  | map (kvs : List (String × EV))
deriving Repr

mutual
def zero : KS → TV
  | .struct fs => .struct (zeroF fs)
  | .ptr _ => .nilp
  | _ => .atom (.scalar 0)
def zeroF : List (String × KS) → List (String × TV)
  | [] => []
  | (k, s) :: fs => (k, zero s) :: zeroF fs
end

mutual
def decodeV : KS → TV → Val → Option TV
  | .scalar, _, .scalar n => some (.atom (.scalar n))
  | .scalar, _, _ => none
  | .opaque, _, .scalar n => some (.atom (.scalar n))
  | .opaque, _, _ => none
  | .text _, _, .scalar n => some (.atom (.scalar n))
  | .text _, _, _ => none
  | .custom _, _, v => some (.atom v)
  | .iface, _, v => some (.atom v)
  | .slice _, _, .list vs => some (.atom (.list vs))
  | .slice _, _, _ => none
  | .map _ _, _, .map kvs => some (.atom (.map kvs))
  | .map _ _, _, _ => none
  | .ptr s, .nilp, v => decodeV s (zero s) v
  | .ptr s, d, v => decodeV s d v
  | .struct fs, .struct dfs, .map kvs =>
    if kvs.all (fun p => (fs.map (·.1)).contains p.1) then (decodeFs fs dfs kvs).map .struct else none   -- ErrorUnused
  | .struct _, _, _ => none
def decodeFs : List (String × KS) → List (String × TV) → List (String × Val) → Option (List (String × TV))
  | [], _, _ => some []
  | (k, s) :: fs, (_, dv) :: dfs, kvs =>
    match lookupVal kvs k with
    | some v =>
      match decodeV s dv v, decodeFs fs dfs kvs with
      | some t, some rest => some ((k, t) :: rest)
      | _, _ => none
    | none =>
      match decodeFs fs dfs kvs with
      | some rest => some ((k, dv) :: rest)
      | none => none
  | _ :: _, [], _ => none
end

mutual
/-- the value at a key path; a nil optional shows the zero value of its type -/
def getPath : KS → TV → List String → Option TV
  | _, t, [] => some t
  | .ptr s, .nilp, k :: p => getPath s (zero s) (k :: p)
  | .ptr s, t, k :: p => getPath s t (k :: p)
  | .struct fs, .struct tfs, k :: p => getF fs tfs k p
  | _, _, _ :: _ => none
def getF : List (String × KS) → List (String × TV) → String → List String → Option TV
  | (k', s) :: fs, (_, t) :: tfs, k, p => if k' == k then getPath s t p else getF fs tfs k p
  | _, _, _, _ => none
end

mutual
/-- the value at a key path, not looking through nil optionals (what the encoder can show) -/
def getS : KS → TV → List String → Option TV
  | _, t, [] => some t
  | .ptr _, .nilp, _ :: _ => none
  | .ptr s, t, k :: p => getS s t (k :: p)
  | .struct fs, .struct tfs, k :: p => getSF fs tfs k p
  | _, _, _ :: _ => none
def getSF : List (String × KS) → List (String × TV) → String → List String → Option TV
  | (k', s) :: fs, (_, t) :: tfs, k, p => if k' == k then getS s t p else getSF fs tfs k p
  | _, _, _, _ => none
end

def isLeafKind : KS → Bool
  | .struct _ => false
  | .ptr s => isLeafKind s
  | _ => true

def isOpaqueKind : KS → Bool
  | .opaque => true
  | .ptr s => isOpaqueKind s
  | _ => false

/-- the written value at a key path -/
def valGet : Val → List String → Option Val
  | v, [] => some v
  | .map kvs, k :: p => (lookupVal kvs k).bind (fun v => valGet v p)
  | _, _ :: _ => none

/-- nothing at or above this path is written -/
def untouched : Val → List String → Bool
  | .map kvs, k :: p =>
    match lookupVal kvs k with
    | none => true
    | some v => untouched v p
  | _, _ => false

mutual
/-- the typed value has the shape of the schema -/
def shape : KS → TV → Bool
  | .struct fs, .struct tfs => shapeF fs tfs
  | .struct _, _ => false
  | .ptr _, .nilp => true
  | .ptr s, t => shape s t
  | _, .atom _ => true
  | _, _ => false
def shapeF : List (String × KS) → List (String × TV) → Bool
  | [], [] => true
  | (_, s) :: fs, (_, t) :: tfs => shape s t && shapeF fs tfs
  | _, _ => false
end

mutual
/-- the kind of hook that sits at a key path -/
def kindAt : KS → List String → Option KS
  | s, [] => some s
  | .ptr s, k :: p => kindAt s (k :: p)
  | .struct fs, k :: p => kindAtF fs k p
  | _, _ :: _ => none
def kindAtF : List (String × KS) → String → List String → Option KS
  | (k', s) :: fs, k, p => if k' == k then kindAt s p else kindAtF fs k p
  | [], _, _ => none
end

mutual
/-- `confmap.Conf.Marshal` of the typed configuration -/
def encodeV : KS → TV → EV
  | .opaque, .atom _ => .redacted
  | .ptr _, .nilp => .nil
  | .ptr s, t => encodeV s t
  | .struct fs, .struct tfs => .map (encodeF fs tfs)
  | _, .atom v => .val v
  | _, _ => .nil
def encodeF : List (String × KS) → List (String × TV) → List (String × EV)
  | (k, s) :: fs, (_, t) :: tfs => (k, encodeV s t) :: encodeF fs tfs
  | _, _ => []
end

def evGet : EV → List String → Option EV
  | e, [] => some e
  | .map kvs, k :: p => ((kvs.find? (fun q => q.1 == k)).map (·.2)).bind (fun e => evGet e p)
  | _, _ :: _ => none

def keysNodup : List String → Bool
  | [] => true
  | k :: ks => !ks.contains k && keysNodup ks

mutual
/-- every struct level has pairwise distinct keys (after squash inlining): no written key feeds two fields -/
def keysUnique : KS → Bool
  | .struct fs => keysNodup (fs.map (·.1)) && keysUniqueF fs
  | .ptr s => keysUnique s
  | .slice s => keysUnique s
  | .map _ s => keysUnique s
  | _ => true
def keysUniqueF : List (String × KS) → Bool
  | [] => true
  | (_, s) :: fs => keysUnique s && keysUniqueF fs
end

mutual
/-- no map anywhere is keyed by an opaque string -/
def noOpaqueKey : KS → Bool
  | .struct fs => noOpaqueKeyF fs
  | .ptr s => noOpaqueKey s
  | .slice s => noOpaqueKey s
  | .map ko s => !ko && noOpaqueKey s
  | _ => true
def noOpaqueKeyF : List (String × KS) → Bool
  | [] => true
  | (_, s) :: fs => noOpaqueKey s && noOpaqueKeyF fs
end

mutual
/-- positions decoded by a type's own `Unmarshal` (outside the generic theorem): their paths -/
def customPaths : KS → List String → List (String × String)
  | .custom n, p => [("::".intercalate p.reverse, n)]
  | .struct fs, p => customPathsF fs p
  | .ptr s, p => customPaths s p
  | .slice s, p => customPaths s ("[]" :: p)
  | .map _ s, p => customPaths s ("*" :: p)
  | _, _ => []
def customPathsF : List (String × KS) → List String → List (String × String)
  | [], _ => []
  | (k, s) :: fs, p => customPaths s (k :: p) ++ customPathsF fs p
end

end OtelVerif.C13
