import OtelVerif.Model.C13Faithful
import OtelVerif.Gen.UnmarshalHooks
/-!
# C13 model: the fix-ups of the component-level `Unmarshal` methods as REGENERATED from their source

`Gen.UnmarshalHooks.hooks` is the statement-by-statement translation (go/ast) of `queuebatch.Config.Unmarshal`,
`otlpreceiver.Config.Unmarshal` and `otlpexporter.Config.Unmarshal` into the `Hook` language, with key paths relative to
the position of the type.  `hooksOfTypeG` places them at a position; `Props/C13.lean` proves it equal to the reviewed
hand table `hooksOfType`, so the hooked faithfulness theorems and the driver's `decodeC` speak about today's source.
-/
namespace OtelVerif.C13

/-- a hook with relative paths, placed at key path `q` -/
def Hook.placed (q : List String) : Hook → Hook
  | .aliasIfUnset p s d => .aliasIfUnset (q ++ p) s d
  | .dropUnset ps => .dropUnset (ps.map (q ++ ·))
  | .resetWhenSet p => .resetWhenSet (q ++ p)
  | .normalizes ps => .normalizes (ps.map (q ++ ·))

def hooksOfTypeG (goType : String) (q : List String) : Option (List Hook) :=
  Option.map (fun hs => List.map (Hook.placed q) hs) (List.lookup goType OtelVerif.Gen.UnmarshalHooks.hooks)

/-- all fix-ups of a component from the regenerated custom positions AND the regenerated hook translations -/
def componentHooksG (custom : List (String × List String × String)) (comp : String) : Option (List Hook) :=
  ((custom.filter (fun c => c.1 == comp)).mapM (fun c => hooksOfTypeG c.2.2 c.2.1)).map List.flatten

end OtelVerif.C13
