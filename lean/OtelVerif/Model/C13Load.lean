import OtelVerif.Model.C13
import OtelVerif.Model.C13LoadTypes
import OtelVerif.Gen.ConfigsLoad
/-!
# C13 model: interpreter of the regenerated statements of `configunmarshaler.Configs.Unmarshal`

The loop body runs over local variables (`factory`, `sub`, `cfg`) — registers here — and the heap model of `Model/C13.lean`
(objects by address, `out` = `c.cfgs`).  A register that was not set by an earlier statement makes the later statement a
no-op, so a reordered or missing statement gives a different state than the hand model `loadStep`.
-/
namespace OtelVerif.C13

structure LRegs where
  factory : Option String := none                 -- component type whose factory was found
  written : Option (List (String × String)) := none
  cfg : Option Nat := none                        -- address of the object `cfg` points to
deriving Repr

/-- replace the object at an address (first entry with that address) -/
def heapSet : List (Nat × Obj) → Nat → Obj → List (Nat × Obj)
  | [], _, _ => []
  | (a', o') :: h, a, o => if a' == a then (a, o) :: h else (a', o') :: heapSet h a o

def lstep (defaults : String → Obj) (e : CId × List (String × String)) (st : LoadSt × LRegs) : LStep → LoadSt × LRegs
  | .declIds => st
  | .readIds => st
  | .resetResult => ({ st.1 with out := [] }, st.2)
  | .lookupFactory => (st.1, { st.2 with factory := some e.1.1 })
  | .sub => (st.1, { st.2 with written := some e.2 })
  | .freshDefault =>
    match st.2.factory with
    | some ty => ({ st.1 with heap := (st.1.next, defaults ty) :: st.1.heap, next := st.1.next + 1 }, { st.2 with cfg := some st.1.next })
    | none => st
  | .overlay =>
    match st.2.cfg, st.2.written with
    | some a, some w =>
      match st.1.heap.lookup a with
      | some o => ({ st.1 with heap := heapSet st.1.heap a (overlay o w) }, st.2)
      | none => st
    | _, _ => st
  | .store =>
    match st.2.cfg with
    | some a => ({ st.1 with out := (e.1, a) :: st.1.out }, st.2)
    | none => st

/-- one iteration of the loop: the body statements in order; the locals declared in the body start unset, the ones that
statements BEFORE the loop set (`regs0`) are shared by every iteration -/
def runBody (body : List LStep) (defaults : String → Obj) (regs0 : LRegs) (s : LoadSt) (e : CId × List (String × String)) : LoadSt :=
  (body.foldl (lstep defaults e) (s, regs0)).1

/-- the whole `Unmarshal`: the statements before the loop (on the state the previous load left), then the loop -/
def runLoadFrom (before body : List LStep) (defaults : String → Obj) (s0 : LoadSt) (entries : List (CId × List (String × String))) : LoadSt :=
  let st0 := before.foldl (lstep defaults (("", ""), [])) (s0, {})
  entries.foldl (runBody body defaults st0.2) st0.1

def runLoad (before body : List LStep) (defaults : String → Obj) (entries : List (CId × List (String × String))) : LoadSt :=
  runLoadFrom before body defaults {} entries

end OtelVerif.C13
