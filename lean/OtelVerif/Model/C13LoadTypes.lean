/-!
# C13 — the step language of `configunmarshaler.Configs.Unmarshal` (shared by the regenerated `Gen/ConfigsLoad.lean` and the model)
-/
namespace OtelVerif.C13

inductive LStep
  | declIds         -- `rawCfgs := make(map[component.ID]map[string]any)`
  | readIds         -- `conf.Unmarshal(&rawCfgs)`: the ids written in the section
  | resetResult     -- `c.cfgs = make(map[component.ID]component.Config)`: a new result map for THIS load
  | lookupFactory   -- `factory, ok := c.factories[id.Type()]` (unknown type: error)
  | sub             -- `sub, err := conf.Sub(id.String())`: the keys written for this id
  | freshDefault    -- `cfg := factory.CreateDefaultConfig()`: a new object
  | overlay         -- `sub.Unmarshal(&cfg)`: the written keys over that object
  | store           -- `c.cfgs[id] = cfg`
deriving DecidableEq, Repr

end OtelVerif.C13
