/-!
# C13 — key-space schemas (shared by the regenerated `Gen/ConfigSchemas.lean` and the model)

`KS` describes a configuration type as mapstructure sees it: keys, nesting, and the *kind of hook*
that decodes a leaf.  Squashed (embedded) structs are inlined by the translator — that is
mapstructure's semantics of `squash` (their keys live at the level of the enclosing struct).
-/
namespace OtelVerif.C13

inductive KS
  | scalar                          -- bool / number / string: the written value replaces the default
  | opaque                          -- configopaque.String (effective configuration shows the marker)
  | text (type : String)            -- a type decoded by its own UnmarshalText (ID, Level, SizerType, …)
  | custom (type : String)          -- a type with its own `Unmarshal(*confmap.Conf)`: outside the generic theorem
  | iface                           -- `any`
  | struct (fs : List (String × KS))
  | ptr (s : KS)
  | slice (s : KS)                  -- replaced wholesale by a written list
  | map (keyOpaque : Bool) (s : KS) -- map[K]T; keyOpaque: K is configopaque.String
deriving Repr

end OtelVerif.C13
