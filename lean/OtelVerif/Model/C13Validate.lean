import OtelVerif.Model.C13
import OtelVerif.Model.C13ValidateTypes
import OtelVerif.Gen.ConfigValidate
/-!
# C13 model: interpreter of the regenerated `Config.Validate` / `PipelineConfig.Validate` statement lists

`evalPhases c Gen.ConfigValidate.rootPhases` is what the CURRENT source of `otelcol/config.go Config.Validate` computes
on the abstract configuration `c : Top` (admissible error set of the first statement that can return, `[]` = nil);
`evalPipe` likewise for `PipelineConfig.Validate`.  `Props/C13.lean` proves them equal to the hand models
`rootErrs` / `pipeErr`, so `C13_refs`, `C13_shape` and the "names the entry" theorems are about the source as it is today.
The feature gate `AllowNoPipelines` is at its default (disabled): `!gate.IsEnabled()` is true.
-/
namespace OtelVerif.C13

def Top.secEmpty (c : Top) : Sec → Bool
  | .receivers => c.receivers.isEmpty
  | .exporters => c.exporters.isEmpty
  | .processors => c.processors.isEmpty
  | .connectors => c.connectors.isEmpty
  | .extensions => c.extensions.isEmpty

def Top.ids (c : Top) : Sec → List Id
  | .receivers => c.receivers
  | .exporters => c.exporters
  | .processors => c.processors.map (·.1)
  | .connectors => c.connectors
  | .extensions => c.extensions.map (·.1)

/-- `Top` keeps a nil flag for processors and extensions only (the translator refuses a nil test elsewhere) -/
def Top.look (c : Top) : Look → Id → Bool
  | .present s, r => (c.ids s).contains r
  | .nonNil .processors, r => configured c.processors r
  | .nonNil .extensions, r => configured c.extensions r
  | .nonNil s, r => (c.ids s).contains r

def EK.mk : EK → Nat → Id → RErr
  | .emptyConfig, _, _ => .emptyConfig
  | .noReceivers, _, _ => .noReceivers
  | .noExporters, _, _ => .noExporters
  | .ambiguousExporter, _, r => .ambiguousExporter r
  | .ambiguousReceiver, _, r => .ambiguousReceiver r
  | .danglingExtension, _, r => .danglingExtension r
  | .danglingReceiver, p, r => .danglingReceiver p r
  | .danglingProcessor, p, r => .danglingProcessor p r
  | .danglingExporter, p, r => .danglingExporter p r
  | .pipeNoReceivers, p, _ => .pipeNoReceivers p
  | .pipeNoExporters, p, _ => .pipeNoExporters p
  | .dupProcessor, p, r => .dupProcessor p r
  | .noPipelines, _, _ => .noPipelines

def Pipe.get (p : Pipe) : PList → List Id
  | .recv => p.recv
  | .procs => p.procs
  | .exps => p.exps

def firstSome {α : Type} : List (Option α) → Option α
  | [] => none
  | some a :: _ => some a
  | none :: xs => firstSome xs

/-- one inner loop: the first reference (slice order) that no accept test takes -/
def loopErr (c : Top) (pid : Nat) (p : Pipe) (l : RefLoop) : Option RErr :=
  ((p.get l.list).find? (fun r => !(l.accept.any (fun k => c.look k r)))).map (l.msg.kind.mk pid)

/-- the errors one statement may return (a loop over a Go map: any of its failing entries) -/
def phaseErrs (c : Top) : Phase → List RErr
  | .allEmpty secs m => if secs.all c.secEmpty then [m.kind.mk 0 0] else []
  | .gatedEmpty _ s m => if c.secEmpty s then [m.kind.mk 0 0] else []
  | .clash over _ against =>
    (c.ids over).filterMap (fun id => firstSome (against.map (fun a => if c.look (.present a.1) id then some (a.2.kind.mk 0 id) else none)))
  | .svcRefs _ acc m =>
    match c.svcExtensions.find? (fun r => !(acc.any (fun k => c.look k r))) with
    | some r => [m.kind.mk 0 r]
    | none => []
  | .pipelines _ loops => c.pipelines.filterMap (fun p => firstSome (loops.map (loopErr c p.1 p.2)))

/-- the statement list: the first statement that can return decides -/
def evalPhases (c : Top) : List Phase → List RErr
  | [] => []
  | ph :: rest =>
    match phaseErrs c ph with
    | [] => evalPhases c rest
    | e :: es => e :: es

def pphaseErr (pid : Nat) (p : Pipe) : PPhase → Option RErr
  | .emptyList l m => if (p.get l).isEmpty then some (m.kind.mk pid 0) else none
  | .noDup l _ m => (firstDup [] (p.get l)).map (m.kind.mk pid)

def evalPipe (pid : Nat) (p : Pipe) (phs : List PPhase) : Option RErr := firstSome (phs.map (pphaseErr pid p))

/-- `xconfmap.Validate(cfg)` over the service pipelines, from the regenerated statements -/
def evalShape (c : Top) (noPipes : Msg) (phs : List PPhase) : List RErr :=
  (if c.pipelines.isEmpty then [noPipes.kind.mk 0 0] else []) ++ c.pipelines.filterMap (fun p => evalPipe p.1 p.2 phs)

/-- the message names the offending entry: every loop variable is the root of some argument and every verb has its argument -/
def Msg.names (m : Msg) (vars : List String) : Bool :=
  vars.all (fun v => m.args.any (fun a => a.1 == v)) && m.verbs == m.args.length

def Phase.namesEntry : Phase → Bool
  | .allEmpty _ _ => true
  | .gatedEmpty _ _ _ => true
  | .clash _ v against => against.all (fun a => a.2.names [v])
  | .svcRefs v _ m => m.names [v]
  | .pipelines v loops => loops.all (fun l => l.msg.names [v, l.refVar])

def PPhase.namesEntry : PPhase → Bool
  | .emptyList _ _ => true
  | .noDup _ v m => m.names [v]

end OtelVerif.C13
