/-!
# C13 — the phase language of `Config.Validate` (shared by the regenerated `Gen/ConfigValidate.lean` and the model)

`translators/cmd/configvalidate` translates the bodies of `otelcol.Config.Validate` and
`pipelines.PipelineConfig.Validate` statement by statement into these constructors (source order kept);
`Model/C13Validate.lean` interprets them.
-/
namespace OtelVerif.C13

/-- the five component sections of `otelcol.Config` -/
inductive Sec
  | receivers | exporters | processors | connectors | extensions
deriving Repr, DecidableEq

/-- how a reference is looked up: `_, ok := cfg.S[ref]` (present, a nil config counts) or `cfg.S[ref] != nil` -/
inductive Look
  | present (s : Sec)
  | nonNil (s : Sec)
deriving Repr, DecidableEq

/-- the three id lists of a pipeline -/
inductive PList
  | recv | procs | exps
deriving Repr, DecidableEq

/-- error classes (by message text) -/
inductive EK
  | emptyConfig | noReceivers | noExporters | ambiguousExporter | ambiguousReceiver | danglingExtension
  | danglingReceiver | danglingProcessor | danglingExporter | pipeNoReceivers | pipeNoExporters | dupProcessor | noPipelines
deriving Repr, DecidableEq

/-- a returned error: class, message text / format, its number of formatting verbs, the `fmt.Errorf` arguments
(variable the expression starts from, expression as written) -/
structure Msg where
  kind : EK
  fmt : String
  verbs : Nat
  args : List (String × String)
deriving Repr

/-- `for _, ref := range pipeline.<list> { accept tests …; return err }` -/
structure RefLoop where
  list : PList
  refVar : String
  accept : List Look
  msg : Msg
deriving Repr

/-- one statement of `otelcol.Config.Validate` -/
inductive Phase
  /-- `if len(cfg.A) == 0 && … { return err }` -/
  | allEmpty (secs : List Sec) (msg : Msg)
  /-- `if !gate.IsEnabled() && len(cfg.S) == 0 { return err }` -/
  | gatedEmpty (gate : String) (sec : Sec) (msg : Msg)
  /-- `for id := range cfg.Over { if _, ok := cfg.A[id]; ok { return err } … }` -/
  | clash (over : Sec) (idVar : String) (against : List (Sec × Msg))
  /-- `for _, ref := range cfg.Service.Extensions { … }` -/
  | svcRefs (refVar : String) (accept : List Look) (msg : Msg)
  /-- `for id, pipeline := range cfg.Service.Pipelines { for _, ref := range pipeline.L { … } … }` -/
  | pipelines (idVar : String) (loops : List RefLoop)
deriving Repr

/-- one statement of `pipelines.PipelineConfig.Validate` -/
inductive PPhase
  /-- `if len(cfg.L) == 0 { return err }` -/
  | emptyList (l : PList) (msg : Msg)
  /-- `set := make(…); for _, ref := range cfg.L { if _, exists := set[ref]; exists { return err }; set[ref] = struct{}{} }` -/
  | noDup (l : PList) (refVar : String) (msg : Msg)
deriving Repr

end OtelVerif.C13
