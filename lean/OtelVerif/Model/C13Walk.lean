import OtelVerif.Model.C13
import OtelVerif.Model.C13WalkTypes
import OtelVerif.Gen.ValidateWalk
/-!
# C13 model: interpreter of the regenerated clause table of `xconfmap.validate`

`walkG tb t` is the walk a clause table `tb` prescribes on the configuration tree `t`: the clause of the node's kind
decides whether the node's own `Validate()` result is reported (first) and how the walk goes below it.
`Props/C13.lean` proves `walkG Gen.ValidateWalk.cases = validate` (the hand model), so `C13_validate_complete` speaks about
the clause table of today's source.  `callValidateIfPossible`, `fieldName`, `stringifyMapKey` stay tied by the differential.
-/
namespace OtelVerif.C13

/-- the clause that takes a kind (the first that lists it, else `default`) -/
def caseOf (tb : List WalkCase) (kind : String) : WalkCase :=
  match tb.find? (fun c => c.kinds.contains kind) with
  | some c => c
  | none => (tb.find? (fun c => c.kinds.contains "default")).getD ⟨[], false, .none⟩

mutual
def walkG (tb : List WalkCase) : VT → List (Path × Nat)
  | .leaf e => if (caseOf tb "String").own then own e else []          -- a kind without its own clause
  | .nilv => []                                                       -- reflect.Invalid: nothing to call, nothing below
  | .ptr v =>
    match (caseOf tb "Ptr").descend with
    | .elem => walkG tb v
    | _ => []
  | .struct e fs =>
    (if (caseOf tb "Struct").own then own e else []) ++
    (match (caseOf tb "Struct").descend with
     | .fields skip => walkGF tb skip fs
     | _ => [])
  | .seq e vs =>
    (if (caseOf tb "Slice").own then own e else []) ++
    (match (caseOf tb "Slice").descend with
     | .elems => walkGL tb 0 vs
     | _ => [])
  | .map e kvs =>
    (if (caseOf tb "Map").own then own e else []) ++
    (match (caseOf tb "Map").descend with
     | .keysVals kf => walkGKV tb kf kvs
     | _ => [])
def walkGF (tb : List WalkCase) (skip : Bool) : List (String × Bool × VT) → List (Path × Nat)
  | [] => []
  | (name, exported, v) :: fs => (if exported || !skip then pre name (walkG tb v) else []) ++ walkGF tb skip fs
def walkGL (tb : List WalkCase) : Nat → List VT → List (Path × Nat)
  | _, [] => []
  | i, v :: vs => pre (toString i) (walkG tb v) ++ walkGL tb (i + 1) vs
def walkGKV (tb : List WalkCase) (kf : Bool) : List (String × VT × VT) → List (Path × Nat)
  | [] => []
  | (k, kv, v) :: kvs =>
    (if kf then pre k (walkG tb kv) ++ pre k (walkG tb v) else pre k (walkG tb v) ++ pre k (walkG tb kv)) ++ walkGKV tb kf kvs
end

/-- `VT.seq` stands for slices AND arrays, `VT.ptr` for pointers AND interfaces: the table must treat each pair alike -/
def tablePaired (tb : List WalkCase) : Bool :=
  caseOf tb "Slice" == caseOf tb "Array" && caseOf tb "Ptr" == caseOf tb "Interface"

end OtelVerif.C13
