/-!
# C13 — the table language of the validation walk (shared by the regenerated `Gen/ValidateWalk.lean` and the model)
-/
namespace OtelVerif.C13

/-- how a clause of `switch v.Kind()` in `xconfmap.validate` goes below the value -/
inductive Descend
  | none                              -- `return nil` / nothing below
  | elem                              -- `return validate(v.Elem())`
  | fields (skipUnexported : Bool)    -- every field, named by `fieldName`; `if !IsExported() { continue }`
  | elems                             -- every element, named by its index
  | keysVals (keysFirst : Bool)       -- every map entry: key and value, both named by `stringifyMapKey(key)`
deriving DecidableEq, Repr

/-- one clause: the kinds it takes, whether the value's own `Validate()` is called (its error comes first), the descent -/
structure WalkCase where
  kinds : List String
  own : Bool
  descend : Descend
deriving DecidableEq, Repr

end OtelVerif.C13
