import OtelVerif.Model.C14Types
import OtelVerif.Gen.Opaque
import OtelVerif.Gen.SquashHook
/-!
# C14 model: opaque strings under `fmt`, under the marshalling libraries, and under the config-map encoder

* `MExpr.eval` — what a (regenerated) method of `configopaque.String` returns for a receiver value.
* `pa`/`pv`/`rawLeaves` — the dispatch of `fmt` (`printArg`, `handleMethods`, `printValue`, `badVerb`,
  `fmtPointer`, `fmtString` of go1.23 `fmt/print.go`) for an operand tree whose leaves of interest are
  opaque strings: for every opaque leaf that contributes text to the output, *which text* reaches
  fmt's string formatter and *how* it was obtained.  The final bytes are `fmtS/fmtQ/fmtSx` (padding,
  precision, quoting — library code) applied to that text; they are a function of the leaf text.
* `pathConsult` — which interface `encoding/json`, yaml.v3, `encoding/gob`, zap … consult for a value
  of string kind in value / map-key position.
* `enc` — `confmap/internal/mapstructure/encoder.go` (`encode`, `encodeStruct`, `encodeSlice`,
  `encodeMap`, `encodeHook` with the hook chain of `confmap.encoderConfig`) over value trees.

Secrets are supplied by an environment `ρ : Nat → String`; a leaf `opq i` holds `ρ i`.  Every
function reads `ρ i` exactly where the Go code reads the string value.
-/
namespace OtelVerif.C14
open OtelVerif.Gen

/-! ## methods -/

def MExpr.eval : MExpr → String → String
  | .recv, s => s
  | .lit c, _ => c
  | .goQuote e, s => "\"" ++ e.eval s ++ "\""   -- exact when the text needs no escaping (the marker)
  | .cat a b, s => a.eval s ++ b.eval s

def MExpr.usesRecv : MExpr → Bool
  | .recv => true
  | .lit _ => false
  | .goQuote e => e.usesRecv
  | .cat a b => a.usesRecv || b.usesRecv

/-- type descriptor: the method table of the opaque type -/
abbrev TD := List Method

/-- method `name` in the method set of a value (`viaPtr = false`) or of a pointer to it -/
def TD.find (td : TD) (name : String) (viaPtr : Bool) : Option Method :=
  List.find? (fun m => m.name == name && (m.valueRecv || viaPtr)) td

def TD.has (td : TD) (name : String) : Bool := (td.find name false).isSome

/-! ## value trees -/

structure FieldInfo where
  name : String        -- mapstructure key: tag name, or lower-cased field name
  exported : Bool := true
  omitEmpty : Bool := false
  squash : Bool := false   -- `squash` or `remain`
deriving DecidableEq, Repr

/-- struct-level hooks of the encoder chain other than `TextMarshaler` -/
inductive SHook
  | marshaler   -- the type implements `confmap.Marshaler`: `marshalerHookFunc` calls its `Marshal` and takes `conf.ToStringMap()`
  | yaml        -- the struct has `yaml` tags and no `mapstructure` tags: `YamlMarshalerHookFunc` round-trips it through yaml
deriving DecidableEq, Repr

inductive GV
  | opq (i : Nat)                       -- configopaque.String holding secret number i
  | str (s : String)                    -- plain string
  | num (n : Nat)                       -- any other primitive
  | nilv                                -- nil pointer / nil interface
  | ptr (v : GV)
  | iface (v : GV)
  | slice (vs : List GV)
  | nilSlice
  | array (vs : List GV)
  | map (kvs : List (GV × GV))
  | nilMap
  | struct (fs : List (FieldInfo × GV))
  | tm (out : String) (viaValue : Bool) (fs : List (FieldInfo × GV))
      -- a struct whose type has `MarshalText` returning `out`: on values (`viaValue`) or only on pointers
  | sh (hook : SHook) (fs : List (FieldInfo × GV))
      -- a struct taken by one of the other struct-level hooks; `marshaler`: its `Marshal` marshals the map {name ↦ field};
      -- `yaml`: fields are leaves (opaque / number / string), keys are the yaml tags
deriving Repr

def GV.isOpq : GV → Option Nat
  | .opq i => some i
  | _ => none

/-- Array, Slice, Struct, Map: what `printValue` dereferences through a top-level pointer -/
def GV.isContainer : GV → Bool
  | .slice _ | .nilSlice | .array _ | .map _ | .nilMap | .struct _ | .tm _ _ _ | .sh _ _ => true
  | _ => false

/-- kinds for which `fmtPointer` prints an address -/
def GV.isPointerLike : GV → Bool
  | .ptr _ | .nilv | .slice _ | .nilSlice | .map _ | .nilMap => true
  | _ => false

/-! ## fmt -/

inductive How | formatter | goStringer | stringer | errorM | rawKind | badVerbRaw
deriving DecidableEq, Repr

structure Leaf where
  how : How
  text : String
deriving DecidableEq, Repr

structure FmtCtx where
  verb : Char
  sharpV : Bool := false      -- `#` with `%v` (doPrintf moves the flag)
  wrapErrs : Bool := false    -- Errorf
deriving DecidableEq, Repr

def stringVerbs : List Char := ['v', 's', 'x', 'X', 'q']
def pointerVerbs : List Char := ['v', 'p', 'b', 'o', 'd', 'x', 'X']

/-- `handleMethods` for an operand of the opaque type, after the `erroring` and `%w` checks -/
def methodsOf (td : TD) (c : FmtCtx) (viaPtr : Bool) (s : String) : Option (List Leaf) :=
  match td.find "Format" viaPtr with
  | some m => some [⟨.formatter, m.result.eval s⟩]
  | none =>
    if c.sharpV then
      match td.find "GoString" viaPtr with
      | some m => some [⟨.goStringer, m.result.eval s⟩]
      | none => none
    else if stringVerbs.contains c.verb then
      match td.find "Error" viaPtr with
      | some m => some [⟨.errorM, m.result.eval s⟩]
      | none =>
        match td.find "String" viaPtr with
        | some m => some [⟨.stringer, m.result.eval s⟩]
        | none => none
    else none

/-- `printValue` on the String kind: `fmtString(raw, verb)` -/
def rawString (c : FmtCtx) (s : String) : List Leaf :=
  if stringVerbs.contains c.verb then [⟨.rawKind, s⟩] else [⟨.badVerbRaw, s⟩]

mutual
/-- printing with verb `v` while `p.erroring` (inside a `%!verb(type=…)` diagnostic): no method is consulted.
`top`: depth 0 (a pointer is followed only there, and only to a container). -/
def rawLeaves (ρ : Nat → String) (top : Bool) : GV → List Leaf
  | .opq i => [⟨.badVerbRaw, ρ i⟩]
  | .str _ => []
  | .num _ => []
  | .nilv => []
  | .ptr v => if top && v.isContainer then rawLeaves ρ false v else []
  | .iface v => rawLeaves ρ false v
  | .slice vs => rawLeavesL ρ vs
  | .nilSlice => []
  | .array vs => rawLeavesL ρ vs
  | .map kvs => rawLeavesKV ρ kvs
  | .nilMap => []
  | .struct fs => rawLeavesF ρ fs
  | .tm _ _ fs => rawLeavesF ρ fs
  | .sh _ fs => rawLeavesF ρ fs
def rawLeavesL (ρ : Nat → String) : List GV → List Leaf
  | [] => []
  | v :: vs => rawLeaves ρ false v ++ rawLeavesL ρ vs
def rawLeavesKV (ρ : Nat → String) : List (GV × GV) → List Leaf
  | [] => []
  | (k, v) :: kvs => rawLeaves ρ false k ++ rawLeaves ρ false v ++ rawLeavesKV ρ kvs
def rawLeavesF (ρ : Nat → String) : List (FieldInfo × GV) → List Leaf
  | [] => []
  | (_, v) :: fs => rawLeaves ρ false v ++ rawLeavesF ρ fs
end

mutual
/-- `printValue(value, verb, depth)` with `p.erroring = false`; `top` = (depth = 0), `ci` = `value.CanInterface()` -/
def pv (td : TD) (c : FmtCtx) (ρ : Nat → String) (top ci : Bool) : GV → List Leaf
  | .opq i =>
    if !top && ci then
      if c.verb == 'w' && !((td.find "Error" false).isSome && c.wrapErrs) then [⟨.badVerbRaw, ρ i⟩]
      else (methodsOf td c false (ρ i)).getD (rawString c (ρ i))
    else rawString c (ρ i)
  | .str _ => []
  | .num _ => []
  | .nilv => []
  | .ptr v =>
    let viaMethods : Option (List Leaf) :=
      match v.isOpq with
      | some i => if !top && ci && c.verb != 'w' then methodsOf td c true (ρ i) else none
      | none => none
    match viaMethods with
    | some l => l
    | none =>
      if !top && ci && c.verb == 'w' then rawLeaves ρ true (.ptr v)          -- handleMethods: %w on a non-error → badVerb
      else if top && v.isContainer then pv td c ρ false ci v                  -- `&` + printValue(elem, depth+1)
      else if pointerVerbs.contains c.verb then []                            -- fmtPointer prints the address
      else rawLeaves ρ true (.ptr v)                                          -- fmtPointer → badVerb → printValue(p.value,'v',0)
  | .iface v => pv td c ρ false ci v
  | .slice vs => if !top && ci && c.verb == 'w' then rawLeavesL ρ vs else pvL td c ρ ci vs
  | .nilSlice => []
  | .array vs => if !top && ci && c.verb == 'w' then rawLeavesL ρ vs else pvL td c ρ ci vs
  | .map kvs => if !top && ci && c.verb == 'w' then rawLeavesKV ρ kvs else pvKV td c ρ ci kvs
  | .nilMap => []
  | .struct fs => if !top && ci && c.verb == 'w' then rawLeavesF ρ fs else pvF td c ρ ci fs
  | .tm _ _ fs => if !top && ci && c.verb == 'w' then rawLeavesF ρ fs else pvF td c ρ ci fs   -- MarshalText is not a fmt interface
  | .sh _ fs => if !top && ci && c.verb == 'w' then rawLeavesF ρ fs else pvF td c ρ ci fs
def pvL (td : TD) (c : FmtCtx) (ρ : Nat → String) (ci : Bool) : List GV → List Leaf
  | [] => []
  | v :: vs => pv td c ρ false ci v ++ pvL td c ρ ci vs
def pvKV (td : TD) (c : FmtCtx) (ρ : Nat → String) (ci : Bool) : List (GV × GV) → List Leaf
  | [] => []
  | (k, v) :: kvs => pv td c ρ false ci k ++ pv td c ρ false ci v ++ pvKV td c ρ ci kvs
def pvF (td : TD) (c : FmtCtx) (ρ : Nat → String) (ci : Bool) : List (FieldInfo × GV) → List Leaf
  | [] => []
  | (fi, v) :: fs => pv td c ρ false (ci && fi.exported) v ++ pvF td c ρ ci fs
end

/-- strip the interface wrapper(s) of an `any` operand: `printArg` receives the dynamic value -/
def GV.dyn : GV → GV
  | .iface v => v.dyn
  | v => v

/-- `printArg(arg, verb)` for a top-level operand (`Sprintf`, `Sprint`, `Errorf`, … all end here) -/
def pa (td : TD) (c : FmtCtx) (ρ : Nat → String) (v0 : GV) : List Leaf :=
  let v := v0.dyn
  if c.verb == 'T' then []
  else if c.verb == 'p' then (if v.isPointerLike then [] else rawLeaves ρ true v)
  else
    let isErr := (td.find "Error" false).isSome && v.isOpq.isSome
    if c.verb == 'w' && !(isErr && c.wrapErrs) then rawLeaves ρ true v
    else
      let c' := if c.verb == 'w' then { c with verb := 'v' } else c
      match v with
      | .opq i => (methodsOf td c' false (ρ i)).getD (rawString c (ρ i))
      | .ptr w =>
        match w.isOpq with
        | some i => (methodsOf td c' true (ρ i)).getD (pv td c ρ true true v)
        | none => pv td c ρ true true v
      | _ => pv td c ρ true true v

/-- does the rendering produced from these leaves depend on the secrets?  `prec0`: precision 0
truncates every string operand to the empty string (`fmtS`, `fmtQ`, `fmtSbx`). -/
def depends (prec0 : Bool) (l1 l2 : List Leaf) : Bool := !prec0 && l1 != l2

def How.tag : How → String
  | .formatter => "F" | .goStringer => "G" | .stringer => "S" | .errorM => "E" | .rawKind => "r" | .badVerbRaw => "b"

/-! ### shape classes used by hypotheses and by the search oracle -/

mutual
/-- positions below the top: every struct field exported, pointers only directly to an opaque string -/
def GV.plainIn : GV → Bool
  | .opq _ | .str _ | .num _ | .nilv | .nilSlice | .nilMap => true
  | .ptr v => v.isOpq.isSome
  | .iface v => v.plainIn
  | .slice vs => GV.plainInL vs
  | .array vs => GV.plainInL vs
  | .map kvs =>
    -- fmt prints map entries sorted by the RAW value of a string-kind key (internal/fmtsort): with several
    -- opaque keys the order of the entries depends on the secrets; such maps are outside "plain"
    (kvs.length ≤ 1 || kvs.all (fun p => match p.1 with | .str _ | .num _ => true | _ => false)) && GV.plainInKV kvs
  | .struct fs => GV.plainInF fs
  | .tm _ _ fs => GV.plainInF fs
  | .sh _ fs => GV.plainInF fs
def GV.plainInL : List GV → Bool
  | [] => true
  | v :: vs => v.plainIn && GV.plainInL vs
def GV.plainInKV : List (GV × GV) → Bool
  | [] => true
  | (k, v) :: kvs => k.plainIn && v.plainIn && GV.plainInKV kvs
def GV.plainInF : List (FieldInfo × GV) → Bool
  | [] => true
  | (fi, v) :: fs => fi.exported && v.plainIn && GV.plainInF fs
end

/-- a top-level operand: additionally a pointer to a plain container -/
def GV.plainTop (v0 : GV) : Bool :=
  match v0.dyn with
  | .ptr w => w.isOpq.isSome || (w.isContainer && w.plainIn)
  | v => v.plainIn

mutual
def GV.hasUnexported : GV → Bool
  | .ptr v => v.hasUnexported
  | .iface v => v.hasUnexported
  | .slice vs => GV.hasUnexportedL vs
  | .array vs => GV.hasUnexportedL vs
  | .map kvs => GV.hasUnexportedKV kvs
  | .struct fs => GV.hasUnexportedF fs
  | .tm _ _ fs => GV.hasUnexportedF fs
  | .sh _ fs => GV.hasUnexportedF fs
  | _ => false
def GV.hasUnexportedL : List GV → Bool
  | [] => false
  | v :: vs => v.hasUnexported || GV.hasUnexportedL vs
def GV.hasUnexportedKV : List (GV × GV) → Bool
  | [] => false
  | (k, v) :: kvs => k.hasUnexported || v.hasUnexported || GV.hasUnexportedKV kvs
def GV.hasUnexportedF : List (FieldInfo × GV) → Bool
  | [] => false
  | (fi, v) :: fs => !fi.exported || v.hasUnexported || GV.hasUnexportedF fs
end

/-! ## marshalling libraries: which interface is consulted for a value of string kind -/

inductive Pos | value | mapKey
deriving DecidableEq, Repr

/-- method names tried in order; `none` in the list means "the raw string of the kind is taken here" -/
def pathConsult : String → Pos → List (Option String)
  | "json", .value => [some "MarshalJSON", some "MarshalText", none]
  | "json", .mapKey => [none]                                   -- encode.go resolveKeyName: string kind first
  | "yaml", _ => [some "MarshalYAML", some "MarshalText", none] -- yaml.v3 encode.go marshal
  | "gob", _ => [some "GobEncode", some "MarshalBinary", some "MarshalText", none]
  | "text", _ => [some "MarshalText"]
  | "binary", _ => [some "MarshalBinary"]
  | "zap.Stringer", _ => [some "String"]
  | "zap.Any", _ => [some "MarshalLogObject", some "Error", some "String", none]
  | "zap.Reflect", .value => [some "MarshalJSON", some "MarshalText", none]
  | "zapconsole.Stringer", _ => [some "String"]                -- zapcore console encoder: same field resolution, other writer
  | "zapconsole.Any", _ => [some "MarshalLogObject", some "Error", some "String", none]
  | "zapconsole.Reflect", .value => [some "MarshalJSON", some "MarshalText", none]
  | "slog.text", _ => [some "LogValue", some "MarshalText", some "Format", some "Error", some "String", none] -- TextHandler: TextMarshaler, else %+v
  | "slog.json", _ => [some "LogValue", some "MarshalJSON", some "Error", some "MarshalText", none]          -- JSONHandler: error, else json.Marshal
  | "conv", _ => [none]                                         -- string(s): the explicit conversion
  | _, _ => [none]

def resolve (td : TD) : List (Option String) → Option Method
  | [] => none
  | none :: _ => none
  | some n :: rest => match td.find n false with
    | some m => some m
    | none => resolve td rest

/-- the text a marshalling path hands to its writer -/
def pathText (td : TD) (path : String) (pos : Pos) (s : String) : String :=
  match resolve td (pathConsult path pos) with
  | some m => m.result.eval s
  | none => s

def knownPaths : List (String × Pos) :=
  [("json", .value), ("json", .mapKey), ("yaml", .value), ("yaml", .mapKey), ("gob", .value), ("gob", .mapKey),
   ("text", .value), ("binary", .value), ("zap.Stringer", .value), ("zap.Any", .value), ("zap.Reflect", .value),
   ("zapconsole.Stringer", .value), ("zapconsole.Any", .value), ("zapconsole.Reflect", .value), ("slog.text", .value), ("slog.json", .value)]

/-! ## config-map encoder -/

inductive Any
  | str (s : String)
  | num (n : Nat)
  | nil
  | list (xs : List Any)
  | map (kvs : List (String × Any))     -- unique keys, insertion order (printed sorted)
  | typed (v : GV)                      -- a Go value handed on with its static type (the hook chain returned it as is)
  | rawTyped (s : String)               -- a string-kind value of a named type that the hook chain returned as is
deriving Repr

inductive EncErr | dupKey | nonStringKey
deriving DecidableEq, Repr

mutual
/-- `reflect.Value.IsZero` -/
def isZero (ρ : Nat → String) : GV → Bool
  | .opq i => ρ i == ""
  | .str s => s == ""
  | .num n => n == 0
  | .nilv => true
  | .ptr _ => false
  | .iface _ => false
  | .slice _ => false
  | .nilSlice => true
  | .array vs => isZeroL ρ vs
  | .map _ => false
  | .nilMap => true
  | .struct fs => isZeroF ρ fs
  | .tm _ _ fs => isZeroF ρ fs
  | .sh _ fs => isZeroF ρ fs
def isZeroL (ρ : Nat → String) : List GV → Bool
  | [] => true
  | v :: vs => isZero ρ v && isZeroL ρ vs
def isZeroF (ρ : Nat → String) : List (FieldInfo × GV) → Bool
  | [] => true
  | (_, v) :: fs => isZero ρ v && isZeroF ρ fs
end

/-- `result[key] = v` -/
def insertKV (m : List (String × Any)) (k : String) (v : Any) : List (String × Any) :=
  if m.any (fun p => p.1 == k) then m.map (fun p => if p.1 == k then (k, v) else p) else m ++ [(k, v)]

def mergeKVs (m : List (String × Any)) : List (String × Any) → List (String × Any)
  | [] => m
  | (k, v) :: rest => mergeKVs (insertKV m k v) rest

/-- `reflect.ValueOf(encoded)`, `Kind() == String` → `v.String()` -/
def keyString : Any → Option String
  | .str s => some s
  | .rawTyped s => some s              -- a string-kind value the hooks left alone: its raw content becomes the key
  | _ => none

/-- `YamlMarshalerHookFunc`: `yaml.Marshal` of the struct (yaml.v3 consults `MarshalYAML`, then `MarshalText`, for a
string-kind field) followed by `yaml.Unmarshal` into `map[string]any` -/
def yamlF (td : TD) (ρ : Nat → String) : List (FieldInfo × GV) → List (String × Any)
  | [] => []
  | (fi, v) :: fs =>
    (fi.name, match v with
      | .opq i => Any.str (pathText td "yaml" .value (ρ i))
      | .num n => Any.num n
      | .str s => Any.str s
      | _ => Any.nil) :: yamlF td ρ fs

mutual
/-- `Encoder.encode` -/
def enc (td : TD) (ρ : Nat → String) : GV → Except EncErr Any
  | .opq i =>
    -- default branch → encodeHook: yaml hook (not a struct), TextMarshalerHookFunc, marshalerHookFunc (not a struct)
    match td.find "MarshalText" false with
    | some m => .ok (.str (m.result.eval (ρ i)))
    | none => .ok (.rawTyped (ρ i))
  | .str s => .ok (.str s)
  | .num n => .ok (.num n)
  | .nilv => .ok .nil
  | .ptr v => enc td ρ v
  | .iface v => enc td ρ v
  | .slice vs => do let xs ← encL td ρ vs; pure (.list xs)
  | .nilSlice => .ok (.list [])
  | .array vs => .ok (.typed (.array vs))
  | .map kvs => do let m ← encKV td ρ kvs []; pure (.map m)
  | .nilMap => .ok (.map [])
  | .struct fs => do let m ← encF td ρ fs []; pure (.map m)
  | .tm out viaValue fs =>
    -- encodeStruct → encodeHook: TextMarshalerHookFunc asks `from.Interface().(encoding.TextMarshaler)` of the struct
    -- *value*: a pointer-receiver MarshalText is not found and the struct is encoded field by field
    if viaValue then .ok (.str out) else do let m ← encF td ρ fs []; pure (.map m)
  | .sh .marshaler fs =>
    -- marshalerHookFunc: `Marshal` marshals map[string]any{name: field} with the same encoder, `ToStringMap()` hands the
    -- plain map back, and encodeStruct re-encodes it (identity on plain values)
    do let m ← encF td ρ fs []; pure (.map m)
  | .sh .yaml fs => .ok (.map (yamlF td ρ fs))
def encL (td : TD) (ρ : Nat → String) : List GV → Except EncErr (List Any)
  | [] => .ok []
  | v :: vs => do let x ← enc td ρ v; let xs ← encL td ρ vs; pure (x :: xs)
/-- `encodeMap`, entries in the given order -/
def encKV (td : TD) (ρ : Nat → String) : List (GV × GV) → List (String × Any) → Except EncErr (List (String × Any))
  | [], acc => .ok acc
  | (k, v) :: kvs, acc => do
    let ek ← enc td ρ k
    match keyString ek with
    | none => .error .nonStringKey
    | some key =>
      if acc.any (fun p => p.1 == key) then .error .dupKey
      else do
        let ev ← enc td ρ v
        encKV td ρ kvs (acc ++ [(key, ev)])
/-- `encodeStruct`, fields in declaration order -/
def encF (td : TD) (ρ : Nat → String) : List (FieldInfo × GV) → List (String × Any) → Except EncErr (List (String × Any))
  | [], acc => .ok acc
  | (fi, v) :: fs, acc =>
    if !fi.exported then encF td ρ fs acc                                     -- !field.CanInterface()
    else if (fi.omitEmpty && isZero ρ v) || fi.name == "-" then encF td ρ fs acc
    else do
      let e ← enc td ρ v
      if fi.squash then
        match e with
        | .map m => encF td ρ fs (mergeKVs acc m)
        | _ => encF td ρ fs acc                                               -- silently dropped
      else encF td ρ fs (insertKV acc fi.name e)
end

/-! ### unmarshalling -/

/-- mapstructure assigns a string to a field of string kind as it is (the type has no `UnmarshalText`) -/
def plainStored (s : String) : String := s

/-- `confmap.unmarshalerEmbeddedStructsHookFunc` for a field tagged `,squash` whose struct has its own
`Unmarshal`: the struct is unmarshalled and then **marshalled**; if the hook merges that map back into
the map the outer struct is decoded from (`remarshals`, regenerated from the source), an opaque field
is finally decoded from what the encoder wrote for it; otherwise (the keys are removed from the map)
the unmarshalled field is kept. -/
def squashHookStored (remarshals : Bool) (td : TD) (s : String) : String :=
  if remarshals then
    match enc td (fun _ => s) (.opq 0) with
    | .ok (.str t) => plainStored t
    | .ok (.rawTyped t) => plainStored t
    | _ => s
  else plainStored s

/-! ### canonical printing (what the harness prints for `Conf.ToStringMap()`) -/

def hexDigit (n : Nat) : Char :=
  if n < 10 then Char.ofNat (n + 48) else Char.ofNat (n - 10 + 97)

def hexOf (s : String) : String :=
  if s.isEmpty then "-" else
  String.ofList (s.toUTF8.toList.flatMap (fun b => [hexDigit (b.toNat / 16), hexDigit (b.toNat % 16)]))

def GV.kindName : GV → String
  | .opq _ | .str _ => "string"
  | .num _ => "int"
  | .nilv => "nil"
  | .ptr _ => "ptr"
  | .iface _ => "interface"
  | .slice _ | .nilSlice => "slice"
  | .array _ => "array"
  | .map _ | .nilMap => "map"
  | .struct _ => "struct"
  | .tm _ _ _ => "struct"
  | .sh _ _ => "struct"

def insertSorted (p : String × String) : List (String × String) → List (String × String)
  | [] => [p]
  | q :: qs => if p.1 < q.1 then p :: q :: qs else q :: insertSorted p qs

mutual
def Any.show : Any → String
  | .str s => "s" ++ hexOf s
  | .num n => "n" ++ toString n
  | .nil => "nil"
  | .list xs => "[" ++ ",".intercalate (Any.showL xs) ++ "]"
  | .map kvs => "{" ++ ",".intercalate (((Any.showKV kvs).foldr insertSorted []).map (fun p => hexOf p.1 ++ ":" ++ p.2)) ++ "}"
  | .typed v => "T" ++ v.kindName
  | .rawTyped _ => "Tstring"
def Any.showL : List Any → List String
  | [] => []
  | x :: xs => x.show :: Any.showL xs
def Any.showKV : List (String × Any) → List (String × String)
  | [] => []
  | (k, v) :: kvs => (k, v.show) :: Any.showKV kvs
end

mutual
/-- all strings of the encoded configuration map (keys and values), outside still-typed values -/
def Any.strings : Any → List String
  | .str s => [s]
  | .list xs => Any.stringsL xs
  | .map kvs => Any.stringsKV kvs
  | _ => []
def Any.stringsL : List Any → List String
  | [] => []
  | x :: xs => x.strings ++ Any.stringsL xs
def Any.stringsKV : List (String × Any) → List String
  | [] => []
  | (k, v) :: kvs => k :: (v.strings ++ Any.stringsKV kvs)
end

mutual
/-- every value handed on with its Go type is an array -/
def Any.typedAreArrays : Any → Bool
  | .typed (.array _) => true
  | .typed _ => false
  | .rawTyped _ => false
  | .list xs => Any.typedAreArraysL xs
  | .map kvs => Any.typedAreArraysKV kvs
  | _ => true
def Any.typedAreArraysL : List Any → Bool
  | [] => true
  | x :: xs => x.typedAreArrays && Any.typedAreArraysL xs
def Any.typedAreArraysKV : List (String × Any) → Bool
  | [] => true
  | (_, v) :: kvs => v.typedAreArrays && Any.typedAreArraysKV kvs
end


end OtelVerif.C14
