/-! C14 model (stub) -/
namespace OtelVerif.C14
end OtelVerif.C14
